import Bardic.Base
import Bardic.Story
import Bardic.Sem
import Bardic.Engine.Types
import Bardic.Engine.Render
import Bardic.Engine.Nav
import Bardic.Engine.Api
