import Bardic.MiniPy.Parse
import Bardic.Sem
/-!
# MiniPy evaluator and the `Sem` instance used by the driver
-/
namespace Bardic.MiniPy

abbrev Ctx := Env PV

def tyErr {α} (m : String) : Except PyErr α := err "TypeError" m

def pyMod (a b : Int) : Int := Int.fmod a b

def cmpLt : PV → PV → Except PyErr Bool
  | .str a, .str b => .ok (a < b)
  | a, b =>
    match asInt? a, asInt? b with
    | some x, some y => .ok (x < y)
    | _, _ => tyErr s!"'<' not supported between instances of '{typeName a}' and '{typeName b}'"

partial def listLt : List PV → List PV → Except PyErr Bool
  | [], [] => .ok false
  | [], _ :: _ => .ok true
  | _ :: _, [] => .ok false
  | a :: as, b :: bs => if pvEq a b then listLt as bs else pvLt a b
where pvLt : PV → PV → Except PyErr Bool
  | .list a, .list b => listLt a b
  | a, b => cmpLt a b

def pvLt : PV → PV → Except PyErr Bool
  | .list a, .list b => listLt a b
  | a, b => cmpLt a b

def pvIn (a : PV) : PV → Except PyErr Bool
  | .list l => .ok (l.any (pvEq a))
  | .str s => (match a with
      | .str t => .ok (strContains s t)
      | _ => tyErr s!"'in <string>' requires string as left operand, not {typeName a}")
  | .dict d => (match a with
      | .str k => .ok (d.any (·.1 == k))
      | .list _ => tyErr "unhashable type: 'list'"
      | .dict _ => tyErr "unhashable type: 'dict'"
      | _ => .ok false)
  | b => tyErr s!"argument of type '{typeName b}' is not iterable"

def doCmp (op : String) (a b : PV) : Except PyErr Bool :=
  match op with
  | "==" => .ok (pvEq a b)
  | "!=" => .ok (!pvEq a b)
  | "<" => pvLt a b
  | ">" => pvLt b a
  | "<=" => do let g ← pvLt b a; return !g
  | ">=" => do let l ← pvLt a b; return !l
  | "in" => pvIn a b
  | "not in" => do let r ← pvIn a b; return !r
  | _ => err "Unmodelled" op

def binErr {α} (op : String) (a b : PV) : Except PyErr α :=
  tyErr s!"unsupported operand type(s) for {op}: '{typeName a}' and '{typeName b}'"

def repList {α} (l : List α) (n : Int) : List α := (List.replicate n.toNat l).flatten
def repStr (s : String) (n : Int) : String := String.join (List.replicate n.toNat s)

def doBin (op : String) (a b : PV) : Except PyErr PV :=
  match op with
  | "+" =>
    match a, b with
    | .str x, .str y => .ok (.str (x ++ y))
    | .str _, _ => tyErr s!"can only concatenate str (not \"{typeName b}\") to str"
    | .list x, .list y => .ok (.list (x ++ y))
    | .list _, _ => tyErr s!"can only concatenate list (not \"{typeName b}\") to list"
    | _, _ => match asInt? a, asInt? b with
      | some x, some y => .ok (.int (x + y))
      | _, _ => binErr "+" a b
  | "-" =>
    match asInt? a, asInt? b with
    | some x, some y => .ok (.int (x - y))
    | _, _ => binErr "-" a b
  | "*" =>
    match a, b with
    | .str s, _ => (match asInt? b with | some n => .ok (.str (repStr s n)) | none => tyErr s!"can't multiply sequence by non-int of type '{typeName b}'")
    | .list l, _ => (match asInt? b with | some n => .ok (.list (repList l n)) | none => tyErr s!"can't multiply sequence by non-int of type '{typeName b}'")
    | _, .str s => (match asInt? a with | some n => .ok (.str (repStr s n)) | none => tyErr s!"can't multiply sequence by non-int of type '{typeName a}'")
    | _, .list l => (match asInt? a with | some n => .ok (.list (repList l n)) | none => tyErr s!"can't multiply sequence by non-int of type '{typeName a}'")
    | _, _ => match asInt? a, asInt? b with
      | some x, some y => .ok (.int (x * y))
      | _, _ => binErr "*" a b
  | "%" =>
    match a with
    | .str _ => tyErr "not all arguments converted during string formatting"
    | _ => match asInt? a, asInt? b with
      | some x, some y => if y == 0 then err "ZeroDivisionError" "integer modulo by zero" else .ok (.int (pyMod x y))
      | _, _ => binErr "%" a b
  | "//" =>
    match asInt? a, asInt? b with
    | some x, some y => if y == 0 then err "ZeroDivisionError" "integer division or modulo by zero" else .ok (.int (Int.fdiv x y))
    | _, _ => binErr "//" a b
  | _ => err "Unmodelled" op

def normIndex (i : Int) (n : Nat) : Option Nat :=
  let j := if i < 0 then i + n else i
  if j < 0 || j ≥ n then none else some j.toNat

def doIndex (a i : PV) : Except PyErr PV :=
  match a with
  | .list l =>
    (match asInt? i with
     | some k => (match normIndex k l.length with
        | some j => .ok (l[j]!)
        | none => err "IndexError" "list index out of range")
     | none => tyErr s!"list indices must be integers or slices, not {typeName i}")
  | .str s =>
    (match asInt? i with
     | some k => (match normIndex k s.length with
        | some j => .ok (.str (String.singleton (s.toList[j]!)))
        | none => err "IndexError" "string index out of range")
     | none => tyErr s!"string indices must be integers, not '{typeName i}'")
  | .dict d =>
    (match i with
     | .str k => (match d.lookup k with | some v => .ok v | none => err "KeyError" (reprStr k))
     | .list _ => tyErr "unhashable type: 'list'"
     | .dict _ => tyErr "unhashable type: 'dict'"
     | _ => err "KeyError" (pyRepr i))
  | _ => tyErr s!"'{typeName a}' object is not subscriptable"

def toIter (v : PV) : Except PyErr (List PV) :=
  match v with
  | .list l => .ok l
  | .str s => .ok (s.toList.map fun c => .str (String.singleton c))
  | .dict d => .ok (d.map fun kv => .str kv.1)
  | _ => tyErr s!"'{typeName v}' object is not iterable"

def insertBy (lt : PV → PV → Except PyErr Bool) (x : PV) : List PV → Except PyErr (List PV)
  | [] => .ok [x]
  | y :: ys => do
    if (← lt x y) then return x :: y :: ys
    else return y :: (← insertBy lt x ys)

/-- stable insertion sort (insert each element after equal ones) -/
def sortPV (l : List PV) : Except PyErr (List PV) :=
  l.foldlM (fun acc x => insertBy pvLt x acc) []

def parseIntStr (s : String) : Option Int :=
  let t := pyStrip s
  match t.toList with
  | '-' :: ds => if !ds.isEmpty && ds.all Char.isDigit then some (-(String.ofList ds).toNat!) else none
  | '+' :: ds => if !ds.isEmpty && ds.all Char.isDigit then some ((String.ofList ds).toNat!) else none
  | ds => if !ds.isEmpty && ds.all Char.isDigit then some ((String.ofList ds).toNat!) else none

def minMax (isMin : Bool) (l : List PV) : Except PyErr PV :=
  match l with
  | [] => err "ValueError" (if isMin then "min() iterable argument is empty" else "max() iterable argument is empty")
  | x :: xs => xs.foldlM (fun best y => do
      let lt ← if isMin then pvLt y best else pvLt best y
      return if lt then y else best) x

def rangeList (a b : Int) : List PV :=
  if b ≤ a then [] else (List.range (b - a).toNat).map fun (k : Nat) => PV.int (a + (k : Int))

def callBuiltin (f : String) (args : List PV) : Except PyErr PV :=
  match f, args with
  | "len", [.list l] => .ok (.int l.length)
  | "len", [.str s] => .ok (.int s.length)
  | "len", [.dict d] => .ok (.int d.length)
  | "len", [v] => tyErr s!"object of type '{typeName v}' has no len()"
  | "str", [v] => .ok (.str (pyStr v))
  | "str", [] => .ok (.str "")
  | "repr", [v] => .ok (.str (pyRepr v))
  | "bool", [v] => .ok (.bool (truthy v))
  | "bool", [] => .ok (.bool false)
  | "int", [.int i] => .ok (.int i)
  | "int", [.bool b] => .ok (.int (if b then 1 else 0))
  | "int", [.str s] => (match parseIntStr s with
      | some i => .ok (.int i)
      | none => err "ValueError" s!"invalid literal for int() with base 10: {reprStr s}")
  | "int", [v] => tyErr s!"int() argument must be a string, a bytes-like object or a real number, not '{typeName v}'"
  | "abs", [v] => (match asInt? v with | some i => .ok (.int i.natAbs) | none => tyErr s!"bad operand type for abs(): '{typeName v}'")
  | "sum", [v] => do
      let l ← toIter v
      l.foldlM (fun acc x => doBin "+" acc x) (.int 0)
  | "min", [v] => do minMax true (← toIter v)
  | "max", [v] => do minMax false (← toIter v)
  | "min", a :: b :: rest => minMax true (a :: b :: rest)
  | "max", a :: b :: rest => minMax false (a :: b :: rest)
  | "sorted", [v] => do return .list (← sortPV (← toIter v))
  | "list", [v] => do return .list (← toIter v)
  | "list", [] => .ok (.list [])
  | "dict", [] => .ok (.dict [])
  | "dict", [.dict d] => .ok (.dict d)
  | "range", [a] => (match asInt? a with | some n => .ok (.list (rangeList 0 n)) | none => tyErr s!"'{typeName a}' object cannot be interpreted as an integer")
  | "range", [a, b] => (match asInt? a, asInt? b with
      | some x, some y => .ok (.list (rangeList x y))
      | _, _ => tyErr "object cannot be interpreted as an integer")
  | _, _ =>
    if ["len", "str", "repr", "bool", "int", "abs", "sum", "min", "max", "sorted", "list", "dict", "range"].contains f
    then tyErr s!"{f}() called with unsupported arguments"
    else err "NameError" s!"name '{f}' is not defined"

def callMethod (obj : PV) (m : String) (args : List PV) : Except PyErr PV :=
  match obj, m, args with
  | .dict d, "get", [.str k] => .ok ((d.lookup k).getD .none)
  | .dict d, "get", [.str k, dflt] => .ok ((d.lookup k).getD dflt)
  | .dict _, "get", [_] => .ok .none
  | .dict _, "get", [_, dflt] => .ok dflt
  | .dict d, "keys", [] => .ok (.list (d.map fun kv => .str kv.1))
  | .dict d, "values", [] => .ok (.list (d.map (·.2)))
  | .dict d, "items", [] => .ok (.list (d.map fun kv => .list [.str kv.1, kv.2]))
  | .str s, "upper", [] => .ok (.str s.toUpper)
  | .str s, "lower", [] => .ok (.str s.toLower)
  | .str s, "strip", [] => .ok (.str (pyStrip s))
  | .list l, "count", [v] => .ok (.int (l.filter (pvEq v)).length)
  | .list l, "index", [v] => (match l.findIdx? (pvEq v) with
      | some i => .ok (.int i)
      | none => err "ValueError" s!"{pyRepr v} is not in list")
  | .list l, "copy", [] => .ok (.list l)
  | .dict d, "copy", [] => .ok (.dict d)
  | _, _, _ =>
    let known : List String := match obj with
      | .dict _ => ["get", "keys", "values", "items", "copy"]
      | .str _ => ["upper", "lower", "strip"]
      | .list _ => ["count", "index", "copy", "append", "extend", "remove", "pop", "clear", "insert", "sort", "reverse"]
      | _ => []
    if known.contains m then err "Unmodelled" s!"method {m} arity"
    else err "AttributeError" s!"'{typeName obj}' object has no attribute '{m}'"

partial def eval (ctx : Ctx) : E → Except PyErr PV
  | .lit v => .ok v
  | .name n =>
    match Env.get? ctx n with
    | some v => .ok v
    | none =>
      if ["len", "str", "repr", "bool", "int", "abs", "sum", "min", "max", "sorted", "list", "dict", "range"].contains n
      then err "Unmodelled" s!"builtin {n} as value"
      else err "NameError" s!"name '{n}' is not defined"
  | .bin op a b => do
    let x ← eval ctx a
    let y ← eval ctx b
    doBin op x y
  | .neg a => do
    let x ← eval ctx a
    match asInt? x with
    | some i => return .int (-i)
    | none => tyErr s!"bad operand type for unary -: '{typeName x}'"
  | .pos a => do
    let x ← eval ctx a
    match asInt? x with
    | some i => return .int i
    | none => tyErr s!"bad operand type for unary +: '{typeName x}'"
  | .cmp first rest => do
    let mut left ← eval ctx first
    for (op, e) in rest do
      let right ← eval ctx e
      if !(← doCmp op left right) then return .bool false
      left := right
    return .bool true
  | .and a b => do
    let x ← eval ctx a
    if truthy x then eval ctx b else return x
  | .or a b => do
    let x ← eval ctx a
    if truthy x then return x else eval ctx b
  | .not a => do
    let x ← eval ctx a
    return .bool (!truthy x)
  | .ite c a b => do
    let x ← eval ctx c
    if truthy x then eval ctx a else eval ctx b
  | .call f args => do
    match Env.get? ctx f with
    | some v => tyErr s!"'{typeName v}' object is not callable"
    | none =>
      let vs ← args.mapM (eval ctx)
      callBuiltin f vs
  | .meth obj m args => do
    let o ← eval ctx obj
    let vs ← args.mapM (eval ctx)
    if mutators.contains m then err "Unmodelled" s!"mutating method {m} in expression"
    else callMethod o m vs
  | .index a i => do
    let x ← eval ctx a
    let y ← eval ctx i
    doIndex x y
  | .listLit xs => do return .list (← xs.mapM (eval ctx))
  | .dictLit kvs => do
    let mut d : List (String × PV) := []
    for (k, v) in kvs do
      let kv ← eval ctx k
      let vv ← eval ctx v
      match kv with
      | .str s => d := Env.set d s vv
      | _ => throw ⟨"Unmodelled", "non-string dict key"⟩
    return .dict d

def setIndex (a i v : PV) : Except PyErr PV :=
  match a with
  | .list l =>
    (match asInt? i with
     | some k => (match normIndex k l.length with
        | some j => .ok (.list (l.set j v))
        | none => err "IndexError" "list assignment index out of range")
     | none => tyErr s!"list indices must be integers or slices, not {typeName i}")
  | .dict d =>
    (match i with
     | .str k => .ok (.dict (Env.set d k v))
     | _ => err "Unmodelled" "non-string dict key")
  | _ => tyErr s!"'{typeName a}' object does not support item assignment"

def lookupName (ctx : Ctx) (n : String) : Except PyErr PV :=
  match Env.get? ctx n with
  | some v => .ok v
  | none => err "NameError" s!"name '{n}' is not defined"

def augBin (op : String) (a b : PV) : Except PyErr PV :=
  match op, a with
  | "+", .list l => do return .list (l ++ (← toIter b))   -- list += iterable extends
  | _, _ => doBin op a b

def execStmt (ctx : Ctx) : Stmt → Except PyErr Ctx
  | .pass => .ok ctx
  | .assign n e => do return Env.set ctx n (← eval ctx e)
  | .aug n op e => do
    let cur ← lookupName ctx n
    let v ← eval ctx e
    return Env.set ctx n (← augBin op cur v)
  | .setItem n i e => do
    -- Python evaluates the right-hand side first, then the target
    let v ← eval ctx e
    let cur ← lookupName ctx n
    let iv ← eval ctx i
    return Env.set ctx n (← setIndex cur iv v)
  | .augItem n i op e => do
    let cur ← lookupName ctx n
    let iv ← eval ctx i
    let old ← doIndex cur iv
    let v ← eval ctx e
    return Env.set ctx n (← setIndex cur iv (← augBin op old v))
  | .del n =>
    if Env.contains ctx n then .ok (Env.erase ctx n) else err "NameError" s!"name '{n}' is not defined"
  | .exprS e => do let _ ← eval ctx e; return ctx
  | .mutItemCall n i m args => do
    -- `n[i].m(args)`: an in-place change of a nested container (no aliasing in the fragment)
    let outer ← lookupName ctx n
    let iv ← eval ctx i
    let inner ← doIndex outer iv
    let vs ← args.mapM (eval ctx)
    let inner' ← match inner, m, vs with
      | .list l, "append", [v] => pure (PV.list (l ++ [v]))
      | .list l, "extend", [v] => do pure (PV.list (l ++ (← toIter v)))
      | .list l, "pop", [] => if l.isEmpty then err "IndexError" "pop from empty list" else pure (PV.list l.dropLast)
      | .list _, "clear", [] => pure (PV.list [])
      | .dict d, "update", [.dict o] => pure (PV.dict (Env.update d o))
      | _, _, _ => err "Unmodelled" s!"nested mutator {m}"
    return Env.set ctx n (← setIndex outer iv inner')
  | .mutCall n m args => do
    let cur ← lookupName ctx n
    let vs ← args.mapM (eval ctx)
    match cur, m, vs with
    | .list l, "append", [v] => return Env.set ctx n (.list (l ++ [v]))
    | .list l, "extend", [v] => do return Env.set ctx n (.list (l ++ (← toIter v)))
    | .list l, "remove", [v] =>
      (match l.findIdx? (pvEq v) with
       | some i => return Env.set ctx n (.list (l.eraseIdx i))
       | none => err "ValueError" "list.remove(x): x not in list")
    | .list l, "pop", [] =>
      if l.isEmpty then err "IndexError" "pop from empty list" else return Env.set ctx n (.list l.dropLast)
    | .list _, "clear", [] => return Env.set ctx n (.list [])
    | .dict _, "clear", [] => return Env.set ctx n (.dict [])
    | .list l, "reverse", [] => return Env.set ctx n (.list l.reverse)
    | .list l, "sort", [] => do return Env.set ctx n (.list (← sortPV l))
    | .list l, "insert", [i, v] =>
      (match asInt? i with
       | some k =>
         let len : Int := l.length
         let j := if k < 0 then (if k + len < 0 then 0 else (k + len).toNat) else (if k > len then l.length else k.toNat)
         return Env.set ctx n (.list (l.take j ++ [v] ++ l.drop j))
       | none => tyErr "'{typeName i}' object cannot be interpreted as an integer")
    | .dict d, "update", [.dict o] => return Env.set ctx n (.dict (Env.update d o))
    | _, _, _ =>
      match cur with
      | .list _ | .dict _ => err "Unmodelled" s!"mutator {m}"
      | _ => err "AttributeError" s!"'{typeName cur}' object has no attribute '{m}'"

/-- code strings the generators inject on purpose as Python syntax errors -/
def knownSyntaxErrors : List String := ["1 +", "((", "x y", "nope(", "= 1"]

def synErr {α} : Except PyErr α := err "SyntaxError" "invalid syntax (<string>, line 1)"

def evalCode (ctx : Ctx) (code : String) : Except PyErr PV :=
  match parseExpr (pyStrip code) with
  | .ok e => eval ctx e
  | .error m => if knownSyntaxErrors.contains (pyStrip code) then synErr else err "Unmodelled" m

def execCode (ctx : Ctx) (code : String) : Except PyErr Ctx :=
  let lines := (code.splitOn "\n").filter (fun l => pyStrip l != "")
  -- parse everything first: Python compiles the whole block before running it
  match lines.mapM (fun l => parseStmt (pyStrip l)) with
  | .error m => if knownSyntaxErrors.contains (pyStrip code) then synErr else err "Unmodelled" m
  | .ok stmts => stmts.foldlM execStmt ctx

def evalArgsCode (ctx : Ctx) (code : String) : Except PyErr (List PV × List (String × PV)) :=
  match parseArgs code with
  | .error m => if knownSyntaxErrors.contains (pyStrip code) then synErr else err "Unmodelled" m
  | .ok (pos, kws) => do
    let pv ← pos.mapM (eval ctx)
    let kv ← kws.mapM fun (k, e) => do return (k, ← eval ctx e)
    return (pv, kv)

/-- is this code string inside the MiniPy fragment (statically)? -/
def modelledExpr (code : String) : Bool :=
  (parseExpr (pyStrip code)).isOk || knownSyntaxErrors.contains (pyStrip code)
def modelledStmt (code : String) : Bool :=
  (((code.splitOn "\n").filter (fun l => pyStrip l != "")).mapM (fun l => parseStmt (pyStrip l))).isOk
  || knownSyntaxErrors.contains (pyStrip code)
def modelledArgs (code : String) : Bool :=
  (parseArgs code).isOk || knownSyntaxErrors.contains (pyStrip code)

def isNone : PV → Bool | .none => true | _ => false

/-- the concrete author-code semantics used by the driver -/
def sem : Sem where
  V := PV
  eval := evalCode
  exec := execCode
  truthy := truthy
  str := pyStr
  fmt := pyFormat
  iter := toIter
  unpack := fun v i => match v with
    | .list l => l.getD i .none
    | _ => .none
  isNone := isNone
  ofEnv := fun e => .dict e
  evalArgs := evalArgsCode
  saveRT := id

end Bardic.MiniPy
