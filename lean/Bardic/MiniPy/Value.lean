import Bardic.Base
/-!
# MiniPy values and Python's `str` / `repr` / `format` for them

MiniPy is the concrete `Sem` used only to *run* the model in the driver; no theorem mentions it.
It is validated by the same correspondence runs as the engine model.
-/
namespace Bardic.MiniPy

inductive PV where
  | none
  | bool (b : Bool)
  | int (i : Int)
  | str (s : String)
  | list (l : List PV)
  | dict (d : List (String × PV))
  deriving Inhabited, Repr

def err {α} (cls msg : String) : Except PyErr α := .error ⟨cls, msg⟩

def typeName : PV → String
  | .none => "NoneType" | .bool _ => "bool" | .int _ => "int" | .str _ => "str"
  | .list _ => "list" | .dict _ => "dict"

def reprStr (s : String) : String :=
  let cs := s.toList
  let q : Char := if cs.contains '\'' && !cs.contains '"' then '"' else '\''
  let body := cs.foldl (fun acc c =>
    if c == '\\' then acc ++ "\\\\"
    else if c == q then acc ++ "\\" ++ String.singleton c
    else if c == '\n' then acc ++ "\\n"
    else if c == '\t' then acc ++ "\\t"
    else if c == '\r' then acc ++ "\\r"
    else acc.push c) ""
  String.singleton q ++ body ++ String.singleton q

mutual
partial def pyRepr : PV → String
  | .str s => reprStr s
  | v => pyStr v
partial def pyStr : PV → String
  | .none => "None"
  | .bool true => "True"
  | .bool false => "False"
  | .int i => toString i
  | .str s => s
  | .list l => "[" ++ joinWith ", " (l.map pyRepr) ++ "]"
  | .dict d => "{" ++ joinWith ", " (d.map fun kv => reprStr kv.1 ++ ": " ++ pyRepr kv.2) ++ "}"
end

def truthy : PV → Bool
  | .none => false
  | .bool b => b
  | .int i => i != 0
  | .str s => s != ""
  | .list l => !l.isEmpty
  | .dict d => !d.isEmpty

def asInt? : PV → Option Int
  | .int i => some i
  | .bool b => some (if b then 1 else 0)
  | _ => Option.none

mutual
partial def pvEq : PV → PV → Bool
  | .none, .none => true
  | .str a, .str b => a == b
  | .list a, .list b => a.length == b.length && (a.zip b).all fun p => pvEq p.1 p.2
  | .dict a, .dict b =>
    a.length == b.length && a.all fun kv =>
      match b.lookup kv.1 with
      | some v => pvEq kv.2 v
      | Option.none => false
  | a, b =>
    match asInt? a, asInt? b with
    | some x, some y => x == y
    | _, _ => false
end

/-! ### the format mini-language (subset) -/

structure FSpec where
  fill : Char := ' '
  align : Option Char := Option.none
  sign : Option Char := Option.none
  zero : Bool := false
  width : Nat := 0
  comma : Bool := false
  ty : Option Char := Option.none
  deriving Repr

def isAlignCh (c : Char) : Bool := c == '<' || c == '>' || c == '^' || c == '='

/-- parse `[[fill]align][sign][0][width][,][type]`; `none` = not in the subset / invalid -/
def parseSpec (s : String) : Option FSpec := Id.run do
  let mut cs := s.toList
  let mut sp : FSpec := {}
  match cs with
  | f :: a :: rest => if isAlignCh a then sp := { sp with fill := f, align := some a }; cs := rest
                      else if isAlignCh f then sp := { sp with align := some f }; cs := a :: rest
  | [a] => if isAlignCh a then sp := { sp with align := some a }; cs := []
  | [] => pure ()
  match cs with
  | c :: rest => if c == '+' || c == '-' || c == ' ' then sp := { sp with sign := some c }; cs := rest
  | [] => pure ()
  match cs with
  | '0' :: rest => sp := { sp with zero := true }; cs := rest
  | _ => pure ()
  let digits := cs.takeWhile Char.isDigit
  if !digits.isEmpty then
    sp := { sp with width := (String.ofList digits).toNat! }
    cs := cs.drop digits.length
  match cs with
  | ',' :: rest => sp := { sp with comma := true }; cs := rest
  | _ => pure ()
  match cs with
  | [] => return some sp
  | [t] => if t.isAlpha then return some { sp with ty := some t } else return Option.none
  | _ => return Option.none

def padTo (s : String) (width : Nat) (fill : Char) (align : Char) : String :=
  let n := s.length
  if n ≥ width then s
  else
    let k := width - n
    let rep (m : Nat) := String.ofList (List.replicate m fill)
    if align == '<' then s ++ rep k
    else if align == '>' then rep k ++ s
    else rep (k / 2) ++ s ++ rep (k - k / 2)

def groupThousands (digits : String) : String :=
  let cs := digits.toList.reverse
  let rec go : List Char → Nat → List Char
    | [], _ => []
    | c :: rest, n => if n == 3 then ',' :: c :: go rest 1 else c :: go rest (n + 1)
  String.ofList (go cs 0).reverse

def toHex (n : Nat) : String := String.ofList (Nat.toDigits 16 n)

def fmtInt (i : Int) (sp : FSpec) : Except PyErr String :=
  let mag := i.natAbs
  let digitsE : Except PyErr String :=
    match sp.ty with
    | Option.none | some 'd' => .ok (toString mag)
    | some 'x' => .ok (toHex mag)
    | some 'n' => .ok (toString mag)
    | some c => err "ValueError" s!"Unknown format code '{c}' for object of type 'int'"
  match digitsE with
  | .error e => .error e
  | .ok digits0 =>
    let digits := if sp.comma then groupThousands digits0 else digits0
    let signStr := if i < 0 then "-" else match sp.sign with
      | some '+' => "+" | some ' ' => " " | _ => ""
    let (fill, align) : Char × Char :=
      match sp.align with
      | some a => (sp.fill, a)
      | Option.none => if sp.zero then ('0', '=') else (' ', '>')
    if align == '=' then
      let body := digits
      let w := sp.width - signStr.length
      -- zero padding with ',' grouping is not in the subset when padding is needed
      .ok (signStr ++ padTo body w fill '>')
    else .ok (padTo (signStr ++ digits) sp.width fill align)

def fmtStr (s : String) (sp : FSpec) : Except PyErr String :=
  match sp.ty with
  | some 's' | Option.none =>
    if sp.sign.isSome then err "ValueError" "Sign not allowed in string format specifier"
    else if sp.comma then err "ValueError" "Cannot specify ',' with 's'."
    else if sp.align == some '=' then err "ValueError" "'=' alignment not allowed in string format specifier"
    else
      let (fill, align) : Char × Char :=
        match sp.align with
        | some a => (sp.fill, a)
        | Option.none => if sp.zero then ('0', '<') else (' ', '<')
      .ok (padTo s sp.width fill align)
  | some c => err "ValueError" s!"Unknown format code '{c}' for object of type 'str'"

/-- `format(v, spec)` -/
def pyFormat (v : PV) (spec : String) : Except PyErr String :=
  if spec == "" then .ok (pyStr v)
  else
    match v with
    | .int i => (match parseSpec spec with | some sp => fmtInt i sp | Option.none => err "ValueError" "Invalid format specifier")
    | .bool b => (match parseSpec spec with | some sp => fmtInt (if b then 1 else 0) sp | Option.none => err "ValueError" "Invalid format specifier")
    | .str s => (match parseSpec spec with | some sp => fmtStr s sp | Option.none => err "ValueError" "Invalid format specifier")
    | v => err "TypeError" s!"unsupported format string passed to {typeName v}.__format__"

end Bardic.MiniPy
