import Bardic.MiniPy.Value
/-!
# MiniPy: tokenizer and parser for the Python fragment of DESIGN Appendix B
-/
namespace Bardic.MiniPy

inductive T
  | num (n : Nat) | name (s : String) | str (s : String) | op (s : String)
  deriving Repr, BEq, Inhabited

inductive E where
  | lit (v : PV)
  | name (n : String)
  | bin (op : String) (a b : E)
  | neg (a : E)
  | pos (a : E)
  | cmp (first : E) (rest : List (String × E))
  | and (a b : E)
  | or (a b : E)
  | not (a : E)
  | ite (c a b : E)
  | call (f : String) (args : List E)
  | meth (obj : E) (m : String) (args : List E)
  | index (a i : E)
  | listLit (xs : List E)
  | dictLit (kvs : List (E × E))
  deriving Inhabited, Repr

inductive Stmt where
  | assign (n : String) (e : E)
  | aug (n : String) (op : String) (e : E)
  | setItem (n : String) (i e : E)
  | augItem (n : String) (i : E) (op : String) (e : E)
  | mutCall (n : String) (m : String) (args : List E)
  | mutItemCall (n : String) (i : E) (m : String) (args : List E)
  | exprS (e : E)
  | del (n : String)
  | pass
  deriving Inhabited, Repr

def isIdStart (c : Char) : Bool := c.isAlpha || c == '_'
def isIdChar (c : Char) : Bool := c.isAlphanum || c == '_'

partial def tokenize (cs : List Char) (acc : Array T) : Except String (Array T) :=
  match cs with
  | [] => .ok acc
  | c :: rest =>
    if c == ' ' || c == '\t' then tokenize rest acc
    else if c.isDigit then
      let ds := (c :: rest).takeWhile Char.isDigit
      let after := (c :: rest).drop ds.length
      match after with
      | d :: _ => if isIdStart d || d == '.' then .error "number form" else
          tokenize after (acc.push (.num (String.ofList ds).toNat!))
      | [] => tokenize after (acc.push (.num (String.ofList ds).toNat!))
    else if isIdStart c then
      let ds := (c :: rest).takeWhile isIdChar
      tokenize ((c :: rest).drop ds.length) (acc.push (.name (String.ofList ds)))
    else if c == '\'' || c == '"' then
      let rec str (cs : List Char) (out : List Char) : Option (List Char × List Char) :=
        match cs with
        | [] => none
        | '\\' :: 'n' :: r => str r ('\n' :: out)
        | '\\' :: x :: r => if x == '\\' || x == '\'' || x == '"' then str r (x :: out) else none
        | x :: r => if x == c then some (out.reverse, r) else if x == '\n' then none else str r (x :: out)
      match str rest [] with
      | some (s, r) => tokenize r (acc.push (.str (String.ofList s)))
      | none => .error "string literal"
    else
      let two := match rest with | d :: _ => String.ofList [c, d] | [] => ""
      let three := match rest with | d :: e :: _ => String.ofList [c, d, e] | _ => ""
      if three == "//=" then
        tokenize (rest.drop 2) (acc.push (.op three))
      else if ["==", "!=", "<=", ">=", "+=", "-=", "*=", "%=", "//"].contains two then
        tokenize (rest.drop 1) (acc.push (.op two))
      else if "+-*%<>()[]{},:.=".toList.contains c then
        tokenize rest (acc.push (.op (String.singleton c)))
      else .error s!"char {c}"

abbrev P := StateT (List T) (Except String)

def peek : P (Option T) := do return (← get).head?
def advance : P Unit := modify List.tail
def expectOp (s : String) : P Unit := do
  match (← peek) with
  | some (.op o) => if o == s then advance else throw s!"expected {s}"
  | _ => throw s!"expected {s}"
def isOp (s : String) : P Bool := do
  match (← peek) with
  | some (.op o) => return o == s
  | _ => return false
def isKw (s : String) : P Bool := do
  match (← peek) with
  | some (.name o) => return o == s
  | _ => return false

def keywords : List String :=
  ["and", "or", "not", "in", "if", "else", "True", "False", "None", "for", "lambda", "is", "while",
   "def", "class", "return", "import", "from", "with", "as", "try", "except", "raise", "yield",
   "global", "del", "pass", "elif", "assert", "await", "async", "nonlocal", "break", "continue", "finally"]

mutual
partial def pTernary : P E := do
  let a ← pOr
  if (← isKw "if") then
    advance
    let c ← pOr
    if !(← isKw "else") then throw "expected else"
    advance
    let b ← pTernary
    return .ite c a b
  else return a
partial def pOr : P E := do
  let mut a ← pAnd
  while (← isKw "or") do
    advance
    let b ← pAnd
    a := .or a b
  return a
partial def pAnd : P E := do
  let mut a ← pNot
  while (← isKw "and") do
    advance
    let b ← pNot
    a := .and a b
  return a
partial def pNot : P E := do
  if (← isKw "not") then
    advance
    return .not (← pNot)
  else pCmp
partial def pCmpOp : P (Option String) := do
  match (← peek) with
  | some (.op o) =>
    if ["==", "!=", "<", "<=", ">", ">="].contains o then advance; return some o else return none
  | some (.name "in") => advance; return some "in"
  | some (.name "not") =>
    -- `not in`
    let s ← get
    match s with
    | _ :: .name "in" :: rest => set rest; return some "not in"
    | _ => return none
  | _ => return none
partial def pCmp : P E := do
  let a ← pArith
  let mut rest : Array (String × E) := #[]
  repeat
    match (← pCmpOp) with
    | some o => let b ← pArith; rest := rest.push (o, b)
    | none => break
  if rest.isEmpty then return a else return .cmp a rest.toList
partial def pArith : P E := do
  let mut a ← pTerm
  repeat
    if (← isOp "+") then advance; let b ← pTerm; a := .bin "+" a b
    else if (← isOp "-") then advance; let b ← pTerm; a := .bin "-" a b
    else break
  return a
partial def pTerm : P E := do
  let mut a ← pFactor
  repeat
    if (← isOp "*") then advance; let b ← pFactor; a := .bin "*" a b
    else if (← isOp "%") then advance; let b ← pFactor; a := .bin "%" a b
    else if (← isOp "//") then advance; let b ← pFactor; a := .bin "//" a b
    else break
  return a
partial def pFactor : P E := do
  if (← isOp "-") then advance; return .neg (← pFactor)
  else if (← isOp "+") then advance; return .pos (← pFactor)
  else pPostfix
partial def pArgs (close : String) : P (List E) := do
  let mut xs : Array E := #[]
  if (← isOp close) then advance; return []
  repeat
    xs := xs.push (← pTernary)
    if (← isOp ",") then
      advance
      if (← isOp close) then advance; break
    else
      expectOp close
      break
  return xs.toList
partial def pPostfix : P E := do
  let mut a ← pAtom
  repeat
    if (← isOp "(") then
      advance
      let args ← pArgs ")"
      match a with
      | .name f => a := .call f args
      | _ => throw "call of non-name"
    else if (← isOp "[") then
      advance
      let i ← pTernary
      expectOp "]"
      a := .index a i
    else if (← isOp ".") then
      advance
      match (← peek) with
      | some (.name m) =>
        advance
        if (← isOp "(") then
          advance
          let args ← pArgs ")"
          a := .meth a m args
        else throw "attribute access"
      | _ => throw "attribute"
    else break
  return a
partial def pAtom : P E := do
  match (← peek) with
  | some (.num n) => advance; return .lit (.int n)
  | some (.str s) => advance; return .lit (.str s)
  | some (.name n) =>
    if n == "True" then advance; return .lit (.bool true)
    else if n == "False" then advance; return .lit (.bool false)
    else if n == "None" then advance; return .lit .none
    else if keywords.contains n then throw s!"keyword {n}"
    else advance; return .name n
  | some (.op "(") =>
    advance
    let e ← pTernary
    expectOp ")"
    return e
  | some (.op "[") =>
    advance
    return .listLit (← pArgs "]")
  | some (.op "{") =>
    advance
    let mut kvs : Array (E × E) := #[]
    if (← isOp "}") then advance; return .dictLit []
    repeat
      let k ← pTernary
      expectOp ":"
      let v ← pTernary
      kvs := kvs.push (k, v)
      if (← isOp ",") then
        advance
        if (← isOp "}") then advance; break
      else
        expectOp "}"
        break
    return .dictLit kvs.toList
  | _ => throw "atom"
end

def parseExprToks (ts : List T) : Except String E :=
  match (pTernary.run ts) with
  | .ok (e, []) => .ok e
  | .ok (_, _) => .error "trailing tokens"
  | .error m => .error m

def parseExpr (code : String) : Except String E := do
  let ts ← tokenize code.toList #[]
  parseExprToks ts.toList

/-- split a token list at top-level commas -/
def splitTopCommas (ts : List T) : List (List T) :=
  let rec go (ts : List T) (depth : Nat) (cur : List T) (acc : List (List T)) : List (List T) :=
    match ts with
    | [] => (cur.reverse :: acc).reverse
    | t :: rest =>
      match t with
      | .op "," => if depth == 0 then go rest depth [] (cur.reverse :: acc) else go rest depth (t :: cur) acc
      | .op o =>
        if o == "(" || o == "[" || o == "{" then go rest (depth + 1) (t :: cur) acc
        else if o == ")" || o == "]" || o == "}" then go rest (depth - 1) (t :: cur) acc
        else go rest depth (t :: cur) acc
      | _ => go rest depth (t :: cur) acc
  go ts 0 [] []

/-- the argument list of a call: positionals then keywords -/
def parseArgs (code : String) : Except String (List E × List (String × E)) := do
  let ts ← tokenize code.toList #[]
  if ts.isEmpty then return ([], [])
  let parts := splitTopCommas ts.toList
  -- a trailing comma is allowed
  let parts := match parts.getLast? with
    | some [] => parts.dropLast
    | _ => parts
  let mut pos : Array E := #[]
  let mut kws : Array (String × E) := #[]
  for p in parts do
    match p with
    | .name n :: .op "=" :: rest =>
      if keywords.contains n then throw "keyword as name"
      if kws.any (·.1 == n) then throw "keyword argument repeated"
      kws := kws.push (n, ← parseExprToks rest)
    | [] => throw "empty argument"
    | _ =>
      if !kws.isEmpty then throw "positional argument follows keyword argument"
      pos := pos.push (← parseExprToks p)
  return (pos.toList, kws.toList)

def mutators : List String := ["append", "extend", "remove", "pop", "clear", "insert", "update", "sort", "reverse"]

def parseStmt (line : String) : Except String Stmt := do
  let ts ← tokenize line.toList #[]
  match ts.toList with
  | [] => return .pass
  | [.name "pass"] => return .pass
  | [.name "del", .name n] => return .del n
  | .name n :: .op "=" :: rest =>
    if keywords.contains n then throw "keyword" else return .assign n (← parseExprToks rest)
  | .name n :: .op o :: rest =>
    if ["+=", "-=", "*=", "%=", "//="].contains o then
      if keywords.contains n then throw "keyword" else return .aug n (String.ofList o.toList.dropLast) (← parseExprToks rest)
    else
      -- subscript assignment `n[i] = e` / `n[i] += e`, mutator call, or expression statement
      let toks := ts.toList
      -- find a top-level assignment operator
      let rec findAssign (ts : List T) (depth : Nat) (pre : List T) : Option (List T × String × List T) :=
        match ts with
        | [] => none
        | t :: rest =>
          match t with
          | .op o =>
            if o == "(" || o == "[" || o == "{" then findAssign rest (depth + 1) (t :: pre)
            else if o == ")" || o == "]" || o == "}" then findAssign rest (depth - 1) (t :: pre)
            else if depth == 0 && ["=", "+=", "-=", "*=", "%=", "//="].contains o then some (pre.reverse, o, rest)
            else findAssign rest depth (t :: pre)
          | _ => findAssign rest depth (t :: pre)
      match findAssign toks 0 [] with
      | some (lhs, aop, rhs) =>
        match lhs with
        | .name n' :: .op "[" :: mid =>
          match mid.getLast? with
          | some (.op "]") =>
            let i ← parseExprToks mid.dropLast
            let e ← parseExprToks rhs
            if aop == "=" then return .setItem n' i e
            else return .augItem n' i (String.ofList aop.toList.dropLast) e
          | _ => throw "assignment target"
        | _ => throw "assignment target"
      | none =>
        let e ← parseExprToks toks
        match e with
        | .meth (.name n') m args => if mutators.contains m then return .mutCall n' m args else return .exprS e
        | .meth (.index (.name n') i) m args => if mutators.contains m then return .mutItemCall n' i m args else return .exprS e
        | _ => return .exprS e
  | toks => return .exprS (← parseExprToks toks)

end Bardic.MiniPy
