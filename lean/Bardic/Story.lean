import Bardic.Base
/-!
# Compiled-story datatype

Mirrors the JSON the compiler emits one-to-one (see DESIGN Appendix A and
`bardic/compiler/parsing/*`): tokens, choices, passages, story.
-/
namespace Bardic

mutual
/-- a content token -/
inductive Tok where
  | text (s : String) (tags : List String)
  | expr (code : String)
  | inlineCond (cond : String) (t f : List Tok)
  | render (name args : String) (hint : Option String)
  | input (attrs : List (String × String))
  | stmt (code : String)
  | pyblock (code : String)
  | hook (add : Bool) (event target : String)
  | cond (branches : List Branch)
  | loop (var coll : String) (body : List Tok) (choices : List Choice)
  | jump (target args : String)
  | joinMarker
  /-- any token type `_render_content` has no branch for (ignored when rendered) -/
  | other (ty : String)
/-- one branch of a conditional block -/
inductive Branch where
  | mk (cond : String) (body : List Tok) (choices : List Choice)
/-- a choice as stored in a compiled story -/
inductive Choice where
  | mk (text : List Tok) (target args : String) (cond : Option String) (sticky : Bool)
       (sec : Nat) (tags : List String) (block : List Tok)
end

instance : Inhabited Tok := ⟨.joinMarker⟩
instance : Inhabited Choice := ⟨.mk [] "" "" none true 0 [] []⟩
instance : Inhabited Branch := ⟨.mk "" [] []⟩

namespace Choice
def text : Choice → List Tok | .mk t _ _ _ _ _ _ _ => t
def target : Choice → String | .mk _ t _ _ _ _ _ _ => t
def args : Choice → String | .mk _ _ a _ _ _ _ _ => a
def cond : Choice → Option String | .mk _ _ _ c _ _ _ _ => c
def sticky : Choice → Bool | .mk _ _ _ _ s _ _ _ => s
def sec : Choice → Nat | .mk _ _ _ _ _ s _ _ => s
def tags : Choice → List String | .mk _ _ _ _ _ _ t _ => t
def block : Choice → List Tok | .mk _ _ _ _ _ _ _ b => b
end Choice

namespace Branch
def cond : Branch → String | .mk c _ _ => c
def body : Branch → List Tok | .mk _ b _ => b
def choices : Branch → List Choice | .mk _ _ c => c
end Branch

structure Param where
  name : String
  default : Option String
  deriving Repr, DecidableEq, Inhabited

structure Passage where
  id : String
  params : List Param
  content : List Tok
  choices : List Choice
  execute : List Tok
  inputs : List (List (String × String))
  tags : List String := []
  deriving Inhabited

structure Story where
  initial : String
  passages : List (String × Passage)
  imports : List String := []
  title : String := "unknown"
  storyId : String := "unknown"
  storyVersion : String := "unknown"
  deriving Inhabited

def Story.passage? (s : Story) (id : String) : Option Passage := s.passages.lookup id

def Tok.isJoinMarker : Tok → Bool
  | .joinMarker => true
  | _ => false

end Bardic
