import Bardic.Src
import Bardic.Engine.Render
/-!
# Reference semantics of source items (C01)

What the language reference says a passage body means, stated on the source items — no tokens:

* a content line yields the text of its parts and then one newline, unless it ends in the glue operator;
  a blank line yields a newline; comments and tags yield nothing;
* `{code}` shows `str(value)`, `{code:spec}` shows `format(value, spec)`; a failing expression shows an
  inline `{ERROR: …}` marker and changes nothing;
* `{c ? a | b}` shows `a` when `c` is truthy, else `b`;
* `~` statements and Python blocks inside a block run when the block reaches them;
* `@if` renders the first branch whose condition is truthy (a failing condition is skipped) and offers that
  branch's choices; `@for` renders its body once per element with the loop variable bound, and offers the
  body's choices once per element with their text rendered then;
* a jump ends the rendering; nothing after it is rendered.

The semantic primitives (evaluation context, statement execution with write-back, hook registration, loop
variable binding, render-directive evaluation) are shared with the engine model; only the walk is new.
-/
namespace Bardic.Ref
open Bardic Bardic.Src

variable (S : Sem)

/-- `{code}` / `{code:spec}` -/
def refExpr (ctx : Env S.V) (code : String) (spec : Option String) : String :=
  match S.eval ctx code with
  | .error e => errText (fullCode code spec) e
  | .ok v =>
    match spec with
    | none => S.str v
    | some sp => (match S.fmt v sp with | .ok s => s | .error e => errText (fullCode code spec) e)

mutual
def inlText (ctx : Env S.V) : Inl → String
  | .text s => s
  | .expr c sp => refExpr S ctx c sp
  | .cond c t f =>
    match S.eval ctx c with
    | .error e => "{ERROR: inline conditional - " ++ e.msg ++ "}"
    | .ok v => if S.truthy v then inlsText ctx t else inlsText ctx f
def inlsText (ctx : Env S.V) : List Inl → String
  | [] => ""
  | i :: r => inlText ctx i ++ inlsText ctx r
end

mutual
/-- the meaning of one item inside a body -/
def refItem (cfg : RCfg S) : Item → RS S.V → RRes S (ROut S.V)
  | .line parts glue _ _, rs =>
    (rs, .ok { text := inlsText S (rctx S cfg rs) parts ++ (if glue then "" else "\n") })
  | .blank, rs => (rs, .ok { text := "\n" })
  | .comment, rs => (rs, .ok {})
  | .stmt code, rs =>
    match execStmt S cfg code rs with
    | (rs', .ok _) => (rs', .ok {})
    | (rs', .error e) => (rs', .error e)
  | .py code, rs =>
    match execBlock S cfg code rs with
    | (rs', .ok _) => (rs', .ok {})
    | (rs', .error e) => (rs', .error e)
  | .ifB bs, rs => refBranches cfg bs rs
  | .forB lv coll body, rs =>
    if lv == "" || coll == "" then (rs, .ok {})
    else
      match (S.eval (rctx S cfg rs) coll) >>= S.iter with
      | .error e => loopFail S cfg rs e.msg
      | .ok items =>
        match loopItems S lv (fun r => refItems cfg body r) (fun r => refChoiceTexts cfg body r) items rs with
        | (rs', .ok r) => (rs', .ok r)
        | (rs', .error e) => loopFail S cfg rs' e.msg
  | .render name args, rs => (rs, .ok { dirs := [processRender S (rctx S cfg rs) name args none] })
  | .input attrs, rs => (rs, .ok { dirs := [.input (inputAttrs attrs)] })
  | .hook add ev tgt, rs => (execHook S cfg add ev tgt rs, .ok {})
  | .choice _, rs => (rs, .ok {})
  | .jump tgt _, rs => (rs, .ok { jump := some tgt })
  | .join, rs => (rs, .ok {})

/-- items in order; a jump ends the rendering -/
def refItems (cfg : RCfg S) : List Item → RS S.V → RRes S (ROut S.V)
  | [], rs => (rs, .ok {})
  | i :: r, rs =>
    match refItem cfg i rs with
    | (rs1, .error e) => (rs1, .error e)
    | (rs1, .ok r1) =>
      if r1.jump.isSome then (rs1, .ok r1)
      else
        match refItems cfg r rs1 with
        | (rs2, .error e) => (rs2, .error e)
        | (rs2, .ok r2) => (rs2, .ok { text := r1.text ++ r2.text, jump := r2.jump, dirs := r1.dirs ++ r2.dirs })

/-- the first branch whose condition is truthy; its choices are offered -/
def refBranches (cfg : RCfg S) : List SBranch → RS S.V → RRes S (ROut S.V)
  | [], rs => (rs, .ok {})
  | .mk c body :: bs, rs =>
    match S.eval (rctx S cfg rs) c with
    | .error _ => refBranches cfg bs rs
    | .ok v =>
      if S.truthy v then
        match refItems cfg body rs with
        | (rs', .ok r) => (rs', .ok { r with dirs := r.dirs ++ (cChoices body).map (fun c => Dir.choice c none) })
        | (rs', .error e) => (rs', .error e)
      else refBranches cfg bs rs

/-- the choices written in a loop body, their text rendered now (while the loop variable is bound) -/
def refChoiceTexts (cfg : RCfg S) : List Item → RS S.V → RRes S (List (Dir S.V))
  | [], rs => (rs, .ok [])
  | .choice (.mk text tgt args cnd sticky tags block) :: r, rs =>
    match refChoiceTexts cfg r rs with
    | (rs2, .error e) => (rs2, .error e)
    | (rs2, .ok ds) =>
      (rs2, .ok (Dir.choice (cChoice (.mk text tgt args cnd sticky tags block) 0) (some (inlsText S (rctx S cfg rs) text)) :: ds))
  | _ :: r, rs => refChoiceTexts cfg r rs
end

/-! ## the top level of a passage

At the top level `~` statements, Python blocks and hooks are the passage's commands: they run, in order,
when the passage is entered, *before* any of its text is rendered (`topCommands`).  `@input` lines and choices
are collected for the interface.  What remains is rendered in order; in the main engine a `@join` marker ends
the section being shown. -/
def isTopCommand : Item → Bool
  | .stmt _ => true
  | .py _ => true
  | .hook _ _ _ => true
  | _ => false

def topVisible : Item → Bool
  | .stmt _ => false
  | .py _ => false
  | .hook _ _ _ => false
  | .input _ => false
  | .choice _ => false
  | .comment => false
  | _ => true

def cmdTok : Item → Option Tok
  | .stmt c => some (.stmt c)
  | .py c => some (.pyblock c)
  | .hook a e t => some (.hook a e t)
  | _ => none

def refTop (cfg : RCfg S) : List Item → RS S.V → RRes S (ROut S.V)
  | [], rs => (rs, .ok {})
  | .join :: r, rs => if cfg.variant == .main then (rs, .ok {}) else refTop cfg r rs
  | i :: r, rs =>
    if topVisible i then
      match refItem S cfg i rs with
      | (rs1, .error e) => (rs1, .error e)
      | (rs1, .ok r1) =>
        if r1.jump.isSome then (rs1, .ok r1)
        else
          match refTop cfg r rs1 with
          | (rs2, .error e) => (rs2, .error e)
          | (rs2, .ok r2) => (rs2, .ok { text := r1.text ++ r2.text, jump := r2.jump, dirs := r1.dirs ++ r2.dirs })
    else refTop cfg r rs

/-! ## the sources on which the engine's first-colon split reads `{code:spec}` as written

The engine finds a format spec by splitting the stored code at its first colon (unless the code contains
`==`, `!=`, `<=`, `>=` or `::`).  `colonSafe` says that this split gives back exactly the author's code and
spec; a slice, a dict display, a string with a colon or a conditional expression inside `{…}` is not
(recorded finding C01-F2). -/
def exprColonSafe (code : String) (spec : Option String) : Bool :=
  match spec with
  | none => splitFmt code == none
  | some sp => splitFmt (fullCode code (some sp)) == some (code, sp)

mutual
def inlColonSafe : Inl → Bool
  | .text _ => true
  | .expr c sp => exprColonSafe c sp
  | .cond _ t f => inlsColonSafe t && inlsColonSafe f
def inlsColonSafe : List Inl → Bool
  | [] => true
  | i :: r => inlColonSafe i && inlsColonSafe r
end

mutual
def itemColonSafe : Item → Bool
  | .line parts _ _ _ => inlsColonSafe parts
  | .ifB bs => branchesColonSafe bs
  | .forB _ _ body => itemsColonSafe body
  | .choice (.mk text _ _ _ _ _ block) => inlsColonSafe text && itemsColonSafe block
  | _ => true
def itemsColonSafe : List Item → Bool
  | [] => true
  | i :: r => itemColonSafe i && itemsColonSafe r
def branchesColonSafe : List SBranch → Bool
  | [] => true
  | .mk _ body :: r => itemsColonSafe body && branchesColonSafe r
end

end Bardic.Ref
