/-!
# Model of `bardic/stdlib`: Wallet, Inventory, Shop, Relationship, dice

Integer domain (float weights / rates are outside the model; rates and discounts are modelled as
exact rationals `num/den` with Python's `int()` = truncation toward zero, which is what the float
code computes for the dyadic rates the harness uses).
-/
namespace Bardic.Stdlib

structure Item where
  name : String
  weight : Int
  value : Int
  deriving DecidableEq, Repr, Inhabited

/-! ## Wallet -/

structure Wallet where
  gold : Int
  deriving DecidableEq, Repr

def Wallet.new (g : Int) : Wallet := ⟨max 0 g⟩
def Wallet.canAfford (w : Wallet) (p : Int) : Bool := w.gold ≥ p
def Wallet.spend (w : Wallet) (amt : Int) : Wallet × Bool :=
  if w.canAfford amt then (⟨w.gold - amt⟩, true) else (w, false)
def Wallet.earn (w : Wallet) (amt : Int) : Wallet := ⟨w.gold + max 0 amt⟩
def Wallet.setGold (_w : Wallet) (v : Int) : Wallet := ⟨max 0 v⟩

/-! ## Inventory -/

structure Inventory where
  items : List Item
  maxWeight : Int
  deriving DecidableEq, Repr

def weightOf (l : List Item) : Int := (l.map (·.weight)).sum
def Inventory.curWeight (i : Inventory) : Int := weightOf i.items

def Inventory.add (i : Inventory) (it : Item) : Inventory × Bool :=
  if i.curWeight + it.weight ≤ i.maxWeight then ({ i with items := i.items ++ [it] }, true) else (i, false)

def removeFirst (n : String) : List Item → Option (List Item)
  | [] => none
  | it :: rest => if it.name == n then some rest else (removeFirst n rest).map (it :: ·)

def Inventory.remove (i : Inventory) (n : String) : Inventory × Bool :=
  match removeFirst n i.items with
  | some l => ({ i with items := l }, true)
  | none => (i, false)

def Inventory.removeAll (i : Inventory) (n : String) : Inventory × Nat :=
  let kept := i.items.filter (fun it => it.name != n)
  ({ i with items := kept }, i.items.length - kept.length)

def Inventory.get (i : Inventory) (n : String) : Option Item := i.items.find? (·.name == n)
def Inventory.clear (i : Inventory) : Inventory := { i with items := [] }

/-! ## Shop -/

structure Shop where
  items : List Item
  rateNum : Int := 1
  rateDen : Int := 2
  discNum : Int := 1
  discDen : Int := 1
  deriving Repr

/-- `int(value * rate)` for an exact rational rate -/
def scale (v num den : Int) : Int := Int.tdiv (v * num) den

def Shop.find (s : Shop) (n : String) : Option Item := s.items.find? (·.name == n)
def Shop.buyPrice (s : Shop) (n : String) : Int :=
  match s.find n with
  | some it => scale it.value s.discNum s.discDen
  | none => 0
def Shop.sellPrice (s : Shop) (v : Int) : Int := scale v s.rateNum s.rateDen

/-- `Shop.buy`: spend, add a copy, refund if the inventory refuses -/
def Shop.buy (s : Shop) (n : String) (w : Wallet) (inv : Inventory) : Wallet × Inventory × Bool :=
  match s.find n with
  | none => (w, inv, false)
  | some it =>
    let price := s.buyPrice n
    match w.spend price with
    | (_, false) => (w, inv, false)
    | (w1, true) =>
      match inv.add it with
      | (inv1, true) => (w1, inv1, true)
      | (_, false) => (w1.earn price, inv, false)

def Shop.sell (s : Shop) (n : String) (w : Wallet) (inv : Inventory) : Wallet × Inventory × Bool :=
  match inv.get n with
  | none => (w, inv, false)
  | some it =>
    let price := s.sellPrice it.value
    match inv.remove n with
    | (inv1, true) => (w.earn price, inv1, true)
    | (_, false) => (w, inv, false)

/-! ## Relationship -/

def clamp (lo hi v : Int) : Int := max lo (min hi v)

structure Rel where
  name : String
  trust : Int
  comfort : Int
  openness : Int
  topics : List String
  /-- ghost: threshold events fired so far, oldest first -/
  events : List Nat := []
  deriving DecidableEq, Repr

def Rel.new (name : String) (t c o : Int) (topics : List String) : Rel :=
  ⟨name, clamp 0 100 t, clamp 0 100 c, clamp (-10) 10 o, topics.eraseDups, []⟩

def Rel.addTrust (r : Rel) (a : Int) : Rel :=
  let new := clamp 0 100 (r.trust + a)
  let e60 := if r.trust < 60 ∧ 60 ≤ new then [60] else []
  let e80 := if r.trust < 80 ∧ 80 ≤ new then [80] else []
  { r with trust := new, events := r.events ++ e60 ++ e80 }
def Rel.addComfort (r : Rel) (a : Int) : Rel := { r with comfort := clamp 0 100 (r.comfort + a) }
def Rel.addOpenness (r : Rel) (a : Int) : Rel := { r with openness := clamp (-10) 10 (r.openness + a) }
def Rel.setTrust (r : Rel) (v : Int) : Rel := { r with trust := clamp 0 100 v }
def Rel.setComfort (r : Rel) (v : Int) : Rel := { r with comfort := clamp 0 100 v }
def Rel.setOpenness (r : Rel) (v : Int) : Rel := { r with openness := clamp (-10) 10 v }
def Rel.discuss (r : Rel) (t : String) : Rel :=
  { r with topics := if r.topics.contains t then r.topics else r.topics ++ [t] }

/-- `from_dict(to_dict(r))` (threshold events are not part of the data) -/
def Rel.roundTrip (r : Rel) : Rel := { Rel.new r.name r.trust r.comfort r.openness r.topics with events := r.events }

/-! ## dice -/

/-- `roll("NdS+M")` for a given list of outcomes of `random.randint(1, S)` -/
def rollWith (outcomes : List Int) (modifier : Int) : Int := outcomes.sum + modifier

end Bardic.Stdlib

namespace Bardic
def insertSorted' (x : String) : List String → List String
  | [] => [x]
  | y :: ys => if x < y then x :: y :: ys else if x == y then y :: ys else y :: insertSorted' x ys
/-- sorted, duplicate-free (for canonical output of sets) -/
def sortStrs' (l : List String) : List String := l.foldr insertSorted' []
end Bardic
