/-!
# Ownership model for C16: which mutable data the engine's operations copy, share or hand out

Containers live in *regions* (identified by numbers).  A *root* is something a party holds: the
compiled story, the live game (variables + hooks), each undo/redo snapshot, each save document handed
out, each document passed in.  `deepcopy` allocates fresh regions; the model records, for every
engine operation, whether the new root is a deep copy (fresh regions) — as the code does after the
repairs — so that "no region is reachable from two roots" is an invariant of every history.
-/
namespace Bardic.Own

abbrev Rid := Nat

inductive RootKind | story | live | snapshot | docOut | docIn
  deriving DecidableEq, Repr

structure Root where
  kind : RootKind
  regions : List Rid
  deriving Repr

structure Heap where
  next : Rid
  roots : List Root
  deriving Repr

/-- `n` fresh regions -/
def fresh (h : Heap) (n : Nat) : List Rid := (List.range n).map (· + h.next)

inductive AOp
  /-- `snapshot()` / the copy taken by undo/redo: deep copy of the live data (size `n`) -/
  | snapshot (n : Nat)
  /-- `save_state()`: the document is a deep copy (hooks and containers copied) -/
  | save (n : Nat)
  /-- a caller builds a document of its own -/
  | callerDoc (n : Nat)
  /-- `load_state(doc)`: the live data becomes a deep copy of the document -/
  | load (n : Nat)
  /-- undo/redo: the popped snapshot's containers (root number `i`) become the live ones; that
      snapshot root disappears -/
  | restore (i : Nat)
  /-- a statement creates new containers inside the live game -/
  | liveAlloc (n : Nat)
  deriving Repr

def step (h : Heap) : AOp → Heap
  | .snapshot n => { next := h.next + n, roots := h.roots ++ [⟨.snapshot, fresh h n⟩] }
  | .save n => { next := h.next + n, roots := h.roots ++ [⟨.docOut, fresh h n⟩] }
  | .callerDoc n => { next := h.next + n, roots := h.roots ++ [⟨.docIn, fresh h n⟩] }
  | .load n =>
    { next := h.next + n
      roots := (h.roots.filter (·.kind != .live)) ++ [⟨.live, fresh h n⟩] }
  | .restore i =>
    match h.roots[i]? with
    | none => h
    | some s =>
      if s.kind == .snapshot then
        { h with roots := ((h.roots.eraseIdx i).filter (·.kind != .live)) ++ [⟨.live, s.regions⟩] }
      else h
  | .liveAlloc n =>
    { next := h.next + n
      roots := h.roots.map fun r => if r.kind == .live then { r with regions := r.regions ++ fresh h n } else r }

def init (nStory nLive : Nat) : Heap :=
  { next := nStory + nLive
    roots := [⟨.story, List.range nStory⟩, ⟨.live, (List.range nLive).map (· + nStory)⟩] }

end Bardic.Own
