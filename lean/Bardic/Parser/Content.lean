import Bardic.Parser.Components
/-!
# `parse_content_line`: tags, `{expression}` splitting, inline conditionals (C01 / C11 / C17)

Follows `bardic/compiler/parsing/content.py` (`parse_tags`, `split_expressions_with_depth`,
`parse_inline_conditional`, `find_pipe_separator`, `parse_content_line`) on character lists.  The
recursion of the Python code (a branch of an inline conditional is tokenised by `parse_content_line`
again) is bounded here by an explicit fuel; `Proofs/C11b.lean` shows that the length of the line is always
enough, i.e. that the recursion terminates on every input.
-/
namespace Bardic.Parser

/-- ASCII `\w` -/
def isWord (c : Char) : Bool := isAsciiAlpha c || isAsciiDigit c || c == '_'

/-- one tag match at the head of `cs` (which starts with `^`): the matched characters -/
def tagMatch (cs : List Char) : Option (List Char) :=
  match cs with
  | '^' :: r =>
    let w := r.takeWhile isWord
    if w.isEmpty then none
    else
      let r2 := r.drop w.length
      match r2 with
      | ':' :: r3 =>
        let p := r3.takeWhile (fun c => isWord c || c == '-')
        if p.isEmpty then some ('^' :: w) else some ('^' :: w ++ ':' :: p)
      | _ => some ('^' :: w)
  | _ => none

/-- `parse_tags`: scan left to right; a match whose start lies inside `{…}` (more `{` than `}` before it) is not a
tag and stays.  Returns (line without tags, not yet right-stripped; tags without `^`).  `fuel` ≥ length. -/
def parseTagsGo : Nat → List Char → Int → List Char → List (List Char) → List Char × List (List Char)
  | 0, cs, _, kept, tags => (kept.reverse ++ cs, tags.reverse)
  | _ + 1, [], _, kept, tags => (kept.reverse, tags.reverse)
  | n + 1, c :: r, depth, kept, tags =>
    match tagMatch (c :: r) with
    | some m =>
      let rest := (c :: r).drop m.length
      let inner := m.foldl (fun d x => if x == '{' then d + 1 else if x == '}' then d - 1 else d) depth
      if depth ≤ 0 then parseTagsGo n rest inner kept (m.drop 1 :: tags)
      else parseTagsGo n rest inner (m.reverse ++ kept) tags
    | none =>
      let d' := if c == '{' then depth + 1 else if c == '}' then depth - 1 else depth
      parseTagsGo n r d' (c :: kept) tags

def parseTags (line : List Char) : List Char × List (List Char) :=
  let (l, tags) := parseTagsGo (line.length + 1) line 0 [] []
  if tags.isEmpty then (line, []) else (rstripL l, tags)

inductive SplitErr
  | unmatchedClose | unclosed
  deriving Repr, DecidableEq

/-- `split_expressions_with_depth`: alternating text / `{…}` parts -/
def splitGo : List Char → List Char → Nat → List (List Char) → Except SplitErr (List (List Char) × List Char)
  | [], cur, depth, res => if depth > 0 then .error .unclosed else .ok (res.reverse, cur.reverse)
  | c :: r, cur, depth, res =>
    if c == '{' then
      if depth == 0 then splitGo r ['{'] 1 (cur.reverse :: res)
      else splitGo r (c :: cur) (depth + 1) res
    else if c == '}' then
      if depth == 0 then .error .unmatchedClose
      else if depth == 1 then splitGo r [] 0 (('}' :: cur).reverse :: res)
      else splitGo r (c :: cur) (depth - 1) res
    else splitGo r (c :: cur) depth res

def splitExprs (t : List Char) : Except SplitErr (List (List Char)) :=
  match splitGo t [] 0 [] with
  | .error e => .error e
  | .ok (res, cur) =>
    if !cur.isEmpty || (!res.isEmpty && t.getLast? != some '}') then .ok (res ++ [cur]) else .ok res

/-- index of the first `ch` at brace depth 0 -/
def findTop (ch : Char) : List Char → Nat → Int → Option Nat
  | [], _, _ => none
  | c :: r, i, depth =>
    if c == '{' then findTop ch r (i + 1) (depth + 1)
    else if c == '}' then findTop ch r (i + 1) (depth - 1)
    else if c == ch && depth == 0 then some i
    else findTop ch r (i + 1) depth

/-- content tokens as the compiler emits them (tags may sit on any kind of token) -/
inductive CTok where
  | text (s : List Char) (tags : List (List Char))
  | expr (code : List Char) (tags : List (List Char))
  | cond (c : List Char) (t f : List CTok) (tags : List (List Char))

inductive ContentDiag
  | split (e : SplitErr)
  deriving Repr, DecidableEq

inductive ContentRes where
  | ok (toks : List CTok)
  | diag (d : ContentDiag)
  | outOfFuel

def setTags (tags : List (List Char)) : CTok → CTok
  | .text s _ => .text s tags
  | .expr c _ => .expr c tags
  | .cond c t f _ => .cond c t f tags

def tagLast (tags : List (List Char)) : List CTok → List CTok
  | [] => []
  | [t] => [setTags tags t]
  | t :: r => t :: tagLast tags r

mutual
/-- `parse_content_line(line, strip_comments)` -/
def contentLine : Nat → Bool → List Char → ContentRes
  | 0, _, _ => .outOfFuel
  | fuel + 1, stripComments, line =>
    let line1 :=
      if stripComments then
        let p := strip line
        if p.2.isEmpty then p.1 else rstripL p.1
      else line
    let (lwt, tags) := parseTags line1
    match splitExprs lwt with
    | .error e => .diag (.split e)
    | .ok parts =>
      match contentParts fuel parts with
      | .ok toks => .ok (if tags.isEmpty then toks else tagLast tags toks)
      | r => r
/-- the `for part in parts` loop -/
def contentParts : Nat → List (List Char) → ContentRes
  | _, [] => .ok []
  | fuel, part :: rest =>
    let tok : ContentRes :=
      if part.head? == some '{' && part.getLast? == some '}' && part.length ≥ 2 then
        let expr := (part.drop 1).dropLast
        match inlineCond fuel expr with
        | some r => r
        | none => .ok [.expr expr []]
      else if part.isEmpty then .ok [] else .ok [.text part []]
    match tok with
    | .ok ts =>
      (match contentParts fuel rest with
       | .ok more => .ok (ts ++ more)
       | r => r)
    | r => r
/-- `parse_inline_conditional(expr)`: `none` when the expression is not an inline conditional -/
def inlineCond : Nat → List Char → Option ContentRes
  | fuel, expr =>
    if !expr.contains '?' then none
    else
      match findTop '?' expr 0 0 with
      | none => none
      | some q =>
        let cond := stripL (expr.take q)
        let rest := expr.drop (q + 1)
        match findTop '|' rest 0 0 with
        | none => none
        | some p =>
          let tt := stripL (rest.take p)
          let ft := stripL (rest.drop (p + 1))
          let tr := if tt.isEmpty then ContentRes.ok [] else contentLine fuel false tt
          let fr := if ft.isEmpty then ContentRes.ok [] else contentLine fuel false ft
          match tr, fr with
          | .ok t, .ok f => some (.ok [.cond cond t f []])
          | .ok _, r => some r
          | r, _ => some r
end

/-- `parse_content_line(line)` with the fuel the theorems show to be sufficient -/
def parseContentLine (line : List Char) : ContentRes := contentLine (line.length + 1) true line

end Bardic.Parser
