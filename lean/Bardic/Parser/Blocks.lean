import Bardic.Parser.Text
/-!
# The text-level parser, part 2: block extractors (`bardic/compiler/parsing/blocks.py`)

`extract_python_block`, `extract_conditional_block`, `extract_loop_block`, `extract_join_choice_block`
statement by statement.  `lines` is an array as in the Python, `i` an index into it; every `while` has
one unit of fuel per iteration and per recursive call (`Fail.fuel` is the "does not advance" outcome).
-/
namespace Bardic.Parser

abbrev Lines := Array Line

/-- `extract_python_block(lines, start)` = (code, lines consumed) -/
def extractPythonBlock (lines : Lines) (start : Nat) : PM (Line × Nat) :=
  if h : start < lines.size then
    let st := stripL lines[start]
    if sw st "<<py" then
      let r := pyOld lines.toList start
      pure (joinNl r.1, r.2)
    else if sw st "@py" then
      match pyNew lines.toList start with
      | .error _ => .error (.internal "extract_python_block: index")
      | .ok (.error _) => synErr start "@py block"
      | .ok (.ok r) => pure (joinNl r.1, r.2)
    else valErr "extract_python_block called on non-python line"
  else .error (.internal "extract_python_block: lines[start_index]")

/-- the state of `extract_conditional_block` between two lines -/
structure CondSt where
  branches : List J := []                                   -- finished branches, in order
  cur : Option (Line × List J × Option (List J)) := none    -- condition, content, choices (when the key exists)
  buf : List Line := []                                     -- `current_branch_lines`

def branchJ (b : Line × List J × Option (List J)) : J :=
  .obj ([("condition", .str b.1), ("content", .arr b.2.1)] ++
    (match b.2.2 with | some cs => [("choices", .arr cs)] | none => []))

/-- tokens of buffered branch lines flushed **without** glue handling (before a directive / block / choice / jump) -/
def flushPlainToks : List Line → PM (List J)
  | [] => pure []
  | l :: r => do
    let t ← contentToks l none
    let more ← flushPlainToks r
    pure (t ++ [nlTok] ++ more)

/-- … and **with** glue handling (at `@elif` / `@else` / `@endif`) -/
def flushGlueToks : List Line → PM (List J)
  | [] => pure []
  | l :: r => do
    let t ← contentLineGlue l none
    let more ← flushGlueToks r
    pure (t ++ more)

namespace CondSt
/-- "dedent the lines collected so far and add them to the branch" -/
def flushPlain (s : CondSt) : PM CondSt :=
  match s.cur with
  | none => pure s
  | some (c, content, chs) =>
    if s.buf.isEmpty then pure s
    else do
      let t ← flushPlainToks (dedent s.buf)
      pure { s with cur := some (c, content ++ t, chs), buf := [] }

def push (s : CondSt) (tok : J) : CondSt :=
  match s.cur with
  | none => s
  | some (c, content, chs) => { s with cur := some (c, content ++ [tok], chs) }

def pushChoice (s : CondSt) (ch : J) : CondSt :=
  match s.cur with
  | none => s
  | some (c, content, chs) => { s with cur := some (c, content, some (chs.getD [] ++ [ch])) }

/-- finalize the current branch (glue-aware flush) -/
def finalize (s : CondSt) : PM CondSt :=
  match s.cur with
  | none => pure s
  | some (c, content, chs) => do
    let t ← if s.buf.isEmpty then pure [] else flushGlueToks (dedent s.buf)
    pure { branches := s.branches ++ [branchJ (c, content ++ t, chs)], cur := none, buf := [] }

def startBranch (s : CondSt) (cond : Line) : CondSt := { s with cur := some (cond, [], none), buf := [] }
end CondSt

/-- the header of a conditional line: its condition, or the diagnostic -/
def condHeader (stripped : Line) (kw : String) (i : Nat) : PM Line :=
  let st := (strip stripped).1
  if sw stripped ("@" ++ kw ++ " ") then
    match reMatch (reAtCond ("@" ++ kw)) st with
    | some cs => pure (stripL (cap cs 1))
    | none => synErr i ("@" ++ kw ++ " statement missing colon")
  else
    match reMatch (reOldCond ("<<" ++ kw)) st with
    | some cs => pure (stripL (cap cs 1))
    | none => synErr i ("<<" ++ kw ++ " statement missing closing >>")

/-- `l[indent:] if l[:indent].strip() == "" else l` -/
def dropIndent (indent : Nat) (l : Line) : Line :=
  if (stripL (l.take indent)).isEmpty then l.drop indent else l

def jumpTokBlock (target : Line) : J := .obj [("type", jstr "jump"), ("target", .str target)]

/-- header of a loop line: variable and collection -/
def loopHeader (stripped : Line) (i : Nat) : PM (Line × Line) :=
  let st := (strip stripped).1
  if sw stripped "@for " then
    match reMatch reAtFor st with
    | some cs => pure (stripL (cap cs 1), stripL (cap cs 2))
    | none => synErr i "@for statement missing colon"
  else
    match reMatch reOldFor st with
    | some cs => pure (stripL (cap cs 1), stripL (cap cs 2))
    | none => synErr i "Invalid for loop syntax"

/-- phase 1 of `extract_loop_block` after the header: collect raw body lines up to the matching closer.
Returns (raw lines, index after the loop, closer found). -/
def loopCollect (lines : Lines) : Nat → Nat → Nat → List Line → PM (List Line × Nat × Bool)
  | 0, _, _, _ => .error .fuel
  | f + 1, i, depth, acc =>
    if h : i < lines.size then
      let line := lines[i]
      let st := stripL line
      if strEq st "@endfor:" then synErr i "@endfor should not have a colon"
      else if sw st "<<for " || sw st "@for " then loopCollect lines f (i + 1) (depth + 1) (line :: acc)
      else if sw st "<<endfor>>" || strEq st "@endfor" then
        if depth - 1 == 0 then pure (acc.reverse, i + 1, true)
        else loopCollect lines f (i + 1) (depth - 1) (line :: acc)
      else loopCollect lines f (i + 1) depth (line :: acc)
    else pure (acc.reverse, i, false)

mutual
/-- the `while i < len(lines)` of `extract_conditional_block`; returns (state, index after the block, closer found) -/
def condLoop (lines : Lines) (start : Nat) : Nat → Nat → CondSt → PM (CondSt × Nat × Bool)
  | 0, _, _ => .error .fuel
  | f + 1, i, s =>
    if h : i < lines.size then
      match lines[i], stripL lines[i], s.cur.isSome with
      | line, st, has =>
      if sw st "#" then condLoop lines start f (i + 1) s
      else if (sw st "<<py" || sw st "@py") && has then do
        let s ← s.flushPlain
        let (code, n) ← extractPythonBlock lines i
        condLoop lines start f (i + n) (s.push (pyBlockTok code))
      else if sw st "@input" && has then do
        let s ← s.flushPlain
        let d ← parseInputLine line none
        condLoop lines start f (i + 1) (match d with | some d => s.push d | none => s)
      else if sw st "@render" && has then do
        let s ← s.flushPlain
        let d ← parseRenderLine line none
        condLoop lines start f (i + 1) (match d with | some d => s.push d | none => s)
      else if sw st "@hook " && has then do
        let s ← s.flushPlain
        condLoop lines start f (i + 1) (match hookTok st true with | some d => s.push d | none => s)
      else if sw st "@unhook " && has then do
        let s ← s.flushPlain
        condLoop lines start f (i + 1) (match hookTok st false with | some d => s.push d | none => s)
      else if sw st "~ " && has then do
        let s ← s.flushPlain
        let (ls, n) ← liftPy "extract_multiline_expression" (multiline lines.toList i (stmtCode (st.drop 2)))
        -- continuation lines lose the indentation of the statement's own line
        condLoop lines start f (i + n) (s.push (stmtTok (joinNl (ls.take 1 ++ (ls.drop 1).map (dropIndent (indentOf line))))))
      else if (sw st "<<if " || sw st "@if ") && i != start && has then do
        let s ← s.flushPlain
        let (nested, n) ← extractCond lines f i
        condLoop lines start f (i + n) (s.push nested)
      else if (sw st "<<for " || sw st "@for ") && has then do
        let s ← s.flushPlain
        let (nested, n) ← extractLoop lines f i
        condLoop lines start f (i + n) (s.push nested)
      else if (sw st "<<if " || sw st "@if ") && i == start then do
        let c ← condHeader st "if" i
        condLoop lines start f (i + 1) (s.startBranch c)
      else if strEq st "@endif:" then synErr i "@endif should not have a colon"
      else if sw st "<<endif>>" || strEq st "@endif" then do
        let s ← s.finalize
        pure (s, i + 1, true)
      else if sw st "<<elif " || sw st "@elif " then do
        let c ← condHeader st "elif" i
        let s ← s.finalize
        condLoop lines start f (i + 1) (s.startBranch c)
      else if sw st "<<else>>" || sw st "@else" then do
        if sw st "@else" && !strEq (stripL (strip st).1) "@else:" then synErr i "@else statement missing colon"
        else
          let s ← s.finalize
          condLoop lines start f (i + 1) (s.startBranch "True".toList)
      else if sw st "->" then
        match reMatch reJumpBlock st with
        | some cs =>
          if has then do
            let s ← s.flushPlain
            condLoop lines start f (i + 1) (s.push (jumpTokBlock (cap cs 1)))
          else condLoop lines start f (i + 1) s
        | none => condLoop lines start f (i + 1) s
      else do
        let ch ← if (sw st "+ " || sw st "* ") && has then parseChoiceLine st else pure none
        match ch with
        | some c => do
          let s ← s.flushPlain
          condLoop lines start f (i + 1) (s.pushChoice (.obj c))
        | none =>
          condLoop lines start f (i + 1) (if has then { s with buf := s.buf ++ [line] } else s)
    else pure (s, i, false)
termination_by structural f _ _ => f

/-- `extract_conditional_block(lines, start)` = (conditional token, lines consumed) -/
def extractCond (lines : Lines) : Nat → Nat → PM (J × Nat)
  | 0, _ => .error .fuel
  | f + 1, start => do
    let (s, i, found) ← condLoop lines start f start {}
    if !found then synErr start "@if block never closed"
    else pure (.obj [("type", jstr "conditional"), ("branches", .arr s.branches)], i - start)
termination_by structural f _ => f

/-- phase 2 of `extract_loop_block`: the `while j < len(dedented_lines)`; `aligned` is `lines[:body_start] + dedented`.
Returns the content tokens and the choices (when the key exists). -/
def loopBody (aligned : Lines) (bodyStart : Nat) : Nat → Nat → List J → Option (List J) → PM (List J × Option (List J))
  | 0, _, _, _ => .error .fuel
  | f + 1, j, content, chs =>
    if h : bodyStart + j < aligned.size then
      match aligned[bodyStart + j], stripL aligned[bodyStart + j] with
      | line, st =>
      if sw st "#" then loopBody aligned bodyStart f (j + 1) content chs
      else if sw st "<<py" || sw st "@py" then do
        let (code, n) ← extractPythonBlock aligned (bodyStart + j)
        loopBody aligned bodyStart f (j + n) (content ++ [pyBlockTok code]) chs
      else if sw st "@input" then do
        let d ← parseInputLine line none
        loopBody aligned bodyStart f (j + 1) (match d with | some d => content ++ [d] | none => content) chs
      else if sw st "@render" then do
        let d ← parseRenderLine line none
        loopBody aligned bodyStart f (j + 1) (match d with | some d => content ++ [d] | none => content) chs
      else if sw st "@hook " then
        loopBody aligned bodyStart f (j + 1) (match hookTok st true with | some d => content ++ [d] | none => content) chs
      else if sw st "@unhook " then
        loopBody aligned bodyStart f (j + 1) (match hookTok st false with | some d => content ++ [d] | none => content) chs
      else if sw line "~ " then do
        let (ls, n) ← liftPy "extract_multiline_expression" (multiline aligned.toList (bodyStart + j) (stmtCode (line.drop 2)))
        loopBody aligned bodyStart f (j + n) (content ++ [stmtTok (joinNl ls)]) chs
      else if sw st "<<for " || sw st "@for " then do
        let (nested, n) ← extractLoop aligned f (bodyStart + j)
        loopBody aligned bodyStart f (j + n) (content ++ [nested]) chs
      else if sw st "<<if " || sw st "@if " then do
        let (nested, n) ← extractCond aligned f (bodyStart + j)
        loopBody aligned bodyStart f (j + n) (content ++ [nested]) chs
      else if sw st "->" then
        match reMatch reJumpBlock st with
        | some cs => loopBody aligned bodyStart f (j + 1) (content ++ [jumpTokBlock (cap cs 1)]) chs
        | none => loopBody aligned bodyStart f (j + 1) content chs
      else do
        let ch ← if sw st "+ " || sw st "* " then parseChoiceLine st else pure none
        match ch with
        | some c => loopBody aligned bodyStart f (j + 1) content (some (chs.getD [] ++ [.obj c]))
        | none => do
          let t ← contentLineGlue line none
          loopBody aligned bodyStart f (j + 1) (content ++ t) chs
    else pure (content, chs)
termination_by structural f _ _ _ => f

/-- `extract_loop_block(lines, start)` = (loop token, lines consumed) -/
def extractLoop (lines : Lines) : Nat → Nat → PM (J × Nat)
  | 0, _ => .error .fuel
  | f + 1, start =>
    if h : start < lines.size then do
      -- (the caller only calls on a `<<for ` / `@for ` line)
      let (var, coll) ← loopHeader (stripL lines[start]) start
      let (raw, i, found) ← loopCollect lines f (start + 1) 1 []
      let (content, chs) ←
        if raw.isEmpty then pure ([], none)
        else loopBody (lines.extract 0 (start + 1) ++ (dedent raw).toArray) (start + 1) f 0 [] none
      if !found then synErr start "@for block never closed"
      else
        pure (.obj ([("type", jstr "for_loop"), ("variable", .str var), ("collection", .str coll), ("content", .arr content)]
                ++ (match chs with | some cs => [("choices", .arr cs)] | none => [])), i - start)
    else synErr start "@for block never closed"
termination_by structural f _ => f
end

/-! ## the block under a `-> @join` choice -/

def isJoinBlockTerminator (line : Line) : Bool :=
  let st := stripL line
  if st.isEmpty then false
  else if sw st "+ [" || sw st "* [" || sw st "+ {" || sw st "* {" then true
  else if strEq st "@join" then true
  else if sw st ":: " then true
  else
    ["@if ", "@elif ", "@else:", "@endif", "@for ", "@endfor", "@py:", "@endpy",
     "<<if ", "<<elif ", "<<else>>", "<<endif>>", "<<for ", "<<endfor>>", "<<py"].any fun m =>
      sw st m || strEq st (String.ofList (m.toList.reverse.dropWhile (· == ':')).reverse)

/-- the collecting `while`: block lines and the index where it stopped -/
def joinCollect (lines : Lines) (indent : Nat) : Nat → Nat → List Line → List Line × Nat
  | 0, i, acc => (acc.reverse, i)
  | f + 1, i, acc =>
    if h : i < lines.size then
      let line := lines[i]
      if isJoinBlockTerminator line then (acc.reverse, i)
      else if (stripL line).isEmpty || sw (stripL line) "#" then joinCollect lines indent f (i + 1) (line :: acc)
      else if indentOf line ≤ indent then (acc.reverse, i)
      else joinCollect lines indent f (i + 1) (line :: acc)
    else (acc.reverse, i)

/-- the `for j, line in enumerate(dedented)` loop: (content tokens, execute commands) -/
def joinParse (start : Nat) : Nat → List Line → PM (List J × List J)
  | _, [] => pure ([], [])
  | j, line :: rest => do
    let st := stripL line
    let (c1, e1) ←
      if st.isEmpty then pure ([nlTok], [])
      else if sw st "#" then pure ([], [])
      else if sw st "~" then
        let cmd := stmtTok (stmtCode (st.drop 2))
        pure ([cmd], [cmd])
      else if sw st "@hook " then
        pure (match hookTok st true with | some d => ([d], [d]) | none => ([], []))
      else if sw st "@unhook " then
        pure (match hookTok st false with | some d => ([d], [d]) | none => ([], []))
      else do
        let t ← contentToks line (some (start + j))
        pure (t ++ [nlTok], [])
    let (c2, e2) ← joinParse start (j + 1) rest
    pure (c1 ++ c2, e1 ++ e2)

/-- `extract_join_choice_block(lines, start, choice_indent)` = (content, execute, lines consumed) -/
def extractJoinBlock (lines : Lines) (start indent : Nat) : PM (List J × List J × Nat) :=
  let (block, i) := joinCollect lines indent (lines.size + 1) start []
  if block.isEmpty then pure ([], [], 0)
  else do
    let (c, e) ← joinParse start 0 (dedent block)
    pure (c, e, i - start)

end Bardic.Parser
