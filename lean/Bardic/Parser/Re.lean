import Bardic.Base
/-!
# A small backtracking regular-expression matcher (the fragment of Python's `re` the compiler uses)

`re.match(pattern, s)` in CPython is a backtracking matcher: alternatives and quantifiers are tried in
order (greedy: longest first, lazy: shortest first) and the first way the *whole* pattern matches at
position 0 wins.  The parser's patterns (`@if\s+(.+):`, `<<for\s+(.+?)\s+in\s+(.+?)>>`,
`\{([^}]+)\}\s*\[(.*?)\]\s*->\s*(.+)`, …) depend on exactly that order for what ends up in their
groups, so the model runs the same search instead of a hand-simplified reading of each pattern.

Continuation-passing, with an explicit fuel (a quantifier's body must consume input to be repeated, so
`length + 1` iterations are always enough; `Proofs/C11d.lean`).
-/
namespace Bardic.Parser

inductive Re where
  | chr (p : Char → Bool)
  | seq (a b : Re)
  | alt (a b : Re)
  | star (r : Re) (greedy : Bool)      -- `r*` / `r*?`
  | group (n : Nat) (r : Re)
  | eps
  | eos                                  -- `$` (no trailing newline can occur: lines hold no `\n`)

namespace Re
def lit (s : String) : Re := s.toList.foldr (fun c r => .seq (.chr (· == c)) r) .eps
def plus (r : Re) (greedy : Bool := true) : Re := .seq r (.star r greedy)
def opt (r : Re) : Re := .alt r .eps
def seqs : List Re → Re
  | [] => .eps
  | [r] => r
  | r :: rs => .seq r (seqs rs)
end Re

abbrev Caps := List (Nat × List Char)

/-- does `r` match a prefix of `s`, the rest being accepted by `k`?  `orig` is the whole input of the
enclosing group, used to cut out what a group captured. -/
def reGo : Nat → Re → List Char → Caps → (List Char → Caps → Option Caps) → Option Caps
  | 0, _, _, _, _ => none
  | _ + 1, .chr p, s, cs, k =>
    match s with
    | c :: r => if p c then k r cs else none
    | [] => none
  | f + 1, .seq a b, s, cs, k => reGo f a s cs (fun s' cs' => reGo f b s' cs' k)
  | f + 1, .alt a b, s, cs, k =>
    match reGo f a s cs k with
    | some r => some r
    | none => reGo f b s cs k
  | f + 1, .star r g, s, cs, k =>
    let more := fun (_ : Unit) =>
      reGo f r s cs (fun s' cs' => if s'.length < s.length then reGo f (.star r g) s' cs' k else none)
    if g then
      match more () with
      | some x => some x
      | none => k s cs
    else
      match k s cs with
      | some x => some x
      | none => more ()
  | f + 1, .group n r, s, cs, k =>
    reGo f r s cs (fun s' cs' => k s' ((n, s.take (s.length - s'.length)) :: cs'.filter (·.1 != n)))
  | _ + 1, .eps, s, cs, k => k s cs
  | _ + 1, .eos, s, cs, k => if s.isEmpty then k s cs else none

/-- fuel that is always enough: every constructor spends one unit per level and a `star` can iterate at
most `length` times, each iteration descending through the (fixed) pattern -/
def reSize : Re → Nat
  | .chr _ => 1
  | .seq a b => reSize a + reSize b + 1
  | .alt a b => reSize a + reSize b + 1
  | .star r _ => reSize r + 2
  | .group _ r => reSize r + 1
  | .eps => 1
  | .eos => 1

/-- `re.match(r, s)`: the captures of the first successful way to match at position 0 -/
def reMatch (r : Re) (s : List Char) : Option Caps :=
  reGo ((reSize r + 2) * (s.length + 2)) r s [] (fun _ cs => some cs)

def cap (cs : Caps) (n : Nat) : List Char := (cs.lookup n).getD []

/-- `re.match` returning the length matched as well (for `findall`) -/
def reMatchLen (r : Re) (s : List Char) : Option (Caps × Nat) :=
  match reGo ((reSize r + 2) * (s.length + 2)) r s [] (fun s' cs => some ((0, s') :: cs)) with
  | some cs => some (cs.filter (·.1 != 0), s.length - (cap cs 0).length)
  | none => none

/-- `re.findall` for patterns that cannot match the empty string: non-overlapping matches left to right -/
def reFindAll (r : Re) : Nat → List Char → List Caps
  | 0, _ => []
  | _, [] => []
  | f + 1, c :: s =>
    match reMatchLen r (c :: s) with
    | some (cs, n) => if n == 0 then reFindAll r f s else cs :: reFindAll r f ((c :: s).drop n)
    | none => reFindAll r f s

end Bardic.Parser
