import Bardic.Parser.Components
/-!
# `validate_choice_syntax` (C11): every `.index` / `split()[0]` an explicit failure point
-/
namespace Bardic.Parser

inductive ChoiceDiag
  | missingArrow | missingOpen | missingClose | unclosedCond | strayClose | closeBeforeOpen | missingTarget
  | targetSpaces | emptyText
  deriving Repr, DecidableEq

/-- split at the first occurrence of `pat` -/
def splitAtFirst (pat : List Char) : List Char → Option (List Char × List Char)
  | [] => if pat.isEmpty then some ([], []) else none
  | c :: r =>
    if isPrefixL pat (c :: r) then some ([], (c :: r).drop pat.length)
    else (splitAtFirst pat r).map (fun p => (c :: p.1, p.2))

/-- `for i in range(first_brace, len(s))`: index of the `}` that closes the first `{` -/
def condClose : List Char → Nat → Int → Option Nat
  | [], _, _ => none
  | c :: r, i, depth =>
    if c == '{' then condClose r (i + 1) (depth + 1)
    else if c == '}' then (if depth - 1 == 0 then some i else condClose r (i + 1) (depth - 1))
    else condClose r (i + 1) depth

/-- `s.split()`: first whitespace-separated word -/
def firstWord (s : List Char) : Option (List Char) :=
  let t := lstripL s
  if t.isEmpty then none else some (t.takeWhile (fun c => !isPyWs c))

def arrow : List Char := " -> ".toList

/-- the conditional in front of the text: index of its closing brace, if there is one -/
def condScan (cp : List Char) : PyM (Except ChoiceDiag (Option Nat)) :=
  if cp.contains '{' && cp.contains '[' then do
    let fb ← pyIndexOf '{' cp
    let fk ← pyIndexOf '[' cp
    if fb < fk then
      match condClose (cp.drop fb) fb 0 with
      | some i => pure (.ok (some i))
      | none => pure (.error .unclosedCond)
    else pure (.ok none)
  else pure (.ok none)

def searchStart : Option Nat → Nat
  | some i => i + 1
  | none => 0

/-- brackets, target, text — after the conditional -/
def bracketStage (cp target : List Char) (ce : Option Nat) : PyM (Option ChoiceDiag) :=
  if cp.contains '}' && !cp.contains '{' then .ok (some .strayClose)
  else
    let ss := searchStart ce
    let remaining := cp.drop ss
    if !remaining.contains '[' then .ok (some .missingOpen)
    else if !remaining.contains ']' then .ok (some .missingClose)
    else do
      let bo ← pyIndexOf '[' remaining
      let bc ← pyIndexOf ']' remaining
      if bc < bo then .ok (some .closeBeforeOpen)
      else if target.isEmpty then .ok (some .missingTarget)
      else
        -- `target_part.split()[0] if target_part.split() else ""`
        let name := (firstWord target).getD []
        if name.contains ' ' then .ok (some .targetSpaces)
        else
          let text := stripL ((cp.take (bc + ss)).drop (bo + ss + 1))
          if text.isEmpty then .ok (some .emptyText) else .ok none

/-- `validate_choice_syntax(line)`: `none` = accepted -/
def validateChoice (line : List Char) : PyM (Option ChoiceDiag) :=
  let clean := (strip (stripL line)).1
  match splitAtFirst arrow clean with
  | none => .ok (some .missingArrow)
  | some (cp, rest) =>
    if !cp.contains '[' then .ok (some .missingOpen)
    else if !cp.contains ']' then .ok (some .missingClose)
    else do
      match (← condScan cp) with
      | .error d => .ok (some d)
      | .ok ce => bracketStage cp (stripL rest) ce

end Bardic.Parser
