import Bardic.Base
import Bardic.Parser.Strip
/-!
# Parser components with every partial Python operation explicit (C11)

Each function below follows its Python original statement by statement over character lists.  An
operation that can raise in Python (`s.index(c)`, `s[0]`, `stack[-1]`, use of a local that may be
unbound) is a call into `PyM := Except Internal`; the theorems of `Proofs/C11.lean` show that no
`Internal` outcome is reachable, i.e. that the guards the Python code puts in front of these operations
are sufficient for every input.  Deliberate diagnostics (`raise SyntaxError(format_error(..))`) are
ordinary results (`Diag`).
-/
namespace Bardic.Parser

/-- the internal errors C11 rules out -/
inductive Internal
  | indexError | valueError | unboundLocal | typeError
  deriving Repr, DecidableEq

abbrev PyM := Except Internal

/-- `s.index(c)` (raises ValueError when absent) -/
def pyIndexOf (c : Char) : List Char → PyM Nat
  | [] => .error .valueError
  | d :: r => if d == c then .ok 0 else (pyIndexOf c r).map (· + 1)

/-- `s[0]` -/
def pyHead {α} : List α → PyM α
  | [] => .error .indexError
  | a :: _ => .ok a

/-- `s[-1]` -/
def pyLast {α} (l : List α) : PyM α :=
  match l.getLast? with
  | some a => .ok a
  | none => .error .indexError

/-- reading a local that is only assigned on some paths -/
def pyLocal {α} : Option α → PyM α
  | some a => .ok a
  | none => .error .unboundLocal

/-! ## `extract_passage_params` / `extract_target_and_args` -/

/-- the `for i in range(paren_start, len(s))` scan: position of the `)` that brings depth back to 0.
`pos` is the index of the head of the list, `depth` the current depth. -/
def findClose : List Char → Nat → Int → Option Nat
  | [], _, _ => none
  | c :: r, pos, depth =>
    if c == '(' then findClose r (pos + 1) (depth + 1)
    else if c == ')' then
      if depth - 1 == 0 then some pos else findClose r (pos + 1) (depth - 1)
    else findClose r (pos + 1) depth

/-- the same scan for a call (`extract_target_and_args`): inside a string literal (`q` = its quote character) a
parenthesis is text; a backslash there skips the next character -/
def findCloseQ : List Char → Nat → Int → Option Char → Option Nat
  | [], _, _, _ => none
  | c :: r, pos, depth, some q =>
    if c == '\\' then (match r with | [] => none | _ :: r' => findCloseQ r' (pos + 2) depth (some q))
    else if c == q then findCloseQ r (pos + 1) depth none
    else findCloseQ r (pos + 1) depth (some q)
  | c :: r, pos, depth, none =>
    if c == '"' || c == '\'' then findCloseQ r (pos + 1) depth (some c)
    else if c == '(' then findCloseQ r (pos + 1) (depth + 1) none
    else if c == ')' then
      if depth - 1 == 0 then some pos else findCloseQ r (pos + 1) (depth - 1) none
    else findCloseQ r (pos + 1) depth none

/-- `extract_passage_params(header)` = (name with tags, params) -/
def extractPassageParams (h : List Char) : PyM (List Char × List Char) :=
  if !h.contains '(' then .ok (h, [])
  else do
    let ps ← pyIndexOf '(' h
    let before := h.take ps
    match findClose (h.drop ps) ps 0 with
    | none => .ok (h, [])
    | some pe =>
      let params := (h.take pe).drop (ps + 1)
      let after := h.drop (pe + 1)
      .ok (stripL (before ++ after), stripL params)

/-- `extract_target_and_args(t)` = (name, args) — no stripping here -/
def extractTargetAndArgs (t : List Char) : PyM (List Char × List Char) :=
  if !t.contains '(' then .ok (t, [])
  else do
    let ps ← pyIndexOf '(' t
    match findCloseQ (t.drop ps) ps 0 none with
    | none => .ok (t, [])
    | some pe => .ok (t.take ps, (t.take pe).drop (ps + 1))

/-! ## `_split_on_commas` -/

def splitCommasGo : List Char → List Char → Int → List (List Char) → List (List Char)
  | [], cur, _, parts => if cur.isEmpty then parts.reverse else (cur.reverse :: parts).reverse
  | c :: r, cur, depth, parts =>
    if c == '(' || c == '[' || c == '{' then splitCommasGo r (c :: cur) (depth + 1) parts
    else if c == ')' || c == ']' || c == '}' then splitCommasGo r (c :: cur) (depth - 1) parts
    else if c == ',' && depth == 0 then splitCommasGo r [] depth (cur.reverse :: parts)
    else splitCommasGo r (c :: cur) depth parts

def splitOnCommas (t : List Char) : List (List Char) := splitCommasGo t [] 0 []

/-! ## `parse_passage_params` (ASCII identifiers) -/

inductive ParamDiag
  | order (name : List Char) | badName (name : List Char) | keyword (name : List Char) | duplicate (name : List Char)
  | emptyDefault (name : List Char) | badDefault (name : List Char)
  /-- the table of CPython's answers has none for this default (model-side outcome only) -/
  | oracleMiss (default : List Char)
  deriving Repr, DecidableEq

def isIdStartA (c : Char) : Bool := c.isAlpha || c == '_'
def isIdCharA (c : Char) : Bool := c.isAlphanum || c == '_'

/-- `str.isidentifier()` restricted to ASCII input -/
def isIdentifierA : List Char → Bool
  | [] => false
  | c :: r => isIdStartA c && r.all isIdCharA

def pyKeywords : List String :=
  ["False", "None", "True", "and", "as", "assert", "async", "await", "break", "class", "continue", "def", "del",
   "elif", "else", "except", "finally", "for", "from", "global", "if", "import", "in", "is", "lambda", "nonlocal",
   "not", "or", "pass", "raise", "return", "try", "while", "with", "yield"]

structure Param where
  name : List Char
  default : Option (List Char)
  deriving Repr, DecidableEq

/-- is the default a Python expression?  `some true` / `some false` = `ast.parse(default, mode="eval")` succeeds / raises;
`none` = no answer recorded -/
abbrev ExprOracle := List Char → Option Bool

def parseParamsGo (ex : ExprOracle) : List (List Char) → Bool → List (List Char) → List Param → PyM (Except ParamDiag (List Param))
  | [], _, _, acc => .ok (.ok acc.reverse)
  | part :: rest, seenOpt, names, acc =>
    let part := stripL part
    if part.isEmpty then parseParamsGo ex rest seenOpt names acc
    else do
      let (name, dflt, seenOpt', orderErr) ←
        if part.contains '=' then do
          let e ← pyIndexOf '=' part
          pure (stripL (part.take e), some (stripL (part.drop (e + 1))), true, false)
        else pure (part, (none : Option (List Char)), seenOpt, seenOpt)
      if dflt == some [] then .ok (.error (.emptyDefault name))
      else if (dflt.bind ex) == some false then .ok (.error (.badDefault name))
      else if dflt.isSome && (dflt.bind ex).isNone then .ok (.error (.oracleMiss (dflt.getD [])))
      else if orderErr then .ok (.error (.order name))
      else if !isIdentifierA name then .ok (.error (.badName name))
      else if pyKeywords.contains (String.ofList name) then .ok (.error (.keyword name))
      else if names.contains name then .ok (.error (.duplicate name))
      else parseParamsGo ex rest seenOpt' (name :: names) ({ name := name, default := dflt } :: acc)

def parsePassageParams (ex : ExprOracle) (s : List Char) : PyM (Except ParamDiag (List Param)) :=
  if s.isEmpty then .ok (.ok []) else parseParamsGo ex (splitOnCommas s) false [] []

/-! ## `validate_passage_name` -/

inductive NameDiag
  | empty
  | spaces (fixed : List Char) | hyphens (fixed : List Char) | digit (fixed : List Char)
  | badChar (c : Char) (pos : Nat)
  | generic
  deriving Repr, DecidableEq

def isAsciiAlpha (c : Char) : Bool := ('a' ≤ c && c ≤ 'z') || ('A' ≤ c && c ≤ 'Z')
def isAsciiDigit (c : Char) : Bool := '0' ≤ c && c ≤ '9'

/-- `^[a-zA-Z_][a-zA-Z0-9_.]*$` (names never contain a newline: they come from one line) -/
def validName : List Char → Bool
  | [] => false
  | c :: r => (isAsciiAlpha c || c == '_') && r.all (fun d => isAsciiAlpha d || isAsciiDigit d || d == '_' || d == '.')

/-- first character that `char.isalnum() or char in "_."` rejects; `alnum` is Python's (Unicode) `str.isalnum`,
`digit` its `str.isdigit` — parameters, so the theorems hold for every character classification -/
def firstBad (alnum : Char → Bool) : List Char → Nat → Option (Char × Nat)
  | [], _ => none
  | c :: r, i => if !(alnum c || c == '_' || c == '.') then some (c, i + 1) else firstBad alnum r (i + 1)

def replaceChar (a b : Char) (s : List Char) : List Char := s.map (fun c => if c == a then b else c)

/-- `validate_passage_name(name)`: `none` = accepted, `some d` = the SyntaxError raised.
The suggestion local is `None` until a branch assigns it; the final `suggestion or "<generic>"` is `generic`. -/
def validatePassageName (alnum digit : Char → Bool) (name : List Char) : PyM (Option NameDiag) :=
  if name.isEmpty || name.all isPyWs then .ok (some .empty)
  else if validName name then .ok none
  else if name.contains ' ' then .ok (some (.spaces (replaceChar ' ' '_' name)))
  else if name.contains '-' then .ok (some (.hyphens (replaceChar '-' '_' name)))
  else do
    let c0 ← pyHead name
    if digit c0 then .ok (some (.digit ('_' :: name)))
    else
      let suggestion : Option NameDiag := (firstBad alnum name 0).map (fun p => .badChar p.1 p.2)
      .ok (some (suggestion.getD .generic))

/-! ## `extract_multiline_expression` -/

def isOpenB (c : Char) : Bool := c == '[' || c == '{' || c == '('
def openerOf (c : Char) : Option Char :=
  if c == ']' then some '[' else if c == '}' then some '{' else if c == ')' then some '(' else none

/-- the `for char in line` scan; the stack's top is the head of the list.  `break` on a mismatch (or on a
closer when the stack is empty) leaves the rest of the line unscanned. -/
def scanBrackets : List Char → List Char → PyM (List Char)
  | [], st => .ok st
  | c :: r, st =>
    if isOpenB c then scanBrackets r (c :: st)
    else match openerOf c with
      | none => scanBrackets r st
      | some o =>
        if st.isEmpty then .ok st                 -- `bracket_stack and …` is false: break
        else do
          let top ← pyHead st                       -- `bracket_stack[-1]`
          if top == o then scanBrackets r st.tail else .ok st

/-- the `while i < len(lines) and bracket_stack` loop over the lines after the first -/
def collectLines : List (List Char) → List Char → PyM (List (List Char))
  | [], _ => .ok []
  | l :: ls, st =>
    if st.isEmpty then .ok []
    else do
      let st' ← scanBrackets l st
      if st'.isEmpty then .ok [l]
      else do
        let more ← collectLines ls st'
        .ok (l :: more)

/-- `extract_multiline_expression(lines, start, initial)` = (collected lines, lines consumed) -/
def multiline (lines : List (List Char)) (start : Nat) (init : List Char) : PyM (List (List Char) × Nat) :=
  let stripped := stripL init
  match stripped.getLast? with
  | none => .ok ([init], 1)
  | some e =>
    if !isOpenB e then .ok ([init], 1)
    else do
      let more ← collectLines (lines.drop (start + 1)) (stripped.filter isOpenB).reverse
      .ok (init :: more, more.length + 1)

/-! ## Python blocks -/

inductive BlockDiag
  | missingColon | unclosed
  deriving Repr, DecidableEq

/-- `_extract_py_new_syntax`: (code lines, lines consumed) -/
def pyNewGo : List (List Char) → List (List Char) → Option (List (List Char) × Nat)
  | [], _ => none
  | l :: ls, acc => if stripL l == "@endpy".toList then some (dedent acc.reverse, acc.length + 2) else pyNewGo ls (l :: acc)

def pyNew (lines : List (List Char)) (start : Nat) : PyM (Except BlockDiag (List (List Char) × Nat)) := do
  let l0 ← (match lines[start]? with | some l => pure l | none => .error .indexError)
  if stripL l0 != "@py:".toList then .ok (.error .missingColon)
  else match pyNewGo (lines.drop (start + 1)) [] with
    | none => .ok (.error .unclosed)
    | some r => .ok (.ok r)

/-- `_extract_py_old_syntax`: the lines up to the closing `>>` are dedented by the shared helper; a block that is
never closed by `>>` silently runs to the end of the text (and reports one line more than there is). -/
def pyOldGo : List (List Char) → List (List Char) → List (List Char) × Nat
  | [], acc => (dedent acc.reverse, acc.length + 2)
  | l :: ls, acc =>
    if stripL l == ">>".toList then (dedent acc.reverse, acc.length + 2)
    else pyOldGo ls (l :: acc)

def pyOld (lines : List (List Char)) (start : Nat) : List (List Char) × Nat :=
  pyOldGo (lines.drop (start + 1)) []

end Bardic.Parser
