import Bardic.Parser.Re
import Bardic.Parser.Choice
import Bardic.Parser.Content
/-!
# The text-level parser, part 1: values, results, string helpers, line-level sub-parsers

`bardic/compiler/parsing/*` as Lean functions over lines of characters: `parse(source)` is
`Bardic.Parser.parseText` (`Core.lean`); this file holds what it is built from.

* `J` — the JSON-shaped value the Python code builds (dicts keep insertion order).
* `PM` — the outcome of a parser function: a value, or a **deliberate diagnostic** (`raise SyntaxError(
  format_error(.., line_num=k, ..))` becomes `Fail.diag .syntax (some k)`; a diagnostic raised without
  location, `raise SyntaxError(str(e))`, has `none`), or an **internal error** (a partial Python
  operation whose guard does not hold — C11 says this never happens), or exhausted fuel (a `while`
  loop that does not advance — C11 says this never happens either).
* CPython's own parser (`ast.parse` for `~` statements and for call arguments) is a parameter
  (`PyOracle`), answered from a table recorded while the real compiler ran on the same text.
-/
namespace Bardic.Parser

abbrev Line := List Char

inductive J where
  | null
  | bool (b : Bool)
  | num (n : Int)
  | str (s : Line)
  | arr (xs : List J)
  | obj (kvs : List (String × J))
  deriving Inhabited

inductive DiagCls | syntax | value
  deriving DecidableEq, Repr

inductive Fail where
  | diag (cls : DiagCls) (line : Option Nat) (what : String)
  | internal (what : String)
  | fuel
  | oracleMiss (q : Line)

abbrev PM := Except Fail

def synErr {α} (line : Nat) (what : String) : PM α := .error (.diag .syntax (some line) what)
def synErrNoLoc {α} (what : String) : PM α := .error (.diag .syntax none what)
def valErr {α} (what : String) : PM α := .error (.diag .value none what)

/-- lift a component written over `PyM` (explicit internal errors) -/
def liftPy {α} (what : String) : PyM α → PM α
  | .ok a => .ok a
  | .error _ => .error (.internal what)

/-! ## strings -/

def sw (s : Line) (p : String) : Bool := isPrefixL p.toList s
def ew (s : Line) (p : String) : Bool := isPrefixL p.toList.reverse s.reverse
def strEq (s : Line) (p : String) : Bool := s == p.toList
def swAny (s : Line) (ps : List String) : Bool := ps.any (sw s)

/-- `s.split()` -/
def splitWsGo : Line → Line → List Line → List Line
  | [], cur, acc => (if cur.isEmpty then acc else cur.reverse :: acc).reverse
  | c :: r, cur, acc =>
    if isPyWs c then splitWsGo r [] (if cur.isEmpty then acc else cur.reverse :: acc)
    else splitWsGo r (c :: cur) acc
def splitWs (s : Line) : List Line := splitWsGo s [] []

/-- `"\n".join(lines)` -/
def joinNl : List Line → Line
  | [] => []
  | [l] => l
  | l :: r => l ++ '\n' :: joinNl r

/-- `source.split("\n")` -/
def splitNlGo : Line → Line → List Line → List Line
  | [], cur, acc => (cur.reverse :: acc).reverse
  | c :: r, cur, acc => if c == '\n' then splitNlGo r [] (cur.reverse :: acc) else splitNlGo r (c :: cur) acc
def splitNl (s : Line) : List Line := splitNlGo s [] []

def indentOf (l : Line) : Nat := l.length - (lstripL l).length

/-- `drop_inline_comment` -/
def dropComment (line : Line) : Line :=
  let p := strip line
  if p.2.isEmpty then line else rstripL (line.take (line.length - p.2.length))

/-- `line.rstrip().endswith("<>")` and the line without it -/
def glueSplit (line : Line) : Option Line :=
  let r := rstripL line
  if ew r "<>" then some (r.take (r.length - 2)) else none

/-! ## tokens as JSON -/

def jstr (s : String) : J := .str s.toList
def tagsJ (tags : List Line) : J := .arr (tags.map .str)

mutual
def ctokJ : CTok → J
  | .text s tags => .obj ([("type", jstr "text"), ("value", .str s)] ++ (if tags.isEmpty then [] else [("tags", tagsJ tags)]))
  | .expr c tags => .obj ([("type", jstr "expression"), ("code", .str c)] ++ (if tags.isEmpty then [] else [("tags", tagsJ tags)]))
  | .cond c t f tags =>
    .obj ([("type", jstr "inline_conditional"), ("condition", .str c), ("truthy", .arr (ctoksJ t)), ("falsy", .arr (ctoksJ f))]
      ++ (if tags.isEmpty then [] else [("tags", tagsJ tags)]))
def ctoksJ : List CTok → List J
  | [] => []
  | t :: r => ctokJ t :: ctoksJ r
end

def nlTok : J := .obj [("type", jstr "text"), ("value", jstr "\n")]

/-- `parse_content_line(line, k, lines, …)`: `loc = some k` when the caller passes the lines (a located
diagnostic), `none` when it passes `lines=None` (`raise SyntaxError(str(e))`) -/
def contentToks (line : Line) (loc : Option Nat) (stripComments : Bool := true) : PM (List J) :=
  match contentLine (line.length + 1) stripComments line with
  | .ok toks => .ok (ctoksJ toks)
  | .diag _ => .error (.diag .syntax loc "Expression Error")
  | .outOfFuel => .error .fuel

/-- a content line with the glue check, as the passage level, the branch-end flush and the loop body do it -/
def contentLineGlue (line : Line) (loc : Option Nat) : PM (List J) := do
  let line := dropComment line
  match glueSplit line with
  | some cl => contentToks cl loc
  | none => do
    let t ← contentToks line loc
    pure (t ++ [nlTok])

/-! ## regular expressions of the parser -/

def dot : Re := .chr (· != '\n')
def ws : Re := .chr isPyWs
def wordc : Re := .chr isWord

/-- `@KW\s+(.+):` -/
def reAtCond (kw : String) : Re := Re.seqs [Re.lit kw, Re.plus ws, .group 1 (Re.plus dot), Re.lit ":"]
/-- `<<KW\s+(.+?)>>` -/
def reOldCond (kw : String) : Re := Re.seqs [Re.lit kw, Re.plus ws, .group 1 (Re.plus dot false), Re.lit ">>"]
/-- `@for\s+(.+?)\s+in\s+(.+):` -/
def reAtFor : Re :=
  Re.seqs [Re.lit "@for", Re.plus ws, .group 1 (Re.plus dot false), Re.plus ws, Re.lit "in", Re.plus ws,
           .group 2 (Re.plus dot), Re.lit ":"]
/-- `<<for\s+(.+?)\s+in\s+(.+?)>>` -/
def reOldFor : Re :=
  Re.seqs [Re.lit "<<for", Re.plus ws, .group 1 (Re.plus dot false), Re.plus ws, Re.lit "in", Re.plus ws,
           .group 2 (Re.plus dot false), Re.lit ">>"]
/-- `->\s*(.+)` -/
def reJumpTop : Re := Re.seqs [Re.lit "->", .star ws true, .group 1 (Re.plus dot)]
/-- `->\s*([\w.]+)` -/
def reJumpBlock : Re := Re.seqs [Re.lit "->", .star ws true, .group 1 (Re.plus (.chr fun c => isWord c || c == '.'))]
/-- `\[(.*?)\]\s*->\s*(.+)` -/
def reChoice : Re :=
  Re.seqs [Re.lit "[", .group 2 (.star dot false), Re.lit "]", .star ws true, Re.lit "->", .star ws true,
           .group 3 (Re.plus dot)]
/-- `\{([^}]+)\}\s*\[(.*?)\]\s*->\s*(.+)` -/
def reCondChoice : Re :=
  Re.seqs [Re.lit "{", .group 1 (Re.plus (.chr (· != '}'))), Re.lit "}", .star ws true, reChoice]
/-- `^:(\w+)\s+(.+)$` -/
def reRenderHint : Re := Re.seqs [Re.lit ":", .group 1 (Re.plus wordc), Re.plus ws, .group 2 (Re.plus dot), .eos]
/-- `^(\w+)(?:\((.*)\))?$` -/
def reRenderDirective : Re :=
  Re.seqs [.group 1 (Re.plus wordc), Re.opt (Re.seqs [Re.lit "(", .group 2 (.star dot true), Re.lit ")"]), .eos]
/-- `(\w+)="([^"]*)"` -/
def reAttr : Re :=
  Re.seqs [.group 1 (Re.plus wordc), Re.lit "=\"", .group 2 (.star (.chr (· != '"')) true), Re.lit "\""]

/-! ## `parse_choice_line` -/

/-- `None` (not a choice), or the choice dict without its `section` -/
def parseChoiceLine (line : Line) : PM (Option (List (String × J))) := do
  let line := (strip line).1
  let (lwt, tags) := parseTags line
  let hd : Option (Bool × Line) :=
    if sw lwt "+ " then some (true, stripL (lwt.drop 2))
    else if sw lwt "* " then some (false, stripL (lwt.drop 2))
    else none
  match hd with
  | none => pure none
  | some (sticky, cl) =>
    let m := if sw cl "{" then reMatch reCondChoice cl else reMatch reChoice cl
    match m with
    | none => pure none
    | some cs =>
      let cond : J := if sw cl "{" then .str (cap cs 1) else .null
      let (target, args) ← liftPy "extract_target_and_args" (extractTargetAndArgs (stripL (cap cs 3)))
      let text ← contentToks (cap cs 2) none false
      pure (some [("text", .arr text), ("target", .str target), ("args", .str args), ("condition", cond),
                  ("sticky", .bool sticky), ("tags", tagsJ tags)])

/-! ## `@render` / `@input` lines -/

/-- `parse_render_line(line, k, lines, …)`; `loc = none` is the call without `lines` (errors become `None`) -/
def parseRenderLine (line : Line) (loc : Option Nat) : PM (Option J) := do
  let line := (strip line).1
  let st := stripL line
  if !sw st "@render" then pure none
  else
    let after := st.drop 7
    let hd : PM (Option (J × Line)) :=
      if sw after ":" then
        match reMatch reRenderHint after with
        | some cs => pure (some (.str (cap cs 1), cap cs 2))
        | none =>
          match loc with
          | some k => synErr k "Invalid @render:framework syntax"
          | none => pure none
      else if !(stripL after).isEmpty then pure (some (.null, stripL after))
      else
        match loc with
        | some k => synErr k "@render directive missing directive name"
        | none => pure none
    match (← hd) with
    | none => pure none
    | some (hint, ds) =>
      match reMatch reRenderDirective (stripL ds) with
      | none => pure none
      | some cs =>
        pure (some (.obj [("type", jstr "render_directive"), ("name", .str (cap cs 1)),
                          ("args", .str (stripL (cap cs 2))), ("framework_hint", hint)]))

/-- Python's `str.title()` on ASCII text -/
def titleL : Line → Bool → Line
  | [], _ => []
  | c :: r, start =>
    if c.isAlpha then (if start then c.toUpper else c.toLower) :: titleL r false
    else c :: titleL r true

def objSet (kvs : List (String × J)) (k : String) (v : J) : List (String × J) :=
  if kvs.any (·.1 == k) then kvs.map (fun kv => if kv.1 == k then (k, v) else kv) else kvs ++ [(k, v)]

def objGet? (kvs : List (String × J)) (k : String) : Option J := kvs.lookup k

/-- `parse_input_line` -/
def parseInputLine (line : Line) (loc : Option Nat) : PM (Option J) := do
  let line := (strip line).1
  let st := stripL line
  if !sw st "@input" then pure none
  else
    let after := stripL (st.drop 6)
    if after.isEmpty then
      match loc with
      | some k => synErr k "@input directive missing parameters"
      | none => pure none
    else
      let ms := reFindAll reAttr (after.length + 1) after
      -- (an attribute named `type` does not overwrite the token's own type)
      let spec := ms.foldl (fun acc cs =>
        if String.ofList (cap cs 1) == "type" then acc else objSet acc (String.ofList (cap cs 1)) (.str (cap cs 2))) [("type", jstr "input")]
      match objGet? spec "name" with
      | none =>
        match loc with
        | some k => synErr k "@input directive missing required 'name' attribute"
        | none => pure none
      | some nameJ =>
        let name : Line := match nameJ with | .str s => s | _ => []
        let spec := if (objGet? spec "label").isNone then
            spec ++ [("label", .str (titleL (name.map fun c => if c == '_' then ' ' else c) true))] else spec
        let spec := if (objGet? spec "placeholder").isNone then spec ++ [("placeholder", jstr "")] else spec
        pure (some (.obj spec))

/-- `@hook ev target` / `@unhook ev target` given the stripped line: the token when there are exactly three words -/
def hookTok (stripped : Line) (add : Bool) : Option J :=
  match splitWs stripped with
  | [_, ev, tgt] =>
    some (.obj [("type", jstr "hook"), ("action", jstr (if add then "add" else "remove")), ("event", .str ev), ("target", .str tgt)])
  | _ => none

def stmtTok (code : Line) : J := .obj [("type", jstr "python_statement"), ("code", .str code)]
def pyBlockTok (code : Line) : J := .obj [("type", jstr "python_block"), ("code", .str code)]

/-- the code of a `~` line: text after the two-character prefix, stripped, comment removed, right-stripped -/
def stmtCode (afterPrefix : Line) : Line := rstripL (strip (stripL afterPrefix)).1

/-! ## CPython's parser as a parameter -/

inductive StmtVerdict
  | ok
  | syntaxError (lineno : Option Nat)     -- `e.lineno`
  | tooComplex                            -- MemoryError / RecursionError inside `ast.parse`
  | miss

inductive CallVerdict
  | shape (npos : Nat) (kws : List Line)  -- number of positional arguments, keyword names in order
  | star                                  -- a `*seq` or `**mapping` argument
  | syntaxError
  | miss

inductive ExprVerdict
  | ok | bad | miss

structure PyOracle where
  /-- `ast.parse(code, mode="eval")` for a parameter default -/
  expr : Line → ExprVerdict
  /-- `ast.parse(code)` for a `~` statement -/
  stmt : Line → StmtVerdict
  /-- `ast.parse("_temp_(" + args + ")", mode="eval")` -/
  call : Line → CallVerdict

end Bardic.Parser
