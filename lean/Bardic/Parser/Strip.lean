import Bardic.Base
/-!
# `strip_inline_comment` and `detect_and_strip_indentation` on character lists
-/
namespace Bardic.Parser

/-- `strip_inline_comment(line)`: (content, comment).  Left to right: `\//` is a literal `//`,
`//=` is kept (floor-division assignment), the first other `//` starts the comment. -/
def strip : List Char → List Char × List Char
  | '\\' :: '/' :: '/' :: r => let p := strip r; ('/' :: '/' :: p.1, p.2)
  | '/' :: '/' :: '=' :: r => let p := strip r; ('/' :: '/' :: '=' :: p.1, p.2)
  | '/' :: '/' :: r => ([], '/' :: '/' :: r)
  | c :: r => let p := strip r; (c :: p.1, p.2)
  | [] => ([], [])

def stripStr (s : String) : String × String :=
  let p := strip s.toList
  (String.ofList p.1, String.ofList p.2)

def leadingWs : List Char → Nat
  | [] => 0
  | c :: cs => if isPyWs c then leadingWs cs + 1 else 0

def isBlank (l : List Char) : Bool := l.all isPyWs

/-- a `#` comment line -/
def isCommentLine (l : List Char) : Bool := (lstripL l).head? == some '#'

/-- indentation of the first non-blank line (when `skipC`: that is not a `#` comment either) -/
def baseIndentP (skipC : Bool) : List (List Char) → Option Nat
  | [] => none
  | l :: ls => if isBlank l || (skipC && isCommentLine l) then baseIndentP skipC ls else some (leadingWs l)

/-- the indentation base of a block body: the first non-blank line that is not a `#` comment; a body made of
comments only falls back to its first non-blank line -/
def baseIndent (ls : List (List Char)) : Option Nat :=
  match baseIndentP true ls with
  | some b => some b
  | none => baseIndentP false ls

def dedentLine (base : Nat) (l : List Char) : List Char :=
  if isBlank l then [] else if leadingWs l ≥ base then l.drop base else l

/-- `detect_and_strip_indentation(lines)` -/
def dedent (ls : List (List Char)) : List (List Char) :=
  match baseIndent ls with
  | none => ls.map (fun _ => [])
  | some b => ls.map (dedentLine b)

end Bardic.Parser
