import Bardic.Parser.Blocks
/-!
# The text-level parser, part 3: `parse(source)` (`bardic/compiler/parsing/core.py`, `preprocessing.py`,
`validation.py`)

`parseText oracle source` is `parse(source)`: directive comments are stripped, the line classifier walks
the lines, then whitespace cleanup, trailing-newline trim, duplicate check, call validation, initial passage.
-/
namespace Bardic.Parser

/-! ## `strip_directive_comments` -/

def commentable : List String :=
  ["@endif", "@endfor", "@endpy", "@py", "@else", "@join", "@hook ", "@unhook ", "@start ", "@metadata", "->", ">>"]

def stripDirectiveCommentsGo : List Line → Option String → List Line → List Line
  | [], _, acc => acc.reverse
  | line :: rest, closer, acc =>
    let st := stripL line
    let cm := match closer with
      | none => swAny st commentable
      | some c => sw st c
    let line' :=
      if cm then
        let p := strip line
        if p.2.isEmpty then line else rstripL p.1
      else line
    let st' := stripL line'
    let closer' := match closer with
      | none => if sw st' "@py" then some "@endpy" else if sw st' "<<py" then some ">>" else none
      | some c => if strEq st' c then none else some c
    stripDirectiveCommentsGo rest closer' (line' :: acc)

def stripDirectiveComments (ls : List Line) : List Line := stripDirectiveCommentsGo ls none []

/-! ## passages under construction -/

structure PPassage where
  id : Line
  params : List J
  content : List J := []
  choices : List J := []
  execute : List J := []
  tags : List Line := []
  inputs : Option (List J) := none
  joinCount : Option Nat := none
  curSection : Option Nat := none

def PPassage.toJ (p : PPassage) : J :=
  .obj ([("id", .str p.id), ("params", .arr p.params), ("content", .arr p.content), ("choices", .arr p.choices),
         ("execute", .arr p.execute), ("tags", tagsJ p.tags)]
    ++ (match p.inputs with | some ds => [("input_directives", .arr ds)] | none => [])
    ++ (match p.joinCount with | some n => [("_join_count", .num n)] | none => [])
    ++ (match p.curSection with | some n => [("current_section", .num n)] | none => []))

structure PSt where
  imports : List Line := []
  metadata : List (Line × Line) := []
  passages : List (Line × PPassage) := []        -- insertion-ordered dict
  locations : List (Line × List Nat) := []
  cur : Option Line := none
  explicitStart : Option Line := none
  inImports : Bool := true
  inMeta : Bool := false

def dictSet {β} (d : List (Line × β)) (k : Line) (v : β) : List (Line × β) :=
  if d.any (·.1 == k) then d.map (fun kv => if kv.1 == k then (k, v) else kv) else d ++ [(k, v)]

def PSt.modCur (s : PSt) (f : PPassage → PPassage) : PSt :=
  match s.cur with
  | none => s
  | some k => { s with passages := s.passages.map (fun kv => if kv.1 == k then (kv.1, f kv.2) else kv) }

def PSt.curPassage (s : PSt) : Option PPassage := s.cur.bind (fun k => s.passages.lookup k)

def paramJ (p : Param) : J :=
  .obj [("name", .str p.name), ("default", match p.default with | some d => .str d | none => .null)]

def isAsciiAlnum (c : Char) : Bool := isAsciiAlpha c || isAsciiDigit c

/-- `key, value = stripped.split(":", 1)` -/
def splitColon (s : Line) : Option (Line × Line) := splitFirstL ':' s

def jGetStr (j : J) (k : String) : Option Line :=
  match j with
  | .obj kvs => (match kvs.lookup k with | some (.str s) => some s | _ => none)
  | _ => none

/-! ## the line classifier -/

/-- one passage header line -/
def headerLine (O : PyOracle) (line : Line) (i : Nat) (s : PSt) : PM PSt := do
  let header := stripL (strip (stripL (line.drop 3))).1
  let (nameWithTags, paramsStr) ← liftPy "extract_passage_params" (extractPassageParams header)
  let (name, tags) := parseTags nameWithTags
  match (← liftPy "validate_passage_name" (validatePassageName isAsciiAlnum isAsciiDigit name)) with
  | some _ => synErr i "Invalid Passage Name"
  | none => pure ()
  let params ←
    if paramsStr.isEmpty then pure []
    else match (← liftPy "parse_passage_params"
        (parsePassageParams (fun d => match O.expr d with | .ok => some true | .bad => some false | .miss => none) paramsStr)) with
      | .ok ps => pure ps
      | .error (.oracleMiss d) => .error (.oracleMiss d)
      | .error _ => synErr i "Invalid Parameter"
  let locs := (s.locations.lookup name).getD []
  pure { s with
    locations := dictSet s.locations name (locs ++ [i + 1])
    passages := dictSet s.passages name { id := name, params := params.map paramJ, tags := tags }
    cur := some name }

def isJoinTarget (ch : List (String × J)) : Bool :=
  match ch.lookup "target" with
  | some (.str t) => strEq t "@join"
  | _ => false

/-- a top-level choice line: the choice dict (with its section and, for `-> @join`, its block) and the
number of block lines consumed after it -/
def topChoice (lines : Lines) (i : Nat) (line : Line) (sec : Nat) : PM (J × Nat) := do
  match (← liftPy "validate_choice_syntax" (validateChoice line)) with
  | some _ => synErr i "Malformed Choice"
  | none => pure ()
  match (← parseChoiceLine line) with
  | none => synErr i "Internal Error: Choice validation passed but parsing failed"
  | some ch =>
    if isJoinTarget ch then do
      let (bc, be, n) ← extractJoinBlock lines (i + 1) (indentOf line)
      pure (.obj (ch ++ [("section", .num sec)] ++ (if bc.isEmpty then [] else [("block_content", .arr bc)])
                     ++ (if be.isEmpty then [] else [("block_execute", .arr be)])), n)
    else pure (.obj (ch ++ [("section", .num sec)]), 0)

/-- the `while i < len(lines)` of `_parse_source` -/
def coreLoop (O : PyOracle) (lines : Lines) : Nat → Nat → PSt → PM PSt
  | 0, _, _ => .error .fuel
  | f + 1, i, s =>
    if h : i < lines.size then
      match lines[i], stripL lines[i] with
      | line, st =>
      -- imports section
      if s.inImports && (st.isEmpty || sw st "#") then coreLoop O lines f (i + 1) s
      else if s.inImports && (sw st "import " || sw st "from ") then
        -- the line must be Python (`ast.parse(line)`): the engine executes it as it stands
        match O.stmt line with
        | .ok => coreLoop O lines f (i + 1) { s with imports := s.imports ++ [line] }
        | .miss => .error (.oracleMiss line)
        | _ => synErr i "Invalid Import"
      else
        match ({ s with inImports := false } : PSt) with
        | s =>
        if strEq st "@metadata" then coreLoop O lines f (i + 1) { s with inMeta := true }
        else if s.inMeta && (st.isEmpty || sw st "#") then coreLoop O lines f (i + 1) s
        else if s.inMeta && (sw line " " || sw line "\t") && st.contains ':' then
          match splitColon st with
          | some (k, v) => coreLoop O lines f (i + 1) { s with metadata := dictSet s.metadata (stripL k) (stripL v) }
          | none => .error (.internal "metadata split")
        else
          match ({ s with inMeta := false } : PSt) with
          | s =>
          if sw st "@start " then coreLoop O lines f (i + 1) { s with explicitStart := some (stripL (st.drop 7)) }
          else if sw line ":: " then do
            let s ← headerLine O line i s
            coreLoop O lines f (i + 1) s
          else
            match s.curPassage with
            | none => coreLoop O lines f (i + 1) s
            | some cp =>
              if sw st "#" then coreLoop O lines f (i + 1) s
              else if sw st "<<py" || sw st "@py" then do
                let (code, n) ← extractPythonBlock lines i
                coreLoop O lines f (i + n) (s.modCur fun p => { p with execute := p.execute ++ [pyBlockTok code] })
              else if sw st "<<if " || sw st "@if " then do
                let (c, n) ← extractCond lines f i
                coreLoop O lines f (i + n) (s.modCur fun p => { p with content := p.content ++ [c] })
              else if sw st "<<for " || sw st "@for " then do
                let (c, n) ← extractLoop lines f i
                coreLoop O lines f (i + n) (s.modCur fun p => { p with content := p.content ++ [c] })
              else if sw st "@render" then do
                let d ← parseRenderLine line (some i)
                coreLoop O lines f (i + 1)
                  (match d with | some d => s.modCur fun p => { p with content := p.content ++ [d] } | none => s)
              else if sw st "@input" then do
                let d ← parseInputLine line (some i)
                coreLoop O lines f (i + 1)
                  (match d with
                   | some d => s.modCur fun p => { p with inputs := some (p.inputs.getD [] ++ [d]) }
                   | none => s)
              else if sw st "@hook " then
                match hookTok st true with
                | some d => coreLoop O lines f (i + 1) (s.modCur fun p => { p with execute := p.execute ++ [d] })
                | none => synErr i "@hook requires exactly 2 arguments"
              else if sw st "@unhook " then
                match hookTok st false with
                | some d => coreLoop O lines f (i + 1) (s.modCur fun p => { p with execute := p.execute ++ [d] })
                | none => synErr i "@unhook requires exactly 2 arguments"
              else if strEq st "@join" then
                coreLoop O lines f (i + 1) (s.modCur fun p =>
                  { p with joinCount := some (cp.joinCount.getD 0 + 1)
                           content := p.content ++ [.obj [("type", jstr "join_marker"), ("id", .num (cp.joinCount.getD 0))]]
                           curSection := some (p.curSection.getD 0 + 1) })
              else if sw st "->" then
                match reMatch reJumpTop st with
                | some cs => do
                  let (t, a) ← liftPy "extract_target_and_args" (extractTargetAndArgs (stripL (cap cs 1)))
                  coreLoop O lines f (i + 1) (s.modCur fun p =>
                    { p with content := p.content ++ [.obj [("type", jstr "jump"), ("target", .str t), ("args", .str a)]] })
                | none => coreLoop O lines f (i + 1) s
              else if sw line "~ " then do
                let (ls, n) ← liftPy "extract_multiline_expression" (multiline lines.toList i (stmtCode (line.drop 2)))
                match O.stmt (joinNl ls) with
                | .ok => coreLoop O lines f (i + n) (s.modCur fun p => { p with execute := p.execute ++ [stmtTok (joinNl ls)] })
                -- (Python also ends a line at a bare carriage return: its line count is kept on the statement's own lines)
                | .syntaxError ln => synErr (i + (match ln with | some k => min (k - 1) (n - 1) | none => 0)) "Invalid Python Syntax"
                | .tooComplex => synErr i "Python statement is too complex to parse"
                | .miss => .error (.oracleMiss (joinNl ls))
              else if sw line "+ " || sw line "* " then
                do
                let (ch, n) ← topChoice lines i line (cp.curSection.getD 0)
                coreLoop O lines f (i + n + 1) (s.modCur fun p =>
                  { p with curSection := some (cp.curSection.getD 0), choices := p.choices ++ [ch] })
              else if !st.isEmpty then do
                let t ← contentLineGlue line (some i)
                coreLoop O lines f (i + 1) (s.modCur fun p => { p with content := p.content ++ t })
              else
                coreLoop O lines f (i + 1) (s.modCur fun p => { p with content := p.content ++ [nlTok] })
    else pure s

/-! ## after the loop -/

def jIsNl : J → Bool
  | .obj kvs =>
    (match kvs.lookup "type", kvs.lookup "value" with
     | some (.str t), some (.str v) => strEq t "text" && strEq v "\n"
     | _, _ => false)
  | _ => false

def jIsCond : J → Bool
  | .obj kvs => (match kvs.lookup "type" with | some (.str t) => strEq t "conditional" | _ => false)
  | _ => false

def jHead (p : J → Bool) : List J → Bool
  | t :: _ => p t
  | [] => false

/-- `_cleanup_whitespace` (`acc` = cleaned, reversed) -/
def cleanupJ : List J → List J → List J
  | [], acc => acc.reverse
  | t :: rest, acc =>
    if jIsNl t && jHead jIsCond rest && jHead jIsNl acc then cleanupJ rest acc
    else if jIsNl t && jHead jIsCond acc && jHead jIsNl rest then cleanupJ rest acc
    else cleanupJ rest (t :: acc)

/-- `_trim_trailing_newlines` -/
def trimJ (ts : List J) : List J :=
  let n := (ts.reverse.takeWhile jIsNl).length
  if n > 1 then ts.take (ts.length - (n - 1)) else ts

/-- a call site as `validate_passage_arguments` sees it -/
def validateCall (O : PyOracle) (passages : List (Line × PPassage)) (target args : Line) : PM Unit :=
  if strEq target "@join" then pure ()
  else
    match passages.lookup target with
    | none => synErrNoLoc "Target passage does not exist"
    | some tp =>
      let params := tp.params
      if params.isEmpty then
        if !args.isEmpty then synErrNoLoc "takes no parameters" else pure ()
      else
        match O.call args with
        | .miss => .error (.oracleMiss args)
        | .syntaxError => synErrNoLoc "Malformed arguments"
        | .star => synErrNoLoc "argument unpacking is not supported"
        | .shape npos kws =>
          let names := params.filterMap (fun p => jGetStr p "name")
          let required := params.filterMap (fun p =>
            match p with
            | .obj kvs => (match kvs.lookup "default", kvs.lookup "name" with
                           | some .null, some (.str n) => some n
                           | _, _ => none)
            | _ => none)
          if npos > params.length then synErrNoLoc "too many positional arguments"
          else if kws.any (fun k => !names.contains k) then synErrNoLoc "no parameter named"
          else
            let provided := names.take npos ++ kws
            if required.any (fun r => !provided.contains r) then synErrNoLoc "Missing required parameter(s)"
            else if (names.take npos).any (fun n => kws.contains n) then synErrNoLoc "both positional and keyword"
            else pure ()

/-- the choices of one passage, then its top-level jumps -/
def validateChoices (O : PyOracle) (passages : List (Line × PPassage)) : List J → PM Unit
  | [] => pure ()
  | ch :: rest => do
    validateCall O passages ((jGetStr ch "target").getD []) ((jGetStr ch "args").getD [])
    validateChoices O passages rest

def validateJumps (O : PyOracle) (passages : List (Line × PPassage)) : List J → PM Unit
  | [] => pure ()
  | t :: rest => do
    if jGetStr t "type" == some "jump".toList then
      -- (`@join` is the target of a choice: a passage-level jump to it is rejected)
      if strEq ((jGetStr t "target").getD []) "@join" then synErrNoLoc "-> @join is only valid as the target of a choice"
      else validateCall O passages ((jGetStr t "target").getD []) ((jGetStr t "args").getD [])
    validateJumps O passages rest

def validateArgs (O : PyOracle) (passages : List (Line × PPassage)) : List (Line × PPassage) → PM Unit
  | [] => pure ()
  | (_, p) :: rest => do
    validateChoices O passages p.choices
    validateJumps O passages p.content
    validateArgs O passages rest

/-- what `parse` has established when it returns -/
structure Parsed where
  initial : Line
  passages : List (Line × PPassage)
  metadata : List (Line × Line)
  imports : List Line

def hasRequiredParam (ip : PPassage) : Bool :=
  ip.params.any (fun p => match p with
    | .obj kvs => (match kvs.lookup "default" with | some .null => true | _ => false)
    | _ => false)

/-- `_determine_initial_passage` (the story has at least one passage here) -/
def determineInitial (explicitStart : Option Line) (passages : List (Line × PPassage)) : PM Line :=
  match explicitStart with
  | some e => if passages.any (·.1 == e) then pure e else valErr "Start passage not found"
  | none =>
    if passages.any (·.1 == "Start".toList) then pure "Start".toList
    else pure (match passages with | (k, _) :: _ => k | [] => [])

/-- `_parse_source` from the split lines on, up to the final dict -/
def parseLines (O : PyOracle) (ls : List Line) : PM Parsed := do
  let lines : Lines := (stripDirectiveComments ls).toArray
  -- three units of fuel per line (one per iteration, two handed down to nested block extractors) are always enough:
  -- `Proofs/C11e.lean`
  let s ← coreLoop O lines (3 * lines.size + 3) 0 {}
  let passages := s.passages.map fun kv => (kv.1, { kv.2 with content := trimJ (cleanupJ kv.2.content []) })
  if s.locations.any (fun kv => kv.2.length > 1) then valErr "Duplicate passage names"
  validateArgs O passages passages
  if passages.isEmpty then valErr "Story has no passages"
  let initial ← determineInitial s.explicitStart passages
  -- the game enters the initial passage without arguments
  match passages.lookup initial with
  | some ip => if hasRequiredParam ip then valErr "Initial passage has required parameter(s)"
  | none => pure ()
  pure { initial, passages, metadata := s.metadata, imports := s.imports }

/-- `parse(source)` up to the final dict -/
def parseStory (O : PyOracle) (source : Line) : PM Parsed := parseLines O (splitNl source)

def Parsed.toJ (p : Parsed) : J :=
  .obj [("version", jstr "0.1.0"), ("initial_passage", .str p.initial),
        ("metadata", .obj (p.metadata.map fun kv => (String.ofList kv.1, .str kv.2))),
        ("imports", .arr (p.imports.map .str)),
        ("passages", .obj (p.passages.map fun kv => (String.ofList kv.1, kv.2.toJ)))]

/-- `parse(source)` -/
def parseText (O : PyOracle) (source : Line) : PM J :=
  match parseStory O source with
  | .ok p => .ok p.toJ
  | .error e => .error e

end Bardic.Parser
