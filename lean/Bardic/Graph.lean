import Bardic.Story
/-!
# `bardic.cli.graph.extract_connections`
-/
namespace Bardic

mutual
/-- choices reachable in a token tree: those of conditional branches and loops, at any depth -/
def tokChoices : Tok → List Choice
  | .cond bs => branchesChoices bs
  | .loop _ _ body chs => chs ++ toksChoices body
  | _ => []
def toksChoices : List Tok → List Choice
  | [] => []
  | t :: ts => tokChoices t ++ toksChoices ts
def branchesChoices : List Branch → List Choice
  | [] => []
  | .mk _ body chs :: bs => chs ++ toksChoices body ++ branchesChoices bs
end

mutual
/-- jump targets in a token tree, at any depth -/
def tokJumps : Tok → List String
  | .jump t _ => [t]
  | .cond bs => branchesJumps bs
  | .loop _ _ body _ => toksJumps body
  | _ => []
def toksJumps : List Tok → List String
  | [] => []
  | t :: ts => tokJumps t ++ toksJumps ts
def branchesJumps : List Branch → List String
  | [] => []
  | .mk _ body _ :: bs => toksJumps body ++ branchesJumps bs
end

/-- edges out of one passage: (target, isJump) in the order the real function emits them per kind -/
def passageEdges (p : Passage) : List (String × Bool) :=
  ((p.choices ++ toksChoices p.content).filter (fun c => c.target != "" && c.target != "@join")).map (fun c => (c.target, false))
  ++ ((toksJumps p.content).filter (· != "")).map (fun t => (t, true))

def graphEdges (s : Story) : List (String × String × Bool) :=
  s.passages.flatMap fun kv => (passageEdges kv.2).map fun e => (kv.1, e.1, e.2)

def graphDefined (s : Story) : List String := s.passages.map (·.1)
def graphReferenced (s : Story) : List String := (graphEdges s).map (·.2.1)
/-- referenced targets that are not defined passages -/
def graphMissing (s : Story) : List String :=
  (graphReferenced s).filter fun t => !(graphDefined s).contains t

end Bardic
