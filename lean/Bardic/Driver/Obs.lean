import Bardic.Driver.Load
import Bardic.Engine.Api
/-!
# Driver: canonical observations of the model engine as JSON
-/
namespace Bardic.Driver
open Lean Bardic Bardic.MiniPy

partial def pvJson : PV → Json
  | .none => .null
  | .bool b => .bool b
  | .int i => .num (JsonNumber.fromInt i)
  | .str s => .str s
  | .list l => .arr (l.map pvJson).toArray
  | .dict d => Json.mkObj (d.map fun kv => (kv.1, pvJson kv.2))

partial def jsonPV : Json → Option PV
  | .null => some .none
  | .bool b => some (.bool b)
  | .num n => if n.exponent == 0 then some (.int n.mantissa) else none
  | .str s => some (.str s)
  | .arr a => do return .list (← a.toList.mapM jsonPV)
  | .obj kvs => do return .dict (← kvs.toList.mapM fun (k, v) => do return (k, ← jsonPV v))

def envJson (e : Env PV) : Json := Json.mkObj (e.map fun kv => (kv.1, pvJson kv.2))

def optStr : Option String → Json
  | some s => .str s
  | none => .null

def choiceJson (o : OChoice) : Json :=
  Json.mkObj [("text", .str o.text), ("target", .str o.c.target), ("args", .str o.c.args),
    ("condition", optStr o.c.cond), ("sticky", .bool o.c.sticky), ("section", .num o.c.sec),
    ("tags", .arr (o.c.tags.map Json.str).toArray), ("block", .bool o.isBlock)]

def dirJson : Dir PV → Json
  | .renderEval name data hint =>
    Json.mkObj [("type", "render_directive"), ("name", .str name), ("mode", "evaluated"),
      ("data", envJson data), ("hint", optStr hint)]
  | .renderErr name msg raw =>
    Json.mkObj [("type", "render_directive"), ("name", .str name), ("mode", "error"),
      ("error", .str msg), ("raw_args", .str raw)]
  | .input attrs => Json.mkObj (("type", Json.str "input") :: attrs.map fun kv => (kv.1, Json.str kv.2))
  | .choice c pre => Json.mkObj [("type", "choice"), ("target", .str c.target), ("rendered", optStr pre)]

def outJson (o : Output PV) : Json :=
  Json.mkObj [("content", .str o.content), ("choices", .arr (o.choices.map choiceJson).toArray),
    ("pid", .str o.pid), ("rdirs", .arr (o.rdirs.map dirJson).toArray),
    ("idirs", .arr (o.idirs.map dirJson).toArray), ("jump", optStr o.jump)]

def hooksJson (h : Hooks) : Json :=
  Json.mkObj (h.map fun kv => (kv.1, Json.arr (kv.2.map Json.str).toArray))

def kindName : ExcKind → String
  | .valueError => "ValueError" | .runtimeError => "RuntimeError" | .recursionError => "RecursionError"
  | .indexError => "IndexError" | .typeError => "TypeError" | .other => "Other"

def docJson (d : SaveDoc PV) : Json :=
  Json.mkObj [("cur", optStr d.cur), ("vars", envJson d.vars),
    ("used", .arr (d.used.map Json.str).toArray), ("hooks", hooksJson d.hooks)]

def respJson : Resp PV → Json
  | .out o => Json.mkObj [("out", outJson o)]
  | .bool b => Json.mkObj [("ret", .bool b)]
  | .strs l => Json.mkObj [("ret", .arr (l.map Json.str).toArray)]
  | .info n i c => Json.mkObj [("ret", Json.mkObj [("passage_count", .num n), ("initial_passage", .str i), ("current_passage", optStr c)])]
  | .metaInfo c h => Json.mkObj [("ret", Json.mkObj [("current_passage", optStr c), ("has_choices", .bool h)])]
  | .doc d => Json.mkObj [("doc", docJson d)]
  | .unit => Json.mkObj [("ret", .null)]
  | .raised e => Json.mkObj [("raise", .str (kindName e.kind)), ("msg", .str e.msg)]

def stateJson (e : Eng PV) : Json :=
  Json.mkObj [("cur", optStr e.live.cur), ("vars", envJson e.live.vars),
    ("used", .arr ((sortStrs e.live.used).map Json.str).toArray),
    ("hooks", hooksJson e.live.hooks),
    ("join", Json.mkObj (e.live.joinIdx.map fun kv => (kv.1, Json.num kv.2))),
    ("nundo", .num e.undo.length), ("nredo", .num e.redo.length), ("nscopes", .num e.live.scopes.length),
    ("out", match e.live.out with | some o => outJson o | none => .null)]

end Bardic.Driver
