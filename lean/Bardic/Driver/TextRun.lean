import Lean.Data.Json
import Bardic.Parser.Core
import Bardic.Driver.Load
/-!
# Driver: `ptext` cases — the text-level parser model on one source text

Input: `{"kind":"ptext","id":…,"source":"…","stmt":{code: "ok" | "syntax:<lineno>" | "syntax:" | "complex"},
"call":{args: [npos,[kw…]] | "syntax"}}` — the two tables are CPython's own answers (`ast.parse`) recorded
while the real compiler ran on the same text.
-/
namespace Bardic.Driver
open Lean Bardic.Parser

partial def jToJson : J → Json
  | .null => .null
  | .bool b => .bool b
  | .num n => .num (JsonNumber.fromInt n)
  | .str s => .str (String.ofList s)
  | .arr xs => .arr (xs.map jToJson).toArray
  | .obj kvs => Json.mkObj (kvs.map fun kv => (kv.1, jToJson kv.2))

def oracleOf (j : Json) : PyOracle :=
  let stmtT : List (String × Json) := match j.getObjVal? "stmt" with | .ok (.obj kvs) => kvs.toList | _ => []
  let callT : List (String × Json) := match j.getObjVal? "call" with | .ok (.obj kvs) => kvs.toList | _ => []
  let exprT : List (String × Json) := match j.getObjVal? "expr" with | .ok (.obj kvs) => kvs.toList | _ => []
  { expr := fun code =>
      match exprT.lookup (String.ofList code) with
      | some (.str "ok") => .ok
      | some (.str "bad") => .bad
      | _ => .miss
    stmt := fun code =>
      match stmtT.lookup (String.ofList code) with
      | some (.str "ok") => .ok
      | some (.str "complex") => .tooComplex
      | some (.str s) =>
        if s.startsWith "syntax:" then .syntaxError ((s.drop 7).toString.toNat?) else .miss
      | _ => .miss
    call := fun args =>
      match callT.lookup (String.ofList args) with
      | some (.str "syntax") => .syntaxError
      | some (.str "star") => .star
      | some (.arr a) =>
        (match a.toList with
         | [Json.num n, Json.arr kws] => .shape n.mantissa.toNat (kws.toList.map fun k => (jsonToStr k).toList)
         | _ => .miss)
      | _ => .miss }

def runPtext (j : Json) : Json :=
  let id := (j.getObjVal? "id").toOption.getD .null
  let src := (getStr j "source").toList
  match parseText (oracleOf j) src with
  | .ok story => Json.mkObj [("id", id), ("status", "ok"), ("story", jToJson story)]
  | .error (.diag cls line what) =>
    Json.mkObj [("id", id), ("status", "diag"), ("cls", .str (match cls with | .syntax => "SyntaxError" | .value => "ValueError")),
                ("line", match line with | some n => .num n | none => .null), ("what", .str what)]
  | .error (.internal what) => Json.mkObj [("id", id), ("status", "internal"), ("what", .str what)]
  | .error .fuel => Json.mkObj [("id", id), ("status", "fuel")]
  | .error (.oracleMiss q) => Json.mkObj [("id", id), ("status", "oracle_miss"), ("query", .str (String.ofList q))]

end Bardic.Driver
