import Lean.Data.Json
import Bardic.Src
import Bardic.Driver.Load
/-!
# Driver: `compile` cases — `Src.compileStory` of a source AST against the real compiler's output
-/
namespace Bardic.Driver
open Lean Bardic Bardic.Src

partial def loadInl (j : Json) : Inl :=
  match j with
  | .arr #[.str "t", .str s] => .text s
  | .arr #[.str "e", .str c] => .expr c none
  | .arr #[.str "ef", .str c, .str spec] => .expr c (some spec)
  | .arr #[.str "ic", .str c, .arr t, .arr f] => .cond c (t.toList.map loadInl) (f.toList.map loadInl)
  | _ => .text "?"

mutual
partial def loadItem (j : Json) : Item :=
  match getStr j "k" with
  | "line" => .line ((getArr j "parts").map loadInl) (getBool j "glue" false) ((getArr j "tags").map jsonToStr)
                (getBool j "cmt" false)
  | "blank" => .blank
  | "comment" => .comment
  | "stmt" => .stmt (getStr j "code")
  | "py" => .py ("\n".intercalate ((getArr j "lines").map jsonToStr))
  | "if" => .ifB ((getArr j "branches").map fun b =>
      match b with
      | .arr #[c, .arr body] => SBranch.mk (match c with | .str s => s | _ => "True") (body.toList.map loadItem)
      | _ => SBranch.mk "?" [])
  | "for" => .forB (getStr j "var") (getStr j "coll") ((getArr j "body").map loadItem)
  | "render" => .render (getStr j "name") (getStr j "args")
  | "input" =>
    .input ([("name", getStr j "name")] ++ (match getOptStr j "label" with | some l => [("label", l)] | none => []))
  | "hook" => .hook (getBool j "add" true) "turn_end" (getStr j "target")
  | "choice" => .choice (loadSChoice j)
  | "jump" => .jump (getStr j "target") (getStr j "args")
  | "join" => .join
  | _ => .comment
partial def loadSChoice (j : Json) : SChoice :=
  .mk ((getArr j "text").map loadInl) (getStr j "target") (getStr j "args") (getOptStr j "cond")
    (getBool j "sticky" true) ((getArr j "tags").map jsonToStr) ((getArr j "block").map loadItem)
end

def loadSPassage (j : Json) : SPassage :=
  { name := getStr j "name"
    params := (getArr j "params").map fun p =>
      match p with
      | .arr #[.str n, .str d] => ({ name := n, default := some d } : Param)
      | .arr #[.str n, _] => { name := n, default := none }
      | _ => { name := "?", default := none }
    tags := (getArr j "tags").map jsonToStr
    items := (getArr j "items").map loadItem }

/-! canonical text of compiled structures, for comparison and for showing the first difference -/
def q (s : String) : String := (Json.str s).compress
def qs (l : List String) : String := "[" ++ ",".intercalate (l.map q) ++ "]"

mutual
partial def serTok : Tok → String
  | .text s tags => "T" ++ q s ++ (if tags.isEmpty then "" else "^" ++ qs tags)
  | .expr c => "E" ++ q c
  | .inlineCond c t f => "IC(" ++ q c ++ "?" ++ serToks t ++ "|" ++ serToks f ++ ")"
  | .render n a h => "R(" ++ q n ++ "," ++ q a ++ "," ++ (match h with | some x => q x | none => "-") ++ ")"
  | .input attrs => "IN" ++ qs (attrs.map fun kv => kv.1 ++ "=" ++ kv.2)
  | .stmt c => "S" ++ q c
  | .pyblock c => "PY" ++ q c
  | .hook a e t => "H(" ++ toString a ++ "," ++ q e ++ "," ++ q t ++ ")"
  | .cond bs => "IF{" ++ ";".intercalate (bs.map fun b => q b.cond ++ ":" ++ serToks b.body ++ "+" ++ serChoices b.choices) ++ "}"
  | .loop v c body chs => "FOR(" ++ q v ++ "," ++ q c ++ ")" ++ serToks body ++ "+" ++ serChoices chs
  | .jump t a => "J(" ++ q t ++ "," ++ q a ++ ")"
  | .joinMarker => "JOIN"
  | .other ty => "?" ++ ty
partial def serToks (ts : List Tok) : String := "[" ++ " ".intercalate (ts.map serTok) ++ "]"
partial def serChoice (c : Choice) : String :=
  "C(" ++ serToks c.text ++ "->" ++ q c.target ++ "(" ++ q c.args ++ ")" ++
    (match c.cond with | some x => "if" ++ q x | none => "") ++ (if c.sticky then "+" else "*") ++ toString c.sec ++
    "^" ++ qs c.tags ++ serToks c.block ++ ")"
partial def serChoices (cs : List Choice) : String := "[" ++ " ".intercalate (cs.map serChoice) ++ "]"
end

def serPassage (p : Passage) : String :=
  q p.id ++ "(" ++ ",".intercalate (p.params.map fun x => x.name ++ "=" ++ (x.default.getD "<none>")) ++ ")^" ++ qs p.tags ++
  "\n content " ++ serToks p.content ++ "\n execute " ++ serToks p.execute ++ "\n choices " ++ serChoices p.choices ++
  "\n inputs " ++ qs (p.inputs.map fun a => ",".intercalate (a.map fun kv => kv.1 ++ "=" ++ kv.2))

def runCompile (j : Json) : Json :=
  let id := (j.getObjVal? "id").toOption.getD .null
  let ast := (j.getObjVal? "ast").toOption.getD .null
  let ps := (getArr ast "passages").map loadSPassage
  let model := compileStory ps none
  let safe := ps.all fun p => itemsGlueSafe p.items
  match (loadStory ((j.getObjVal? "story").toOption.getD .null)).run #[] with
  | .error e => Json.mkObj [("id", id), ("verdict", "load_error"), ("detail", .str e)]
  | .ok (real, _) =>
    let diffs := model.passages.filterMap fun (n, mp) =>
      match real.passages.lookup n with
      | none => some (n, serPassage mp, "<missing>")
      | some rp => if serPassage mp == serPassage rp then none else some (n, serPassage mp, serPassage rp)
    let extra := real.passages.filter fun (n, _) => (model.passages.lookup n).isNone
    if diffs.isEmpty && extra.isEmpty && model.initial == real.initial then
      Json.mkObj [("id", id), ("verdict", "same"), ("glue_safe", .bool safe)]
    else
      let (n, m, r) := diffs.head?.getD ("", "", "")
      Json.mkObj [("id", id), ("verdict", "diff"), ("glue_safe", .bool safe), ("passage", .str n), ("model", .str m), ("real", .str r),
                  ("initial", Json.arr #[.str model.initial, .str real.initial]),
                  ("extra", .arr (extra.map fun (n, _) => Json.str n).toArray)]

end Bardic.Driver

namespace Bardic.Driver
open Lean Bardic Bardic.Src

/-! the compiled story as the JSON the real engine loads (so that the real engine can play `compileStory`) -/
mutual
partial def sTokJson : Tok → Json
  | .text s tags => Json.mkObj ([("type", Json.str "text"), ("value", Json.str s)] ++ (if tags.isEmpty then [] else [("tags", Json.arr (tags.map Json.str).toArray)]))
  | .expr c => Json.mkObj [("type", "expression"), ("code", .str c)]
  | .inlineCond c t f => Json.mkObj [("type", "inline_conditional"), ("condition", .str c), ("truthy", sToksJson t), ("falsy", sToksJson f)]
  | .render n a h => Json.mkObj [("type", "render_directive"), ("name", .str n), ("args", .str a),
      ("framework_hint", match h with | some x => .str x | none => .null)]
  | .input attrs => Json.mkObj ([("type", Json.str "input")] ++ attrs.map fun kv => (kv.1, Json.str kv.2))
  | .stmt c => Json.mkObj [("type", "python_statement"), ("code", .str c)]
  | .pyblock c => Json.mkObj [("type", "python_block"), ("code", .str c)]
  | .hook a e t => Json.mkObj [("type", "hook"), ("action", if a then "add" else "remove"), ("event", .str e), ("target", .str t)]
  | .cond bs => Json.mkObj [("type", "conditional"), ("branches", .arr (bs.map fun b =>
      Json.mkObj ([("condition", Json.str b.cond), ("content", sToksJson b.body)] ++
        (if b.choices.isEmpty then [] else [("choices", sChoicesJson b.choices)]))).toArray)]
  | .loop v c body chs => Json.mkObj ([("type", Json.str "for_loop"), ("variable", .str v), ("collection", .str c), ("content", sToksJson body)] ++
      (if chs.isEmpty then [] else [("choices", sChoicesJson chs)]))
  | .jump t a => Json.mkObj [("type", "jump"), ("target", .str t), ("args", .str a)]
  | .joinMarker => Json.mkObj [("type", "join_marker"), ("id", .num 0)]
  | .other ty => Json.mkObj [("type", .str ty)]
partial def sToksJson (ts : List Tok) : Json := .arr (ts.map sTokJson).toArray
partial def sChoiceJson (c : Choice) : Json :=
  Json.mkObj ([("text", sToksJson c.text), ("target", Json.str c.target), ("args", Json.str c.args),
    ("condition", match c.cond with | some x => Json.str x | none => Json.null), ("sticky", Json.bool c.sticky), ("tags", Json.arr (c.tags.map Json.str).toArray),
    ("section", Json.num c.sec)] ++
    (if c.block.isEmpty then [] else [("block_content", sToksJson c.block),
      ("block_execute", sToksJson (c.block.filter fun t => match t with | .stmt _ => true | .hook _ _ _ => true | _ => false))]))
partial def sChoicesJson (cs : List Choice) : Json := .arr (cs.map sChoiceJson).toArray
end

def sPassageJson (p : Passage) : Json :=
  Json.mkObj ([("id", Json.str p.id),
    ("params", Json.arr (p.params.map fun x => Json.mkObj [("name", Json.str x.name), ("default", match x.default with | some d => Json.str d | none => Json.null)]).toArray),
    ("content", sToksJson p.content), ("choices", sChoicesJson p.choices), ("execute", sToksJson p.execute),
    ("tags", Json.arr (p.tags.map Json.str).toArray)] ++
    (if p.inputs.isEmpty then [] else [("input_directives", Json.arr (p.inputs.map fun a =>
      Json.mkObj ([("type", Json.str "input")] ++ a.map fun kv => (kv.1, Json.str kv.2))).toArray)]))

def sStoryJson (s : Story) : Json :=
  Json.mkObj [("version", "0.1.0"), ("initial_passage", .str s.initial), ("metadata", Json.mkObj []), ("imports", .arr #[]),
    ("passages", Json.mkObj (s.passages.map fun (n, p) => (n, sPassageJson p)))]

/-- kind `compile_out`: the model's compiled story for a source AST, as engine-loadable JSON -/
def runCompileOut (j : Json) : Json :=
  let id := (j.getObjVal? "id").toOption.getD .null
  let ast := (j.getObjVal? "ast").toOption.getD .null
  let ps := (getArr ast "passages").map loadSPassage
  Json.mkObj [("id", id), ("story", sStoryJson (compileStory ps none))]

end Bardic.Driver
