import Lean.Data.Json
import Bardic.Wf
import Bardic.Driver.Load
/-!
# Driver: `graph` cases — `extract_connections` and the well-formedness predicates on a compiled story
-/
namespace Bardic.Driver
open Lean Bardic

def parseArgShape (args : String) : Option (Nat × List String) :=
  match MiniPy.parseArgs args with
  | .ok (pos, kws) => some (pos.length, kws.map (·.1))
  | .error _ => none

def siteJson (s : Story) (cs : CallSite) : Json :=
  Json.mkObj [("src", .str cs.src), ("target", .str cs.target), ("args", .str cs.args), ("nested", .bool cs.nested),
    ("jump", .bool cs.isJump), ("ok", .bool (siteOk s parseArgShape cs))]

def runGraph (j : Json) : Json :=
  let id := (j.getObjVal? "id").toOption.getD .null
  match (loadStory ((j.getObjVal? "story").toOption.getD .null)).run #[] with
  | .error m => Json.mkObj [("id", id), ("status", "load_error"), ("msg", .str m)]
  | .ok (s, _) =>
    let edges := graphEdges s
    Json.mkObj [("id", id), ("status", "ok"),
      ("edges", .arr (edges.map fun e => Json.arr #[.str e.1, .str e.2.1, .bool e.2.2]).toArray),
      ("defined", .arr ((graphDefined s).map Json.str).toArray),
      ("missing", .arr ((graphMissing s).map Json.str).toArray),
      ("initial_ok", .bool (initialOk s)), ("keys_ok", .bool (keysOk s)),
      ("wf_top", .bool (wfTop s parseArgShape)), ("wf_all", .bool (wfAll s parseArgShape)),
      ("sites", .arr ((s.passages.flatMap fun kv => (topSites kv.2 ++ nestedSites kv.2).map (siteJson s))).toArray)]

end Bardic.Driver
