import Lean.Data.Json
import Bardic.Codec
import Bardic.Driver.Load
/-!
# Driver: `codec` cases — value trees through the model of `_serialize_value` / JSON / `_deserialize_value`
-/
namespace Bardic.Driver
open Lean Bardic.Codec

partial def pyOfJson (j : Json) : PyVal :=
  let kvs (a : List Json) : List (String × PyVal) :=
    a.filterMap fun p => match p with
      | .arr #[.str k, v] => some (k, pyOfJson v)
      | _ => none
  match getStr j "t" with
  | "none" => .none
  | "bool" => .bool (getBool j "v" false)
  | "int" => .int (match j.getObjVal? "v" with | .ok (.num n) => n.mantissa | _ => 0)
  | "str" => .str (getStr j "v")
  | "list" => .list ((getArr j "v").map pyOfJson)
  | "tuple" => .tuple ((getArr j "v").map pyOfJson)
  | "dict" => .dict (kvs (getArr j "v"))
  | "obj" => .obj (getStr j "cls") (getStr j "mod") (if getStr j "kind" == "custom" then .custom else .auto) (kvs (getArr j "attrs"))
  | _ => .none

partial def pyToJson : PyVal → Json
  | .none => Json.mkObj [("t", "none")]
  | .bool b => Json.mkObj [("t", "bool"), ("v", .bool b)]
  | .int i => Json.mkObj [("t", "int"), ("v", .num (JsonNumber.fromInt i))]
  | .str s => Json.mkObj [("t", "str"), ("v", .str s)]
  | .list l => Json.mkObj [("t", "list"), ("v", .arr (l.map pyToJson).toArray)]
  | .tuple l => Json.mkObj [("t", "tuple"), ("v", .arr (l.map pyToJson).toArray)]
  | .dict d => Json.mkObj [("t", "dict"), ("v", .arr (d.map fun kv => Json.arr #[.str kv.1, pyToJson kv.2]).toArray)]
  | .obj c m k a => Json.mkObj [("t", "obj"), ("cls", .str c), ("mod", .str m),
      ("kind", .str (match k with | .auto => "auto" | .custom => "custom")),
      ("attrs", .arr (a.map fun kv => Json.arr #[.str kv.1, pyToJson kv.2]).toArray)]

partial def jvalToJson : JVal → Json
  | .null => .null
  | .bool b => .bool b
  | .int i => .num (JsonNumber.fromInt i)
  | .str s => .str s
  | .arr l => .arr (l.map jvalToJson).toArray
  | .obj d => Json.mkObj (d.map fun kv => (kv.1, jvalToJson kv.2))

def runCodec (j : Json) : Json :=
  let id := (j.getObjVal? "id").toOption.getD .null
  let ctx : Registry := (getArr j "registry").filterMap fun r =>
    match r with
    | .arr #[.str c, .str m, .str k] => some (c, (m, if k == "custom" then ObjKind.custom else ObjKind.auto))
    | _ => none
  let v := pyOfJson ((j.getObjVal? "value").toOption.getD .null)
  let e := enc v
  Json.mkObj [("id", id), ("status", "ok"), ("enc", jvalToJson e), ("dec", pyToJson (dec ctx e)),
    ("norm", pyToJson (norm v)), ("supported", .bool (Supported ctx v))]

end Bardic.Driver
