import Lean.Data.Json
import Bardic.Stdlib
import Bardic.Driver.Load
/-!
# Driver: `stdlib` cases — operation sequences on Wallet / Inventory / Shop / Relationship / dice
-/
namespace Bardic.Driver
open Lean Bardic.Stdlib

def getInt (j : Json) (k : String) (d : Int := 0) : Int :=
  match j.getObjVal? k with
  | .ok (.num n) => if n.exponent == 0 then n.mantissa else d
  | _ => d

def itemOf (j : Json) : Item := ⟨getStr j "name", getInt j "weight", getInt j "value"⟩

def pairOf (j : Json) (k : String) (d : Int × Int) : Int × Int :=
  match j.getObjVal? k with
  | .ok (.arr a) =>
    match a.toList with
    | [.num x, .num y] => (x.mantissa, y.mantissa)
    | _ => d
  | _ => d

structure SState where
  w : Wallet
  inv : Inventory
  shop : Shop
  rel : Rel

def itemJson (it : Item) : Json := .arr #[.str it.name, .num (JsonNumber.fromInt it.weight), .num (JsonNumber.fromInt it.value)]

def sJson (ret : Json) (s : SState) : Json :=
  Json.mkObj [("ret", ret), ("gold", .num (JsonNumber.fromInt s.w.gold)),
    ("items", .arr (s.inv.items.map itemJson).toArray),
    ("shop", .arr (s.shop.items.map itemJson).toArray),
    ("rel", .arr #[.num (JsonNumber.fromInt s.rel.trust), .num (JsonNumber.fromInt s.rel.comfort),
      .num (JsonNumber.fromInt s.rel.openness), .arr ((Bardic.sortStrs' s.rel.topics).map Json.str).toArray,
      .arr (s.rel.events.map fun (e : Nat) => Json.num (JsonNumber.fromNat e)).toArray])]

def sStep (s : SState) (oj : Json) : SState × Json :=
  let a := getInt oj "a"
  match getStr oj "o" with
  | "spend" => let (w, b) := s.w.spend a; let s' := { s with w := w }; (s', sJson (.bool b) s')
  | "earn" => let s' := { s with w := s.w.earn a }; (s', sJson .null s')
  | "set_gold" => let s' := { s with w := s.w.setGold a }; (s', sJson .null s')
  | "can_afford" => (s, sJson (.bool (s.w.canAfford a)) s)
  | "add" =>
    let (i, b) := s.inv.add (itemOf ((oj.getObjVal? "item").toOption.getD .null))
    let s' := { s with inv := i }; (s', sJson (.bool b) s')
  | "remove" => let (i, b) := s.inv.remove (getStr oj "n"); let s' := { s with inv := i }; (s', sJson (.bool b) s')
  | "remove_all" => let (i, k) := s.inv.removeAll (getStr oj "n"); let s' := { s with inv := i }; (s', sJson (.num k) s')
  | "clear" => let s' := { s with inv := s.inv.clear }; (s', sJson .null s')
  | "buy" =>
    let (w, i, b) := s.shop.buy (getStr oj "n") s.w s.inv
    let s' := { s with w := w, inv := i }; (s', sJson (.bool b) s')
  | "sell" =>
    let (w, i, b) := s.shop.sell (getStr oj "n") s.w s.inv
    let s' := { s with w := w, inv := i }; (s', sJson (.bool b) s')
  | "set_discount" =>
    let (n, d) := pairOf oj "r" (1, 1)
    let s' := { s with shop := { s.shop with discNum := (if n < 0 then 0 else n), discDen := d } }; (s', sJson .null s')
  | "add_trust" => let s' := { s with rel := s.rel.addTrust a }; (s', sJson .null s')
  | "add_comfort" => let s' := { s with rel := s.rel.addComfort a }; (s', sJson .null s')
  | "add_openness" => let s' := { s with rel := s.rel.addOpenness a }; (s', sJson .null s')
  | "set_trust" => let s' := { s with rel := s.rel.setTrust a }; (s', sJson .null s')
  | "set_comfort" => let s' := { s with rel := s.rel.setComfort a }; (s', sJson .null s')
  | "set_openness" => let s' := { s with rel := s.rel.setOpenness a }; (s', sJson .null s')
  | "discuss" => let s' := { s with rel := s.rel.discuss (getStr oj "t") }; (s', sJson .null s')
  | "rel_roundtrip" => let s' := { s with rel := s.rel.roundTrip }; (s', sJson .null s')
  | "wallet_roundtrip" => let s' := { s with w := Wallet.new s.w.gold }; (s', sJson .null s')
  | "inv_roundtrip" => (s, sJson .null s)        -- `from_dict(to_dict(inv))`: the same inventory
  | "shop_roundtrip" => (s, sJson .null s)
  | "roll" =>
    let outs := (getArr oj "outs").map fun j => match j with | .num n => n.mantissa | _ => 0
    (s, sJson (.num (JsonNumber.fromInt (rollWith outs (getInt oj "mod")))) s)
  | o => (s, Json.mkObj [("error", .str ("unknown op " ++ o))])

def runStdlib (j : Json) : Json :=
  let id := (j.getObjVal? "id").toOption.getD .null
  let shopJ := (j.getObjVal? "shop").toOption.getD .null
  let (rn, rd) := pairOf shopJ "rate" (1, 2)
  let (dn, dd) := pairOf shopJ "disc" (1, 1)
  let relJ := (j.getObjVal? "rel").toOption.getD .null
  let s0 : SState :=
    { w := Wallet.new (getInt j "gold"), inv := ⟨[], getInt j "max_weight"⟩
      shop := { items := (getArr shopJ "items").map itemOf, rateNum := rn, rateDen := rd, discNum := dn, discDen := dd }
      rel := Rel.new (getStr relJ "name") (getInt relJ "trust") (getInt relJ "comfort") (getInt relJ "openness")
        ((getArr relJ "topics").map jsonToStr) }
  let (_, outs) := (getArr j "ops").foldl (fun (acc : SState × Array Json) oj =>
    let (s', o) := sStep acc.1 oj; (s', acc.2.push o)) (s0, #[])
  Json.mkObj [("id", id), ("status", "ok"), ("init", sJson .null s0), ("steps", .arr outs)]

end Bardic.Driver
