import Lean.Data.Json
import Bardic.Parser.Components
import Bardic.Parser.Content
import Bardic.Parser.Choice
import Bardic.Driver.Load
/-!
# Driver: `pcomp` cases — one parser component on one input
-/
namespace Bardic.Driver
open Lean Bardic.Parser

def jStr (cs : List Char) : Json := .str (String.ofList cs)
def jLines (ls : List (List Char)) : Json := .arr (ls.map jStr).toArray

def internalJson (e : Internal) : Json :=
  Json.mkObj [("internal", .str (match e with
    | .indexError => "IndexError" | .valueError => "ValueError" | .unboundLocal => "UnboundLocalError" | .typeError => "TypeError"))]

/-- the character classes Python's `str.isalnum` / `str.isdigit` give on the alphabet the harness draws names from:
ASCII letters and digits, and the listed non-ASCII letters -/
def alnumH (c : Char) : Bool := isAsciiAlpha c || isAsciiDigit c || "éßжΩ東ａ".toList.contains c || c == '٣' || c == '²'
def digitH (c : Char) : Bool := isAsciiDigit c || c == '٣' || c == '²'

partial def ctokJson : CTok → Json
  | .text s tags => Json.mkObj ([("type", Json.str "text"), ("value", jStr s)] ++ (if tags.isEmpty then [] else [("tags", jLines tags)]))
  | .expr c tags => Json.mkObj ([("type", Json.str "expression"), ("code", jStr c)] ++ (if tags.isEmpty then [] else [("tags", jLines tags)]))
  | .cond c t f tags => Json.mkObj ([("type", Json.str "inline_conditional"), ("condition", jStr c),
      ("truthy", Json.arr (t.map ctokJson).toArray), ("falsy", Json.arr (f.map ctokJson).toArray)] ++
      (if tags.isEmpty then [] else [("tags", jLines tags)]))

def runPcomp (j : Json) : Json :=
  let id := (j.getObjVal? "id").toOption.getD .null
  let s := (getStr j "s").toList
  let lines := (getArr j "lines").map fun l => (jsonToStr l).toList
  let start := getNat j "start"
  let body : Json :=
    match getStr j "fn" with
    | "extract_passage_params" =>
      (match extractPassageParams s with
       | .ok (a, b) => Json.arr #[jStr a, jStr b]
       | .error e => internalJson e)
    | "extract_target_and_args" =>
      (match extractTargetAndArgs s with
       | .ok (a, b) => Json.arr #[jStr a, jStr b]
       | .error e => internalJson e)
    | "split_on_commas" => jLines (splitOnCommas s)
    | "parse_passage_params" =>
      (match parsePassageParams (fun d => match (getArr j "expr_ok").map jsonToStr |>.contains (String.ofList d), (getArr j "expr_bad").map jsonToStr |>.contains (String.ofList d) with | true, _ => some true | _, true => some false | _, _ => none) s with
       | .ok (.ok ps) => Json.arr (ps.map fun p => Json.arr #[jStr p.name, match p.default with | some d => jStr d | none => .null]).toArray
       | .ok (.error d) => Json.mkObj [("diag", .str (match d with
           | .order _ => "Invalid Parameter Order" | .badName _ => "Invalid Parameter Name" | .keyword _ => "Invalid Parameter Name"
           | .duplicate _ => "Duplicate Parameter" | .emptyDefault _ => "Missing Default Value"
           | .badDefault _ => "Invalid Default Value" | .oracleMiss _ => "oracle-miss")),
           ("name", jStr (match d with | .order n => n | .badName n => n | .keyword n => n | .duplicate n => n | .emptyDefault n => n | .badDefault n => n | .oracleMiss n => n))]
       | .error e => internalJson e)
    | "validate_passage_name" =>
      (match validatePassageName alnumH digitH s with
       | .ok none => .null
       | .ok (some d) => Json.mkObj [("diag", .str (match d with
           | .empty => "empty"
           | .spaces f => "spaces:" ++ String.ofList f
           | .hyphens f => "hyphens:" ++ String.ofList f
           | .digit f => "digit:" ++ String.ofList f
           | .badChar c p => s!"char:{c}:{p}"
           | .generic => "generic"))]
       | .error e => internalJson e)
    | "extract_multiline_expression" =>
      (match multiline lines start s with
       | .ok (ls, n) => Json.arr #[.str ("\n".intercalate (ls.map String.ofList)), .num n]
       | .error e => internalJson e)
    | "py_new" =>
      (match pyNew lines start with
       | .ok (.ok (ls, n)) => Json.arr #[.str ("\n".intercalate (ls.map String.ofList)), .num n]
       | .ok (.error .missingColon) => Json.mkObj [("diag", "missing colon")]
       | .ok (.error .unclosed) => Json.mkObj [("diag", "unclosed")]
       | .error e => internalJson e)
    | "parse_content_line" =>
      (match parseContentLine s with
       | .ok toks => Json.arr (toks.map ctokJson).toArray
       | .diag (.split .unclosed) => Json.mkObj [("diag", "unclosed")]
       | .diag (.split .unmatchedClose) => Json.mkObj [("diag", "unmatched")]
       | .outOfFuel => Json.mkObj [("internal", "fuel")])
    | "validate_choice_syntax" =>
      (match validateChoice s with
       | .ok none => .null
       | .ok (some d) => Json.mkObj [("diag", .str (match d with
           | .missingArrow => "Missing arrow" | .missingOpen => "Missing opening bracket" | .missingClose => "Missing closing bracket"
           | .unclosedCond => "Unclosed conditional" | .strayClose => "without matching" | .closeBeforeOpen => "appears before"
           | .missingTarget => "Missing target" | .targetSpaces => "contains spaces" | .emptyText => "Empty choice text"))]
       | .error e => internalJson e)
    | "parse_tags" =>
      let (l, tags) := parseTags s
      Json.arr #[jStr l, jLines tags]
    | "py_old" =>
      let (ls, n) := pyOld lines start
      Json.arr #[.str ("\n".intercalate (ls.map String.ofList)), .num n]
    | f => Json.mkObj [("unknown_fn", .str f)]
  Json.mkObj [("id", id), ("out", body)]

end Bardic.Driver
