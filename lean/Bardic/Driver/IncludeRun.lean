import Lean.Data.Json
import Bardic.Include
import Bardic.Driver.Load
/-!
# Driver: `include` cases — `resolve_includes` over a file system given in the case
-/
namespace Bardic.Driver
open Lean Bardic.Include

def pathOf (j : Json) : Path :=
  match j with
  | .arr a => a.toList.map jsonToStr
  | _ => []

def pathJson (p : Path) : Json := .arr (p.map Json.str).toArray

def runInclude (j : Json) : Json :=
  let id := (j.getObjVal? "id").toOption.getD .null
  let fs : FS := (getArr j "fs").filterMap fun e =>
    match e with
    | .arr #[p, .str c] => some (pathOf p, c)
    | _ => none
  let root := pathOf ((j.getObjVal? "root").toOption.getD .null)
  match resolveRoot fs root with
  | .ok (ls, map) =>
    Json.mkObj [("id", id), ("status", "ok"), ("lines", .arr (ls.map Json.str).toArray),
      ("map", .arr (map.map fun l => Json.arr #[pathJson l.file, .num l.line]).toArray)]
  | .error d =>
    let (k, p, n) : String × Path × Nat := match d with
      | .circular p => ("circular", p, 0)
      | .notFound p => ("notFound", p, 0)
      | .noPath f n => ("noPath", f, n)
      | .manyPaths f n => ("manyPaths", f, n)
      | .depth => ("depth", [], 0)
    Json.mkObj [("id", id), ("status", "error"), ("error", .str k), ("path", pathJson p), ("line", .num n)]

end Bardic.Driver
