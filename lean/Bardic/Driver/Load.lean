import Lean.Data.Json
import Bardic.Story
import Bardic.MiniPy.Eval
import Bardic.Engine.Types
/-!
# Driver: load a compiled story (the real compiler's JSON) into `Story`

Also decides whether the story is inside the modelled fragment (`unmodelled` reasons are collected).
-/
namespace Bardic.Driver
open Lean Bardic

abbrev LM := StateT (Array String) (Except String)

def note (s : String) : LM Unit := modify (·.push s)

def getStr (j : Json) (k : String) (dflt : String := "") : String :=
  match j.getObjVal? k with
  | .ok (.str s) => s
  | _ => dflt

def getArr (j : Json) (k : String) : List Json :=
  match j.getObjVal? k with
  | .ok (.arr a) => a.toList
  | _ => []

def getOptStr (j : Json) (k : String) : Option String :=
  match j.getObjVal? k with
  | .ok (.str s) => some s
  | _ => none

def getBool (j : Json) (k : String) (dflt : Bool) : Bool :=
  match j.getObjVal? k with
  | .ok (.bool b) => b
  | _ => dflt

def getNat (j : Json) (k : String) (dflt : Nat := 0) : Nat :=
  match j.getObjVal? k with
  | .ok (.num n) => if n.exponent == 0 && n.mantissa ≥ 0 then n.mantissa.toNat else dflt
  | _ => dflt

def jsonToStr : Json → String
  | .str s => s
  | .null => "None"
  | .bool true => "True"
  | .bool false => "False"
  | j => j.compress

def checkExpr (what code : String) : LM Unit :=
  if MiniPy.modelledExpr code then pure () else note s!"{what}: {code}"

mutual
partial def loadTok (j : Json) : LM Tok := do
  let ty := getStr j "type"
  match ty with
  | "text" =>
    let tags := (getArr j "tags").map jsonToStr
    return .text (getStr j "value") tags
  | "expression" =>
    let code := getStr j "code"
    -- the engine may split the code at the first colon; both readings must be modelled
    match splitFmt code with
    | some (ex, _) => checkExpr "expr" ex
    | none => checkExpr "expr" code
    return .expr code
  | "inline_conditional" =>
    checkExpr "inline condition" (getStr j "condition")
    match j.getObjVal? "truthy", j.getObjVal? "falsy" with
    | .ok (.arr t), .ok (.arr f) =>
      return .inlineCond (getStr j "condition") (← t.toList.mapM loadTok) (← f.toList.mapM loadTok)
    | _, _ => note "inline conditional with string branches"; return .other ty
  | "render_directive" =>
    let args := getStr j "args"
    if !MiniPy.modelledArgs args then note s!"render args: {args}"
    let hint := getOptStr j "framework_hint"
    if hint.isSome then note "framework hint"
    return .render (getStr j "name") args hint
  | "input" =>
    let attrs := match j with
      | .obj kvs => kvs.toList.filterMap fun (k, v) => if k == "type" then none else some (k, jsonToStr v)
      | _ => []
    return .input attrs
  | "python_statement" =>
    let code := getStr j "code"
    if !MiniPy.modelledStmt code then note s!"stmt: {code}"
    return .stmt code
  | "python_block" =>
    let code := getStr j "code"
    if !MiniPy.modelledStmt code then note s!"block: {code}"
    return .pyblock code
  | "hook" => return .hook (getStr j "action" == "add") (getStr j "event") (getStr j "target")
  | "conditional" =>
    let bs ← (getArr j "branches").mapM fun b => do
      let c := getStr b "condition" "False"
      checkExpr "branch condition" c
      let body ← (getArr b "content").mapM loadTok
      let chs ← (getArr b "choices").mapM loadChoice
      return Branch.mk c body chs
    return .cond bs
  | "for_loop" =>
    let coll := getStr j "collection"
    checkExpr "collection" coll
    let body ← (getArr j "content").mapM loadTok
    let chs ← (getArr j "choices").mapM loadChoice
    return .loop (getStr j "variable") coll body chs
  | "jump" => return .jump (getStr j "target") (getStr j "args")
  | "join_marker" => return .joinMarker
  | "set_var" | "expression_statement" => note s!"deprecated token {ty}"; return .other ty
  | _ => return .other ty
partial def loadChoice (j : Json) : LM Choice := do
  let text ← match j.getObjVal? "text" with
    | .ok (.arr a) => a.toList.mapM loadTok
    | .ok (.str s) => pure [Tok.text s []]
    | _ => pure []
  let cond := getOptStr j "condition"
  match cond with
  | some c => if c != "" then checkExpr "choice condition" c
  | none => pure ()
  let args := getStr j "args"
  if !MiniPy.modelledArgs args then note s!"choice args: {args}"
  let block ← (getArr j "block_content").mapM loadTok
  return .mk text (getStr j "target") args cond (getBool j "sticky" true) (getNat j "section")
    ((getArr j "tags").map jsonToStr) block
end

def loadPassage (j : Json) : LM Passage := do
  let params ← (getArr j "params").mapM fun p => do
    let d := getOptStr p "default"
    match d with
    | some c => checkExpr "default" c
    | none => pure ()
    return ({ name := getStr p "name", default := d } : Param)
  let content ← match j.getObjVal? "content" with
    | .ok (.arr a) => a.toList.mapM loadTok
    | _ => note "string content"; pure []
  let choices ← (getArr j "choices").mapM loadChoice
  let execute ← (getArr j "execute").mapM loadTok
  let inputs := (getArr j "input_directives").map fun i =>
    match i with
    | .obj kvs => kvs.toList.filterMap fun (k, v) => if k == "type" then none else some (k, jsonToStr v)
    | _ => []
  return { id := getStr j "id", params, content, choices, execute, inputs
           tags := (getArr j "tags").map jsonToStr }

def loadStory (j : Json) : LM Story := do
  let ps ← match j.getObjVal? "passages" with
    | .ok (.obj kvs) => kvs.toList.mapM fun (k, v) => do return (k, ← loadPassage v)
    | _ => throw "no passages"
  -- Lean's Json objects are ordered by key; the passage order is irrelevant to the engine
  let imports := (getArr j "imports").map jsonToStr
  if imports.any (fun l => pyStrip l != "" && !(pyStrip l).startsWith "#") then note "imports"
  let md := (j.getObjVal? "metadata").toOption.getD (.obj {})
  return { initial := getStr j "initial_passage", passages := ps, imports
           title := getStr md "title" "unknown", storyId := getStr md "story_id" "unknown"
           storyVersion := getStr md "version" "unknown" }

end Bardic.Driver
