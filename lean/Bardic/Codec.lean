import Bardic.Base
/-!
# Value codec: `_serialize_value` → JSON text → `_deserialize_value`

`PyVal` is the tree of story values; `JVal` is JSON.  `enc` = `json.loads(json.dumps(_serialize_value(v)))`
(so tuples are already lists), `dec ctx` = `_deserialize_value` for the class registry `ctx`
(`self.context`: class name ↦ how instances are rebuilt).
-/
namespace Bardic.Codec

inductive ObjKind | auto | custom
  deriving DecidableEq, Repr

inductive PyVal where
  | none
  | bool (b : Bool)
  | int (i : Int)
  | str (s : String)
  | list (l : List PyVal)
  | tuple (l : List PyVal)
  | dict (d : List (String × PyVal))
  /-- an instance: auto = plain attribute object (its `__dict__`), custom = a class providing
      `to_save_dict` / `from_save_dict` whose data is `attrs` -/
  | obj (cls mod : String) (kind : ObjKind) (attrs : List (String × PyVal))
  deriving Repr, Inhabited

inductive JVal where
  | null
  | bool (b : Bool)
  | int (i : Int)
  | str (s : String)
  | arr (l : List JVal)
  | obj (d : List (String × JVal))
  deriving Repr, Inhabited

def isPublic (k : String) : Bool := !(k.toList.head? == some '_')

mutual
def enc : PyVal → JVal
  | .none => .null
  | .bool b => .bool b
  | .int i => .int i
  | .str s => .str s
  | .list l => .arr (encList l)
  | .tuple l => .arr (encList l)
  | .dict d =>
    -- a story's own dict that uses the reserved key is wrapped (`{"_type": "dict", "_data": {...}}`)
    if d.any (·.1 == "_type") then .obj [("_type", .str "dict"), ("_data", .obj (encKVs d))] else .obj (encKVs d)
  | .obj cls mod .auto attrs =>
    .obj [("_type", .str cls), ("_module", .str mod), ("_data", .obj (encPublic attrs))]
  | .obj cls mod .custom attrs =>
    -- `_serialize_value(value.to_save_dict())`: the record a class hands out is a dict like any other (wrapped when it uses
    -- the reserved key itself)
    .obj [("_type", .str cls), ("_module", .str mod),
          ("_data", if attrs.any (·.1 == "_type") then .obj [("_type", .str "dict"), ("_data", .obj (encKVs attrs))] else .obj (encKVs attrs)),
          ("_custom", .bool true)]
def encList : List PyVal → List JVal
  | [] => []
  | v :: vs => enc v :: encList vs
def encKVs : List (String × PyVal) → List (String × JVal)
  | [] => []
  | (k, v) :: rest => (k, enc v) :: encKVs rest
/-- `{k: ser(v) for k, v in __dict__.items() if not k.startswith("_")}` -/
def encPublic : List (String × PyVal) → List (String × JVal)
  | [] => []
  | (k, v) :: rest => if isPublic k then (k, enc v) :: encPublic rest else encPublic rest
end

abbrev Registry := List (String × (String × ObjKind))   -- class name ↦ (module, kind)

mutual
def dec (ctx : Registry) : JVal → PyVal
  | .null => .none
  | .bool b => .bool b
  | .int i => .int i
  | .str s => .str s
  | .arr l => .list (decList ctx l)
  | .obj d =>
    match d.lookup "_type" with
    | none => .dict (decKVs ctx d)
    | some (.str "string_repr") =>
      (match d.lookup "_value" with | some (.str s) => .str s | _ => .str "")
    | some (.str "dict") => .dict ((decDataOf ctx d).getD [])
    | some (.str ty) =>
      (match ctx.lookup ty with
       | none => .dict ((decDataOf ctx d).getD [])
       | some (m, .auto) => .obj ty m .auto ((decDataOf ctx d).getD [])
       | some (m, .custom) =>
         -- `cls.from_save_dict(self._deserialize_value(obj_data))`: the record is deserialised as a whole
         .obj ty m .custom (match decDataC ctx d with | some (.dict kvs) => kvs | _ => []))
    | some _ => .dict (decKVs ctx d)
def decList (ctx : Registry) : List JVal → List PyVal
  | [] => []
  | v :: vs => dec ctx v :: decList ctx vs
def decKVs (ctx : Registry) : List (String × JVal) → List (String × PyVal)
  | [] => []
  | (k, v) :: rest => (k, dec ctx v) :: decKVs ctx rest
/-- `deser(value.get("_data", {}))` -/
def decDataC (ctx : Registry) : List (String × JVal) → Option PyVal
  | [] => none
  | (k, v) :: rest => if k == "_data" then some (dec ctx v) else decDataC ctx rest
/-- `{k: deser(v) for k, v in value.get("_data", {}).items()}` -/
def decDataOf (ctx : Registry) : List (String × JVal) → Option (List (String × PyVal))
  | [] => none
  | (k, v) :: rest =>
    if k == "_data" then (match v with | .obj dd => some (decKVs ctx dd) | _ => some [])
    else decDataOf ctx rest
end

-- what a value is expected to come back as: tuples become lists, as documented
mutual
def norm : PyVal → PyVal
  | .list l => .list (normList l)
  | .tuple l => .list (normList l)
  | .dict d => .dict (normKVs d)
  | .obj c m k a => .obj c m k (normKVs a)
  | v => v
def normList : List PyVal → List PyVal
  | [] => []
  | v :: vs => norm v :: normList vs
def normKVs : List (String × PyVal) → List (String × PyVal)
  | [] => []
  | (k, v) :: rest => (k, norm v) :: normKVs rest
end

-- the supported domain: string-keyed dicts (also those that use the key `_type`), instances of
-- registered classes (with the registered module and kind), plain attribute objects without
-- underscore attributes (as the cookbook documents), nested in any combination to any depth
mutual
def Supported (ctx : Registry) : PyVal → Bool
  | .list l => supList ctx l
  | .tuple l => supList ctx l
  | .dict d => supKVs ctx d
  | .obj c m .auto a => ctx.lookup c == some (m, .auto) && c != "string_repr" && c != "dict" && a.all (fun kv => isPublic kv.1) && supKVs ctx a
  | .obj c m .custom a => ctx.lookup c == some (m, .custom) && c != "string_repr" && c != "dict" && supKVs ctx a
  | _ => true
def supList (ctx : Registry) : List PyVal → Bool
  | [] => true
  | v :: vs => Supported ctx v && supList ctx vs
def supKVs (ctx : Registry) : List (String × PyVal) → Bool
  | [] => true
  | (_, v) :: rest => Supported ctx v && supKVs ctx rest
end

end Bardic.Codec
