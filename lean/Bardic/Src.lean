import Bardic.Story
/-!
# Source-level stories (C01)

`Item` is the abstract syntax of the documented Bardic language as an author writes it: content lines
made of text, `{expr}` / `{expr:spec}` and `{cond ? a | b}`, blank lines, comments, `~` statements, Python
blocks, `@if` / `@for` blocks, directives, choices, jumps, `@join`.  `compilePassage` is what the real
compiler produces for the printed form of such a passage (checked against the real compiler on every
run); `Bardic/Ref.lean` gives the items their documented meaning directly and `Proofs/C01.lean` proves
that rendering the compiled tokens *is* that meaning.
-/
namespace Bardic.Src

/-- inline parts of a content line or of a choice text: text, `{code}` / `{code:spec}`, `{c ? t | f}` -/
inductive Inl where
  | text (s : String)
  | expr (code : String) (spec : Option String)
  | cond (c : String) (t f : List Inl)

mutual
inductive Item where
  /-- `cmt`: the line carries a trailing `// comment` -/
  | line (parts : List Inl) (glue : Bool) (tags : List String) (cmt : Bool)
  | blank
  | comment
  | stmt (code : String)
  | py (code : String)
  | ifB (branches : List SBranch)
  | forB (var coll : String) (body : List Item)
  | render (name args : String)
  | input (attrs : List (String × String))
  | hook (add : Bool) (event target : String)
  | choice (c : SChoice)
  | jump (target args : String)
  | join
/-- `@if c:` / `@elif c:` / `@else:` (condition `True`) with its body -/
inductive SBranch where
  | mk (cond : String) (body : List Item)
inductive SChoice where
  | mk (text : List Inl) (target args : String) (cond : Option String) (sticky : Bool) (tags : List String)
       (block : List Item)
end

instance : Inhabited Inl := ⟨.text ""⟩
instance : Inhabited Item := ⟨.blank⟩
instance : Inhabited SChoice := ⟨.mk [] "" "" none true [] []⟩
instance : Inhabited SBranch := ⟨.mk "" []⟩

structure SPassage where
  name : String
  params : List Param
  tags : List String
  items : List Item

/-! ## The reading of a line: what the tokenizer normalises away -/

def isWs (c : Char) : Bool := isPyWs c

def lstripS (s : String) : String := String.ofList (lstripL s.toList)
def rstripS (s : String) : String := String.ofList (rstripL s.toList)

/-- `\//` is a literal `//` -/
def unescL : List Char → List Char
  | '\\' :: '/' :: '/' :: r => '/' :: '/' :: unescL r
  | c :: r => c :: unescL r
  | [] => []
def unesc (s : String) : String := String.ofList (unescL s.toList)

/-- adjacent text parts are one text; empty texts do not exist -/
def mergeTexts : List Inl → List Inl
  | [] => []
  | .text a :: rest =>
    match mergeTexts rest with
    | .text b :: r => if a ++ b == "" then r else .text (a ++ b) :: r
    | r => if a == "" then r else .text a :: r
  | i :: rest => i :: mergeTexts rest

def lstripFirst : List Inl → List Inl
  | .text a :: r => if lstripS a == "" then r else .text (lstripS a) :: r
  | l => l

def rstripLast : List Inl → List Inl
  | [] => []
  | [.text a] => if rstripS a == "" then [] else [.text (rstripS a)]
  | i :: r => i :: rstripLast r

mutual
/-- the parts as the tokenizer reads them: escapes resolved, neighbours merged, the two branches of an inline
conditional trimmed -/
def normInl : Inl → Inl
  | .text s => .text (unesc s)
  | .expr c sp => .expr c sp
  | .cond c t f => .cond (pyStrip c) (rstripLast (lstripFirst (mergeTexts (normInls t)))) (rstripLast (lstripFirst (mergeTexts (normInls f))))
def normInls : List Inl → List Inl
  | [] => []
  | i :: r => normInl i :: normInls r
end

/-- a whole line: blanks before tags or a trailing comment belong to neither -/
def normLine (parts : List Inl) (trimEnd : Bool) : List Inl :=
  let p := mergeTexts (normInls parts)
  if trimEnd then rstripLast p else p

mutual
/-- the source as the compiler reads it: every line and choice text normalised -/
def normItem : Item → Item
  | .line parts glue tags cmt => .line (normLine parts (cmt || !tags.isEmpty)) glue tags cmt
  | .ifB bs => .ifB (normBranches bs)
  | .forB v c body => .forB v c (normItems body)
  | .choice c => .choice (normChoice c)
  | i => i
def normItems : List Item → List Item
  | [] => []
  | i :: r => normItem i :: normItems r
def normBranches : List SBranch → List SBranch
  | [] => []
  | .mk c body :: r => .mk c (normItems body) :: normBranches r
def normChoice : SChoice → SChoice
  | .mk text tgt args cond sticky tags block => .mk (normLine text false) tgt args cond sticky tags (normItems block)
end

/-! ## Compilation (of normalised sources) -/

/-- the code of a display expression as the compiler stores it -/
def fullCode (code : String) : Option String → String
  | none => code
  | some sp => code ++ ":" ++ sp

mutual
def cInl : Inl → Tok
  | .text s => .text s []
  | .expr c sp => .expr (fullCode c sp)
  | .cond c t f => .inlineCond c (cInls t) (cInls f)
def cInls : List Inl → List Tok
  | [] => []
  | i :: r => cInl i :: cInls r
end

/-- tags go onto the last token of the line (only text tokens keep them in this model) -/
def attachTags (tags : List String) : List Tok → List Tok
  | [] => []
  | [.text s _] => [.text s tags]
  | [t] => [t]
  | t :: r => t :: attachTags tags r

def nl : Tok := .text "\n" []

/-- tokens of one (normalised) content line -/
def cLine (parts : List Inl) (glue : Bool) (tags : List String) : List Tok :=
  attachTags tags (cInls parts) ++ (if glue then [] else [nl])

def pyTitleL : List Char → Bool → List Char
  | [], _ => []
  | c :: r, startOfWord =>
    if c.isAlpha then (if startOfWord then c.toUpper else c.toLower) :: pyTitleL r false
    else c :: pyTitleL r true

/-- `@input` attributes as stored: label defaults to the title-cased name, placeholder to "" (key order) -/
def inputAttrs (attrs : List (String × String)) : List (String × String) :=
  let name := (attrs.lookup "name").getD ""
  let label := (attrs.lookup "label").getD (String.ofList (pyTitleL ((name.toList.map fun c => if c == '_' then ' ' else c)) true))
  let ph := (attrs.lookup "placeholder").getD ""
  [("label", label), ("name", name), ("placeholder", ph)]

mutual
/-- an item inside an `@if` / `@for` body (statements and directives stay in the token stream) -/
def cItem : Item → List Tok
  | .line parts glue tags _ => cLine parts glue tags
  | .blank => [nl]
  | .comment => []
  | .stmt code => [.stmt code]
  | .py code => [.pyblock code]
  | .ifB bs => [.cond (cBranches bs)]
  | .forB v coll body => [.loop v coll (cItems body) (cChoices body)]
  | .render name args => [.render name args none]
  | .input attrs => [.input (inputAttrs attrs)]
  | .hook add ev tgt => [.hook add ev tgt]
  | .choice _ => []
  | .jump tgt _ => [.jump tgt ""]           -- a jump inside a block keeps only its target
  | .join => []
def cItems : List Item → List Tok
  | [] => []
  | i :: r => cItem i ++ cItems r
def cBranches : List SBranch → List Branch
  | [] => []
  | .mk c body :: r => .mk c (cItems body) (cChoices body) :: cBranches r
/-- the choices written in a body, in order -/
def cChoices : List Item → List Choice
  | [] => []
  | .choice c :: r => cChoice c 0 :: cChoices r
  | _ :: r => cChoices r
def cChoice : SChoice → Nat → Choice
  | .mk text tgt args cond sticky tags block, sec =>
    .mk (cInls text) tgt args cond sticky sec tags (if tgt == "@join" then cBlock block else [])
/-- the indented block under a `-> @join` choice: lines (no glue there), blanks, statements, hooks -/
def cBlock : List Item → List Tok
  | [] => []
  | .line parts _ tags _ :: r => cLine parts false tags ++ cBlock r
  | .blank :: r => nl :: cBlock r
  | .stmt code :: r => .stmt code :: cBlock r
  | .hook add ev tgt :: r => .hook add ev tgt :: cBlock r
  | _ :: r => cBlock r
end

/-! ### top level of a passage -/

structure Acc where
  content : List Tok := []
  execute : List Tok := []
  choices : List Choice := []
  inputs : List (List (String × String)) := []
  sec : Nat := 0

def cTopItem (a : Acc) : Item → Acc
  | .line parts glue tags _ => { a with content := a.content ++ cLine parts glue tags }
  | .blank => { a with content := a.content ++ [nl] }
  | .comment => a
  | .stmt code => { a with execute := a.execute ++ [.stmt code] }
  | .py code => { a with execute := a.execute ++ [.pyblock code] }
  | .hook add ev tgt => { a with execute := a.execute ++ [.hook add ev tgt] }
  | .ifB bs => { a with content := a.content ++ [.cond (cBranches bs)] }
  | .forB v coll body => { a with content := a.content ++ [.loop v coll (cItems body) (cChoices body)] }
  | .render name args => { a with content := a.content ++ [.render name args none] }
  | .input attrs => { a with inputs := a.inputs ++ [inputAttrs attrs] }
  | .choice c => { a with choices := a.choices ++ [cChoice c a.sec] }
  | .jump tgt args => { a with content := a.content ++ [.jump tgt args] }
  | .join => { a with content := a.content ++ [.joinMarker], sec := a.sec + 1 }

def isNl : Tok → Bool
  | .text s _ => s == "\n"
  | _ => false
def isCondTok : Tok → Bool
  | .cond _ => true
  | _ => false

def headIs (p : Tok → Bool) : List Tok → Bool
  | t :: _ => p t
  | [] => false

/-- `_cleanup_whitespace`: a newline directly before a conditional is dropped when a newline precedes it; a newline
directly after a conditional is dropped when a newline follows it.  `acc` is the cleaned list, reversed. -/
def cleanupGo : List Tok → List Tok → List Tok
  | [], acc => acc.reverse
  | t :: rest, acc =>
    if isNl t && headIs isCondTok rest && headIs isNl acc then cleanupGo rest acc
    else if isNl t && headIs isCondTok acc && headIs isNl rest then cleanupGo rest acc
    else cleanupGo rest (t :: acc)

def cleanup (ts : List Tok) : List Tok := cleanupGo ts []

/-- `_trim_trailing_newlines`: at most one newline token at the end -/
def trimTrailing (ts : List Tok) : List Tok :=
  let n := (ts.reverse.takeWhile isNl).length
  if n > 1 then ts.take (ts.length - (n - 1)) else ts

/-- compile the items of a passage as written: normalise, then translate -/
def compilePassage (p : SPassage) : Passage :=
  let a := (normItems p.items).foldl cTopItem {}
  { id := p.name, params := p.params, content := trimTrailing (cleanup a.content), choices := a.choices,
    execute := a.execute, inputs := a.inputs, tags := p.tags }

def compileStory (ps : List SPassage) (start : Option String) : Story :=
  let passages := ps.map fun p => (p.name, compilePassage p)
  let initial := match start with
    | some s => s
    | none => if passages.any (·.1 == "Start") then "Start" else (passages.head?.map (·.1)).getD ""
  { initial, passages }

/-! ### the sources the compiler reads as written

In an `@if` branch the compiler buffers text lines and flushes them when a statement, directive, nested
block, choice or jump follows; that flush ignores the glue operator (`A<>` becomes the text `A<>` and a
newline — recorded finding C01-F1).  `glueSafe` excludes exactly that situation; the block under a `-> @join`
choice knows no glue at all. -/
mutual
def Item.glueSafe : Item → Bool
  | .ifB bs => branchesGlueSafe bs
  | .forB _ _ body => itemsGlueSafe body
  | .choice (.mk _ _ _ _ _ _ block) => blockNoGlue block
  | _ => true
def itemsGlueSafe : List Item → Bool
  | [] => true
  | i :: r => i.glueSafe && itemsGlueSafe r
def branchesGlueSafe : List SBranch → Bool
  | [] => true
  | .mk _ body :: r => itemsGlueSafe body && branchBodySafe body && branchesGlueSafe r
/-- after a glued line only lines, blanks and comments follow up to the end of the branch (so that the buffer it
sits in is flushed by the branch end, which honours glue, and not by a directive) -/
def branchBodySafe : List Item → Bool
  | [] => true
  | .line _ true _ _ :: r => restIsText r && branchBodySafe r
  | _ :: r => branchBodySafe r
def restIsText : List Item → Bool
  | [] => true
  | .comment :: r => restIsText r
  | .line _ _ _ _ :: r => restIsText r
  | .blank :: r => restIsText r
  | _ => false
def blockNoGlue : List Item → Bool
  | [] => true
  | .line _ g _ _ :: r => !g && blockNoGlue r
  | _ :: r => blockNoGlue r
end

end Bardic.Src
