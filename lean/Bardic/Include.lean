import Bardic.Base
import Bardic.Parser.Strip
/-!
# `resolve_includes` over an abstract file system, and the header of `format_error`

Paths are absolute, lexically normalised component lists (`Path.resolve()` without symlinks).
A file's text is split at "\n" exactly as the Python does; the resolver returns the combined
lines together with the line map (`SourceLocation(file, 0-based line)` per combined line).
-/
namespace Bardic.Include

abbrev Path := List String
abbrev FS := List (Path × String)

structure Loc where
  file : Path
  line : Nat
  deriving DecidableEq, Repr

inductive Diag
  | circular (p : Path)         -- ValueError
  | notFound (p : Path)         -- FileNotFoundError
  | noPath (file : Path) (line : Nat)        -- SyntaxError: @include without a path
  | manyPaths (file : Path) (line : Nat)     -- SyntaxError: several paths
  | depth                        -- recursion bound of the model exhausted (shown unreachable)
  deriving DecidableEq, Repr

/-- lexical normalisation of `dir / rel` (`.` dropped, `..` pops, an absolute `rel` restarts) -/
def normComps : List String → Path → Path
  | [], acc => acc.reverse
  | c :: cs, acc =>
    if c == "" || c == "." then normComps cs acc
    else if c == ".." then normComps cs acc.tail
    else normComps cs (c :: acc)

def joinPath (dir : Path) (rel : String) : Path :=
  let comps := rel.splitOn "/"
  if rel.startsWith "/" then normComps comps [] else normComps comps dir.reverse

def dirOf (p : Path) : Path := p.dropLast

def isIncludeLine (l : String) : Bool := (pyStrip l).startsWith "@include"
/-- `drop_inline_comment`: the line without a trailing `//` comment and the blanks before it -/
def dropInlineComment (s : String) : String :=
  let p := Parser.strip s.toList
  if p.2.isEmpty then s else String.ofList (rstripL (s.toList.take (s.toList.length - p.2.length)))
/-- the path of an `@include` line (a trailing `//` comment is not part of it) -/
def includeArg (l : String) : String := pyStrip (dropInlineComment ((pyStrip l).drop 8).toString)

def linesOf (text : String) : List String := text.splitOn "\n"

mutual
/-- `resolve_includes(text of path, path, seen)` -/
def resolve (fs : FS) : Nat → Path → List Path → Except Diag (List String × List Loc)
  | 0, _, _ => .error .depth
  | fuel + 1, path, seen =>
    if seen.contains path then .error (.circular path)
    else
      match fs.lookup path with
      | none => .error (.notFound path)
      | some text => resolveLines fs fuel path (path :: seen) (linesOf text) 0
termination_by fuel _ _ => (fuel, 0)
/-- the loop over the lines of one file -/
def resolveLines (fs : FS) : Nat → Path → List Path → List String → Nat → Except Diag (List String × List Loc)
  | _, _, _, [], _ => .ok ([], [])
  | fuel, path, seen, l :: rest, idx =>
    if isIncludeLine l then
      let arg := includeArg l
      if arg == "" then .error (.noPath path idx)
      else if strContains arg " " then .error (.manyPaths path idx)
      else
        match resolve fs fuel (joinPath (dirOf path) arg) seen with
        | .error e => .error e
        | .ok (ls1, m1) =>
          match resolveLines fs fuel path seen rest (idx + 1) with
          | .error e => .error e
          | .ok (ls2, m2) => .ok (ls1 ++ ls2, m1 ++ m2)
    else
      match resolveLines fs fuel path seen rest (idx + 1) with
      | .error e => .error e
      | .ok (ls2, m2) => .ok (l :: ls2, ⟨path, idx⟩ :: m2)
termination_by fuel _ _ ls _ => (fuel, ls.length + 1)
end

/-- the entry point: the root file exists (the caller has just read it) -/
def resolveRoot (fs : FS) (root : Path) : Except Diag (List String × List Loc) :=
  resolve fs (fs.length + 1) root []

/-- the `in <file> on line <n>` header of `format_error(line_num = n, filename = fn, line_map = map)` -/
def display (map : List Loc) (fn : Path) (n : Nat) : Path × Nat :=
  match map[n]? with
  | some loc => (loc.file, loc.line + 1)
  | none => (fn, n + 1)

end Bardic.Include
