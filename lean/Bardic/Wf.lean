import Bardic.Graph
import Bardic.Params
/-!
# Well-formedness of compiled stories (C12) and the compiler's call-site validator
-/
namespace Bardic

structure CallSite where
  src : String
  target : String
  args : String
  nested : Bool
  isJump : Bool
  deriving Repr

mutual
def tokSites (src : String) : Tok → List CallSite
  | .jump t a => [⟨src, t, a, true, true⟩]
  | .cond bs => branchesSites src bs
  | .loop _ _ body chs => chs.map (fun c => ⟨src, c.target, c.args, true, false⟩) ++ toksSites src body
  | _ => []
def toksSites (src : String) : List Tok → List CallSite
  | [] => []
  | t :: ts => tokSites src t ++ toksSites src ts
def branchesSites (src : String) : List Branch → List CallSite
  | [] => []
  | .mk _ body chs :: bs =>
    chs.map (fun c => ⟨src, c.target, c.args, true, false⟩) ++ toksSites src body ++ branchesSites src bs
end

/-- the sites `validate_passage_arguments` walks: top-level choices and top-level jump tokens -/
def topSites (p : Passage) : List CallSite :=
  p.choices.map (fun c => ⟨p.id, c.target, c.args, false, false⟩) ++
  p.content.filterMap (fun t => match t with | .jump tg a => some ⟨p.id, tg, a, false, true⟩ | _ => none)

/-- sites nested in conditionals and loops (not walked by the validator) -/
def nestedSites (p : Passage) : List CallSite :=
  p.content.flatMap fun t => match t with
    | .jump _ _ => []
    | t => tokSites p.id t

/-- the structural argument check of `_validate_single_call` on an already parsed argument list -/
def argsAccepted (params : List Param) (npos : Nat) (kws : List String) : Bool :=
  (if params.isEmpty then npos == 0 && kws.isEmpty else true) &&
  npos ≤ params.length &&
  kws.all (fun k => params.any (·.name == k)) &&
  (params.zipIdx.all fun (p, i) =>
    (p.default.isSome || i < npos || kws.contains p.name) && !(i < npos && kws.contains p.name))

/-- is the call site valid? `parse` = `ast.parse("f(<args>)")`: positional count and keyword names -/
def siteOk (s : Story) (parse : String → Option (Nat × List String)) (cs : CallSite) : Bool :=
  if cs.target == "@join" && !cs.isJump then true
  else match s.passage? cs.target with
    | none => false
    | some p =>
      if p.params.isEmpty then cs.args == ""
      else match parse cs.args with
        | none => false
        | some (npos, kws) => argsAccepted p.params npos kws

def initialOk (s : Story) : Bool := (s.passage? s.initial).isSome
def keysOk (s : Story) : Bool := s.passages.all fun kv => kv.1 == kv.2.id

/-- what the compiler's validator establishes -/
def wfTop (s : Story) (parse : String → Option (Nat × List String)) : Bool :=
  initialOk s && keysOk s && s.passages.all fun kv => (topSites kv.2).all (siteOk s parse)

/-- what C12 asks: also every nested site -/
def wfAll (s : Story) (parse : String → Option (Nat × List String)) : Bool :=
  wfTop s parse && s.passages.all fun kv => (nestedSites kv.2).all (siteOk s parse)

end Bardic
