/-!
# Base: environments (insertion-ordered string-keyed maps), exceptions, small string utilities.

Python dicts are insertion ordered; `Env` mirrors that with an association list in which a key
occurs at most once (all operations below preserve this).  No Mathlib, no Lean.Json: this file is
part of the model proper.
-/
namespace Bardic

abbrev Env (V : Type) := List (String × V)

namespace Env
variable {V : Type}

def get? (e : Env V) (k : String) : Option V := e.lookup k

def contains (e : Env V) (k : String) : Bool := (e.lookup k).isSome

/-- `d[k] = v`: replace in place when present, append otherwise. -/
def set : Env V → String → V → Env V
  | [], k, v => [(k, v)]
  | (k', v') :: e, k, v => if k' == k then (k', v) :: e else (k', v') :: set e k v

/-- `del d[k]` (no error when absent). -/
def erase : Env V → String → Env V
  | [], _ => []
  | (k', v') :: e, k => if k' == k then e else (k', v') :: erase e k

/-- `d.update(o)` -/
def update (e o : Env V) : Env V := o.foldl (fun acc kv => acc.set kv.1 kv.2) e

def keys (e : Env V) : List String := e.map (·.1)


theorem get?_set_self (e : Env V) (k : String) (v : V) : (e.set k v).get? k = some v := by
  induction e with
  | nil => simp [set, get?, List.lookup]
  | cons kv e ih =>
    obtain ⟨k', v'⟩ := kv
    by_cases h : k' = k
    · subst h; simp [set, get?, List.lookup]
    · have hb : (k' == k) = false := by simpa using h
      have hb' : (k == k') = false := by simpa using (fun h' => h h'.symm)
      have ih' : List.lookup k (set e k v) = some v := ih
      simp [set, hb, get?, List.lookup, hb', ih']

theorem get?_set_ne (e : Env V) (k k2 : String) (v : V) (hne : k2 ≠ k) :
    (e.set k v).get? k2 = e.get? k2 := by
  induction e with
  | nil =>
    have : (k2 == k) = false := by simpa using hne
    simp [set, get?, List.lookup, this]
  | cons kv e ih =>
    obtain ⟨k', v'⟩ := kv
    have ih' : List.lookup k2 (set e k v) = List.lookup k2 e := ih
    by_cases h : k' = k
    · subst h
      have : (k2 == k') = false := by simpa using hne
      simp [set, get?, List.lookup, this]
    · have hb : (k' == k) = false := by simpa using h
      cases hk : (k2 == k') <;> simp [set, hb, get?, List.lookup, hk, ih']

end Env

/-- Python exception classes the engine distinguishes (its own raises and what callers see). -/
inductive ExcKind
  | valueError | runtimeError | recursionError | indexError | typeError | other
  deriving DecidableEq, Repr, Inhabited

structure Exc where
  kind : ExcKind
  msg : String
  deriving DecidableEq, Repr, Inhabited

/-- `isinstance(e, RuntimeError)` — `RecursionError` is a subclass. -/
def ExcKind.isRuntime : ExcKind → Bool
  | .runtimeError | .recursionError => true
  | _ => false

/-- An exception raised by author code (`eval`/`exec`/`format`), identified by class name. -/
structure PyErr where
  cls : String
  msg : String
  deriving DecidableEq, Repr, Inhabited

/-! ### String helpers (on `List Char`, so that they reduce in the kernel) -/

def isPyWs (c : Char) : Bool :=
  c == ' ' || c == '\t' || c == '\n' || c == '\r' || c == '\x0b' || c == '\x0c' ||
  -- the rest of `str.isspace()`: FS/GS/RS/US, NEL, NBSP and the Unicode space separators
  c == '\x1c' || c == '\x1d' || c == '\x1e' || c == '\x1f' || c == '\u0085' || c == '\u00a0' ||
  c == '\u1680' || ('\u2000' ≤ c && c ≤ '\u200a') || c == '\u2028' || c == '\u2029' || c == '\u202f' ||
  c == '\u205f' || c == '\u3000'

def lstripL : List Char → List Char
  | [] => []
  | c :: cs => if isPyWs c then lstripL cs else c :: cs

def rstripL (cs : List Char) : List Char := (lstripL cs.reverse).reverse

def stripL (cs : List Char) : List Char := rstripL (lstripL cs)

/-- Python `s.strip()` for ASCII whitespace. -/
def pyStrip (s : String) : String := String.ofList (stripL s.toList)

def isPrefixL : List Char → List Char → Bool
  | [], _ => true
  | _ :: _, [] => false
  | a :: as, b :: bs => a == b && isPrefixL as bs

/-- `pat in s` on character lists. -/
def containsL (pat : List Char) : List Char → Bool
  | [] => pat.isEmpty
  | c :: cs => isPrefixL pat (c :: cs) || containsL pat cs

def strContains (s pat : String) : Bool := containsL pat.toList s.toList

/-- split at the first occurrence of `c` : `(before, after)` -/
def splitFirstL (c : Char) : List Char → Option (List Char × List Char)
  | [] => none
  | d :: ds => if d == c then some ([], ds) else
      match splitFirstL c ds with
      | some (a, b) => some (d :: a, b)
      | none => none

/-- `sep.join(parts)` -/
def joinWith (sep : String) : List String → String
  | [] => ""
  | [a] => a
  | a :: b :: rest => a ++ sep ++ joinWith sep (b :: rest)

/-- insert into a list-as-set -/
def setInsert (xs : List String) (x : String) : List String := if xs.contains x then xs else xs ++ [x]

end Bardic
