import Bardic.Engine.Nav
/-!
# Public API: constructor, `choose`, `undo`/`redo`, `save_state`/`load_state`, read calls, `step`
-/
namespace Bardic

variable {S : Sem}

/-- `GameSnapshot` (after the repair: it keeps what was displayed) -/
structure Snap (V : Type) where
  cur : Option String
  vars : Env V
  used : List String
  hooks : Hooks
  joinIdx : List (String × Nat)
  out : Option (Output V)

/-- an engine: the live game plus undo (newest first, at most `cap`) and redo (newest first) -/
structure Eng (V : Type) where
  live : Live V
  undo : List (Snap V)
  redo : List (Snap V)

def undoCap : Nat := 50

def Snap.of (l : Live S.V) : Snap S.V := ⟨l.cur, l.vars, l.used, l.hooks, l.joinIdx, l.out⟩

/-- `deque(maxlen=50).append` with the newest entry at the head -/
def pushCap {α} (s : α) (st : List α) : List α := (s :: st).take undoCap

/-- a saved game (`save_state()` after a JSON round trip; timestamp and story metadata omitted) -/
structure SaveDoc (V : Type) where
  cur : Option String
  vars : Env V
  used : List String
  hooks : Hooks

/-- what a call answers -/
inductive Resp (V : Type)
  | out (o : Output V)
  | bool (b : Bool)
  | strs (l : List String)
  | info (passageCount : Nat) (initial : String) (cur : Option String)
  | metaInfo (cur : Option String) (hasChoices : Bool)
  | doc (d : SaveDoc V)
  | unit
  | raised (e : Exc)

/-- malformed shapes of a save document that `load_state` checks for itself -/
inductive LoadArg (V : Type)
  | doc (d : SaveDoc V)
  | notDict
  | noVersion (d : SaveDoc V)

inductive Op (V : Type)
  | choose (i : Int)
  | undo | redo
  | goto (spec : String)
  | save
  | load (a : LoadArg V)
  | current | hasChoices | isEnd | choiceTexts | choiceTargets | storyInfo | saveMeta
  | canUndo | canRedo | resetOneTime

def Op.isRead {V} : Op V → Bool
  | .current | .hasChoices | .isEnd | .choiceTexts | .choiceTargets | .storyInfo | .saveMeta
  | .canUndo | .canRedo | .save => true
  | _ => false

def initLive (c : ECfg S) : Live S.V :=
  { cur := none, vars := Env.update [("_inputs", S.ofEnv [])] c.impVars, hooks := [], used := []
    joinIdx := [], out := none, scopes := [], log := [] }

/-- `BardEngine(story)`: imports, validation of the initial passage, `goto(initial)` -/
def Eng.init (c : ECfg S) : Except Exc (Eng S.V) :=
  if c.story.initial == "" then .error ⟨.valueError, "Story has no initial passage."⟩
  else if (c.story.passage? c.story.initial).isNone then
    .error ⟨.valueError, "Initial passage '" ++ c.story.initial ++ "' not found in story."⟩
  else
    match goto c c.fuel c.story.initial (initLive c) with
    | (l, .ok _) => .ok ⟨l, [], []⟩
    | (_, .error e) => .error e

def specOf (ch : OChoice) : String :=
  if ch.c.args != "" then ch.c.target ++ "(" ++ ch.c.args ++ ")" else ch.c.target

/-- `choose(i)` -/
def Eng.doChoose (c : ECfg S) (i : Int) (e : Eng S.V) : Eng S.V × Resp S.V :=
  match e.live.out with
  | none => (e, .raised ⟨.other, "AssertionError"⟩)
  | some cur =>
    if i < 0 || i ≥ cur.choices.length then
      (e, .raised ⟨.indexError, "Choice index out of range"⟩)
    else
      let ch := cur.choices[i.toNat]!
      let undo' := pushCap (Snap.of e.live) e.undo
      let l1 : Live S.V :=
        if !ch.c.sticky then
          { e.live with used := setInsert e.live.used (choiceId cur.pid ch.text ch.c.target) }
        else e.live
      if ch.c.target == "@join" && c.variant == .main then
        match joinChoice c ch l1 with
        | (l2, .ok r) => (⟨l2, undo', []⟩, .out r)
        | (l2, .error ex) => (⟨l2, undo', []⟩, .raised ex)
      else
        match goto c c.fuel (specOf ch) l1 with
        | (l2, .error ex) => (⟨l2, undo', []⟩, .raised ex)
        | (l2, .ok r) =>
          match c.variant with
          | .browser => (⟨l2, undo', []⟩, .out r)
          | .main =>
            match triggerEvent c "turn_end" l2 with
            | (l3, .error ex) => (⟨l3, undo', []⟩, .raised ex)
            | (l3, .ok h) => let (l4, r') := withHookText l3 r h; (⟨l4, undo', []⟩, .out r')

/-- `restore_to` followed by the restoration of the displayed output (re-render only for a snapshot
that carries none) -/
def restore (c : ECfg S) (s : Snap S.V) (l : Live S.V) : NRes S Unit :=
  let l1 : Live S.V :=
    match c.variant with
    | .main => { l with cur := s.cur, vars := s.vars, used := s.used, hooks := s.hooks, joinIdx := s.joinIdx }
    | .browser => { l with cur := s.cur, vars := s.vars, used := s.used }
  match s.out with
  | some o => ({ l1 with out := some o }, .ok ())
  | none =>
    match renderPassage c (curStr l1.cur) l1 with
    | (l2, .ok o) => ({ l2 with out := some o }, .ok ())
    | (l2, .error e) => (l2, .error e)

def Eng.doUndo (c : ECfg S) (e : Eng S.V) : Eng S.V × Resp S.V :=
  match e.undo with
  | [] => (e, .bool false)
  | prev :: rest =>
    let redo' := Snap.of e.live :: e.redo
    match restore c prev e.live with
    | (l, .ok _) => (⟨l, rest, redo'⟩, .bool true)
    | (l, .error ex) => (⟨l, rest, redo'⟩, .raised ex)

def Eng.doRedo (c : ECfg S) (e : Eng S.V) : Eng S.V × Resp S.V :=
  match e.redo with
  | [] => (e, .bool false)
  | nxt :: rest =>
    let undo' := pushCap (Snap.of e.live) e.undo
    match restore c nxt e.live with
    | (l, .ok _) => (⟨l, undo', rest⟩, .bool true)
    | (l, .error ex) => (⟨l, undo', rest⟩, .raised ex)

def insertSorted (x : String) : List String → List String
  | [] => [x]
  | y :: ys => if x < y then x :: y :: ys else if x == y then y :: ys else y :: insertSorted x ys

def sortStrs (l : List String) : List String := l.foldr insertSorted []

/-- `save_state()` -/
def Eng.doSave (c : ECfg S) (e : Eng S.V) : SaveDoc S.V :=
  { cur := e.live.cur, vars := e.live.vars, used := sortStrs e.live.used
    hooks := match c.variant with | .main => e.live.hooks | .browser => [] }

/-- `load_state(doc)`: validate, then replace variables (through the value codec), re-bind imports,
replace used choices, clear history, adopt hooks, navigate -/
def Eng.doLoad (c : ECfg S) (a : LoadArg S.V) (e : Eng S.V) : Eng S.V × Resp S.V :=
  match a with
  | .notDict => (e, .raised ⟨.valueError, "Save data must be a dictionary"⟩)
  | .noVersion _ => (e, .raised ⟨.valueError, "Save data missing version field"⟩)
  | .doc d =>
    let target := d.cur.getD "Start"
    if (c.story.passage? target).isNone then
      (e, .raised ⟨.valueError, "Save data references unknown passage: '" ++ target ++ "'"⟩)
    else
      let vars := Env.update (d.vars.map (fun kv => (kv.1, S.saveRT kv.2))) c.impVars
      let l1 : Live S.V :=
        match c.variant with
        | .main => { e.live with vars := vars, used := d.used.eraseDups, hooks := d.hooks }
        | .browser => { e.live with vars := vars, used := d.used.eraseDups }
      match goto c c.fuel target l1 with
      | (l2, .ok _) => (⟨l2, [], []⟩, .unit)
      | (l2, .error ex) => (⟨l2, [], []⟩, .raised ex)

def needOut (e : Eng S.V) (f : Output S.V → Resp S.V) : Resp S.V :=
  match e.live.out with
  | some o => f o
  | none => .raised ⟨.other, "AssertionError"⟩

/-- one API call -/
def step (c : ECfg S) (e : Eng S.V) : Op S.V → Eng S.V × Resp S.V
  | .choose i => e.doChoose c i
  | .undo => e.doUndo c
  | .redo => e.doRedo c
  | .goto spec =>
    match goto c c.fuel spec e.live with
    | (l, .ok o) => ({ e with live := l }, .out o)
    | (l, .error ex) => ({ e with live := l }, .raised ex)
  | .save => (e, .doc (e.doSave c))
  | .load a => e.doLoad c a
  | .current => (e, needOut e .out)
  | .hasChoices => (e, needOut e fun o => .bool (!o.choices.isEmpty))
  | .isEnd => (e, needOut e fun o => .bool o.choices.isEmpty)
  | .choiceTexts => (e, needOut e fun o => .strs (o.choices.map (·.text)))
  | .choiceTargets => (e, needOut e fun o => .strs (o.choices.map (·.c.target)))
  | .storyInfo => (e, .info c.story.passages.length c.story.initial e.live.cur)
  | .saveMeta => (e, needOut e fun o => .metaInfo e.live.cur (!o.choices.isEmpty))
  | .canUndo => (e, .bool (!e.undo.isEmpty))
  | .canRedo => (e, .bool (!e.redo.isEmpty))
  | .resetOneTime => ({ e with live := { e.live with used := [] } }, .unit)

/-- run a list of calls, collecting the answers -/
def run (c : ECfg S) : Eng S.V → List (Op S.V) → Eng S.V × List (Resp S.V)
  | e, [] => (e, [])
  | e, op :: ops =>
    let (e1, r) := step c e op
    let (e2, rs) := run c e1 ops
    (e2, r :: rs)

end Bardic
