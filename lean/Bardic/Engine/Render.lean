import Bardic.Engine.Types
/-!
# `_render_content`, `_render_conditional`, `_render_loop`, `_render_choice_text`

Structural mutual recursion over `Tok` / `List Tok` / `List Branch` / `List Choice`.  The functions
thread the mutable part of the engine state (`RS`) and keep it on errors (Python semantics:
mutations made before a `raise` stay).
-/
namespace Bardic

variable (S : Sem)

abbrev RRes (α : Type) := RS S.V × Except Exc α

def rctx (cfg : RCfg S) (rs : RS S.V) : Env S.V := evalCtx S cfg.cx rs.vars cfg.scope

/-- `_execute_python_statement` -/
def execStmt (cfg : RCfg S) (code : String) (rs : RS S.V) : RRes S Unit :=
  let rs1 := { rs with log := Ev.exec code :: rs.log }
  match S.exec (rctx S cfg rs) code with
  | .ok ctx' =>
    ({ rs1 with vars := writeBack cfg.cx (scopeKeys cfg.scope) rs.vars ctx' }, .ok ())
  | .error e =>
    (rs1, .error ⟨.runtimeError, "Python statement failed: " ++ code ++ "\n  Error: " ++ e.msg⟩)

/-- `_execute_python_block`: no scope, no `_state`, no `_local` -/
def execBlock (cfg : RCfg S) (code : String) (rs : RS S.V) : RRes S Unit :=
  let rs1 := { rs with log := Ev.exec code :: rs.log }
  match S.exec (Env.update cfg.cx rs.vars) code with
  | .ok ctx' => ({ rs1 with vars := writeBack cfg.cx [] rs.vars ctx' }, .ok ())
  | .error e => (rs1, .error ⟨.runtimeError, "Error executing Python block: " ++ e.cls ++ ": " ++ e.msg⟩)

/-- `_execute_hook_command` (absent from the browser copy) -/
def execHook (cfg : RCfg S) (add : Bool) (ev tgt : String) (rs : RS S.V) : RS S.V :=
  match cfg.variant with
  | .browser => rs
  | .main =>
    { rs with
      hooks := if add then Hooks.register rs.hooks ev tgt else Hooks.unregister rs.hooks ev tgt
      log := Ev.hookReg add ev tgt :: rs.log }

/-- the failure handler of `_render_loop`: the main engine returns a 2-tuple that the caller cannot
unpack (`ValueError`), the browser copy renders an inline error -/
def loopFail (cfg : RCfg S) (rs : RS S.V) (msg : String) : RRes S (ROut S.V) :=
  match cfg.variant with
  | .main => (rs, .error ⟨.valueError, "not enough values to unpack (expected 3, got 2)"⟩)
  | .browser => (rs, .ok { text := "{ERROR: Loop failed - " ++ msg ++ "}" })

def loopVars (lv : String) : List String :=
  ((lv.splitOn ",").map pyStrip)

/-- assign the loop variable(s) for one item; returns the saved originals -/
def loopAssign (lv : String) (item : S.V) (vars : Env S.V) :
    Env S.V × List (String × Option S.V) :=
  let vs := loopVars lv
  if vs.length > 1 then
    let rec go (i : Nat) : List String → Env S.V → List (String × Option S.V) →
        Env S.V × List (String × Option S.V)
      | [], e, acc => (e, acc)
      | v :: rest, e, acc =>
        go (i + 1) rest (Env.set e v (S.unpack item i))
          (if acc.any (·.1 == v) then acc else acc ++ [(v, Env.get? e v)])
    go 0 vs vars []
  else
    (Env.set vars lv item, [(lv, Env.get? vars lv)])

/-- restore after one iteration: the previous value comes back; a name that did not exist is deleted -/
def loopRestore (origs : List (String × Option S.V)) (vars : Env S.V) : Env S.V :=
  origs.foldl (fun e (kv : String × Option S.V) =>
    match kv.2 with
    | some v => Env.set e kv.1 v
    | none => Env.erase e kv.1) vars

/-- the `for item in collection` part of `_render_loop`, given the body renderer and the renderer of
the loop's choices as closures -/
def loopItems (lv : String)
    (body : RS S.V → RRes S (ROut S.V)) (chs : RS S.V → RRes S (List (Dir S.V))) :
    List S.V → RS S.V → RRes S (ROut S.V)
  | [], rs => (rs, .ok {})
  | item :: items, rs =>
    let (vars1, origs) := loopAssign S lv item rs.vars
    match body { rs with vars := vars1 } with
    | (rs2, .error e) => ({ rs2 with vars := loopRestore S origs rs2.vars }, .error e)     -- `finally`: restored on failure too
    | (rs2, .ok r) =>
      match chs rs2 with
      | (rs3, .error e) => ({ rs3 with vars := loopRestore S origs rs3.vars }, .error e)
      | (rs3, .ok cds) =>
        let rs4 := { rs3 with vars := loopRestore S origs rs3.vars }
        if r.jump.isSome then (rs4, .ok { text := r.text, jump := r.jump, dirs := r.dirs ++ cds })
        else
          match loopItems lv body chs items rs4 with
          | (rs5, .error e) => (rs5, .error e)
          | (rs5, .ok r') =>
            (rs5, .ok { text := r.text ++ r'.text, jump := r'.jump, dirs := r.dirs ++ cds ++ r'.dirs })

mutual
/-- one token of `_render_content` -/
def renderTok (cfg : RCfg S) : Tok → RS S.V → RRes S (ROut S.V)
  | .text s _, rs => (rs, .ok { text := s })
  | .expr code, rs => (rs, .ok { text := renderExpr S (rctx S cfg rs) code })
  | .inlineCond c t f, rs =>
    match S.eval (rctx S cfg rs) c with
    | .error e => (rs, .ok { text := "{ERROR: inline conditional - " ++ e.msg ++ "}" })
    | .ok v =>
      if S.truthy v then
        match renderToks cfg t rs with
        | (rs', .ok r) => (rs', .ok { text := r.text })
        | (rs', .error e) => (rs', .ok { text := "{ERROR: inline conditional - " ++ e.msg ++ "}" })
      else
        match renderToks cfg f rs with
        | (rs', .ok r) => (rs', .ok { text := r.text })
        | (rs', .error e) => (rs', .ok { text := "{ERROR: inline conditional - " ++ e.msg ++ "}" })
  | .render name args hint, rs =>
    (rs, .ok { dirs := [processRender S (rctx S cfg rs) name args hint] })
  | .input attrs, rs => (rs, .ok { dirs := [.input attrs] })
  | .stmt code, rs =>
    match execStmt S cfg code rs with
    | (rs', .ok _) => (rs', .ok {})
    | (rs', .error e) => (rs', .error e)
  | .pyblock code, rs =>
    match execBlock S cfg code rs with
    | (rs', .ok _) => (rs', .ok {})
    | (rs', .error e) => (rs', .error e)
  | .hook add ev tgt, rs => (execHook S cfg add ev tgt rs, .ok {})
  | .cond bs, rs => renderBranches cfg bs rs
  | .loop lv coll body choices, rs =>
    if lv == "" || coll == "" then (rs, .ok {})
    else
      match (S.eval (rctx S cfg rs) coll) >>= S.iter with
      | .error e => loopFail S cfg rs e.msg
      | .ok items =>
        match loopItems S lv (fun r => renderToks cfg body r)
            (fun r => renderChoiceTexts cfg choices r) items rs with
        | (rs', .ok r) => (rs', .ok r)
        | (rs', .error e) => loopFail S cfg rs' e.msg
  | .jump t _, rs => (rs, .ok { jump := some t })
  | .joinMarker, rs => (rs, .ok {})
  | .other _, rs => (rs, .ok {})

/-- `_render_content`: stops at the first jump; the main engine stops at a join marker -/
def renderToks (cfg : RCfg S) : List Tok → RS S.V → RRes S (ROut S.V)
  | [], rs => (rs, .ok {})
  | t :: ts, rs =>
    if t.isJoinMarker && cfg.variant == .main then (rs, .ok {})
    else
      match renderTok cfg t rs with
      | (rs1, .error e) => (rs1, .error e)
      | (rs1, .ok r1) =>
        if r1.jump.isSome then (rs1, .ok r1)
        else
          match renderToks cfg ts rs1 with
          | (rs2, .error e) => (rs2, .error e)
          | (rs2, .ok r2) =>
            (rs2, .ok { text := r1.text ++ r2.text, jump := r2.jump, dirs := r1.dirs ++ r2.dirs })

/-- `_render_conditional`: only the condition is guarded; the first truthy branch is rendered and
its choices are appended to the directives with their text unrendered -/
def renderBranches (cfg : RCfg S) : List Branch → RS S.V → RRes S (ROut S.V)
  | [], rs => (rs, .ok {})
  | .mk c body chs :: bs, rs =>
    match S.eval (rctx S cfg rs) c with
    | .error _ => renderBranches cfg bs rs
    | .ok v =>
      if S.truthy v then
        match renderToks cfg body rs with
        | (rs', .ok r) => (rs', .ok { r with dirs := r.dirs ++ chs.map (fun c => Dir.choice c none) })
        | (rs', .error e) => (rs', .error e)
      else renderBranches cfg bs rs

/-- the loop's choices, text rendered now while the loop variable is bound -/
def renderChoiceTexts (cfg : RCfg S) : List Choice → RS S.V → RRes S (List (Dir S.V))
  | [], rs => (rs, .ok [])
  | .mk text tgt args cnd sticky sec tags block :: cs, rs =>
    match renderToks cfg text rs with
    | (rs1, .error e) => (rs1, .error e)
    | (rs1, .ok r) =>
      match renderChoiceTexts cfg cs rs1 with
      | (rs2, .error e) => (rs2, .error e)
      | (rs2, .ok ds) =>
        (rs2, .ok (Dir.choice (.mk text tgt args cnd sticky sec tags block) (some r.text) :: ds))
end

end Bardic
