import Bardic.Engine.Render
/-!
# Navigation: `_execute_passage`, `_render_passage`, `goto`, hooks, `choose`, `@join`

`Live` is everything an undo snapshot or a save has to reproduce plus the scope stack and the ghost
log.  The undo/redo stacks live one level up (`Eng`), so that "navigation never touches the history"
is a fact of the data flow, exactly as in the Python (`goto`, `_render_*`, `trigger_event` never
mention `undo_stack`/`redo_stack`).
-/
namespace Bardic

structure Live (V : Type) where
  cur : Option String
  vars : Env V
  hooks : Hooks
  used : List String
  joinIdx : List (String × Nat)
  out : Option (Output V)
  scopes : List (Env V)
  log : List Ev

/-- constant configuration of an engine instance -/
structure ECfg (S : Sem) where
  variant : Variant := .main
  story : Story
  /-- `self.context` (registered / auto-registered classes); read-only -/
  cx : Env S.V := []
  /-- names bound by the story's import lines, (re)installed into the variables by `_execute_imports` -/
  impVars : Env S.V := []
  /-- stands for CPython's recursion limit in the recursive `goto` -/
  fuel : Nat := 200

variable {S : Sem}

namespace Live
def rs (l : Live S.V) : RS S.V := ⟨l.vars, l.hooks, l.log⟩
def withRS (l : Live S.V) (r : RS S.V) : Live S.V :=
  { l with vars := r.vars, hooks := r.hooks, log := r.log }
def rcfg (c : ECfg S) (l : Live S.V) : RCfg S := ⟨c.variant, c.cx, l.scopes.head?⟩
def joinSec (l : Live S.V) (pid : String) : Nat := (l.joinIdx.lookup pid).getD 0
end Live

abbrev NRes (S : Sem) (α : Type) := Live S.V × Except Exc α

def curStr (cur : Option String) : String := cur.getD "None"

/-- `_render_choice_text`: a text already rendered (loop choice) is returned as is -/
def renderChoiceText (cfg : RCfg S) (c : Choice) (pre : Option String) (rs : RS S.V) :
    RRes S String :=
  match pre with
  | some s => (rs, .ok s)
  | none =>
    match renderToks S cfg c.text rs with
    | (rs', .ok r) => (rs', .ok r.text)
    | (rs', .error e) => (rs', .error e)

/-- `_is_choice_available` -/
def isAvail (cfg : RCfg S) (cur : Option String) (used : List String) (c : Choice)
    (pre : Option String) (rs : RS S.V) : RRes S Bool :=
  let condOk (rs : RS S.V) : Bool :=
    match c.cond with
    | none => true
    | some code =>
      if code == "" then true
      else match S.eval (rctx S cfg rs) code with
        | .ok v => S.truthy v
        | .error _ => false
  if !c.sticky then
    match renderChoiceText cfg c pre rs with
    | (rs1, .error e) => (rs1, .error e)
    | (rs1, .ok t) =>
      if used.contains (choiceId (curStr cur) t c.target) then (rs1, .ok false)
      else (rs1, .ok (condOk rs1))
  else (rs, .ok (condOk rs))

/-- the filter loop of `_render_passage` / `_render_from_join_marker`:
`secOk` is the section test applied next to availability -/
def offerChoices (cfg : RCfg S) (cur : Option String) (used : List String) (secOk : Choice → Bool) :
    List (Choice × Option String × Bool) → RS S.V → RRes S (List OChoice)
  | [], rs => (rs, .ok [])
  | (c, pre, blk) :: rest, rs =>
    match isAvail cfg cur used c pre rs with
    | (rs1, .error e) => (rs1, .error e)
    | (rs1, .ok av) =>
      if av && secOk c then
        match renderChoiceText cfg c pre rs1 with
        | (rs2, .error e) => (rs2, .error e)
        | (rs2, .ok t) =>
          match offerChoices cfg cur used secOk rest rs2 with
          | (rs3, .error e) => (rs3, .error e)
          | (rs3, .ok os) => (rs3, .ok (⟨c, t, blk⟩ :: os))
      else offerChoices cfg cur used secOk rest rs1

def dirChoices {V} : List (Dir V) → List (Choice × Option String × Bool)
  | [] => []
  | .choice c pre :: ds => (c, pre, true) :: dirChoices ds
  | _ :: ds => dirChoices ds

def passageNotFound (pid : String) : Exc := ⟨.valueError, "Passage '" ++ pid ++ "' not found."⟩

/-- `_render_passage` -/
def renderPassage (c : ECfg S) (pid : String) (l : Live S.V) : NRes S (Output S.V) :=
  match c.story.passage? pid with
  | none => (l, .error (passageNotFound pid))
  | some p =>
    let cfg := Live.rcfg c l
    match renderToks S cfg p.content l.rs with
    | (rs1, .error e) => (l.withRS rs1, .error e)
    | (rs1, .ok r) =>
      let all := p.choices.map (fun ch => (ch, (none : Option String), false)) ++ dirChoices r.dirs
      let sec := match c.variant with
        | .main => fun (ch : Choice) => ch.sec == l.joinSec pid
        | .browser => fun _ => true
      match offerChoices cfg l.cur l.used sec all rs1 with
      | (rs2, .error e) => (l.withRS rs2, .error e)
      | (rs2, .ok os) =>
        (l.withRS rs2, .ok
          { content := r.text, choices := os, pid := pid, jump := r.jump
            rdirs := r.dirs.filter (fun d => !d.isChoice && !d.isInput)
            idirs := r.dirs.filter (·.isInput) ++ p.inputs.map Dir.input })

/-- `_execute_commands` -/
def execCommands (cfg : RCfg S) : List Tok → RS S.V → RRes S Unit
  | [], rs => (rs, .ok ())
  | .stmt code :: cs, rs =>
    match execStmt S cfg code rs with
    | (rs1, .ok _) => execCommands cfg cs rs1
    | (rs1, .error e) => (rs1, .error e)
  | .pyblock code :: cs, rs =>
    match execBlock S cfg code rs with
    | (rs1, .ok _) => execCommands cfg cs rs1
    | (rs1, .error e) => (rs1, .error e)
  | .hook add ev tgt :: cs, rs => execCommands cfg cs (execHook S cfg add ev tgt rs)
  | _ :: cs, rs => execCommands cfg cs rs

def firstJumpSpec : List Tok → Option String
  | [] => none
  | .jump t a :: _ => some (if a != "" then t ++ "(" ++ a ++ ")" else t)
  | _ :: ts => firstJumpSpec ts

/-- `_execute_passage`: run the commands, then report a top-level jump found anywhere in the content -/
def executePassage (c : ECfg S) (pid : String) (l : Live S.V) : NRes S (Option String) :=
  match c.story.passage? pid with
  | none => (l, .error (passageNotFound pid))
  | some p =>
    let l0 := { l with log := Ev.enter pid :: l.log }
    match execCommands (Live.rcfg c l0) p.execute l0.rs with
    | (rs1, .error e) => (l0.withRS rs1, .error e)
    | (rs1, .ok _) => (l0.withRS rs1, .ok (firstJumpSpec p.content))

/-! ### `goto` -/

/-- the text up to the `)` matching the first `(`, scanning with a depth counter; inside a string literal (`q` = its quote
character) a parenthesis is text and a backslash skips the next character -/
def matchParenQ : Nat → Option Char → List Char → Option (List Char)
  | _, _, [] => none
  | d, some q, c :: cs =>
    if c == '\\' then (match cs with | [] => none | c' :: cs' => (matchParenQ d (some q) cs').map (c :: c' :: ·))
    else if c == q then (matchParenQ d none cs).map (c :: ·)
    else (matchParenQ d (some q) cs).map (c :: ·)
  | d, none, c :: cs =>
    if c == '"' || c == '\'' then (matchParenQ d (some c) cs).map (c :: ·)
    else if c == '(' then (matchParenQ (d + 1) none cs).map (c :: ·)
    else if c == ')' then
      if d == 1 then some [] else (matchParenQ (d - 1) none cs).map (c :: ·)
    else (matchParenQ d none cs).map (c :: ·)

def matchParen (d : Nat) (cs : List Char) : Option (List Char) := matchParenQ d none cs

/-- split `Name(args)` : passage id and argument text -/
def parseSpec (spec : String) : Except Exc (String × String) :=
  match splitFirstL '(' spec.toList with
  | none => .ok (spec, "")
  | some (name, rest) =>
    match matchParen 1 rest with
    | some args => .ok (String.ofList name, String.ofList args)
    | none => .error ⟨.valueError, "Unclosed parenthesis in passage spec: " ++ spec⟩

/-- a failing parameter default is reported as `ValueError` -/
def defaultFailed (name : String) (e : PyErr) : Exc :=
  ⟨.valueError, "Could not evaluate default for parameter '" ++ name ++ "': " ++ e.msg⟩

/-- `_bind_arguments` -/
def bindArgs (c : ECfg S) (l : Live S.V) : List Param → Env S.V → Nat → Env S.V → Except Exc (Env S.V)
  | [], _, _, res => .ok res
  | p :: ps, ad, k, res =>
    match Env.get? ad ("arg_" ++ toString k) with
    | some v => bindArgs c l ps ad (k + 1) (Env.set res p.name v)
    | none =>
      match Env.get? ad p.name with
      | some v =>
        if Env.contains res p.name then
          .error ⟨.valueError, "Parameter '" ++ p.name ++ "' provided multiple times (both positional and keyword)"⟩
        else bindArgs c l ps ad k (Env.set res p.name v)
      | none =>
        match p.default with
        | some d =>
          match S.eval (Env.update (evalCtx S c.cx l.vars l.scopes.head?) res) d with
          | .ok v => bindArgs c l ps ad k (Env.set res p.name v)
          | .error e => .error (defaultFailed p.name e)
        | none => .error ⟨.valueError, "Required parameter '" ++ p.name ++ "' not provided"⟩

def mkFinal (accC : List String) (accD : List (Dir S.V)) (o : Output S.V) : Output S.V :=
  { content := joinWith "\n\n" accC, choices := o.choices, pid := o.pid, rdirs := accD, idirs := o.idirs }

/-- entering `cid` in the chain: `@join` progress restarts (main engine), position is updated -/
def markEntered (c : ECfg S) (cid : String) (l : Live S.V) : Live S.V :=
  match c.variant with
  | .main => { l with joinIdx := Env.set l.joinIdx cid 0, cur := some cid }
  | .browser => { l with cur := some cid }

/-- the `while True` of `goto`; `recur` is `goto` itself one recursion level deeper -/
def gotoLoop (c : ECfg S) (recur : String → Live S.V → NRes S (Output S.V)) :
    Nat → List String → String → List String → List (Dir S.V) → Live S.V → NRes S (Output S.V)
  | 0, _, _, _, _, l => (l, .error ⟨.other, "internal: chain bound exhausted"⟩)
  | n + 1, visited, cid, accC, accD, l =>
    if visited.contains cid then
      (l, .error ⟨.runtimeError, "Jump loop detected: " ++ joinWith " -> " (visited.reverse ++ [cid])⟩)
    else
      match executePassage c cid (markEntered c cid l) with
      | (l2, .error e) => (l2, .error e)
      | (l2, .ok (some spec)) =>
        match recur spec l2 with
        | (l3, .error e) => (l3, .error e)
        | (l3, .ok jo) =>
          if accC.isEmpty then (l3, .ok jo)
          else
            let o : Output S.V :=
              { content := joinWith "\n\n" (accC ++ [jo.content]), choices := jo.choices, pid := jo.pid
                rdirs := accD ++ jo.rdirs, idirs := jo.idirs }
            ({ l3 with out := some o }, .ok o)
      | (l2, .ok none) =>
        match renderPassage c cid l2 with
        | (l3, .error e) => (l3, .error e)
        | (l3, .ok o) =>
          let accC' := if o.content != "" then accC ++ [o.content] else accC
          let accD' := accD ++ o.rdirs
          match o.jump with
          | some t =>
            if t != "" then gotoLoop c recur n (cid :: visited) t accC' accD' l3
            else let f := mkFinal accC' accD' o; ({ l3 with out := some f }, .ok f)
          | none => let f := mkFinal accC' accD' o; ({ l3 with out := some f }, .ok f)

/-- `except Exception: self.current_passage_id = position_before; self._join_section_index = join_progress_before; raise`
— a navigation that fails part-way leaves the position and the `@join` progress where they were -/
def keepCurOnError {α} (l0 : Live S.V) (r : NRes S α) : NRes S α :=
  match r with
  | (l', .error e) => ({ l' with cur := l0.cur, joinIdx := l0.joinIdx }, .error e)
  | x => x

/-- the `try` body of `goto`: the chain loop from the named passage with fresh accumulators -/
def gotoBody (c : ECfg S) (recur : String → Live S.V → NRes S (Output S.V)) (pid : String)
    (l : Live S.V) : NRes S (Output S.V) :=
  keepCurOnError l (gotoLoop c recur (c.story.passages.length + 1) [] pid [] [] l)

/-- push the parameter scope, run the body, pop in `finally` (on success and on error alike) -/
def withScope (scope : Env S.V) (body : Live S.V → NRes S (Output S.V)) (l : Live S.V) :
    NRes S (Output S.V) :=
  match body { l with scopes := scope :: l.scopes } with
  | (l', r) => ({ l' with scopes := l'.scopes.tail }, r)

/-- `goto(passage_spec)`; the fuel stands for the interpreter's recursion limit -/
def goto (c : ECfg S) : Nat → String → Live S.V → NRes S (Output S.V)
  | 0, _, l => (l, .error ⟨.recursionError, "maximum recursion depth exceeded"⟩)
  | fuel + 1, spec, l =>
    match parseSpec spec with
    | .error e => (l, .error e)
    | .ok (pid, args) =>
      match c.story.passage? pid with
      | none => (l, .error ⟨.valueError, "Cannot navigate to unknown passage: '" ++ pid ++ "'"⟩)
      | some p =>
        let body := gotoBody c (goto c fuel) pid
        if p.params.isEmpty && args == "" then body l
        else
          let ctx := evalCtx S c.cx l.vars l.scopes.head?
          match parseDirectiveArgs S ctx args with
          | .error e => (l, .error e)
          | .ok ad =>
            match bindArgs c l p.params ad 0 [] with
            | .error e =>
              if e.kind == .valueError then
                (l, .error ⟨.valueError, "Error calling passage '" ++ pid ++ "': " ++ e.msg⟩)
              else (l, .error e)
            | .ok scope =>
              withScope scope body l

/-! ### hooks -/

/-- the loop of `trigger_event` over a *copy* of the hook list -/
def runHooks (c : ECfg S) : List String → List String → Live S.V → NRes S String
  | [], acc, l => (l, .ok (joinWith "\n" acc))
  | p :: ps, acc, l =>
    match c.story.passage? p with
    | none => runHooks c ps acc l
    | some _ =>
      match executePassage c p { l with log := Ev.hookRun p :: l.log } with
      | (l1, .error e) => (l1, .error e)
      | (l1, .ok _) =>
        match renderPassage c p l1 with
        | (l2, .error e) => (l2, .error e)
        | (l2, .ok o) =>
          runHooks c ps (if pyStrip o.content != "" then acc ++ [o.content] else acc) l2

/-- `trigger_event(event)` -/
def triggerEvent (c : ECfg S) (ev : String) (l : Live S.V) : NRes S String :=
  match l.hooks.lookup ev with
  | none => (l, .ok "")
  | some active => runHooks c active [] l

/-- append hook text to a result and re-cache it -/
def withHookText (l : Live S.V) (r : Output S.V) (h : String) : Live S.V × Output S.V :=
  if h != "" then
    let r' := { r with content := if r.content != "" then r.content ++ "\n\n" ++ h else h }
    ({ l with out := some r' }, r')
  else (l, r)

/-! ### `@join` -/

/-- tokens after the `k`-th join marker (`none` when there are fewer markers) -/
def afterMarker : Nat → List Tok → Option (List Tok)
  | _, [] => none
  | k, t :: ts =>
    if t.isJoinMarker then (if k == 0 then some ts else afterMarker (k - 1) ts)
    else afterMarker k ts

def uptoMarker : List Tok → List Tok
  | [] => []
  | t :: ts => if t.isJoinMarker then [] else t :: uptoMarker ts

/-- `_render_from_join_marker(section_idx)` -/
def renderFromJoinMarker (c : ECfg S) (idx : Nat) (l : Live S.V) : NRes S (Output S.V) :=
  let pid := curStr l.cur
  match c.story.passage? pid with
  | none => (l, .error ⟨.other, "KeyError: " ++ pid⟩)
  | some p =>
    let start : Option (List Tok) :=
      match afterMarker idx p.content with
      | some ts => some ts
      | none => if idx == 0 then some p.content else none
    match start with
    | none => (l, .error ⟨.runtimeError, "@join marker " ++ toString idx ++ " not found in passage '" ++ pid ++ "'"⟩)
    | some ts =>
      let cfg := Live.rcfg c l
      match renderToks S cfg (uptoMarker ts) l.rs with
      | (rs1, .error e) => (l.withRS rs1, .error e)
      | (rs1, .ok r) =>
        -- the section's own choices first, then the choices written inside @if/@for blocks of the section just rendered
        let all := (p.choices.filter (fun ch => ch.sec == idx + 1)).map (fun ch => (ch, (none : Option String), false))
                   ++ dirChoices r.dirs
        match offerChoices cfg l.cur l.used (fun _ => true) all rs1 with
        | (rs2, .error e) => (l.withRS rs2, .error e)
        | (rs2, .ok os) =>
          (l.withRS rs2, .ok { content := r.text, choices := os, pid := pid, jump := r.jump
                               rdirs := r.dirs.filter (fun d => !d.isChoice && !d.isInput)
                               idirs := r.dirs.filter (·.isInput) })

/-- `_execute_join_choice` -/
def joinChoice (c : ECfg S) (ch : OChoice) (l : Live S.V) : NRes S (Output S.V) :=
  let pid := curStr l.cur
  let cfg := Live.rcfg c l
  let blockRes : RRes S (ROut S.V) :=
    if ch.c.block.isEmpty then (l.rs, .ok {}) else renderToks S cfg ch.c.block l.rs
  match blockRes with
  | (rs1, .error e) => (l.withRS rs1, .error e)
  | (rs1, .ok b) =>
    let l1 := l.withRS rs1
    let idx := l1.joinSec pid
    match renderFromJoinMarker c idx l1 with
    | (l2, .error e) => (l2, .error e)
    | (l2, .ok post) =>
      let l3 := { l2 with joinIdx := Env.set l2.joinIdx pid (idx + 1) }
      let combined :=
        if post.content != "" then
          (if b.text != "" && !(b.text.toList.getLast? == some '\n') then b.text ++ "\n" else b.text) ++ post.content
        else b.text
      let result : Output S.V :=
        { content := combined, choices := post.choices, pid := pid
          rdirs := b.dirs ++ post.rdirs, idirs := post.idirs, jump := post.jump }
      let l4 := { l3 with out := some result }
      match triggerEvent c "turn_end" l4 with
      | (l5, .error e) => (l5, .error e)
      | (l5, .ok h) => let (l6, r) := withHookText l5 result h; (l6, .ok r)

end Bardic
