import Bardic.Story
import Bardic.Sem
/-!
# Engine model — state, outputs, helpers

One definition per Python method of `bardic/runtime/engine.py` (and of the browser copy, selected by
`Variant`), written to follow the Python control flow including the order of mutations, because
several properties are about what is left behind after an exception.
-/
namespace Bardic

inductive Variant | main | browser
  deriving DecidableEq, Repr, Inhabited

abbrev Hooks := List (String × List String)

/-- ghost events, newest first; never observed by the engine itself -/
inductive Ev
  | enter (p : String)            -- `_execute_passage(p)` started
  | exec (code : String)          -- a `~` statement / `@py` block was run (attempted)
  | hookReg (add : Bool) (event target : String)
  | hookRun (p : String)          -- `trigger_event` runs hooked passage `p`
  deriving DecidableEq, Repr

/-- directive data collected while rendering -/
inductive Dir (V : Type)
  | renderEval (name : String) (data : List (String × V)) (hint : Option String)
  | renderErr (name msg rawArgs : String)
  | input (attrs : List (String × String))
  /-- a block choice travelling through the directive list: `rendered = some s` when its text was
      rendered at loop-iteration time -/
  | choice (c : Choice) (rendered : Option String)

def Dir.isChoice {V} : Dir V → Bool | .choice .. => true | _ => false
def Dir.isInput {V} : Dir V → Bool | .input .. => true | _ => false

/-- an offered choice: the story's choice with its text rendered -/
structure OChoice where
  c : Choice
  text : String
  isBlock : Bool := false
  deriving Inhabited

structure Output (V : Type) where
  content : String
  choices : List OChoice
  pid : String
  rdirs : List (Dir V) := []
  idirs : List (Dir V) := []
  jump : Option String := none

/-- result of `_render_content` -/
structure ROut (V : Type) where
  text : String := ""
  jump : Option String := none
  dirs : List (Dir V) := []

/-- the part of the engine state that rendering can change -/
structure RS (V : Type) where
  vars : Env V
  hooks : Hooks
  log : List Ev

/-- read-only data of a render: engine variant, `context`, the top parameter scope -/
structure RCfg (S : Sem) where
  variant : Variant
  cx : Env S.V
  scope : Option (Env S.V)

namespace Hooks
def register (h : Hooks) (ev p : String) : Hooks :=
  match h.lookup ev with
  | none => h ++ [(ev, [p])]
  | some l => if l.contains p then h else Env.set h ev (l ++ [p])

def unregister (h : Hooks) (ev p : String) : Hooks :=
  match h.lookup ev with
  | some l => if l.contains p then Env.set h ev (l.erase p) else h
  | none => h
end Hooks

/-- `_get_eval_context()` (followed by the redundant `update(scope)` the callers do) -/
def evalCtx (S : Sem) (cx vars : Env S.V) (scope : Option (Env S.V)) : Env S.V :=
  let base := (Env.update cx vars).set "_state" (S.ofEnv vars)
  match scope with
  | some sc => (Env.update base sc).set "_local" (S.ofEnv sc)
  | none => base.set "_local" (S.ofEnv [])

def startsUnderscore (k : String) : Bool := k.toList.head? == some '_'

/-- write-back after a `~` statement -/
def writeBack {V} (cx : Env V) (scopeKeys : List String) (vars ctx' : Env V) : Env V :=
  ctx'.foldl (fun acc kv =>
    if startsUnderscore kv.1 || Env.contains cx kv.1 || scopeKeys.contains kv.1 then acc
    else Env.set acc kv.1 kv.2) vars

def scopeKeys {V} : Option (Env V) → List String
  | some sc => Env.keys sc
  | none => []

def PyErr.toExc (e : PyErr) : Exc :=
  let k := if e.cls == "ValueError" then ExcKind.valueError
    else if e.cls == "RuntimeError" then .runtimeError
    else if e.cls == "RecursionError" then .recursionError
    else if e.cls == "IndexError" then .indexError
    else if e.cls == "TypeError" then .typeError
    else .other
  ⟨k, e.cls ++ ": " ++ e.msg⟩

/-- format-spec detection of a display expression: `(expr, spec)` when the code is split -/
def splitFmt (code : String) : Option (String × String) :=
  if strContains code ":" &&
      !(strContains code "==" || strContains code "!=" || strContains code "<=" ||
        strContains code ">=" || strContains code "::") then
    match splitFirstL ':' code.toList with
    | some (a, b) => some (String.ofList (stripL a), String.ofList (stripL b))
    | none => none
  else none

def errText (code : String) (e : PyErr) : String :=
  "{ERROR: " ++
    (if e.cls == "NameError" || e.cls == "UnboundLocalError" then
      "undefined variable '" ++ code ++ "'}"
    else if e.cls == "TypeError" || e.cls == "AttributeError" then
      code ++ " - " ++ e.msg ++ "}"
    else code ++ " - " ++ e.cls ++ ": " ++ e.msg ++ "}")

def renderExpr (S : Sem) (ctx : Env S.V) (code : String) : String :=
  match splitFmt code with
  | some (ex, spec) =>
    match S.eval ctx ex with
    | .ok v => (match S.fmt v spec with | .ok s => s | .error e => errText code e)
    | .error e => errText code e
  | none =>
    match S.eval ctx code with
    | .ok v => S.str v
    | .error e => errText code e

def argDictGo {V} (i : Nat) : List V → Env V → Env V
  | [], acc => acc
  | v :: vs, acc => argDictGo (i + 1) vs (Env.set acc ("arg_" ++ toString i) v)

def argDict {V} (pos : List V) (kws : List (String × V)) : Env V :=
  kws.foldl (fun acc kv => Env.set acc kv.1 kv.2) (argDictGo 0 pos [])

/-- `_parse_directive_args` -/
def parseDirectiveArgs (S : Sem) (ctx : Env S.V) (args : String) : Except Exc (Env S.V) :=
  if pyStrip args == "" then .ok []
  else match S.evalArgs ctx args with
    | .ok (pos, kws) => .ok (argDict pos kws)
    | .error _ => .error ⟨.valueError, "Could not parse directive arguments: " ++ args⟩

/-- `_process_render_directive` in evaluated mode -/
def processRender (S : Sem) (ctx : Env S.V) (name args : String) (hint : Option String) : Dir S.V :=
  if args == "" then .renderEval name [] hint
  else match parseDirectiveArgs S ctx args with
    | .ok d => .renderEval name d hint
    | .error e => .renderErr name e.msg args

def choiceId (cur : String) (text target : String) : String := cur ++ ":" ++ text ++ ":" ++ target

end Bardic
