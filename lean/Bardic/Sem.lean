import Bardic.Base
/-!
# Author-code semantics as a parameter

Every `eval`, `exec`, `format`, `str`, `bool`, iteration the engine performs on author code goes
through a `Sem`.  All engine theorems are stated for every `Sem`; nothing is assumed about it.
-/
namespace Bardic

structure Sem where
  V : Type
  /-- `eval(code, {builtins}, ctx)` -/
  eval : Env V → String → Except PyErr V
  /-- `exec(code, {builtins}, ctx)`; the result is `ctx` as it is afterwards -/
  exec : Env V → String → Except PyErr (Env V)
  /-- `bool(v)` -/
  truthy : V → Bool
  /-- `str(v)` -/
  str : V → String
  /-- `format(v, spec)` -/
  fmt : V → String → Except PyErr String
  /-- `list(iter(v))` -/
  iter : V → Except PyErr (List V)
  /-- `v[i] if isinstance(v, (list, tuple)) and i < len(v) else None`, used by `@for a, b in` -/
  unpack : V → Nat → V
  /-- the value of Python's `None` (used by the loop's save/restore rule) -/
  isNone : V → Bool
  /-- a dict value holding the given entries (for the specials `_state`, `_local`) -/
  ofEnv : Env V → V
  /-- `ast.parse("f(<args>)")` then evaluation of positionals, then keywords, in `ctx` -/
  evalArgs : Env V → String → Except PyErr (List V × List (String × V))
  /-- save → JSON text → load of one value (`_serialize_value`, `json`, `_deserialize_value`) -/
  saveRT : V → V

end Bardic
