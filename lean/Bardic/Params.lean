import Bardic.Engine.Nav
/-!
# Reference: Python's call rule, and the compile-time call validator

`pyCall` is written from Python's definition of argument binding (positionals left to right, then
keywords by name, then defaults; errors for surplus positionals, unknown keywords, doubly supplied
and missing parameters), with Bardic's documented default rule: defaults are evaluated at call time,
left to right, and may mention earlier parameters.  `validCall` is the structural check the
compiler's `_validate_single_call` performs on a call site.
-/
namespace Bardic
variable {S : Sem}

inductive BindErr
  | tooManyPositional
  | unknownKeyword (k : String)
  | duplicate (p : String)
  | missing (p : String)
  | defaultFailed (p : String) (e : PyErr)
  deriving Repr

/-- binding once the structural checks have passed -/
def pyBindGo (evalD : Env S.V → String → Except PyErr S.V) (kws : List (String × S.V)) :
    List Param → List S.V → Env S.V → Except BindErr (Env S.V)
  | [], _, res => .ok res
  | p :: ps, v :: pos, res => pyBindGo evalD kws ps pos (Env.set res p.name v)
  | p :: ps, [], res =>
    match kws.lookup p.name with
    | some v => pyBindGo evalD kws ps [] (Env.set res p.name v)
    | none =>
      match p.default with
      | some d =>
        match evalD res d with
        | .ok v => pyBindGo evalD kws ps [] (Env.set res p.name v)
        | .error e => .error (.defaultFailed p.name e)
      | none => .error (.missing p.name)

/-- Python's call rule -/
def pyCall (evalD : Env S.V → String → Except PyErr S.V) (params : List Param) (pos : List S.V)
    (kws : List (String × S.V)) : Except BindErr (Env S.V) :=
  if pos.length > params.length then .error .tooManyPositional
  else match kws.find? (fun kv => !(params.any (·.name == kv.1))) with
    | some kv => .error (.unknownKeyword kv.1)
    | none =>
      match (params.take pos.length).find? (fun p => kws.any (·.1 == p.name)) with
      | some p => .error (.duplicate p.name)
      | none => pyBindGo evalD kws params pos []

def argKey (i : Nat) : String := "arg_" ++ toString i

/-- the structural validity of a call site, as `_validate_single_call` checks it -/
structure ValidCall (params : List Param) (npos : Nat) (kwNames : List String) : Prop where
  notTooMany : npos ≤ params.length
  known : ∀ k ∈ kwNames, ∃ p ∈ params, p.name = k
  noDup : ∀ p ∈ params.take npos, p.name ∉ kwNames
  kwNodup : kwNames.Nodup
  /-- parameter names are not of the reserved form `arg_<n>` (the engine's encoding of positionals) -/
  noArgNames : ∀ p ∈ params, ∀ i, p.name ≠ argKey i

end Bardic
