import Bardic.Driver.Obs
import Bardic.Driver.ParserRun
import Bardic.Driver.SrcRun
import Bardic.Driver.StdlibRun
import Bardic.Driver.CodecRun
import Bardic.Driver.IncludeRun
import Bardic.Driver.GraphRun
import Bardic.Driver.TextRun
import Bardic.Parser.Strip
/-!
# `driver`: line protocol.  One JSON case per input line, one JSON answer per output line.
-/
open Lean Bardic Bardic.Driver Bardic.MiniPy

def jObj (kvs : List (String × Json)) : Json := Json.mkObj kvs

def loadDocJson (j : Json) : Option (SaveDoc PV) := do
  let vars ← match j.getObjVal? "vars" with
    | .ok (.obj kvs) => kvs.toList.mapM fun (k, v) => do return (k, ← jsonPV v)
    | _ => none
  let used := (getArr j "used").map jsonToStr
  let hooks := match j.getObjVal? "hooks" with
    | .ok (.obj kvs) => kvs.toList.map fun (k, v) =>
        (k, match v with | .arr a => a.toList.map jsonToStr | _ => [])
    | _ => []
  return { cur := getOptStr j "cur", vars, used, hooks }

structure PlaySt where
  eng : Eng PV
  slots : Array (SaveDoc PV) := #[]

def stepJson (r : Resp PV) (e : Eng PV) : Json := jObj [("resp", respJson r), ("state", stateJson e)]

def playOp (cfg : ECfg sem) (ps : PlaySt) (oj : Json) : PlaySt × Json :=
  let name := getStr oj "op"
  let simple (op : Op PV) : PlaySt × Json :=
    let (e, r) := step cfg ps.eng op
    ({ ps with eng := e }, stepJson r e)
  match name with
  | "choose" =>
    let i : Int := match oj.getObjVal? "i" with
      | .ok (.num n) => n.mantissa
      | _ => 0
    simple (.choose i)
  | "undo" => simple .undo
  | "redo" => simple .redo
  | "goto" => simple (.goto (getStr oj "spec"))
  | "current" => simple .current
  | "has_choices" => simple .hasChoices
  | "is_end" => simple .isEnd
  | "choice_texts" => simple .choiceTexts
  | "choice_targets" => simple .choiceTargets
  | "story_info" => simple .storyInfo
  | "save_meta" => simple .saveMeta
  | "can_undo" => simple .canUndo
  | "can_redo" => simple .canRedo
  | "reset_one_time" => simple .resetOneTime
  | "save" =>
    let (e, r) := step cfg ps.eng .save
    let slots := match r with | .doc d => ps.slots.push d | _ => ps.slots
    ({ eng := e, slots }, stepJson r e)
  | "load" =>
    match ps.slots[getNat oj "slot"]? with
    | some d => simple (.load (.doc d))
    | none => (ps, jObj [("error", "no such slot")])
  | "fresh_load" =>
    match ps.slots[getNat oj "slot"]? with
    | some d =>
      match Eng.init cfg with
      | .ok e0 =>
        let (e, r) := step cfg e0 (.load (.doc d))
        ({ ps with eng := e }, stepJson r e)
      | .error ex => (ps, jObj [("error", .str ("fresh init failed: " ++ ex.msg))])
    | none => (ps, jObj [("error", "no such slot")])
  | "load_doc" =>
    match (oj.getObjVal? "doc").toOption.bind loadDocJson with
    | some d => simple (.load (.doc d))
    | none => (ps, jObj [("error", "bad doc")])
  | "load_bad" =>
    match getStr oj "kind" with
    | "notDict" => simple (.load .notDict)
    | "noVersion" =>
      match ps.slots[0]? with
      | some d => simple (.load (.noVersion d))
      | none => simple (.load (.noVersion ⟨none, [], [], []⟩))
    | _ => (ps, jObj [("error", "bad kind")])
  | _ => (ps, jObj [("error", .str ("unknown op " ++ name))])

def runPlay (j : Json) : Json :=
  let id := (j.getObjVal? "id").toOption.getD .null
  let storyJ := (j.getObjVal? "story").toOption.getD .null
  match (loadStory storyJ).run #[] with
  | .error m => jObj [("id", id), ("status", "load_error"), ("msg", .str m)]
  | .ok (story, notes) =>
    if !notes.isEmpty then
      jObj [("id", id), ("status", "unmodelled"), ("notes", .arr (notes.map Json.str))]
    else
      let variant := if getStr j "variant" "main" == "browser" then Variant.browser else Variant.main
      let cfg : ECfg sem := { variant, story, fuel := getNat j "fuel" 300 }
      match Eng.init cfg with
      | .error ex => jObj [("id", id), ("status", "init_error"), ("raise", .str (kindName ex.kind)), ("msg", .str ex.msg)]
      | .ok e0 =>
        let ops := getArr j "ops"
        let (_, outs) := ops.foldl (fun (acc : PlaySt × Array Json) oj =>
          let (ps', o) := playOp cfg acc.1 oj
          (ps', acc.2.push o)) (({ eng := e0 } : PlaySt), #[])
        jObj [("id", id), ("status", "ok"), ("init", stateJson e0), ("steps", .arr outs)]

def handle (line : String) : String :=
  match Json.parse line with
  | .error m => (jObj [("status", "bad_json"), ("msg", .str m)]).compress
  | .ok j =>
    match getStr j "kind" "play" with
    | "play" => (runPlay j).compress
    | "stdlib" => (runStdlib j).compress
    | "codec" => (runCodec j).compress
    | "include" => (runInclude j).compress
    | "graph" => (runGraph j).compress
    | "compile" => (runCompile j).compress
    | "compile_out" => (runCompileOut j).compress
    | "pcomp" => (runPcomp j).compress
    | "ptext" => (runPtext j).compress
    | "strip" =>
      let p := Bardic.Parser.stripStr (getStr j "line")
      (jObj [("id", (j.getObjVal? "id").toOption.getD .null), ("content", .str p.1), ("comment", .str p.2)]).compress
    | "dedent" =>
      let ls := (getArr j "lines").map fun l => (jsonToStr l).toList
      (jObj [("id", (j.getObjVal? "id").toOption.getD .null),
             ("lines", .arr ((Bardic.Parser.dedent ls).map fun l => Json.str (String.ofList l)).toArray)]).compress
    | k => (jObj [("status", "unknown_kind"), ("kind", .str k)]).compress

partial def loop (h : IO.FS.Stream) (out : IO.FS.Stream) : IO Unit := do
  let line ← h.getLine
  if line.isEmpty then return ()
  if line.trimAscii.toString.isEmpty then loop h out else
  out.putStrLn (handle line)
  out.flush
  loop h out

def main : IO Unit := do
  loop (← IO.getStdin) (← IO.getStdout)
