import Proofs.C09
/-!
# C10 — `@join` progress: restarts on every entry, advances by one per join choice
-/
namespace Bardic
variable {S : Sem}

theorem renderPassage_joinIdx (c : ECfg S) (pid : String) (l : Live S.V) :
    (renderPassage c pid l).1.joinIdx = l.joinIdx := by
  unfold renderPassage; dsimp only; repeat' split
  all_goals rfl

theorem executePassage_joinIdx (c : ECfg S) (pid : String) (l : Live S.V) :
    (executePassage c pid l).1.joinIdx = l.joinIdx := by
  unfold executePassage; dsimp only; repeat' split
  all_goals rfl

theorem renderPassage_pid (c : ECfg S) (pid : String) (l : Live S.V) (o : Output S.V)
    (h : (renderPassage c pid l).2 = .ok o) : o.pid = pid := by
  unfold renderPassage at h
  dsimp only at h
  split at h
  · simp at h
  · split at h
    · simp at h
    · split at h
      · simp at h
      · simp only [Except.ok.injEq] at h; subst h; rfl

/-- the passage a successful navigation ends in has its section index at 0 -/
def JoinReset (res : NRes S (Output S.V)) : Prop := ∀ o, res.2 = .ok o → res.1.joinSec o.pid = 0

theorem joinIdx_of_eq_fst {α} {f : Live S.V × α} {l' : Live S.V} {r : α} {x : List (String × Nat)}
    (h : f = (l', r)) (hf : f.1.joinIdx = x) : l'.joinIdx = x := by subst h; exact hf

theorem gotoLoop_joinReset (c : ECfg S) (hv : c.variant = .main)
    (recur : String → Live S.V → NRes S (Output S.V)) (hrec : ∀ spec l, JoinReset (recur spec l)) :
    ∀ (n : Nat) (visited : List String) (cid : String) (accC : List String) (accD : List (Dir S.V))
      (l : Live S.V), JoinReset (gotoLoop c recur n visited cid accC accD l) := by
  intro n
  induction n with
  | zero => intro _ _ _ _ _ o h; simp [gotoLoop] at h
  | succ n ih =>
    intro visited cid accC accD l
    unfold gotoLoop
    split
    · intro o h; simp at h
    · have hm : (markEntered c cid l).joinIdx = Env.set l.joinIdx cid 0 := by
        unfold markEntered; rw [hv]
      split
      · intro o h; simp at h
      · rename_i l2 spec he
        have hr := hrec spec l2
        split
        · intro o h; simp at h
        · rename_i l3 jo hrr
          rw [hrr] at hr
          split
          · exact hr
          · intro o h
            simp only [Except.ok.injEq] at h
            subst h
            exact hr jo rfl
      · rename_i l2 he
        have h2 : l2.joinIdx = Env.set l.joinIdx cid 0 :=
          (joinIdx_of_eq_fst he (executePassage_joinIdx c cid _)).trans hm
        split
        · intro o h; simp at h
        · rename_i l3 o hp
          have h3 : l3.joinIdx = Env.set l.joinIdx cid 0 :=
            (joinIdx_of_eq_fst hp (renderPassage_joinIdx c cid l2)).trans h2
          have hpid : o.pid = cid := renderPassage_pid c cid l2 o (by rw [hp])
          have hz : Live.joinSec ({ l3 with out := some (mkFinal
              (if o.content != "" then accC ++ [o.content] else accC) (accD ++ o.rdirs) o) } : Live S.V) cid = 0 := by
            simp only [Live.joinSec, h3]
            have := Env.get?_set_self l.joinIdx cid 0
            simp only [Env.get?] at this
            rw [this]; rfl
          dsimp only
          split
          · split
            · exact ih _ _ _ _ _
            · intro o' h
              simp only [Except.ok.injEq] at h
              subst h
              simp only [mkFinal, hpid]; exact hz
          · intro o' h
            simp only [Except.ok.injEq] at h
            subst h
            simp only [mkFinal, hpid]; exact hz

theorem withScope_joinReset (scope : Env S.V) (body : Live S.V → NRes S (Output S.V))
    (hb : ∀ l, JoinReset (body l)) (l : Live S.V) : JoinReset (withScope scope body l) := by
  unfold withScope
  have := hb { l with scopes := scope :: l.scopes }
  generalize body { l with scopes := scope :: l.scopes } = res at this ⊢
  obtain ⟨l', r⟩ := res
  intro o h
  exact this o h

/-- **progress restarts from the first section whenever the passage is entered again** — by
choice, by direct navigation, or through a jump anywhere in a chain -/
theorem goto_joinReset (c : ECfg S) (hv : c.variant = .main) : ∀ (fuel : Nat) (spec : String) (l : Live S.V),
    JoinReset (goto c fuel spec l) := by
  intro fuel
  induction fuel with
  | zero => intro _ _ o h; simp [goto] at h
  | succ fuel ih =>
    intro spec l
    have hbody : ∀ pid l, JoinReset (gotoBody c (goto c fuel) pid l) := by
      intro pid l; unfold gotoBody
      have hl := gotoLoop_joinReset c hv _ ih (c.story.passages.length + 1) [] pid [] [] l
      intro o ho
      rw [keepCurOnError_snd] at ho
      have := hl o ho
      rw [keepCurOnError_fst_of_ok _ _ o ho]
      simpa [Live.joinSec] using this
    unfold goto
    split
    · intro o h; simp at h
    · split
      · intro o h; simp at h
      · dsimp only
        split
        · exact hbody _ _
        · split
          · intro o h; simp at h
          · split
            · split <;> (intro o h; simp at h)
            · exact withScope_joinReset _ _ (hbody _) _

/-! ## a join choice advances exactly one section -/

theorem renderFromJoinMarker_joinIdx (c : ECfg S) (idx : Nat) (l : Live S.V) :
    (renderFromJoinMarker c idx l).1.joinIdx = l.joinIdx := by
  unfold renderFromJoinMarker; dsimp only; repeat' split
  all_goals rfl

theorem runHooks_joinIdx (c : ECfg S) : ∀ (ps acc : List String) (l : Live S.V),
    (runHooks c ps acc l).1.joinIdx = l.joinIdx := by
  intro ps
  induction ps with
  | nil => intros; rfl
  | cons p ps ih =>
    intro acc l
    unfold runHooks
    split
    · exact ih _ _
    · have he := executePassage_joinIdx c p { l with log := Ev.hookRun p :: l.log }
      split
      · rename_i l1 e h1; exact joinIdx_of_eq_fst h1 he
      · rename_i l1 _ h1
        have h1' := joinIdx_of_eq_fst h1 he
        split
        · rename_i l2 e h2; exact (joinIdx_of_eq_fst h2 (renderPassage_joinIdx c p l1)).trans h1'
        · rename_i l2 o h2
          exact (ih _ _).trans ((joinIdx_of_eq_fst h2 (renderPassage_joinIdx c p l1)).trans h1')

theorem triggerEvent_joinIdx (c : ECfg S) (ev : String) (l : Live S.V) :
    (triggerEvent c ev l).1.joinIdx = l.joinIdx := by
  unfold triggerEvent
  split
  · rfl
  · exact runHooks_joinIdx c _ _ _

theorem withHookText_joinIdx (l : Live S.V) (r : Output S.V) (h : String) :
    (withHookText l r h).1.joinIdx = l.joinIdx := by
  unfold withHookText; split <;> rfl

/-- a successful `-> @join` choice moves the current passage from section `k` to section `k + 1`
and touches no other passage's progress -/
theorem joinChoice_advances (c : ECfg S) (ch : OChoice) (l : Live S.V) :
    ∀ o, (joinChoice c ch l).2 = .ok o →
    (joinChoice c ch l).1.joinIdx = Env.set l.joinIdx (curStr l.cur) (l.joinSec (curStr l.cur) + 1) := by
  unfold joinChoice
  dsimp only
  split
  · intro o h; simp at h
  · rename_i rs1 b hb
    split
    · intro o h; simp at h
    · rename_i l2 post hj
      have h2 : l2.joinIdx = l.joinIdx := joinIdx_of_eq_fst hj (renderFromJoinMarker_joinIdx c _ _)
      split
      · intro o h; simp at h
      · rename_i l5 hk ht
        intro o _
        rw [withHookText_joinIdx, joinIdx_of_eq_fst ht (triggerEvent_joinIdx c "turn_end" _)]
        simp only [h2]
        rfl

end Bardic
