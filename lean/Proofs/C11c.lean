import Bardic.Parser.Choice
import Proofs.C11
/-!
# C11 — `validate_choice_syntax` answers "accepted" or one of its diagnostics for every line
-/
namespace Bardic.Parser

theorem condScan_ok (cp : List Char) : ∃ r, condScan cp = .ok r := by
  unfold condScan
  split
  · rename_i hc
    simp only [Bool.and_eq_true] at hc
    obtain ⟨n1, hn1, _⟩ := pyIndexOf_of_contains '{' cp hc.1
    obtain ⟨n2, hn2, _⟩ := pyIndexOf_of_contains '[' cp hc.2
    simp only [hn1, hn2, bind, Except.bind]
    split
    · split <;> exact ⟨_, rfl⟩
    · exact ⟨_, rfl⟩
  · exact ⟨_, rfl⟩

theorem bracketStage_ok (cp target : List Char) (ce : Option Nat) : ∃ r, bracketStage cp target ce = .ok r := by
  unfold bracketStage
  split
  · exact ⟨_, rfl⟩
  · dsimp only
    split
    · exact ⟨_, rfl⟩
    · split
      · exact ⟨_, rfl⟩
      · rename_i h3 h4
        obtain ⟨n1, hn1, _⟩ := pyIndexOf_of_contains '[' _ (by simpa using h3)
        obtain ⟨n2, hn2, _⟩ := pyIndexOf_of_contains ']' _ (by simpa using h4)
        simp only [hn1, hn2, bind, Except.bind]
        repeat' split
        all_goals exact ⟨_, rfl⟩

/-- **`validate_choice_syntax` accepts a line or raises one of its nine diagnostics — for every line**: each `.index` is
guarded by the `in` test in front of it, and the first word of the target is only taken when there is one -/
theorem validateChoice_ok (line : List Char) : ∃ r, validateChoice line = .ok r := by
  unfold validateChoice
  dsimp only
  split
  · exact ⟨_, rfl⟩
  · rename_i cp rest _
    split
    · exact ⟨_, rfl⟩
    · split
      · exact ⟨_, rfl⟩
      · obtain ⟨ce, hce⟩ := condScan_ok cp
        simp only [hce, bind, Except.bind]
        cases ce with
        | error d => exact ⟨_, rfl⟩
        | ok c => exact bracketStage_ok _ _ _

end Bardic.Parser
