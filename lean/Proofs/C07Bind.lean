import Proofs.C07
import Bardic.Params
import Std.Data.String.ToNat
/-!
# C07 — `_bind_arguments` agrees with Python's call rule on every validated call site
-/
namespace Bardic
variable {S : Sem}

theorem argKey_inj {i j : Nat} (h : argKey i = argKey j) : i = j := by
  unfold argKey at h
  have h' : toString i = toString j := (String.append_right_inj "arg_").mp h
  exact Nat.repr_injective h'

/-- lookups in the positional part of the argument dictionary -/
theorem argDictGo_get_key {V} : ∀ (pos : List V) (i : Nat) (acc : Env V) (j : Nat),
    Env.get? (argDictGo i pos acc) (argKey j) =
      if i ≤ j ∧ j < i + pos.length then pos[j - i]? else Env.get? acc (argKey j) := by
  intro pos
  induction pos with
  | nil => intro i acc j; simp [argDictGo]; omega
  | cons v vs ih =>
    intro i acc j
    simp only [argDictGo]
    rw [ih]
    by_cases hij : i = j
    · subst hij
      have : ¬ (i + 1 ≤ i ∧ i < i + 1 + vs.length) := by omega
      simp only [this, if_false]
      have h2 : (i ≤ i ∧ i < i + (v :: vs).length) := by simp
      simp only [h2, if_true, Nat.sub_self]
      exact Env.get?_set_self acc _ v
    · have hne : argKey j ≠ argKey i := fun h => hij (argKey_inj h).symm
      by_cases h1 : i + 1 ≤ j ∧ j < i + 1 + vs.length
      · have h2 : i ≤ j ∧ j < i + (v :: vs).length := by simp; omega
        simp only [h1, h2, and_self, if_true]
        have : j - i = (j - (i + 1)) + 1 := by omega
        rw [this, List.getElem?_cons_succ]
      · have h2 : ¬ (i ≤ j ∧ j < i + (v :: vs).length) := by simp; omega
        simp only [h1, h2, if_false]
        exact Env.get?_set_ne acc _ _ v hne

theorem argDictGo_get_other {V} : ∀ (pos : List V) (i : Nat) (acc : Env V) (k : String),
    (∀ j, k ≠ argKey j) → Env.get? (argDictGo i pos acc) k = Env.get? acc k := by
  intro pos
  induction pos with
  | nil => intros; rfl
  | cons v vs ih =>
    intro i acc k hk
    simp only [argDictGo]
    rw [ih _ _ _ hk]
    exact Env.get?_set_ne acc _ _ v (hk i)

theorem foldl_set_get_notin {V} : ∀ (kws : List (String × V)) (base : Env V) (k : String),
    (∀ kv ∈ kws, kv.1 ≠ k) →
    Env.get? (kws.foldl (fun acc kv => Env.set acc kv.1 kv.2) base) k = Env.get? base k := by
  intro kws
  induction kws with
  | nil => intros; rfl
  | cons kv rest ih =>
    intro base k h
    simp only [List.foldl_cons]
    rw [ih _ _ (fun x hx => h x (by simp [hx]))]
    exact Env.get?_set_ne base _ _ _ (fun e => h kv (by simp) e.symm)

theorem foldl_set_get_lookup {V} : ∀ (kws : List (String × V)) (base : Env V) (k : String),
    (kws.map (·.1)).Nodup →
    Env.get? (kws.foldl (fun acc kv => Env.set acc kv.1 kv.2) base) k =
      (match kws.lookup k with | some v => some v | none => Env.get? base k) := by
  intro kws
  induction kws with
  | nil => intros; rfl
  | cons kv rest ih =>
    intro base k hnd
    simp only [List.map_cons, List.nodup_cons] at hnd
    simp only [List.foldl_cons]
    by_cases hk : k = kv.1
    · subst hk
      have hl : List.lookup kv.1 (kv :: rest) = some kv.2 := by
        obtain ⟨a, b⟩ := kv; simp [List.lookup]
      rw [hl]
      rw [foldl_set_get_notin]
      · exact Env.get?_set_self base _ _
      · intro x hx heq
        exact hnd.1 (by rw [← heq]; exact List.mem_map_of_mem hx)
    · have hb : (k == kv.1) = false := by simpa using hk
      have hl : List.lookup k (kv :: rest) = List.lookup k rest := by
        obtain ⟨a, b⟩ := kv; simp only [List.lookup]; simp only at hb; rw [hb]
      rw [hl, ih _ _ hnd.2]
      cases rest.lookup k with
      | some v => rfl
      | none => exact Env.get?_set_ne base _ _ _ hk

theorem lookup_none_of_notin {V} (kws : List (String × V)) (k : String) (h : k ∉ kws.map (·.1)) :
    kws.lookup k = none := by
  induction kws with
  | nil => rfl
  | cons kv rest ih =>
    simp only [List.map_cons, List.mem_cons, not_or] at h
    obtain ⟨a, b⟩ := kv
    have hb : (k == a) = false := by simpa using h.1
    simp only [List.lookup, hb]
    exact ih h.2

theorem lookup_ne_none_of_mem {V} (kws : List (String × V)) (k : String) (h : k ∈ kws.map (·.1)) :
    kws.lookup k ≠ none := by
  induction kws with
  | nil => cases h
  | cons a t ih =>
    obtain ⟨ak, av⟩ := a
    intro hn
    simp only [List.lookup] at hn
    split at hn
    · cases hn
    · rename_i hb
      simp only [List.map_cons, List.mem_cons] at h
      rcases h with e1 | e1
      · subst e1; simp at hb
      · exact ih e1 hn

/-- the engine's binding loop, for the k-th parameter onwards, against the reference -/
theorem bindArgs_eq_pyBindGo (c : ECfg S) (l : Live S.V) (pos : List S.V) (kws : List (String × S.V))
    (hkw : (kws.map (·.1)).Nodup) (hkwarg : ∀ kv ∈ kws, ∀ i, kv.1 ≠ argKey i) :
    ∀ (ps : List Param) (k : Nat) (res : Env S.V),
      (∀ p ∈ ps, ∀ i, p.name ≠ argKey i) →
      (∀ p ∈ ps.take (pos.length - k), p.name ∉ kws.map (·.1)) →
      (∀ p ∈ ps, Env.contains res p.name = false) → (ps.map (·.name)).Nodup →
      k ≤ pos.length ∨ ps = [] ∨ True →
      bindArgs c l ps (argDict pos kws) k res =
        (match pyBindGo (S := S) (fun r d => S.eval (Env.update (evalCtx S c.cx l.vars l.scopes.head?) r) d)
                kws ps (pos.drop k) res with
          | .ok r => .ok r
          | .error (.defaultFailed p e) => .error (defaultFailed p e)
          | .error (.missing p) => .error ⟨.valueError, "Required parameter '" ++ p ++ "' not provided"⟩
          | .error _ => .error ⟨.other, ""⟩) := by
  intro ps
  induction ps with
  | nil => intros; simp [bindArgs, pyBindGo]
  | cons p ps ih =>
    intro k res hargs hdup hres hnd _
    have hkey : Env.get? (argDict pos kws) (argKey k) = pos[k]? := by
      unfold argDict
      rw [foldl_set_get_notin _ _ _ (fun kv hkv => hkwarg kv hkv k)]
      rw [argDictGo_get_key]
      simp only [Nat.zero_le, true_and, Nat.zero_add, Nat.sub_zero]
      split
      · rfl
      · rename_i h; simp [Env.get?, List.lookup]; omega
    have hname : Env.get? (argDict pos kws) p.name = kws.lookup p.name := by
      unfold argDict
      rw [foldl_set_get_lookup _ _ _ hkw]
      cases kws.lookup p.name with
      | some v => rfl
      | none =>
        simp only
        rw [argDictGo_get_other _ _ _ _ (hargs p (by simp))]
        rfl
    simp only [List.map_cons, List.nodup_cons] at hnd
    -- the recursive hypotheses for the tail
    have hargs' : ∀ q ∈ ps, ∀ i, q.name ≠ argKey i := fun q hq => hargs q (by simp [hq])
    have hres' : ∀ v, ∀ q ∈ ps, Env.contains (Env.set res p.name v) q.name = false := by
      intro v q hq
      have hne : q.name ≠ p.name := fun e => hnd.1 (by rw [← e]; exact List.mem_map_of_mem hq)
      have := hres q (by simp [hq])
      simp only [Env.contains, Option.isSome_eq_false_iff, Option.isNone_iff_eq_none] at this ⊢
      have h2 := Env.get?_set_ne res p.name q.name v hne
      simp only [Env.get?] at h2
      rw [h2]; exact this
    have hkey' : Env.get? (argDict pos kws) ("arg_" ++ toString k) = pos[k]? := hkey
    unfold bindArgs
    rw [hkey']
    cases hpk : pos[k]? with
    | some v =>
      have hk : k < pos.length := by
        rcases Nat.lt_or_ge k pos.length with h | h
        · exact h
        · have : pos[k]? = none := List.getElem?_eq_none h
          rw [this] at hpk; cases hpk
      have hdrop : pos.drop k = v :: pos.drop (k + 1) := by
        rw [List.drop_eq_getElem_cons hk]
        congr 1
        have := List.getElem?_eq_getElem hk
        rw [this] at hpk; exact Option.some.inj hpk
      simp only [hdrop, pyBindGo]
      apply ih (k + 1) _ hargs' _ (hres' v) hnd.2 (Or.inr (Or.inr trivial))
      intro q hq
      apply hdup q
      have : pos.length - k = (pos.length - (k + 1)) + 1 := by omega
      rw [this, List.take_succ_cons]
      exact List.mem_cons_of_mem _ hq
    | none =>
      have hk : pos.length ≤ k := by
        rcases Nat.lt_or_ge k pos.length with h | h
        · have : pos[k]? = some pos[k] := List.getElem?_eq_getElem h
          rw [this] at hpk; cases hpk
        · exact h
      have hdrop : pos.drop k = [] := List.drop_eq_nil_of_le hk
      have htake : ∀ (qs : List Param) (j : Nat), pos.length ≤ j → qs.take (pos.length - j) = [] := by
        intro qs j hj
        have : pos.length - j = 0 := by omega
        rw [this]; rfl
      simp only [hdrop, pyBindGo]
      rw [hname]
      cases hl : kws.lookup p.name with
      | some v =>
        simp only
        have hc : Env.contains res p.name = false := hres p (by simp)
        simp only [hc, Bool.false_eq_true, if_false]
        have := ih k (Env.set res p.name v) hargs' (by rw [htake ps k hk]; intro q hq; cases hq) (hres' v) hnd.2
          (Or.inr (Or.inr trivial))
        rw [hdrop] at this
        exact this
      | none =>
        simp only
        cases hd : p.default with
        | none => simp
        | some d =>
          simp only
          cases hev : S.eval (Env.update (evalCtx S c.cx l.vars l.scopes.head?) res) d with
          | error e => simp
          | ok v =>
            simp only
            have := ih k (Env.set res p.name v) hargs' (by rw [htake ps k hk]; intro q hq; cases hq) (hres' v) hnd.2
              (Or.inr (Or.inr trivial))
            rw [hdrop] at this
            exact this

end Bardic

namespace Bardic
variable {S : Sem}

/-- how the engine reports a reference-rule outcome -/
def bindOutcome : Except BindErr (Env S.V) → Except Exc (Env S.V)
  | .ok r => .ok r
  | .error (.defaultFailed p e) => .error (defaultFailed p e)
  | .error (.missing p) => .error ⟨.valueError, "Required parameter '" ++ p ++ "' not provided"⟩
  | .error _ => .error ⟨.other, ""⟩

/-- on a validated call site the structural checks of Python's rule all pass -/
theorem pyCall_of_valid (evalD : Env S.V → String → Except PyErr S.V) (params : List Param)
    (pos : List S.V) (kws : List (String × S.V)) (hv : ValidCall params pos.length (kws.map (·.1))) :
    pyCall (S := S) evalD params pos kws = pyBindGo evalD kws params pos [] := by
  unfold pyCall
  have h1 : ¬ pos.length > params.length := by have := hv.notTooMany; omega
  simp only [h1, if_false]
  have h2 : kws.find? (fun kv => !(params.any (·.name == kv.1))) = none := by
    rw [List.find?_eq_none]
    intro kv hkv
    obtain ⟨p, hp, hpe⟩ := hv.known kv.1 (List.mem_map_of_mem hkv)
    simp only [Bool.not_eq_true, Bool.not_eq_false', List.any_eq_true]
    exact ⟨p, hp, by simp [hpe]⟩
  rw [h2]
  have h3 : (params.take pos.length).find? (fun p => kws.any (·.1 == p.name)) = none := by
    rw [List.find?_eq_none]
    intro p hp
    have := hv.noDup p hp
    simp only [List.any_eq_true, not_exists, not_and, Bool.not_eq_true]
    intro kv hkv
    have hne : kv.1 ≠ p.name := fun e => this (by rw [← e]; exact List.mem_map_of_mem hkv)
    simpa using hne
  rw [h3]

/-- **C07, binding**: for every call site the validator accepts — positionals not more than the
parameters, keywords naming parameters, none supplied twice — the engine's `_bind_arguments` yields
exactly what Python's call rule yields (same bound values, defaults evaluated left to right seeing
earlier parameters in the caller's context; the same failure when a required one is missing or a
default fails), for arbitrary argument values and author code. -/
theorem bind_eq_pyCall (c : ECfg S) (l : Live S.V) (params : List Param) (pos : List S.V)
    (kws : List (String × S.V)) (hv : ValidCall params pos.length (kws.map (·.1)))
    (hnd : (params.map (·.name)).Nodup) :
    bindArgs c l params (argDict pos kws) 0 [] =
      bindOutcome (pyCall (S := S)
        (fun r d => S.eval (Env.update (evalCtx S c.cx l.vars l.scopes.head?) r) d) params pos kws) := by
  rw [pyCall_of_valid _ _ _ _ hv]
  have hkwarg : ∀ kv ∈ kws, ∀ i, kv.1 ≠ argKey i := by
    intro kv hkv i
    obtain ⟨p, hp, hpe⟩ := hv.known kv.1 (List.mem_map_of_mem hkv)
    rw [← hpe]; exact hv.noArgNames p hp i
  have := bindArgs_eq_pyBindGo c l pos kws hv.kwNodup hkwarg params 0 [] hv.noArgNames
    (by simpa using hv.noDup) (by intros; rfl) hnd (Or.inr (Or.inr trivial))
  rw [this]
  simp only [List.drop_zero]
  unfold bindOutcome
  rfl

/-- a validated call with every required parameter supplied can only fail through a failing default:
it never raises "missing / surplus / unknown / duplicate" at run time -/
theorem validated_bind_never_missing (c : ECfg S) (l : Live S.V) (params : List Param) (pos : List S.V)
    (kws : List (String × S.V)) (hv : ValidCall params pos.length (kws.map (·.1)))
    (hnd : (params.map (·.name)).Nodup)
    (hreq : ∀ (i : Nat) (p : Param), params[i]? = some p → p.default = none →
      i < pos.length ∨ p.name ∈ kws.map (·.1)) :
    ∀ e, bindArgs c l params (argDict pos kws) 0 [] = .error e →
      ∃ p pe, e = defaultFailed p pe := by
  intro e he
  rw [bind_eq_pyCall c l params pos kws hv hnd, pyCall_of_valid _ _ _ _ hv] at he
  -- generalise over the suffix of parameters still to bind
  have key : ∀ (ps : List Param) (k : Nat) (ps0 : List Param) (res : Env S.V),
      params = ps0 ++ ps → ps0.length = k →
      bindOutcome (pyBindGo (S := S)
        (fun r d => S.eval (Env.update (evalCtx S c.cx l.vars l.scopes.head?) r) d) kws ps (pos.drop k) res) = .error e →
      ∃ p pe, e = defaultFailed p pe := by
    intro ps
    induction ps with
    | nil => intro k ps0 res _ _ h; simp [pyBindGo, bindOutcome] at h
    | cons p ps ih =>
      intro k ps0 res hsplit hlen h
      have hidx : params[k]? = some p := by
        rw [hsplit, ← hlen]; simp
      cases hd : pos.drop k with
      | cons v rest =>
        rw [hd] at h
        simp only [pyBindGo] at h
        have hrest : rest = pos.drop (k + 1) := by
          have := congrArg List.tail hd
          simpa [List.tail_drop] using this.symm
        rw [hrest] at h
        exact ih (k + 1) (ps0 ++ [p]) _ (by rw [hsplit]; simp) (by simp [hlen]) h
      | nil =>
        rw [hd] at h
        have hk : pos.length ≤ k := by
          have := congrArg List.length hd
          simp at this; omega
        have hdrop' : pos.drop (k + 1) = [] := List.drop_eq_nil_of_le (by omega)
        simp only [pyBindGo] at h
        cases hl : kws.lookup p.name with
        | some v =>
          rw [hl] at h
          simp only at h
          have := ih (k + 1) (ps0 ++ [p]) (Env.set res p.name v) (by rw [hsplit]; simp) (by simp [hlen])
          rw [hdrop'] at this
          exact this h
        | none =>
          rw [hl] at h
          simp only at h
          cases hdef : p.default with
          | none =>
            -- a required parameter: the validator guarantees it was supplied
            rcases hreq k p hidx hdef with h1 | h1
            · omega
            · exfalso
              have : kws.lookup p.name ≠ none := lookup_ne_none_of_mem kws p.name h1
              exact this hl
          | some d =>
            rw [hdef] at h
            simp only at h
            cases hev : S.eval (Env.update (evalCtx S c.cx l.vars l.scopes.head?) res) d with
            | error pe =>
              rw [hev] at h
              simp only [bindOutcome] at h
              exact ⟨p.name, pe, by injection h with h; exact h.symm⟩
            | ok v =>
              rw [hev] at h
              simp only at h
              have := ih (k + 1) (ps0 ++ [p]) (Env.set res p.name v) (by rw [hsplit]; simp) (by simp [hlen])
              rw [hdrop'] at this
              exact this h
  exact key params 0 [] [] (by simp) rfl (by simpa using he)

end Bardic
