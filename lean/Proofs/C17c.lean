import Bardic.Parser.Core
import Proofs.C17
import Proofs.C11b
/-!
# C17 on the text-level parser: a trailing `// comment` on a directive line is invisible to `parse`

`strip_directive_comments` is the first thing `parse` does.  For a directive line `pad ++ body` (any indentation `pad`,
a body that starts and ends with a non-blank character, holds no `/` or `\`, and starts with one of the directive
prefixes the pre-pass knows — `@endif`, `@endfor`, `@endpy`, `@py`, `@else`, `@join`, `@hook `, `@unhook `, `@start `,
`->`, `>>`), appending ` // anything` (not starting with `=`) gives exactly the same pre-pass result: the same output
line and the same "inside a Python block" state for the lines that follow (`directive_comment_invisible`).
Everything after the pre-pass sees identical lines, so the whole parse is the same (`parseStory_comment_invisible`).
-/
namespace Bardic.Parser

theorem lstripL_append_of_head {x : List Char} (c : Char) (r : List Char) (hx : x = c :: r) (hc : isPyWs c = false)
    (y : List Char) : lstripL (x ++ y) = x ++ y := by
  subst hx
  simp [lstripL, hc]

theorem lstripL_pad (pad x : List Char) (hp : ∀ c ∈ pad, isPyWs c = true) : lstripL (pad ++ x) = lstripL x := by
  induction pad with
  | nil => rfl
  | cons c r ih =>
    have hc := hp c (by simp)
    simp only [List.cons_append, lstripL, hc, if_true]
    exact ih (fun d hd => hp d (by simp [hd]))

/-- right-stripping does not reach into a part that is followed by a part with a visible character -/
theorem lstripL_append_nonblank (x y : List Char) (h : lstripL x ≠ []) : lstripL (x ++ y) = lstripL x ++ y := by
  induction x with
  | nil => simp [lstripL] at h
  | cons c r ih =>
    by_cases hc : isPyWs c = true
    · simp only [List.cons_append, lstripL, hc, if_true] at h ⊢
      exact ih h
    · have hc' : isPyWs c = false := by simpa using hc
      simp [lstripL, hc']

theorem rstripL_append_nonblank (x y : List Char) (h : rstripL y ≠ []) : rstripL (x ++ y) = x ++ rstripL y := by
  unfold rstripL at h ⊢
  have h' : lstripL y.reverse ≠ [] := by intro e; apply h; simp [e]
  rw [List.reverse_append, lstripL_append_nonblank _ _ h']
  simp

theorem isPrefixL_append (p s t : List Char) (h : isPrefixL p s = true) : isPrefixL p (s ++ t) = true := by
  induction p generalizing s with
  | nil => simp [isPrefixL]
  | cons a r ih =>
    cases s with
    | nil => simp [isPrefixL] at h
    | cons b u =>
      simp only [isPrefixL, Bool.and_eq_true, List.cons_append] at h ⊢
      exact ⟨h.1, ih u h.2⟩

theorem sw_append (s t : Line) (p : String) (h : sw s p = true) : sw (s ++ t) p = true := isPrefixL_append _ _ _ h

theorem swAny_append (s t : Line) (ps : List String) (h : swAny s ps = true) : swAny (s ++ t) ps = true := by
  unfold swAny at h ⊢
  simp only [List.any_eq_true] at h ⊢
  obtain ⟨p, hp, hs⟩ := h
  exact ⟨p, hp, sw_append s t p hs⟩

/-- a directive line: indentation, then a body that begins and ends with a visible character -/
structure Directive (pad body : Line) : Prop where
  pad_ws : ∀ c ∈ pad, isPyWs c = true
  head : ∃ c r, body = c :: r ∧ isPyWs c = false
  no_trail : rstripL body = body
  no_slash : NoSlash (pad ++ body)

theorem Directive.body_ne {pad body : Line} (d : Directive pad body) : body ≠ [] := by
  obtain ⟨c, r, h, _⟩ := d.head; rw [h]; simp

theorem stripL_directive {pad body : Line} (d : Directive pad body) : stripL (pad ++ body) = body := by
  obtain ⟨c, r, hb, hc⟩ := d.head
  unfold stripL
  rw [lstripL_pad pad body d.pad_ws]
  have : lstripL body = body := by
    have := lstripL_append_of_head c r hb hc []
    simpa using this
  rw [this, d.no_trail]

/-- the comment suffix ` // c` has a visible character, whatever `c` is -/
theorem rstripL_suffix_ne (c : Line) : rstripL (' ' :: '/' :: '/' :: c) ≠ [] := by
  unfold rstripL
  intro h
  have h2 : lstripL (c.reverse ++ ['/', '/', ' ']) = [] := by
    have := congrArg List.reverse h
    simpa using this
  have : ∀ (x : List Char), lstripL (x ++ ['/', '/', ' ']) ≠ [] := by
    intro x
    induction x with
    | nil => simp [lstripL, isPyWs]
    | cons a r ih =>
      by_cases ha : isPyWs a = true
      · simp only [List.cons_append, lstripL, ha, if_true]; exact ih
      · have ha' : isPyWs a = false := by simpa using ha
        simp [lstripL, ha']
  exact this _ h2

theorem stripL_directive_commented {pad body : Line} (d : Directive pad body) (c : Line) :
    stripL (pad ++ body ++ ' ' :: '/' :: '/' :: c) = body ++ rstripL (' ' :: '/' :: '/' :: c) := by
  obtain ⟨a, r, hb, ha⟩ := d.head
  unfold stripL
  rw [List.append_assoc, lstripL_pad pad _ d.pad_ws, lstripL_append_of_head a r hb ha]
  exact rstripL_append_nonblank _ _ (rstripL_suffix_ne c)

theorem rstripL_directive {pad body : Line} (d : Directive pad body) : rstripL (pad ++ body) = pad ++ body := by
  have hne : rstripL body ≠ [] := by rw [d.no_trail]; exact d.body_ne
  rw [rstripL_append_nonblank pad body hne, d.no_trail]

/-- **one line of the pre-pass**: with and without the trailing comment the pre-pass continues identically -/
theorem directive_comment_invisible {pad body : Line} (d : Directive pad body) (c : Line) (hc : c.head? ≠ some '=')
    (closer : Option String)
    (hcm : match closer with | none => swAny body commentable = true | some cl => sw body cl = true)
    (rest acc : List Line) :
    stripDirectiveCommentsGo ((pad ++ body ++ ' ' :: '/' :: '/' :: c) :: rest) closer acc =
    stripDirectiveCommentsGo ((pad ++ body) :: rest) closer acc := by
  have hs1 : strip (pad ++ body ++ ' ' :: '/' :: '/' :: c) = (pad ++ body ++ [' '], '/' :: '/' :: c) :=
    strip_comment_suffix (pad ++ body) c d.no_slash hc
  have hs2 : strip (pad ++ body) = (pad ++ body, []) := strip_noslash _ d.no_slash
  have e1 := stripL_directive_commented d c
  have e2 := stripL_directive d
  cases closer with
  | none =>
    simp only at hcm
    have hcm1 : swAny (stripL (pad ++ body ++ ' ' :: '/' :: '/' :: c)) commentable = true := by
      rw [e1]; exact swAny_append _ _ _ hcm
    have hcm2 : swAny (stripL (pad ++ body)) commentable = true := by rw [e2]; exact hcm
    conv => lhs; unfold stripDirectiveCommentsGo
    conv => rhs; unfold stripDirectiveCommentsGo
    simp only [hcm1, hcm2, if_true, hs1, hs2, List.isEmpty_nil, List.isEmpty_cons, Bool.false_eq_true, if_false,
      rstripL_append_space, rstripL_directive d]
  | some cl =>
    simp only at hcm
    have hcm1 : sw (stripL (pad ++ body ++ ' ' :: '/' :: '/' :: c)) cl = true := by
      rw [e1]; exact sw_append _ _ _ hcm
    have hcm2 : sw (stripL (pad ++ body)) cl = true := by rw [e2]; exact hcm
    conv => lhs; unfold stripDirectiveCommentsGo
    conv => rhs; unfold stripDirectiveCommentsGo
    simp only [hcm1, hcm2, if_true, hs1, hs2, List.isEmpty_nil, List.isEmpty_cons, Bool.false_eq_true, if_false,
      rstripL_append_space, rstripL_directive d]

/-- one line of the pre-pass: the line it emits and the Python-block state it leaves -/
def sdcStep (closer : Option String) (line : Line) : Line × Option String :=
  let st := stripL line
  let cm := match closer with
    | none => swAny st commentable
    | some c => sw st c
  let line' :=
    if cm then
      let p := strip line
      if p.2.isEmpty then line else rstripL p.1
    else line
  let st' := stripL line'
  let closer' := match closer with
    | none => if sw st' "@py" then some "@endpy" else if sw st' "<<py" then some ">>" else none
    | some c => if strEq st' c then none else some c
  (line', closer')

theorem go_cons (line : Line) (rest : List Line) (closer : Option String) (acc : List Line) :
    stripDirectiveCommentsGo (line :: rest) closer acc =
    stripDirectiveCommentsGo rest (sdcStep closer line).2 ((sdcStep closer line).1 :: acc) := by
  conv => lhs; unfold stripDirectiveCommentsGo
  rfl

/-- the Python-block state after a prefix of the text -/
def closerAfter : List Line → Option String → Option String
  | [], c => c
  | l :: r, c => closerAfter r (sdcStep c l).2

/-- what makes a directive line commentable in a given state: outside Python blocks one of the known directive prefixes,
inside one the block's own closer -/
def Commentable (closer : Option String) (body : Line) : Prop :=
  match closer with
  | none => swAny body commentable = true
  | some cl => sw body cl = true

/-- **anywhere in a text**: a trailing comment on a directive line (commentable in the state the pre-pass is in when it
gets there) does not change what the pre-pass returns -/
theorem prepass_comment_invisible {pad body : Line} (d : Directive pad body) (c : Line) (hc : c.head? ≠ some '=') :
    ∀ (pre rest : List Line) (closer : Option String) (acc : List Line),
      Commentable (closerAfter pre closer) body →
      stripDirectiveCommentsGo (pre ++ (pad ++ body ++ ' ' :: '/' :: '/' :: c) :: rest) closer acc =
      stripDirectiveCommentsGo (pre ++ (pad ++ body) :: rest) closer acc
  | [], rest, closer, acc, h => by
    simp only [List.nil_append]
    exact directive_comment_invisible d c hc closer (by cases closer <;> exact h) rest acc
  | x :: pre, rest, closer, acc, h => by
    simp only [List.cons_append]
    rw [go_cons, go_cons]
    exact prepass_comment_invisible d c hc pre rest _ _ h

/-- **C17 for the whole parser model**: the story (or diagnostic) `parse` answers is the same with and without a trailing
`// comment` on a directive line, wherever the line stands, whatever its indentation, whatever the comment says -/
theorem parseLines_comment_invisible (O : PyOracle) {pad body : Line} (d : Directive pad body) (c : Line)
    (hc : c.head? ≠ some '=') (pre rest : List Line) (h : Commentable (closerAfter pre none) body) :
    parseLines O (pre ++ (pad ++ body ++ ' ' :: '/' :: '/' :: c) :: rest) = parseLines O (pre ++ (pad ++ body) :: rest) := by
  have : stripDirectiveComments (pre ++ (pad ++ body ++ ' ' :: '/' :: '/' :: c) :: rest) =
      stripDirectiveComments (pre ++ (pad ++ body) :: rest) := prepass_comment_invisible d c hc pre rest none [] h
  unfold parseLines
  rw [this]

/-- the hypotheses are met: `  @endif // end of the block`, first line of a text -/
example : Directive [' ', ' '] ['@', 'e', 'n', 'd', 'i', 'f'] ∧ Commentable (closerAfter [] none) ['@', 'e', 'n', 'd', 'i', 'f'] := by
  refine ⟨⟨by decide, ⟨'@', ['e', 'n', 'd', 'i', 'f'], rfl, by decide⟩, by decide, ?_⟩, ?_⟩
  · show ∀ c ∈ [' ', ' ', '@', 'e', 'n', 'd', 'i', 'f'], c ≠ '/' ∧ c ≠ '\\'
    decide
  · show swAny ['@', 'e', 'n', 'd', 'i', 'f'] commentable = true
    decide

end Bardic.Parser
