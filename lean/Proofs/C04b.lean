import Proofs.Lemmas.WF
import Proofs.C05
/-!
# C04 over whole histories — the engine refines a zipper of observations

`Zip` is the simplest possible specification of undo/redo: a list of past observations (newest first,
at most 50), the present one, and a list of future ones.  `Eng.abs` forgets everything but the
observations (`Snap` = position, variables, used choices, hooks, `@join` progress, displayed output).
`abs_step` shows that every API call of the engine model is the zipper's move, for every story, every
`Sem` and every well-formed engine state; `abs_run` lifts it to every history of calls from every
reachable state.  The laws of the property are then facts about `Zip` alone (`Zip.undo_choose`,
`Zip.redo_undo`, `Zip.undo_redo`, `Zip.choose_keeps_older`).
-/
namespace Bardic
variable {S : Sem}

structure Zip (α : Type) where
  past : List α
  present : α
  future : List α

namespace Zip
variable {α : Type}

def undo (z : Zip α) : Zip α :=
  match z.past with
  | [] => z
  | p :: ps => ⟨ps, p, z.present :: z.future⟩

def redo (z : Zip α) : Zip α :=
  match z.future with
  | [] => z
  | f :: fs => ⟨pushCap z.present z.past, f, fs⟩

/-- an accepted choice: the present becomes the newest restore point, the future is discarded -/
def choose (z : Zip α) (new : α) : Zip α := ⟨pushCap z.present z.past, new, []⟩

/-- an operation that only replaces the present (direct navigation, reset of one-time choices) -/
def replace (z : Zip α) (new : α) : Zip α := ⟨z.past, new, z.future⟩

theorem undo_choose (z : Zip α) (new : α) :
    (z.choose new).undo = ⟨z.past.take (undoCap - 1), z.present, [new]⟩ := by
  simp [choose, undo, pushCap_head]

theorem redo_undo (z : Zip α) (p : α) (ps : List α) (h : z.past = p :: ps) (hc : z.past.length ≤ undoCap) :
    z.undo.redo = z := by
  obtain ⟨past, present, future⟩ := z
  simp only at h hc
  subst h
  have : (p :: ps).take undoCap = p :: ps := List.take_of_length_le hc
  simp [undo, redo, pushCap, this]

theorem undo_redo (z : Zip α) (f : α) (fs : List α) (h : z.future = f :: fs) (hc : z.past.length < undoCap) :
    z.redo.undo = z := by
  obtain ⟨past, present, future⟩ := z
  simp only at h hc
  subst h
  have : (present :: past).take undoCap = present :: past :=
    List.take_of_length_le (by simp only [List.length_cons]; omega)
  simp [redo, undo, pushCap, this]

/-- later play never alters an earlier restore point: an accepted choice keeps every older restore
point, in order, one place further down (the 50th falls off the end) -/
theorem choose_keeps_older (z : Zip α) (new : α) :
    (z.choose new).past = z.present :: z.past.take (undoCap - 1) := by
  simp [choose, pushCap_head]

/-- undo and redo only move restore points between the two stacks and the present: none is changed -/
theorem undo_keeps (z : Zip α) (p : α) (ps : List α) (h : z.past = p :: ps) :
    z.undo.past = ps ∧ z.undo.present = p ∧ z.undo.future = z.present :: z.future := by
  simp [undo, h]

end Zip

example : (⟨[1, 2], 3, [4]⟩ : Zip Nat).undo.redo = ⟨[1, 2], 3, [4]⟩ := by rfl
example : ((⟨[1, 2], 3, [4]⟩ : Zip Nat).choose 9).undo = ⟨[1, 2], 3, [9]⟩ := by rfl

/-- the abstraction: forget everything but the observations -/
def Eng.abs (e : Eng S.V) : Zip (Snap S.V) := ⟨e.undo, Snap.of e.live, e.redo⟩

/-- what a zipper does on each API call, given the observation `new` the call ends in -/
def Zip.apply (z : Zip (Snap S.V)) (accepted : Bool) (new : Snap S.V) : Op S.V → Zip (Snap S.V)
  | .choose _ => if accepted then z.choose new else z
  | .undo => z.undo
  | .redo => z.redo
  | .goto _ => z.replace new
  | .resetOneTime => z.replace new
  | .load _ => if accepted then ⟨[], new, []⟩ else z
  | _ => z

/-- was the call accepted (a choice index in range; a save document that passes validation)? -/
def accepted (c : ECfg S) (e : Eng S.V) : Op S.V → Bool
  | .choose i =>
    match e.live.out with
    | some cur => decide (0 ≤ i) && decide (i < cur.choices.length)
    | none => false
  | .load (.doc d) => (c.story.passage? (d.cur.getD "Start")).isSome
  | .load _ => false
  | _ => true

theorem doUndo_abs (c : ECfg S) (hv : c.variant = .main) (e : Eng S.V) (hw : e.WF) :
    (e.doUndo c).1.abs = e.abs.undo := by
  cases hu : e.undo with
  | nil => rw [undo_empty_noop c e hu]; simp [Eng.abs, Zip.undo, hu]
  | cons prev rest =>
    have hp : prev.out.isSome := hw.undo prev (by simp [hu])
    have hr := restore_obs c hv prev e.live hp
    unfold Eng.doUndo
    rw [hu]
    dsimp only
    generalize restore c prev e.live = res at hr ⊢
    obtain ⟨l, r⟩ := res
    simp only at hr
    obtain ⟨h1, h2⟩ := hr
    subst h1
    simp [Eng.abs, Zip.undo, hu, h2]

theorem doRedo_abs (c : ECfg S) (hv : c.variant = .main) (e : Eng S.V) (hw : e.WF) :
    (e.doRedo c).1.abs = e.abs.redo := by
  cases hu : e.redo with
  | nil => rw [redo_empty_noop c e hu]; simp [Eng.abs, Zip.redo, hu]
  | cons nxt rest =>
    have hp : nxt.out.isSome := hw.redo nxt (by simp [hu])
    have hr := restore_obs c hv nxt e.live hp
    unfold Eng.doRedo
    rw [hu]
    dsimp only
    generalize restore c nxt e.live = res at hr ⊢
    obtain ⟨l, r⟩ := res
    simp only at hr
    obtain ⟨h1, h2⟩ := hr
    subst h1
    simp [Eng.abs, Zip.redo, hu, h2]

/-- **refinement, one call**: every API call moves the abstraction exactly as the zipper moves, where
the only thing the zipper is told is the observation the call ends in -/
theorem abs_step (c : ECfg S) (hv : c.variant = .main) (e : Eng S.V) (hw : e.WF) (op : Op S.V) :
    (step c e op).1.abs = e.abs.apply (accepted c e op) (Snap.of (step c e op).1.live) op := by
  cases op with
  | undo => exact doUndo_abs c hv e hw
  | redo => exact doRedo_abs c hv e hw
  | choose i =>
    cases hout : e.live.out with
    | none => have := hw.live; simp [hout] at this
    | some cur =>
      by_cases hr : 0 ≤ i ∧ i < cur.choices.length
      · have hh := doChoose_history c e i cur hout hr.1 hr.2
        have ha : accepted c e (.choose i) = true := by simp [accepted, hout, hr.1, hr.2]
        simp only [step, Zip.apply, ha, if_true, Zip.choose, Eng.abs]
        rw [hh.1, hh.2]
      · have hbad : i < 0 ∨ (cur.choices.length : Int) ≤ i := by omega
        obtain ⟨msg, hm⟩ := choose_out_of_range_noop c e i cur hout hbad
        have ha : accepted c e (.choose i) = false := by
          simp only [accepted, hout, Bool.and_eq_false_iff, decide_eq_false_iff_not]; omega
        simp only [step, Zip.apply, ha, hm]
        rfl
  | goto spec =>
    simp only [step]
    split <;> rfl
  | resetOneTime => rfl
  | load a =>
    cases a with
    | notDict => rfl
    | noVersion d => rfl
    | doc d =>
      cases hp : c.story.passage? (d.cur.getD "Start") with
      | none =>
        obtain ⟨m, hm⟩ := load_rejects_unknown_passage c e d hp
        simp only [accepted, hp, Option.isSome_none, Zip.apply, hm]
        rfl
      | some p =>
        have hc := load_clears_history c e d (by simp [hp])
        simp only [accepted, hp, Option.isSome_some, Zip.apply, if_true, Eng.abs]
        rw [hc.1, hc.2]
  | save => rfl
  | current => rfl
  | hasChoices => rfl
  | isEnd => rfl
  | choiceTexts => rfl
  | choiceTargets => rfl
  | storyInfo => rfl
  | saveMeta => rfl
  | canUndo => rfl
  | canRedo => rfl

/-- the zipper run along a history: at each call it is told whether the call was accepted and which
observation it ended in, nothing else -/
def Zip.runWith (z : Zip (Snap S.V)) : List (Bool × Snap S.V × Op S.V) → Zip (Snap S.V)
  | [] => z
  | (a, n, op) :: rest => (z.apply a n op).runWith rest

/-- the trace of (accepted, observation, call) along a run of the engine model -/
def trace (c : ECfg S) : Eng S.V → List (Op S.V) → List (Bool × Snap S.V × Op S.V)
  | _, [] => []
  | e, op :: ops => (accepted c e op, Snap.of (step c e op).1.live, op) :: trace c (step c e op).1 ops

/-- **refinement, every history**: from every well-formed state (hence from every reachable one,
`run_WF`), after any sequence of calls the engine's restore points, present observation and redo
points are exactly the zipper's -/
theorem abs_run (c : ECfg S) (hv : c.variant = .main) :
    ∀ (ops : List (Op S.V)) (e : Eng S.V), e.WF →
      (run c e ops).1.abs = e.abs.runWith (trace c e ops) := by
  intro ops
  induction ops with
  | nil => intro e _; rfl
  | cons op ops ih =>
    intro e hw
    simp only [run, trace, Zip.runWith]
    rw [← abs_step c hv e hw op]
    exact ih _ (step_WF c e op hw)

/-- corollary, stated on the engine: after ANY history from a fresh engine, an accepted choice followed
by `undo` shows exactly the observation that existed before the choice, and a following `redo` shows
exactly what the choice had led to -/
theorem undo_redo_after_any_history (c : ECfg S) (hv : c.variant = .main) (e0 : Eng S.V)
    (h0 : Eng.init c = .ok e0) (ops : List (Op S.V)) (i : Int) :
    let e := (run c e0 ops).1
    accepted c e (.choose i) = true →
    let e1 := (step c e (.choose i)).1
    let e2 := (step c e1 .undo).1
    let e3 := (step c e2 .redo).1
    Snap.of e2.live = Snap.of e.live ∧ Snap.of e3.live = Snap.of e1.live ∧ e3.redo = [] := by
  intro e ha e1 e2 e3
  have hw : e.WF := run_WF c ops e0 (init_WF c e0 h0)
  have hw1 : e1.WF := step_WF c e _ hw
  have hw2 : e2.WF := step_WF c e1 _ hw1
  have a1 := abs_step c hv e hw (.choose i)
  have a2 := abs_step c hv e1 hw1 .undo
  have a3 := abs_step c hv e2 hw2 .redo
  simp only [Zip.apply, ha, if_true] at a1 a2 a3
  have a2' : e2.abs = (e.abs.choose (Snap.of e1.live)).undo := by
    show (step c e1 .undo).1.abs = _
    rw [a2]; show (step c e (.choose i)).1.abs.undo = _; rw [a1]
  rw [Zip.undo_choose] at a2'
  have p2 : Snap.of e2.live = Snap.of e.live := congrArg Zip.present a2'
  have f2 : e2.redo = [Snap.of e1.live] := congrArg Zip.future a2'
  have a3' : e3.abs = e2.abs.redo := a3
  have : e2.abs.redo = ⟨pushCap (Snap.of e2.live) e2.undo, Snap.of e1.live, []⟩ := by
    simp [Zip.redo, Eng.abs, f2]
  rw [this] at a3'
  exact ⟨p2, congrArg Zip.present a3', congrArg Zip.future a3'⟩

end Bardic
