import Proofs.C01
/-!
# C01 / C12 — more about the compile model: merging adjacent text parts is invisible; what a compiled story looks like
-/
namespace Bardic
open Bardic.Src Bardic.Ref
variable {S : Sem}

/-- adjacent text parts read as one text: merging them (what the tokenizer does) does not change what the line shows -/
theorem mergeTexts_text (ctx : Env S.V) : ∀ (ps : List Inl), inlsText S ctx (mergeTexts ps) = inlsText S ctx ps
  | [] => by simp [mergeTexts, inlsText]
  | .text a :: rest => by
      have ih := mergeTexts_text ctx rest
      simp only [mergeTexts]
      split
      · rename_i b r hm
        rw [hm] at ih
        split
        · rename_i he
          have hab : a = "" ∧ b = "" := by
            have : (a ++ b) = "" := by simpa using he
            exact String.append_eq_empty_iff.mp this
          simp only [inlsText, inlText] at ih ⊢
          rw [← ih, hab.1, hab.2]; simp
        · simp only [inlsText, inlText] at ih ⊢
          rw [← ih, String.append_assoc]
      · rename_i hne
        split
        · rename_i he
          have : a = "" := by simpa using he
          simp only [inlsText, inlText, this, String.empty_append, ih]
        · simp only [inlsText, inlText, ih]
  | .expr c sp :: rest => by simp only [mergeTexts, inlsText, mergeTexts_text ctx rest]
  | .cond c t f :: rest => by simp only [mergeTexts, inlsText, mergeTexts_text ctx rest]

/-- the content of a compiled passage: the visible top-level items in order, whitespace-cleaned, at most one trailing newline -/
theorem compilePassage_content (p : SPassage) :
    (compilePassage p).content = trimTrailing (cleanup ((normItems p.items).flatMap topTok)) := by
  simp [compilePassage, foldl_cTopItem_content]

/-- C12: every passage of a compiled story is stored under its own id -/
theorem compileStory_keys (ps : List SPassage) (start : Option String) :
    ∀ kp ∈ (compileStory ps start).passages, kp.2.id = kp.1 := by
  intro kp h
  simp only [compileStory, List.mem_map] at h
  obtain ⟨p, _, rfl⟩ := h
  rfl

/-- C12: without `@start`, the initial passage is `Start` when there is one, else the first passage — and it exists -/
theorem compileStory_initial (ps : List SPassage) (h : ps ≠ []) :
    ∃ p ∈ (compileStory ps none).passages, p.1 = (compileStory ps none).initial := by
  cases ps with
  | nil => exact absurd rfl h
  | cons p0 rest =>
    simp only [compileStory]
    split
    · rename_i hs
      simp only [List.any_eq_true] at hs
      obtain ⟨x, hx, hx2⟩ := hs
      exact ⟨x, hx, by simpa using hx2⟩
    · exact ⟨_, List.mem_cons_self, by simp⟩

end Bardic
