import Bardic.Graph
import Bardic.Engine.Api
/-!
# C18 — the story graph covers every transition the engine can perform

Whatever author code does (`∀ Sem`), every block choice a render hands out and every jump target a
render reports is one the static walk of `extract_connections` finds, at any nesting depth.
-/
namespace Bardic
variable {S : Sem}

/-- choices handed out in `r` are among `cs`, a reported jump target is among `js` -/
def Sub (cs : List Choice) (js : List String) (r : ROut S.V) : Prop :=
  (∀ c pre, Dir.choice c pre ∈ r.dirs → c ∈ cs) ∧ (∀ t, r.jump = some t → t ∈ js)

theorem Sub.mono {cs cs' : List Choice} {js js' : List String} {r : ROut S.V}
    (h : Sub cs js r) (hc : ∀ c ∈ cs, c ∈ cs') (hj : ∀ t ∈ js, t ∈ js') : Sub cs' js' r :=
  ⟨fun c pre hm => hc c (h.1 c pre hm), fun t ht => hj t (h.2 t ht)⟩

theorem Sub.empty (cs : List Choice) (js : List String) : Sub (S := S) cs js {} :=
  ⟨fun _ _ h => by simp at h, fun _ h => by simp at h⟩

def SubRes (cs : List Choice) (js : List String) (x : RRes S (ROut S.V)) : Prop :=
  ∀ r, x.2 = .ok r → Sub cs js r

theorem loopItems_sub (lv : String) (cs : List Choice) (js : List String)
    (body : RS S.V → RRes S (ROut S.V)) (chs : RS S.V → RRes S (List (Dir S.V)))
    (hb : ∀ rs, SubRes cs js (body rs))
    (hc : ∀ rs ds, (chs rs).2 = .ok ds → ∀ c pre, Dir.choice c pre ∈ ds → c ∈ cs) :
    ∀ (items : List S.V) (rs : RS S.V), SubRes cs js (loopItems S lv body chs items rs) := by
  intro items
  induction items with
  | nil => intro rs r h; simp only [loopItems, Except.ok.injEq] at h; subst h; exact Sub.empty _ _
  | cons item items ih =>
    intro rs
    unfold loopItems
    dsimp only
    generalize loopAssign S lv item rs.vars = la
    obtain ⟨vars1, origs⟩ := la
    dsimp only
    have hb1 := hb { rs with vars := vars1 }
    split
    · intro r h; simp at h
    · rename_i rs2 rb he
      have hrb : Sub cs js rb := hb1 rb (by rw [he])
      have hc1 := hc rs2
      split
      · intro r h; simp at h
      · rename_i rs3 cds hce
        have hcds : ∀ c pre, Dir.choice c pre ∈ cds → c ∈ cs := hc1 cds (by rw [hce])
        split
        · intro r h
          simp only [Except.ok.injEq] at h; subst h
          refine ⟨?_, hrb.2⟩
          intro c pre hm
          rcases List.mem_append.mp hm with h1 | h1
          · exact hrb.1 c pre h1
          · exact hcds c pre h1
        · rename_i hnj
          have := ih { rs3 with vars := loopRestore S origs rs3.vars }
          split
          · intro r h; simp at h
          · rename_i rs5 r' hl
            have hr' : Sub cs js r' := this r' (by rw [hl])
            intro r h
            simp only [Except.ok.injEq] at h; subst h
            refine ⟨?_, hr'.2⟩
            intro c pre hm
            simp only [List.append_assoc, List.mem_append] at hm
            rcases hm with h1 | h1 | h1
            · exact hrb.1 c pre h1
            · exact hcds c pre h1
            · exact hr'.1 c pre h1

mutual
theorem renderTok_sub (cfg : RCfg S) : ∀ (t : Tok) (rs : RS S.V),
    SubRes (tokChoices t) (tokJumps t) (renderTok S cfg t rs)
  | .text _ _, rs => by intro r h; simp only [renderTok, Except.ok.injEq] at h; subst h; exact ⟨by simp, by simp⟩
  | .expr _, rs => by intro r h; simp only [renderTok, Except.ok.injEq] at h; subst h; exact ⟨by simp, by simp⟩
  | .inlineCond c t f, rs => by
      intro r h
      simp only [renderTok] at h
      split at h
      · simp only [Except.ok.injEq] at h; subst h; exact ⟨by simp, by simp⟩
      · split at h <;> (split at h <;> (simp only [Except.ok.injEq] at h; subst h; exact ⟨by simp, by simp⟩))
  | .render _ _ _, rs => by
      intro r h; simp only [renderTok, Except.ok.injEq] at h; subst h
      refine ⟨?_, by simp⟩
      intro c pre hm
      simp only [List.mem_singleton] at hm
      unfold processRender at hm
      split at hm
      · cases hm
      · split at hm <;> cases hm
  | .input _, rs => by
      intro r h; simp only [renderTok, Except.ok.injEq] at h; subst h
      exact ⟨by intro c pre hm; simp at hm, by simp⟩
  | .stmt code, rs => by
      intro r h; simp only [renderTok] at h
      split at h
      · simp only [Except.ok.injEq] at h; subst h; exact Sub.empty _ _
      · simp at h
  | .pyblock code, rs => by
      intro r h; simp only [renderTok] at h
      split at h
      · simp only [Except.ok.injEq] at h; subst h; exact Sub.empty _ _
      · simp at h
  | .hook _ _ _, rs => by intro r h; simp only [renderTok, Except.ok.injEq] at h; subst h; exact Sub.empty _ _
  | .cond bs, rs => by
      simp only [renderTok, tokChoices, tokJumps]; exact renderBranches_sub cfg bs rs
  | .loop lv coll body choices, rs => by
      intro r h
      simp only [renderTok] at h
      simp only [tokChoices, tokJumps]
      split at h
      · simp only [Except.ok.injEq] at h; subst h; exact Sub.empty _ _
      · split at h
        · -- collection failed
          unfold loopFail at h
          cases hv : cfg.variant <;> rw [hv] at h
          · simp at h
          · simp only [Except.ok.injEq] at h; subst h; exact ⟨by simp, by simp⟩
        · rename_i items _
          have hl := loopItems_sub lv (choices ++ toksChoices body) (toksJumps body)
            (fun r => renderToks S cfg body r) (fun r => renderChoiceTexts S cfg choices r)
            (fun rs' r' hr' => (renderToks_sub cfg body rs' r' hr').mono (fun c hc => List.mem_append_right _ hc) (fun t ht => ht))
            (fun rs' ds hds c pre hm => List.mem_append_left _ (renderChoiceTexts_sub cfg choices rs' ds hds c pre hm))
            items rs
          split at h
          · rename_i rs' r' hli
            simp only [Except.ok.injEq] at h; subst h
            exact hl r' (by rw [hli])
          · unfold loopFail at h
            cases hv : cfg.variant <;> rw [hv] at h
            · simp at h
            · simp only [Except.ok.injEq] at h; subst h; exact ⟨by simp, by simp⟩
  | .jump t _, rs => by
      intro r h; simp only [renderTok, Except.ok.injEq] at h; subst h
      exact ⟨by simp, by intro t' ht'; simp only [Option.some.injEq] at ht'; subst ht'; simp [tokJumps]⟩
  | .joinMarker, rs => by intro r h; simp only [renderTok, Except.ok.injEq] at h; subst h; exact Sub.empty _ _
  | .other _, rs => by intro r h; simp only [renderTok, Except.ok.injEq] at h; subst h; exact Sub.empty _ _

theorem renderToks_sub (cfg : RCfg S) : ∀ (ts : List Tok) (rs : RS S.V),
    SubRes (toksChoices ts) (toksJumps ts) (renderToks S cfg ts rs)
  | [], rs => by intro r h; simp only [renderToks, Except.ok.injEq] at h; subst h; exact Sub.empty _ _
  | t :: ts, rs => by
      intro r h
      simp only [renderToks] at h
      simp only [toksChoices, toksJumps]
      split at h
      · simp only [Except.ok.injEq] at h; subst h; exact Sub.empty _ _
      · have h1 := renderTok_sub cfg t rs
        split at h
        · simp at h
        · rename_i rs1 r1 he
          have hr1 : Sub (tokChoices t) (tokJumps t) r1 := h1 r1 (by rw [he])
          split at h
          · simp only [Except.ok.injEq] at h; subst h
            exact hr1.mono (fun c hc => List.mem_append_left _ hc) (fun x hx => List.mem_append_left _ hx)
          · have h2 := renderToks_sub cfg ts rs1
            split at h
            · simp at h
            · rename_i rs2 r2 he2
              have hr2 : Sub (toksChoices ts) (toksJumps ts) r2 := h2 r2 (by rw [he2])
              simp only [Except.ok.injEq] at h; subst h
              refine ⟨?_, fun x hx => List.mem_append_right _ (hr2.2 x hx)⟩
              intro c pre hm
              rcases List.mem_append.mp hm with hm | hm
              · exact List.mem_append_left _ (hr1.1 c pre hm)
              · exact List.mem_append_right _ (hr2.1 c pre hm)

theorem renderBranches_sub (cfg : RCfg S) : ∀ (bs : List Branch) (rs : RS S.V),
    SubRes (branchesChoices bs) (branchesJumps bs) (renderBranches S cfg bs rs)
  | [], rs => by intro r h; simp only [renderBranches, Except.ok.injEq] at h; subst h; exact Sub.empty _ _
  | .mk c body chs :: bs, rs => by
      intro r h
      simp only [renderBranches] at h
      simp only [branchesChoices, branchesJumps]
      have hrest : ∀ r, (renderBranches S cfg bs rs).2 = .ok r →
          Sub (chs ++ toksChoices body ++ branchesChoices bs) (toksJumps body ++ branchesJumps bs) r :=
        fun r hr => (renderBranches_sub cfg bs rs r hr).mono (fun c hc => List.mem_append_right _ hc)
          (fun x hx => List.mem_append_right _ hx)
      split at h
      · exact hrest r h
      · split at h
        · have hb := renderToks_sub cfg body rs
          split at h
          · rename_i rs' r' he
            have hr' : Sub (toksChoices body) (toksJumps body) r' := hb r' (by rw [he])
            simp only [Except.ok.injEq] at h; subst h
            refine ⟨?_, fun x hx => List.mem_append_left _ (hr'.2 x hx)⟩
            intro c' pre hm
            rcases List.mem_append.mp hm with hm | hm
            · exact List.mem_append_left _ (List.mem_append_right _ (hr'.1 c' pre hm))
            · simp only [List.mem_map] at hm
              obtain ⟨c0, hc0, heq⟩ := hm
              injection heq with h1 h2
              subst h1
              exact List.mem_append_left _ (List.mem_append_left _ hc0)
          · simp at h
        · exact hrest r h

theorem renderChoiceTexts_sub (cfg : RCfg S) : ∀ (cs : List Choice) (rs : RS S.V) (ds : List (Dir S.V)),
    (renderChoiceTexts S cfg cs rs).2 = .ok ds → ∀ c pre, Dir.choice c pre ∈ ds → c ∈ cs
  | [], rs, ds, h, c, pre, hm => by
      simp only [renderChoiceTexts, Except.ok.injEq] at h; subst h; simp at hm
  | .mk text tgt args cnd sticky sec tags block :: cs, rs, ds, h, c, pre, hm => by
      simp only [renderChoiceTexts] at h
      split at h
      · simp at h
      · rename_i rs1 r he
        split at h
        · simp at h
        · rename_i rs2 ds' he2
          simp only [Except.ok.injEq] at h; subst h
          rcases List.mem_cons.mp hm with hm | hm
          · injection hm with h1 h2
            subst h1; simp
          · exact List.mem_cons_of_mem _ (renderChoiceTexts_sub cfg cs rs1 ds' (by rw [he2]) c pre hm)
end

end Bardic

namespace Bardic
variable {S : Sem}

theorem offerChoices_subset (cfg : RCfg S) (cur : Option String) (used : List String) (secOk : Choice → Bool) :
    ∀ (cs : List (Choice × Option String × Bool)) (rs : RS S.V) (os : List OChoice),
      (offerChoices cfg cur used secOk cs rs).2 = .ok os → ∀ o ∈ os, ∃ x ∈ cs, x.1 = o.c := by
  intro cs
  induction cs with
  | nil => intro rs os h o ho; simp only [offerChoices, Except.ok.injEq] at h; subst h; simp at ho
  | cons x rest ih =>
    obtain ⟨ch, pre, blk⟩ := x
    intro rs os h o ho
    unfold offerChoices at h
    split at h
    · simp at h
    · rename_i rs1 av he
      split at h
      · split at h
        · simp at h
        · rename_i rs2 t he2
          split at h
          · simp at h
          · rename_i rs3 os' he3
            simp only [Except.ok.injEq] at h; subst h
            rcases List.mem_cons.mp ho with ho | ho
            · subst ho; exact ⟨(ch, pre, blk), by simp, rfl⟩
            · obtain ⟨y, hy, hyc⟩ := ih rs2 os' (by rw [he3]) o ho
              exact ⟨y, List.mem_cons_of_mem _ hy, hyc⟩
      · obtain ⟨y, hy, hyc⟩ := ih rs1 os h o ho
        exact ⟨y, List.mem_cons_of_mem _ hy, hyc⟩

theorem dirChoices_mem {V} : ∀ (ds : List (Dir V)) (x : Choice × Option String × Bool),
    x ∈ dirChoices ds → Dir.choice x.1 x.2.1 ∈ ds := by
  intro ds
  induction ds with
  | nil => intro x h; simp [dirChoices] at h
  | cons d rest ih =>
    intro x h
    cases d with
    | choice c pre =>
      simp only [dirChoices, List.mem_cons] at h
      rcases h with h | h
      · subst h; simp
      · exact List.mem_cons_of_mem _ (ih x h)
    | renderEval _ _ _ => simp only [dirChoices] at h; exact List.mem_cons_of_mem _ (ih x h)
    | renderErr _ _ _ => simp only [dirChoices] at h; exact List.mem_cons_of_mem _ (ih x h)
    | input _ => simp only [dirChoices] at h; exact List.mem_cons_of_mem _ (ih x h)

/-- **every choice the engine can offer in a passage, and every jump a render of it can report, is in
the static walk of that passage** — at any nesting depth, for any author code -/
theorem renderPassage_in_graph (c : ECfg S) (pid : String) (l : Live S.V) (p : Passage) (o : Output S.V)
    (hp : c.story.passage? pid = some p) (h : (renderPassage c pid l).2 = .ok o) :
    (∀ oc ∈ o.choices, oc.c ∈ p.choices ++ toksChoices p.content) ∧
    (∀ t, o.jump = some t → t ∈ toksJumps p.content) := by
  unfold renderPassage at h
  rw [hp] at h
  dsimp only at h
  split at h
  · simp at h
  · rename_i rs1 r he
    have hsub := renderToks_sub (Live.rcfg c l) p.content l.rs r (by rw [he])
    split at h
    · simp at h
    · rename_i rs2 os he2
      simp only [Except.ok.injEq] at h; subst h
      refine ⟨?_, hsub.2⟩
      intro oc hoc
      obtain ⟨x, hx, hxc⟩ := offerChoices_subset _ _ _ _ _ rs1 os (by rw [he2]) oc hoc
      rw [← hxc]
      rcases List.mem_append.mp hx with hx | hx
      · simp only [List.mem_map] at hx
        obtain ⟨ch, hch, heq⟩ := hx
        subst heq
        exact List.mem_append_left _ hch
      · exact List.mem_append_right _ (hsub.1 x.1 x.2.1 (dirChoices_mem r.dirs x hx))

theorem firstJumpSpec_in (ts : List Tok) (spec : String) (h : firstJumpSpec ts = some spec) :
    ∃ t a, Tok.jump t a ∈ ts ∧ t ∈ toksJumps ts ∧ (spec = t ∨ spec = t ++ "(" ++ a ++ ")") := by
  induction ts with
  | nil => simp [firstJumpSpec] at h
  | cons x rest ih =>
    cases x with
    | jump t a =>
      simp only [firstJumpSpec, Option.some.injEq] at h
      refine ⟨t, a, by simp, by simp [toksJumps, tokJumps], ?_⟩
      split at h
      · exact Or.inr h.symm
      · exact Or.inl h.symm
    | _ =>
      simp only [firstJumpSpec] at h
      obtain ⟨t, a, h1, h2, h3⟩ := ih h
      exact ⟨t, a, List.mem_cons_of_mem _ h1, by simp only [toksJumps]; exact List.mem_append_right _ h2, h3⟩

/-- every edge target the analysis flags as missing is referenced and undefined, and conversely; the
reserved `@join` is never a reference -/
theorem missing_exact (s : Story) (t : String) :
    (t ∈ graphMissing s ↔ t ∈ graphReferenced s ∧ t ∉ graphDefined s) ∧ "@join" ∉ ((graphEdges s).filter (fun e => !e.2.2)).map (·.2.1) := by
  constructor
  · simp [graphMissing]
  · intro h
    simp only [List.mem_map, List.mem_filter] at h
    obtain ⟨e, ⟨he, hne⟩, heq⟩ := h
    simp only [graphEdges, List.mem_flatMap, List.mem_map] at he
    obtain ⟨kv, _, e', he', hee⟩ := he
    subst hee
    simp only [passageEdges, List.mem_append, List.mem_map, List.mem_filter] at he'
    rcases he' with ⟨c, ⟨_, hc⟩, hce⟩ | ⟨t', _, hte⟩
    · subst hce
      simp only at heq
      simp [heq] at hc
    · subst hte; simp at hne

end Bardic
