import Proofs.Lemmas.NavInv
/-!
# Lifting a render-level invariant to navigation
-/
namespace Bardic
variable {S : Sem} {R : RS S.V → RS S.V → Prop}

theorem rel_of_eq_fst {α} {f : RS S.V × α} {rs' rs : RS S.V} {r : α}
    (he : f = (rs', r)) (hf : R f.1 rs) : R rs' rs := by subst he; exact hf

theorem renderPassage_lift (h : RenderInv S R) (c : ECfg S) (pid : String) (l : Live S.V) :
    R (renderPassage c pid l).1.rs l.rs := by
  unfold renderPassage
  split
  · exact h.refl _
  · dsimp only
    split
    · rename_i rs1 e he
      exact rel_of_eq_fst he (renderToks_inv h _ _ _)
    · rename_i rs1 r he
      have h1 : R rs1 l.rs := rel_of_eq_fst he (renderToks_inv h _ _ _)
      split
      · rename_i rs2 e he2
        exact h.trans (rel_of_eq_fst he2 (offerChoices_inv h _ _ _ _ _ _)) h1
      · rename_i rs2 os he2
        exact h.trans (rel_of_eq_fst he2 (offerChoices_inv h _ _ _ _ _ _)) h1

theorem executePassage_lift (h : RenderInv S R)
    (henter : ∀ (rs : RS S.V) p, R { rs with log := Ev.enter p :: rs.log } rs)
    (c : ECfg S) (pid : String) (l : Live S.V) :
    R (executePassage c pid l).1.rs l.rs := by
  unfold executePassage
  split
  · exact h.refl _
  · dsimp only
    have h0 : R ({ l with log := Ev.enter pid :: l.log } : Live S.V).rs l.rs := henter l.rs pid
    have h1 := execCommands_inv h (Live.rcfg c { l with log := Ev.enter pid :: l.log }) ‹Passage›.execute
      ({ l with log := Ev.enter pid :: l.log } : Live S.V).rs
    split
    · rename_i rs1 e he; rw [he] at h1; exact h.trans h1 h0
    · rename_i rs1 _ he; rw [he] at h1; exact h.trans h1 h0

/-- a render-level invariant that tolerates `enter` events lifts to `goto` -/
theorem navInv_of_renderInv (h : RenderInv S R)
    (henter : ∀ (rs : RS S.V) p, R { rs with log := Ev.enter p :: rs.log } rs) (c : ECfg S) :
    NavInv S c (fun l' l => R l'.rs l.rs) where
  refl := fun l => h.refl _
  trans := fun h1 h2 => h.trans h1 h2
  render := renderPassage_lift h c
  execute := executePassage_lift h henter c
  mark := by intro cid l; unfold markEntered; cases c.variant <;> exact h.refl _
  out := fun l o => h.refl _
  cur := fun l x j => h.refl _
  scope := fun l l' sc hq => hq

end Bardic
