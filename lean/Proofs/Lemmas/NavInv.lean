import Proofs.Lemmas.RenderInv
/-!
# A generic invariant principle for navigation (`goto`, hooks)

A reflexive-transitive relation on `Live` respected by passage rendering, passage execution, the
entry bookkeeping, cache writes and a balanced scope push/pop is respected by `goto`.
-/
namespace Bardic
variable {S : Sem}

structure NavInv (S : Sem) (c : ECfg S) (Q : Live S.V → Live S.V → Prop) : Prop where
  refl : ∀ l, Q l l
  trans : ∀ {a b d}, Q a b → Q b d → Q a d
  render : ∀ pid l, Q (renderPassage c pid l).1 l
  execute : ∀ pid l, Q (executePassage c pid l).1 l
  mark : ∀ cid l, Q (markEntered c cid l) l
  out : ∀ (l : Live S.V) o, Q { l with out := some o } l
  cur : ∀ (l : Live S.V) x j, Q { l with cur := x, joinIdx := j } l
  scope : ∀ (l l' : Live S.V) sc, Q l' { l with scopes := sc :: l.scopes } →
    Q { l' with scopes := l'.scopes.tail } l

variable {c : ECfg S} {Q : Live S.V → Live S.V → Prop}

theorem NavInv.of_eq_fst {α} (_h : NavInv S c Q) {f : Live S.V × α} {l' l : Live S.V} {r : α}
    (he : f = (l', r)) (hf : Q f.1 l) : Q l' l := by subst he; exact hf

theorem gotoLoop_inv (h : NavInv S c Q) (recur : String → Live S.V → NRes S (Output S.V))
    (hrec : ∀ spec l, Q (recur spec l).1 l) :
    ∀ (n : Nat) (visited : List String) (cid : String) (accC : List String) (accD : List (Dir S.V))
      (l : Live S.V), Q (gotoLoop c recur n visited cid accC accD l).1 l := by
  intro n
  induction n with
  | zero => intros; exact h.refl _
  | succ n ih =>
    intro visited cid accC accD l
    unfold gotoLoop
    split
    · exact h.refl _
    · have f1 := h.mark cid l
      have fe := h.execute cid (markEntered c cid l)
      split
      · rename_i l2 e he
        exact h.trans (h.of_eq_fst he fe) f1
      · rename_i l2 spec he
        have f2 := h.trans (h.of_eq_fst he fe) f1
        have fr := hrec spec l2
        split
        · rename_i l3 e hr
          exact h.trans (h.of_eq_fst hr fr) f2
        · rename_i l3 jo hr
          have f3 := h.trans (h.of_eq_fst hr fr) f2
          split
          · exact f3
          · exact h.trans (h.out l3 _) f3
      · rename_i l2 he
        have f2 := h.trans (h.of_eq_fst he fe) f1
        have fp := h.render cid l2
        split
        · rename_i l3 e hp
          exact h.trans (h.of_eq_fst hp fp) f2
        · rename_i l3 o hp
          have f3 := h.trans (h.of_eq_fst hp fp) f2
          dsimp only
          split
          · split
            · exact h.trans (ih _ _ _ _ _) f3
            · exact h.trans (h.out l3 _) f3
          · exact h.trans (h.out l3 _) f3

theorem withScope_inv (h : NavInv S c Q) (scope : Env S.V) (body : Live S.V → NRes S (Output S.V))
    (hb : ∀ l, Q (body l).1 l) (l : Live S.V) : Q (withScope scope body l).1 l := by
  unfold withScope
  have := hb { l with scopes := scope :: l.scopes }
  generalize body { l with scopes := scope :: l.scopes } = res at this ⊢
  obtain ⟨l', r⟩ := res
  exact h.scope l l' scope this

theorem goto_inv (h : NavInv S c Q) : ∀ (fuel : Nat) (spec : String) (l : Live S.V),
    Q (goto c fuel spec l).1 l := by
  intro fuel
  induction fuel with
  | zero => intros; exact h.refl _
  | succ fuel ih =>
    intro spec l
    have hbody : ∀ pid l, Q (gotoBody c (goto c fuel) pid l).1 l := by
      intro pid l; unfold gotoBody
      have hl := gotoLoop_inv h _ ih (c.story.passages.length + 1) [] pid [] [] l
      unfold keepCurOnError
      split
      · rename_i l' e he
        rw [he] at hl
        exact h.trans (h.cur l' l.cur l.joinIdx) hl
      · exact hl
    unfold goto
    split
    · exact h.refl _
    · split
      · exact h.refl _
      · dsimp only
        split
        · exact hbody _ _
        · split
          · exact h.refl _
          · split
            · split <;> exact h.refl _
            · exact withScope_inv h _ _ (hbody _) _

/-- lifting a render-level invariant to passage level -/
theorem offerChoices_inv {R : RS S.V → RS S.V → Prop} (h : RenderInv S R) (cfg : RCfg S)
    (cur : Option String) (used : List String) (secOk : Choice → Bool) :
    ∀ (cs : List (Choice × Option String × Bool)) (rs : RS S.V),
      R (offerChoices cfg cur used secOk cs rs).1 rs := by
  have hct : ∀ (ch : Choice) (pre : Option String) (rs : RS S.V), R (renderChoiceText cfg ch pre rs).1 rs := by
    intro ch pre rs
    unfold renderChoiceText
    split
    · exact h.refl _
    · have := renderToks_inv h cfg ch.text rs
      split <;> rename_i hr <;> (rw [hr] at this; exact this)
  have hav : ∀ (ch : Choice) (pre : Option String) (rs : RS S.V), R (isAvail cfg cur used ch pre rs).1 rs := by
    intro ch pre rs
    unfold isAvail
    dsimp only
    split
    · have := hct ch pre rs
      split
      · rename_i rs1 e he; rw [he] at this; exact this
      · rename_i rs1 t he
        rw [he] at this
        split <;> exact this
    · exact h.refl _
  intro cs
  induction cs with
  | nil => intro rs; exact h.refl _
  | cons x rest ih =>
    obtain ⟨ch, pre, blk⟩ := x
    intro rs
    unfold offerChoices
    have h1 := hav ch pre rs
    split
    · rename_i rs1 e he; rw [he] at h1; exact h1
    · rename_i rs1 av he
      rw [he] at h1
      split
      · have h2 := hct ch pre rs1
        split
        · rename_i rs2 e he2; rw [he2] at h2; exact h.trans h2 h1
        · rename_i rs2 t he2
          rw [he2] at h2
          have h3 := ih rs2
          split
          · rename_i rs3 e he3; rw [he3] at h3; exact h.trans h3 (h.trans h2 h1)
          · rename_i rs3 os he3; rw [he3] at h3; exact h.trans h3 (h.trans h2 h1)
      · exact h.trans (ih rs1) h1

theorem execCommands_inv {R : RS S.V → RS S.V → Prop} (h : RenderInv S R) (cfg : RCfg S) :
    ∀ (cs : List Tok) (rs : RS S.V), R (execCommands cfg cs rs).1 rs := by
  intro cs
  induction cs with
  | nil => intro rs; exact h.refl _
  | cons t ts ih =>
    intro rs
    cases t with
    | stmt code =>
      simp only [execCommands]
      have := h.stmt cfg code rs
      split
      · rename_i rs1 _ he; rw [he] at this; exact h.trans (ih rs1) this
      · rename_i rs1 e he; rw [he] at this; exact this
    | pyblock code =>
      simp only [execCommands]
      have := h.block cfg code rs
      split
      · rename_i rs1 _ he; rw [he] at this; exact h.trans (ih rs1) this
      · rename_i rs1 e he; rw [he] at this; exact this
    | hook add ev tgt =>
      simp only [execCommands]
      exact h.trans (ih _) (h.hook cfg add ev tgt rs)
    | _ => simp only [execCommands]; exact ih rs

end Bardic
