import Proofs.C04
/-!
# The invariant `Eng.WF` holds in every reachable state
-/
namespace Bardic
variable {S : Sem}

theorem withHookText_outKept (l : Live S.V) (r : Output S.V) (h : String) :
    OutKept (withHookText l r h).1 l := by
  unfold withHookText
  split
  · exact fun _ => rfl
  · exact id

theorem renderFromJoinMarker_outKept (c : ECfg S) (idx : Nat) (l : Live S.V) :
    OutKept (renderFromJoinMarker c idx l).1 l := by
  unfold renderFromJoinMarker
  dsimp only
  repeat' split
  all_goals exact id

theorem joinChoice_outKept (c : ECfg S) (ch : OChoice) (l : Live S.V) :
    OutKept (joinChoice c ch l).1 l := by
  unfold joinChoice
  dsimp only
  split
  · exact id
  · rename_i rs1 b _
    have fj := renderFromJoinMarker_outKept c ((l.withRS rs1).joinSec (curStr l.cur)) (l.withRS rs1)
    split
    · rename_i l2 e hj
      exact (OutKept.of_eq_fst hj fj).trans id
    · rename_i l2 post hj
      split
      · rename_i l5 e ht
        exact fun _ => (OutKept.of_eq_fst ht (triggerEvent_outKept c _ _)) rfl
      · rename_i l5 h ht
        have h5 : l5.out.isSome := (OutKept.of_eq_fst ht (triggerEvent_outKept c _ _)) rfl
        exact fun _ => withHookText_outKept l5 _ h h5

theorem doChoose_live_outKept (c : ECfg S) (e : Eng S.V) (i : Int) :
    OutKept (e.doChoose c i).1.live e.live := by
  unfold Eng.doChoose
  split
  · exact id
  · split
    · exact id
    · dsimp only
      -- marking a one-time choice as used keeps the cache
      have hk : ∀ (b : Bool) (u : List String),
          OutKept (if b then ({ e.live with used := u } : Live S.V) else e.live) e.live := by
        intro b u; cases b <;> exact id
      split
      · split
        · rename_i l2 r hj
          exact (OutKept.of_eq_fst hj (joinChoice_outKept c _ _)).trans (hk _ _)
        · rename_i l2 ex hj
          exact (OutKept.of_eq_fst hj (joinChoice_outKept c _ _)).trans (hk _ _)
      · split
        · rename_i l2 ex hg
          exact (OutKept.of_eq_fst hg (goto_outKept c _ _ _)).trans (hk _ _)
        · rename_i l2 r hg
          have f2 := (OutKept.of_eq_fst hg (goto_outKept c _ _ _)).trans (hk _ _)
          split
          · exact f2
          · split
            · rename_i l3 ex ht
              exact (OutKept.of_eq_fst ht (triggerEvent_outKept c _ _)).trans f2
            · rename_i l3 h ht
              have f3 := (OutKept.of_eq_fst ht (triggerEvent_outKept c _ _)).trans f2
              exact (withHookText_outKept l3 r h).trans f3

theorem doChoose_WF (c : ECfg S) (e : Eng S.V) (i : Int) (hw : e.WF) : (e.doChoose c i).1.WF := by
  have hlive := doChoose_live_outKept c e i hw.live
  cases hout : e.live.out with
  | none => have := hw.live; simp [hout] at this
  | some cur =>
    by_cases hr : 0 ≤ i ∧ i < cur.choices.length
    · have hh := doChoose_history c e i cur hout hr.1 hr.2
      refine ⟨hlive, ?_, ?_, ?_⟩
      · intro s hs
        rw [hh.1] at hs
        rcases pushCap_mem _ _ _ hs with h | h
        · subst h; simpa [Snap.of] using hw.live
        · exact hw.undo s h
      · intro s hs; rw [hh.2] at hs; simp at hs
      · rw [hh.1]; exact pushCap_length_le _ _
    · have hbad : i < 0 ∨ (cur.choices.length : Int) ≤ i := by omega
      obtain ⟨msg, hm⟩ := choose_out_of_range_noop c e i cur hout hbad
      rw [hm]; exact hw

theorem restore_outSome (c : ECfg S) (s : Snap S.V) (l : Live S.V) (hs : s.out.isSome) :
    (restore c s l).1.out.isSome := by
  obtain ⟨cur, vars, used, hooks, joinIdx, out⟩ := s
  cases out with
  | none => simp at hs
  | some o => simp [restore]

theorem doUndo_WF (c : ECfg S) (e : Eng S.V) (hw : e.WF) : (e.doUndo c).1.WF := by
  unfold Eng.doUndo
  split
  · exact hw
  · rename_i prev rest hu
    have hp : prev.out.isSome := hw.undo prev (by simp [hu])
    have hro := restore_outSome c prev e.live hp
    have hl : (Snap.of e.live).out.isSome := by simpa [Snap.of] using hw.live
    have hlen : rest.length ≤ undoCap := by have := hw.cap; simp [hu] at this; omega
    dsimp only
    split
    all_goals (rename_i l _ hres; rw [hres] at hro)
    all_goals refine ⟨hro, fun s hs => hw.undo s (by simp [hu, hs]), ?_, hlen⟩
    all_goals (intro s hs; simp at hs; rcases hs with h | h; · subst h; exact hl
               · exact hw.redo s h)

theorem doRedo_WF (c : ECfg S) (e : Eng S.V) (hw : e.WF) : (e.doRedo c).1.WF := by
  unfold Eng.doRedo
  split
  · exact hw
  · rename_i nxt rest hu
    have hp : nxt.out.isSome := hw.redo nxt (by simp [hu])
    have hro := restore_outSome c nxt e.live hp
    have hl : (Snap.of e.live).out.isSome := by simpa [Snap.of] using hw.live
    dsimp only
    split
    all_goals (rename_i l _ hres; rw [hres] at hro)
    all_goals refine ⟨hro, ?_, fun s hs => hw.redo s (by simp [hu, hs]), pushCap_length_le _ _⟩
    all_goals (intro s hs; rcases pushCap_mem _ _ _ hs with h | h; · subst h; exact hl
               · exact hw.undo s h)

theorem doLoad_WF (c : ECfg S) (a : LoadArg S.V) (e : Eng S.V) (hw : e.WF) : (e.doLoad c a).1.WF := by
  unfold Eng.doLoad
  split
  · exact hw
  · exact hw
  · dsimp only
    split
    · exact hw
    · cases hvar : c.variant <;> simp only [hvar] <;>
      (split <;> rename_i l2 _ hg <;>
        exact ⟨(OutKept.of_eq_fst hg (goto_outKept c _ _ _)) hw.live, by simp, by simp, by simp [undoCap]⟩)

/-- one API call preserves the invariant -/
theorem step_WF (c : ECfg S) (e : Eng S.V) (op : Op S.V) (hw : e.WF) : (step c e op).1.WF := by
  cases op with
  | choose i => exact doChoose_WF c e i hw
  | undo => exact doUndo_WF c e hw
  | redo => exact doRedo_WF c e hw
  | goto spec =>
    simp only [step]
    have := goto_outKept c c.fuel spec e.live
    split <;> rename_i l _ hg <;> rw [hg] at this <;>
      exact ⟨this hw.live, hw.undo, hw.redo, hw.cap⟩
  | load a => exact doLoad_WF c a e hw
  | resetOneTime => exact ⟨hw.live, hw.undo, hw.redo, hw.cap⟩
  | save => exact hw
  | current => exact hw
  | hasChoices => exact hw
  | isEnd => exact hw
  | choiceTexts => exact hw
  | choiceTargets => exact hw
  | storyInfo => exact hw
  | saveMeta => exact hw
  | canUndo => exact hw
  | canRedo => exact hw

/-- a freshly constructed engine satisfies the invariant -/
theorem init_WF (c : ECfg S) (e : Eng S.V) (h : Eng.init c = .ok e) : e.WF := by
  unfold Eng.init at h
  split at h
  · cases h
  · split at h
    · cases h
    · split at h
      · rename_i l o hg
        cases h
        have := goto_cached c c.fuel c.story.initial (initLive c) o (by rw [hg])
        rw [hg] at this
        simp only at this
        exact ⟨by simp [this], by simp, by simp, by simp [undoCap]⟩
      · cases h

/-- **every reachable state** satisfies the invariant -/
theorem run_WF (c : ECfg S) : ∀ (ops : List (Op S.V)) (e : Eng S.V), e.WF → (run c e ops).1.WF := by
  intro ops
  induction ops with
  | nil => intro e hw; exact hw
  | cons op ops ih =>
    intro e hw
    simp only [run]
    exact ih _ (step_WF c e op hw)

/-- at most `undoCap` (= 50) choices can be undone, in every reachable state -/
theorem undo_depth_le_cap (c : ECfg S) (e0 : Eng S.V) (h0 : Eng.init c = .ok e0) (ops : List (Op S.V)) :
    (run c e0 ops).1.undo.length ≤ 50 :=
  (run_WF c ops e0 (init_WF c e0 h0)).cap

end Bardic
