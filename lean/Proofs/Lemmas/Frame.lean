import Bardic.Engine.Api
/-!
# Frame lemmas: what navigation never touches

`renderPassage`, `executePassage`, `runHooks`, `goto` … change only `vars`, `hooks`, `log`, `cur`,
`joinIdx`, `out` — never `used`, and the scope stack is restored.
-/
namespace Bardic
variable {S : Sem}

@[simp] theorem Live.withRS_scopes (l : Live S.V) (r : RS S.V) : (l.withRS r).scopes = l.scopes := rfl
@[simp] theorem Live.withRS_used (l : Live S.V) (r : RS S.V) : (l.withRS r).used = l.used := rfl
@[simp] theorem Live.withRS_cur (l : Live S.V) (r : RS S.V) : (l.withRS r).cur = l.cur := rfl
@[simp] theorem Live.withRS_joinIdx (l : Live S.V) (r : RS S.V) : (l.withRS r).joinIdx = l.joinIdx := rfl
@[simp] theorem Live.withRS_out (l : Live S.V) (r : RS S.V) : (l.withRS r).out = l.out := rfl

section keepCur
variable {α : Type}
@[simp] theorem keepCurOnError_snd (l0 : Live S.V) (r : NRes S α) : (keepCurOnError l0 r).2 = r.2 := by
  unfold keepCurOnError; split <;> simp_all
@[simp] theorem keepCurOnError_scopes (l0 : Live S.V) (r : NRes S α) : (keepCurOnError l0 r).1.scopes = r.1.scopes := by
  unfold keepCurOnError; split <;> simp_all
@[simp] theorem keepCurOnError_used (l0 : Live S.V) (r : NRes S α) : (keepCurOnError l0 r).1.used = r.1.used := by
  unfold keepCurOnError; split <;> simp_all
@[simp] theorem keepCurOnError_vars (l0 : Live S.V) (r : NRes S α) : (keepCurOnError l0 r).1.vars = r.1.vars := by
  unfold keepCurOnError; split <;> simp_all
@[simp] theorem keepCurOnError_hooks (l0 : Live S.V) (r : NRes S α) : (keepCurOnError l0 r).1.hooks = r.1.hooks := by
  unfold keepCurOnError; split <;> simp_all
@[simp] theorem keepCurOnError_log (l0 : Live S.V) (r : NRes S α) : (keepCurOnError l0 r).1.log = r.1.log := by
  unfold keepCurOnError; split <;> simp_all
/-- after a failed navigation the `@join` progress is what it was before -/
theorem keepCurOnError_joinIdx_error (l0 : Live S.V) (r : NRes S α) (e : Exc) (h : r.2 = .error e) :
    (keepCurOnError l0 r).1.joinIdx = l0.joinIdx := by
  unfold keepCurOnError; split
  · rfl
  · rename_i hne; obtain ⟨l', x⟩ := r; simp only at h; subst h; exact absurd rfl (hne l' e)
@[simp] theorem keepCurOnError_out (l0 : Live S.V) (r : NRes S α) : (keepCurOnError l0 r).1.out = r.1.out := by
  unfold keepCurOnError; split <;> simp_all
theorem keepCurOnError_fst_of_ok (l0 : Live S.V) (r : NRes S α) (o : α) (h : r.2 = .ok o) :
    (keepCurOnError l0 r).1 = r.1 := by
  obtain ⟨l', x⟩ := r
  simp only at h
  subst h
  rfl
theorem keepCurOnError_ok (l0 : Live S.V) (r : NRes S α) (l' : Live S.V) (o : α) (h : r = (l', .ok o)) :
    keepCurOnError l0 r = (l', .ok o) := by subst h; rfl
theorem keepCurOnError_of_ok (l0 : Live S.V) (r : NRes S α) (l' : Live S.V) (o : α) (h : keepCurOnError l0 r = (l', .ok o)) :
    r = (l', .ok o) := by
  unfold keepCurOnError at h; split at h
  · cases h
  · exact h
end keepCur

/-- the fields navigation is not allowed to touch -/
structure SameFrame (a b : Live S.V) : Prop where
  scopes : a.scopes = b.scopes
  used : a.used = b.used

theorem SameFrame.refl (a : Live S.V) : SameFrame a a := ⟨rfl, rfl⟩
theorem SameFrame.trans {a b c : Live S.V} (h1 : SameFrame a b) (h2 : SameFrame b c) : SameFrame a c :=
  ⟨h1.scopes.trans h2.scopes, h1.used.trans h2.used⟩

theorem renderPassage_frame (c : ECfg S) (pid : String) (l : Live S.V) :
    SameFrame (renderPassage c pid l).1 l := by
  unfold renderPassage
  dsimp only
  repeat' split
  all_goals exact ⟨rfl, rfl⟩

theorem executePassage_frame (c : ECfg S) (pid : String) (l : Live S.V) :
    SameFrame (executePassage c pid l).1 l := by
  unfold executePassage
  dsimp only
  repeat' split
  all_goals exact ⟨rfl, rfl⟩

end Bardic

namespace Bardic
variable {S : Sem}

theorem SameFrame.of_eq_fst {α} {f : Live S.V × α} {l' l : Live S.V} {r : α}
    (h : f = (l', r)) (hf : SameFrame f.1 l) : SameFrame l' l := by
  subst h; exact hf

theorem markEntered_frame (c : ECfg S) (cid : String) (l : Live S.V) :
    SameFrame (markEntered c cid l) l := by
  unfold markEntered; cases c.variant <;> exact ⟨rfl, rfl⟩

theorem gotoLoop_frame (c : ECfg S) (recur : String → Live S.V → NRes S (Output S.V))
    (hrec : ∀ spec l, SameFrame (recur spec l).1 l) :
    ∀ (n : Nat) (visited : List String) (cid : String) (accC : List String) (accD : List (Dir S.V))
      (l : Live S.V), SameFrame (gotoLoop c recur n visited cid accC accD l).1 l := by
  intro n
  induction n with
  | zero => intros; exact .refl _
  | succ n ih =>
    intro visited cid accC accD l
    unfold gotoLoop
    split
    · exact .refl _
    · have f1 := markEntered_frame c cid l
      have fe := executePassage_frame c cid (markEntered c cid l)
      split
      · rename_i l2 e he
        exact (SameFrame.of_eq_fst he fe).trans f1
      · rename_i l2 spec he
        have f2 := (SameFrame.of_eq_fst he fe).trans f1
        have fr := hrec spec l2
        split
        · rename_i l3 e hr
          exact (SameFrame.of_eq_fst hr fr).trans f2
        · rename_i l3 jo hr
          have f3 := (SameFrame.of_eq_fst hr fr).trans f2
          split
          · exact f3
          · exact ⟨f3.scopes, f3.used⟩
      · rename_i l2 he
        have f2 := (SameFrame.of_eq_fst he fe).trans f1
        have fp := renderPassage_frame c cid l2
        split
        · rename_i l3 e hp
          exact (SameFrame.of_eq_fst hp fp).trans f2
        · rename_i l3 o hp
          have f3 := (SameFrame.of_eq_fst hp fp).trans f2
          dsimp only
          split
          · split
            · exact (ih _ _ _ _ _).trans f3
            · exact ⟨f3.scopes, f3.used⟩
          · exact ⟨f3.scopes, f3.used⟩

theorem withScope_frame (scope : Env S.V) (body : Live S.V → NRes S (Output S.V))
    (hb : ∀ l, SameFrame (body l).1 l) (l : Live S.V) : SameFrame (withScope scope body l).1 l := by
  unfold withScope
  have := hb { l with scopes := scope :: l.scopes }
  generalize body { l with scopes := scope :: l.scopes } = res at this ⊢
  obtain ⟨l', r⟩ := res
  have hs : l'.scopes = scope :: l.scopes := this.scopes
  exact ⟨by simp [hs], this.used⟩

/-- `goto` restores the scope stack and never touches the used one-time choices -/
theorem goto_frame (c : ECfg S) : ∀ (fuel : Nat) (spec : String) (l : Live S.V),
    SameFrame (goto c fuel spec l).1 l := by
  intro fuel
  induction fuel with
  | zero => intros; exact .refl _
  | succ fuel ih =>
    intro spec l
    have hbody : ∀ pid l, SameFrame (gotoBody c (goto c fuel) pid l).1 l := by
      intro pid l; unfold gotoBody
      have := gotoLoop_frame c _ ih (c.story.passages.length + 1) [] pid [] [] l
      exact ⟨by simpa using this.scopes, by simpa using this.used⟩
    unfold goto
    split
    · exact .refl _
    · split
      · exact .refl _
      · dsimp only
        split
        · exact hbody _ _
        · split
          · exact .refl _
          · split
            · split <;> exact .refl _
            · exact withScope_frame _ _ (hbody _) _

end Bardic
