import Proofs.Lemmas.Frame
/-!
# The cache: a successful navigation leaves its own result in `out`
-/
namespace Bardic
variable {S : Sem}

/-- a successful result is what the cache holds afterwards -/
def OutCached (res : NRes S (Output S.V)) : Prop := ∀ o, res.2 = .ok o → res.1.out = some o

theorem gotoLoop_cached (c : ECfg S) (recur : String → Live S.V → NRes S (Output S.V))
    (hrec : ∀ spec l, OutCached (recur spec l)) :
    ∀ (n : Nat) (visited : List String) (cid : String) (accC : List String) (accD : List (Dir S.V))
      (l : Live S.V), OutCached (gotoLoop c recur n visited cid accC accD l) := by
  intro n
  induction n with
  | zero => intro _ _ _ _ _ o h; simp [gotoLoop] at h
  | succ n ih =>
    intro visited cid accC accD l
    unfold gotoLoop
    split
    · intro o h; simp at h
    · split
      · intro o h; simp at h
      · rename_i l2 spec he
        have hr := hrec spec l2
        split
        · intro o h; simp at h
        · rename_i l3 jo hrr
          split
          · intro o h
            simp only [Except.ok.injEq] at h
            subst h
            have := hr jo (by rw [hrr])
            rw [hrr] at this
            exact this
          · intro o h
            simp only [Except.ok.injEq] at h
            subst h
            rfl
      · split
        · intro o h; simp at h
        · dsimp only
          split
          · split
            · exact ih _ _ _ _ _
            · intro o h
              simp only [Except.ok.injEq] at h
              subst h; rfl
          · intro o h
            simp only [Except.ok.injEq] at h
            subst h; rfl

theorem withScope_cached (scope : Env S.V) (body : Live S.V → NRes S (Output S.V))
    (hb : ∀ l, OutCached (body l)) (l : Live S.V) : OutCached (withScope scope body l) := by
  unfold withScope
  have := hb { l with scopes := scope :: l.scopes }
  generalize body { l with scopes := scope :: l.scopes } = res at this ⊢
  obtain ⟨l', r⟩ := res
  intro o h
  exact this o h

/-- C03: after a successful `goto` the cache holds exactly the returned result -/
theorem goto_cached (c : ECfg S) : ∀ (fuel : Nat) (spec : String) (l : Live S.V),
    OutCached (goto c fuel spec l) := by
  intro fuel
  induction fuel with
  | zero => intro _ _ o h; simp [goto] at h
  | succ fuel ih =>
    intro spec l
    have hbody : ∀ pid l, OutCached (gotoBody c (goto c fuel) pid l) := by
      intro pid l; unfold gotoBody
      have hl := gotoLoop_cached c _ ih (c.story.passages.length + 1) [] pid [] [] l
      intro o ho
      rw [keepCurOnError_snd] at ho
      rw [keepCurOnError_out]
      exact hl o ho
    unfold goto
    split
    · intro o h; simp at h
    · split
      · intro o h; simp at h
      · dsimp only
        split
        · exact hbody _ _
        · split
          · intro o h; simp at h
          · split
            · split <;> (intro o h; simp at h)
            · exact withScope_cached _ _ (hbody _) _

end Bardic
