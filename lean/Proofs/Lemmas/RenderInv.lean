import Bardic.Engine.Api
/-!
# A generic invariant principle for rendering

Any reflexive-transitive relation between render states that is respected by the four primitive
effects of rendering (a `~` statement, a `@py` block, a hook command, an assignment to variables by
`@for`) is respected by `_render_content` on every token tree — by mutual structural induction.
-/
namespace Bardic
variable {S : Sem}

structure RenderInv (S : Sem) (R : RS S.V → RS S.V → Prop) : Prop where
  refl : ∀ rs, R rs rs
  trans : ∀ {a b c}, R a b → R b c → R a c
  stmt : ∀ cfg code rs, R (execStmt S cfg code rs).1 rs
  block : ∀ cfg code rs, R (execBlock S cfg code rs).1 rs
  hook : ∀ cfg add ev tgt rs, R (execHook S cfg add ev tgt rs) rs
  vars : ∀ (rs : RS S.V) (v : Env S.V), R { rs with vars := v } rs

variable {R : RS S.V → RS S.V → Prop}

theorem loopItems_inv (h : RenderInv S R) (lv : String)
    (body : RS S.V → RRes S (ROut S.V)) (chs : RS S.V → RRes S (List (Dir S.V)))
    (hb : ∀ rs, R (body rs).1 rs) (hc : ∀ rs, R (chs rs).1 rs) :
    ∀ (items : List S.V) (rs : RS S.V), R (loopItems S lv body chs items rs).1 rs := by
  intro items
  induction items with
  | nil => intro rs; exact h.refl _
  | cons item items ih =>
    intro rs
    unfold loopItems
    dsimp only
    generalize hla : loopAssign S lv item rs.vars = la
    obtain ⟨vars1, origs⟩ := la
    dsimp only
    have h0 : R ({ rs with vars := vars1 } : RS S.V) rs := h.vars rs vars1
    have hb1 := hb { rs with vars := vars1 }
    split
    · rename_i rs2 e he
      rw [he] at hb1
      exact h.trans (h.vars _ _) (h.trans hb1 h0)
    · rename_i rs2 r he
      rw [he] at hb1
      have h2 := h.trans hb1 h0
      have hc1 := hc rs2
      split
      · rename_i rs3 e hce
        rw [hce] at hc1
        exact h.trans (h.vars _ _) (h.trans hc1 h2)
      · rename_i rs3 cds hce
        rw [hce] at hc1
        have h3 := h.trans hc1 h2
        have h4 : R ({ rs3 with vars := loopRestore S origs rs3.vars } : RS S.V) rs := h.trans (h.vars _ _) h3
        split
        · exact h4
        · have := ih { rs3 with vars := loopRestore S origs rs3.vars }
          split
          · rename_i rs5 e hl; rw [hl] at this; exact h.trans this h4
          · rename_i rs5 r' hl; rw [hl] at this; exact h.trans this h4

theorem loopFail_inv (h : RenderInv S R) (cfg : RCfg S) (rs : RS S.V) (msg : String) :
    R (loopFail S cfg rs msg).1 rs := by
  unfold loopFail; cases cfg.variant <;> exact h.refl _

mutual
theorem renderTok_inv (h : RenderInv S R) (cfg : RCfg S) :
    ∀ (t : Tok) (rs : RS S.V), R (renderTok S cfg t rs).1 rs
  | .text _ _, rs => by simp only [renderTok]; exact h.refl _
  | .expr _, rs => by simp only [renderTok]; exact h.refl _
  | .inlineCond c t f, rs => by
      simp only [renderTok]
      split
      · exact h.refl _
      · split
        · have := renderToks_inv h cfg t rs
          split <;> rename_i hr <;> (rw [hr] at this; exact this)
        · have := renderToks_inv h cfg f rs
          split <;> rename_i hr <;> (rw [hr] at this; exact this)
  | .render _ _ _, rs => by simp only [renderTok]; exact h.refl _
  | .input _, rs => by simp only [renderTok]; exact h.refl _
  | .stmt code, rs => by
      simp only [renderTok]
      have := h.stmt cfg code rs
      split <;> rename_i hr <;> (rw [hr] at this; exact this)
  | .pyblock code, rs => by
      simp only [renderTok]
      have := h.block cfg code rs
      split <;> rename_i hr <;> (rw [hr] at this; exact this)
  | .hook add ev tgt, rs => by simp only [renderTok]; exact h.hook cfg add ev tgt rs
  | .cond bs, rs => by simp only [renderTok]; exact renderBranches_inv h cfg bs rs
  | .loop lv coll body choices, rs => by
      simp only [renderTok]
      split
      · exact h.refl _
      · split
        · exact loopFail_inv h cfg rs _
        · rename_i items _
          have := loopItems_inv h lv (fun r => renderToks S cfg body r) (fun r => renderChoiceTexts S cfg choices r)
            (fun r => renderToks_inv h cfg body r) (fun r => renderChoiceTexts_inv h cfg choices r) items rs
          split
          · rename_i rs' r hl; rw [hl] at this; exact this
          · rename_i rs' e hl
            rw [hl] at this
            exact h.trans (loopFail_inv h cfg rs' _) this
  | .jump _ _, rs => by simp only [renderTok]; exact h.refl _
  | .joinMarker, rs => by simp only [renderTok]; exact h.refl _
  | .other _, rs => by simp only [renderTok]; exact h.refl _

theorem renderToks_inv (h : RenderInv S R) (cfg : RCfg S) :
    ∀ (ts : List Tok) (rs : RS S.V), R (renderToks S cfg ts rs).1 rs
  | [], rs => by simp only [renderToks]; exact h.refl _
  | t :: ts, rs => by
      simp only [renderToks]
      split
      · exact h.refl _
      · have h1 := renderTok_inv h cfg t rs
        split
        · rename_i rs1 e he; rw [he] at h1; exact h1
        · rename_i rs1 r1 he
          rw [he] at h1
          split
          · exact h1
          · have h2 := renderToks_inv h cfg ts rs1
            split
            · rename_i rs2 e he2; rw [he2] at h2; exact h.trans h2 h1
            · rename_i rs2 r2 he2; rw [he2] at h2; exact h.trans h2 h1

theorem renderBranches_inv (h : RenderInv S R) (cfg : RCfg S) :
    ∀ (bs : List Branch) (rs : RS S.V), R (renderBranches S cfg bs rs).1 rs
  | [], rs => by simp only [renderBranches]; exact h.refl _
  | .mk c body chs :: bs, rs => by
      simp only [renderBranches]
      split
      · exact renderBranches_inv h cfg bs rs
      · split
        · have := renderToks_inv h cfg body rs
          split <;> rename_i hr <;> (rw [hr] at this; exact this)
        · exact renderBranches_inv h cfg bs rs

theorem renderChoiceTexts_inv (h : RenderInv S R) (cfg : RCfg S) :
    ∀ (cs : List Choice) (rs : RS S.V), R (renderChoiceTexts S cfg cs rs).1 rs
  | [], rs => by simp only [renderChoiceTexts]; exact h.refl _
  | .mk text tgt args cnd sticky sec tags block :: cs, rs => by
      simp only [renderChoiceTexts]
      have h1 := renderToks_inv h cfg text rs
      split
      · rename_i rs1 e he; rw [he] at h1; exact h1
      · rename_i rs1 r he
        rw [he] at h1
        have h2 := renderChoiceTexts_inv h cfg cs rs1
        split
        · rename_i rs2 e he2; rw [he2] at h2; exact h.trans h2 h1
        · rename_i rs2 ds he2; rw [he2] at h2; exact h.trans h2 h1
end

end Bardic
