import Proofs.Lemmas.Cache
/-!
# Navigation never empties the cache
-/
namespace Bardic
variable {S : Sem}

/-- `a` was reached from `b` without losing the cached output -/
def OutKept (a b : Live S.V) : Prop := b.out.isSome → a.out.isSome

theorem OutKept.refl (a : Live S.V) : OutKept a a := id
theorem OutKept.trans {a b c : Live S.V} (h1 : OutKept a b) (h2 : OutKept b c) : OutKept a c :=
  fun h => h1 (h2 h)
theorem OutKept.of_eq_fst {α} {f : Live S.V × α} {l' l : Live S.V} {r : α}
    (h : f = (l', r)) (hf : OutKept f.1 l) : OutKept l' l := by subst h; exact hf
theorem OutKept.of_some (a b : Live S.V) (o : Output S.V) (h : a.out = some o) : OutKept a b :=
  fun _ => by simp [h]

theorem renderPassage_outKept (c : ECfg S) (pid : String) (l : Live S.V) :
    OutKept (renderPassage c pid l).1 l := by
  unfold renderPassage
  dsimp only
  repeat' split
  all_goals exact id

theorem executePassage_outKept (c : ECfg S) (pid : String) (l : Live S.V) :
    OutKept (executePassage c pid l).1 l := by
  unfold executePassage
  dsimp only
  repeat' split
  all_goals exact id

theorem markEntered_outKept (c : ECfg S) (cid : String) (l : Live S.V) :
    OutKept (markEntered c cid l) l := by
  unfold markEntered; cases c.variant <;> exact id

theorem gotoLoop_outKept (c : ECfg S) (recur : String → Live S.V → NRes S (Output S.V))
    (hrec : ∀ spec l, OutKept (recur spec l).1 l) :
    ∀ (n : Nat) (visited : List String) (cid : String) (accC : List String) (accD : List (Dir S.V))
      (l : Live S.V), OutKept (gotoLoop c recur n visited cid accC accD l).1 l := by
  intro n
  induction n with
  | zero => intros; exact .refl _
  | succ n ih =>
    intro visited cid accC accD l
    unfold gotoLoop
    split
    · exact .refl _
    · have f1 := markEntered_outKept c cid l
      have fe := executePassage_outKept c cid (markEntered c cid l)
      split
      · rename_i l2 e he
        exact (OutKept.of_eq_fst he fe).trans f1
      · rename_i l2 spec he
        have f2 := (OutKept.of_eq_fst he fe).trans f1
        have fr := hrec spec l2
        split
        · rename_i l3 e hr
          exact (OutKept.of_eq_fst hr fr).trans f2
        · rename_i l3 jo hr
          have f3 := (OutKept.of_eq_fst hr fr).trans f2
          split
          · exact f3
          · exact fun _ => rfl
      · rename_i l2 he
        have f2 := (OutKept.of_eq_fst he fe).trans f1
        have fp := renderPassage_outKept c cid l2
        split
        · rename_i l3 e hp
          exact (OutKept.of_eq_fst hp fp).trans f2
        · rename_i l3 o hp
          have f3 := (OutKept.of_eq_fst hp fp).trans f2
          dsimp only
          split
          · split
            · exact (ih _ _ _ _ _).trans f3
            · exact fun _ => rfl
          · exact fun _ => rfl

theorem withScope_outKept (scope : Env S.V) (body : Live S.V → NRes S (Output S.V))
    (hb : ∀ l, OutKept (body l).1 l) (l : Live S.V) : OutKept (withScope scope body l).1 l := by
  unfold withScope
  have := hb { l with scopes := scope :: l.scopes }
  generalize body { l with scopes := scope :: l.scopes } = res at this ⊢
  obtain ⟨l', r⟩ := res
  exact this

theorem goto_outKept (c : ECfg S) : ∀ (fuel : Nat) (spec : String) (l : Live S.V),
    OutKept (goto c fuel spec l).1 l := by
  intro fuel
  induction fuel with
  | zero => intros; exact .refl _
  | succ fuel ih =>
    intro spec l
    have hbody : ∀ pid l, OutKept (gotoBody c (goto c fuel) pid l).1 l := by
      intro pid l; unfold gotoBody
      have hl := gotoLoop_outKept c _ ih (c.story.passages.length + 1) [] pid [] [] l
      unfold OutKept at hl ⊢
      rw [keepCurOnError_out]
      exact hl
    unfold goto
    split
    · exact .refl _
    · split
      · exact .refl _
      · dsimp only
        split
        · exact hbody _ _
        · split
          · exact .refl _
          · split
            · split <;> exact .refl _
            · exact withScope_outKept _ _ (hbody _) _

theorem runHooks_outKept (c : ECfg S) : ∀ (ps acc : List String) (l : Live S.V),
    OutKept (runHooks c ps acc l).1 l := by
  intro ps
  induction ps with
  | nil => intros; exact .refl _
  | cons p ps ih =>
    intro acc l
    unfold runHooks
    split
    · exact ih _ _
    · have fe := executePassage_outKept c p { l with log := Ev.hookRun p :: l.log }
      have f0 : OutKept ({ l with log := Ev.hookRun p :: l.log } : Live S.V) l := id
      split
      · rename_i l1 e he
        exact (OutKept.of_eq_fst he fe).trans f0
      · rename_i l1 _ he
        have f1 := (OutKept.of_eq_fst he fe).trans f0
        have fp := renderPassage_outKept c p l1
        split
        · rename_i l2 e hp
          exact (OutKept.of_eq_fst hp fp).trans f1
        · rename_i l2 o hp
          exact (ih _ _).trans ((OutKept.of_eq_fst hp fp).trans f1)

theorem triggerEvent_outKept (c : ECfg S) (ev : String) (l : Live S.V) :
    OutKept (triggerEvent c ev l).1 l := by
  unfold triggerEvent
  split
  · exact .refl _
  · exact runHooks_outKept c _ _ _

end Bardic
