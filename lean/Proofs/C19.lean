import Proofs.C18
/-!
# C19 — the browser copy of the engine renders like the main engine on the common feature subset

`Common`: no hook tokens, no join markers (the features the browser bundle lacks), and inline
conditional branches hold only text / expressions (what the compiler produces).
-/
namespace Bardic
variable {S : Sem}

mutual
def Tok.common : Tok → Bool
  | .hook _ _ _ => false
  | .joinMarker => false
  | .inlineCond _ t f => toksPlain t && toksPlain f
  | .cond bs => branchesCommon bs
  | .loop _ _ body chs => toksCommon body && choicesCommon chs
  | _ => true
def toksCommon : List Tok → Bool
  | [] => true
  | t :: ts => t.common && toksCommon ts
def branchesCommon : List Branch → Bool
  | [] => true
  | .mk _ body chs :: bs => toksCommon body && choicesCommon chs && branchesCommon bs
def choicesCommon : List Choice → Bool
  | [] => true
  | .mk text _ _ _ _ _ _ _ :: cs => toksPlain text && choicesCommon cs
/-- only text, display expressions and (nested) inline conditionals -/
def Tok.plain : Tok → Bool
  | .text _ _ => true
  | .expr _ => true
  | .inlineCond _ t f => toksPlain t && toksPlain f
  | _ => false
def toksPlain : List Tok → Bool
  | [] => true
  | t :: ts => t.plain && toksPlain ts
end

def cfgOf (v : Variant) (cx : Env S.V) (scope : Option (Env S.V)) : RCfg S := ⟨v, cx, scope⟩

mutual
/-- plain token lists render identically in both engines (they never fail, never touch state) -/
theorem renderTok_plain_eq (cx : Env S.V) (scope : Option (Env S.V)) : ∀ (t : Tok) (rs : RS S.V),
    t.plain = true → renderTok S (cfgOf .browser cx scope) t rs = renderTok S (cfgOf .main cx scope) t rs
  | .text _ _, rs, _ => by simp [renderTok]
  | .expr _, rs, _ => by simp [renderTok, rctx, cfgOf]
  | .inlineCond c t f, rs, h => by
      simp only [Tok.plain, Bool.and_eq_true] at h
      simp only [renderTok, rctx, cfgOf]
      have h1 := renderToks_plain_eq cx scope t rs h.1
      have h2 := renderToks_plain_eq cx scope f rs h.2
      simp only [cfgOf] at h1 h2
      rw [h1, h2]
  | .render _ _ _, _, h => by simp [Tok.plain] at h
  | .input _, _, h => by simp [Tok.plain] at h
  | .stmt _, _, h => by simp [Tok.plain] at h
  | .pyblock _, _, h => by simp [Tok.plain] at h
  | .hook _ _ _, _, h => by simp [Tok.plain] at h
  | .cond _, _, h => by simp [Tok.plain] at h
  | .loop _ _ _ _, _, h => by simp [Tok.plain] at h
  | .jump _ _, _, h => by simp [Tok.plain] at h
  | .joinMarker, _, h => by simp [Tok.plain] at h
  | .other _, _, h => by simp [Tok.plain] at h
theorem renderToks_plain_eq (cx : Env S.V) (scope : Option (Env S.V)) : ∀ (ts : List Tok) (rs : RS S.V),
    toksPlain ts = true → renderToks S (cfgOf .browser cx scope) ts rs = renderToks S (cfgOf .main cx scope) ts rs
  | [], rs, _ => by simp [renderToks]
  | t :: ts, rs, h => by
      simp only [toksPlain, Bool.and_eq_true] at h
      have hnm : t.isJoinMarker = false := by cases t <;> simp [Tok.plain, Tok.isJoinMarker] at h ⊢
      simp only [renderToks, hnm, Bool.false_and, Bool.false_eq_true, if_false]
      rw [renderTok_plain_eq cx scope t rs h.1]
      generalize renderTok S (cfgOf .main cx scope) t rs = r1
      obtain ⟨rs1, r1⟩ := r1
      cases r1 with
      | error e => rfl
      | ok r1 =>
        simp only
        split
        · rfl
        · rw [renderToks_plain_eq cx scope ts rs1 h.2]
end

/-- result of a main-engine render that succeeded is also what the browser copy computes -/
def MainOkImpliesSame {α} (b m : RRes S α) : Prop := ∀ rs' r, m = (rs', .ok r) → b = (rs', .ok r)

theorem loopItems_common (lv : String) (bodyB bodyM : RS S.V → RRes S (ROut S.V))
    (chsB chsM : RS S.V → RRes S (List (Dir S.V)))
    (hb : ∀ rs, MainOkImpliesSame (bodyB rs) (bodyM rs)) (hc : ∀ rs, MainOkImpliesSame (chsB rs) (chsM rs)) :
    ∀ (items : List S.V) (rs : RS S.V),
      MainOkImpliesSame (loopItems S lv bodyB chsB items rs) (loopItems S lv bodyM chsM items rs) := by
  intro items
  induction items with
  | nil => intro rs rs' r h; simpa [loopItems] using h
  | cons item items ih =>
    intro rs rs' r h
    unfold loopItems at h ⊢
    dsimp only at h ⊢
    generalize loopAssign S lv item rs.vars = la at h ⊢
    obtain ⟨vars1, origs⟩ := la
    dsimp only at h ⊢
    cases hbm : bodyM { rs with vars := vars1 } with
    | mk rs2 rb =>
      rw [hbm] at h
      cases rb with
      | error e => simp at h
      | ok rb =>
        rw [hb _ rs2 rb hbm]
        simp only at h ⊢
        cases hcm : chsM rs2 with
        | mk rs3 rc =>
          rw [hcm] at h
          cases rc with
          | error e => simp at h
          | ok cds =>
            rw [hc _ rs3 cds hcm]
            simp only at h ⊢
            split at h
            · rename_i hj; simp only [hj, if_true]; exact h
            · rename_i hj
              simp only [hj, Bool.false_eq_true, if_false]
              cases hlm : loopItems S lv bodyM chsM items { rs3 with vars := loopRestore S origs rs3.vars } with
              | mk rs5 rl =>
                rw [hlm] at h
                cases rl with
                | error e => simp at h
                | ok r' =>
                  rw [ih _ rs5 r' hlm]
                  exact h

mutual
theorem renderTok_common (cx : Env S.V) (scope : Option (Env S.V)) : ∀ (t : Tok) (rs : RS S.V),
    t.common = true →
    MainOkImpliesSame (renderTok S (cfgOf .browser cx scope) t rs) (renderTok S (cfgOf .main cx scope) t rs)
  | .text _ _, rs, _ => by intro rs' r h; simpa [renderTok] using h
  | .expr _, rs, _ => by intro rs' r h; simpa [renderTok, rctx, cfgOf] using h
  | .inlineCond c t f, rs, hc => by
      intro rs' r h
      simp only [Tok.common, Bool.and_eq_true] at hc
      have : renderTok S (cfgOf .browser cx scope) (.inlineCond c t f) rs = renderTok S (cfgOf .main cx scope) (.inlineCond c t f) rs :=
        renderTok_plain_eq cx scope (.inlineCond c t f) rs (by simp [Tok.plain, hc.1, hc.2])
      rw [this]; exact h
  | .render _ _ _, rs, _ => by intro rs' r h; simpa [renderTok, rctx, cfgOf] using h
  | .input _, rs, _ => by intro rs' r h; simpa [renderTok] using h
  | .stmt code, rs, _ => by intro rs' r h; simpa [renderTok, execStmt, rctx, cfgOf] using h
  | .pyblock code, rs, _ => by intro rs' r h; simpa [renderTok, execBlock, cfgOf] using h
  | .hook _ _ _, _, hc => by simp [Tok.common] at hc
  | .cond bs, rs, hc => by
      simp only [Tok.common] at hc
      simp only [renderTok]; exact renderBranches_common cx scope bs rs hc
  | .loop lv coll body choices, rs, hc => by
      intro rs' r h
      simp only [Tok.common, Bool.and_eq_true] at hc
      simp only [renderTok, rctx, cfgOf] at h ⊢
      split at h
      · rename_i he; simp only [he, if_true]; exact h
      · rename_i he
        simp only [he, Bool.false_eq_true, if_false]
        split at h
        · simp [loopFail] at h
        · rename_i items hitems
          have hl := loopItems_common lv
            (fun r => renderToks S (cfgOf .browser cx scope) body r) (fun r => renderToks S (cfgOf .main cx scope) body r)
            (fun r => renderChoiceTexts S (cfgOf .browser cx scope) choices r) (fun r => renderChoiceTexts S (cfgOf .main cx scope) choices r)
            (fun rs0 => renderToks_common cx scope body rs0 hc.1) (fun rs0 => renderChoiceTexts_common cx scope choices rs0 hc.2)
            items rs
          simp only [cfgOf] at hl
          split at h
          · rename_i rs2 r2 hm
            rw [hl rs2 r2 hm]
            exact h
          · simp [loopFail] at h
  | .jump _ _, rs, _ => by intro rs' r h; simpa [renderTok] using h
  | .joinMarker, _, hc => by simp [Tok.common] at hc
  | .other _, rs, _ => by intro rs' r h; simpa [renderTok] using h

theorem renderToks_common (cx : Env S.V) (scope : Option (Env S.V)) : ∀ (ts : List Tok) (rs : RS S.V),
    toksCommon ts = true →
    MainOkImpliesSame (renderToks S (cfgOf .browser cx scope) ts rs) (renderToks S (cfgOf .main cx scope) ts rs)
  | [], rs, _ => by intro rs' r h; simpa [renderToks] using h
  | t :: ts, rs, hc => by
      intro rs' r h
      simp only [toksCommon, Bool.and_eq_true] at hc
      have hnm : t.isJoinMarker = false := by
        cases t <;> simp [Tok.common, Tok.isJoinMarker] at hc ⊢
      simp only [renderToks, hnm, Bool.false_and, Bool.false_eq_true, if_false] at h ⊢
      cases hm : renderTok S (cfgOf .main cx scope) t rs with
      | mk rs1 r1 =>
        rw [hm] at h
        cases r1 with
        | error e => simp at h
        | ok r1 =>
          rw [renderTok_common cx scope t rs hc.1 rs1 r1 hm]
          simp only at h ⊢
          split at h
          · rename_i hj; simp only [hj, if_true]; exact h
          · rename_i hj
            simp only [hj, Bool.false_eq_true, if_false]
            cases hm2 : renderToks S (cfgOf .main cx scope) ts rs1 with
            | mk rs2 r2 =>
              rw [hm2] at h
              cases r2 with
              | error e => simp at h
              | ok r2 =>
                rw [renderToks_common cx scope ts rs1 hc.2 rs2 r2 hm2]
                exact h

theorem renderBranches_common (cx : Env S.V) (scope : Option (Env S.V)) : ∀ (bs : List Branch) (rs : RS S.V),
    branchesCommon bs = true →
    MainOkImpliesSame (renderBranches S (cfgOf .browser cx scope) bs rs) (renderBranches S (cfgOf .main cx scope) bs rs)
  | [], rs, _ => by intro rs' r h; simpa [renderBranches] using h
  | .mk c body chs :: bs, rs, hc => by
      intro rs' r h
      simp only [branchesCommon, Bool.and_eq_true] at hc
      simp only [renderBranches, rctx, cfgOf] at h ⊢
      split at h
      · exact renderBranches_common cx scope bs rs hc.2 rs' r h
      · rename_i v he
        split at h
        · rename_i ht
          simp only [ht, if_true]
          cases hm : renderToks S (cfgOf .main cx scope) body rs with
          | mk rs2 r2 =>
            simp only [cfgOf] at hm
            rw [hm] at h
            cases r2 with
            | error e => simp at h
            | ok r2 =>
              have := renderToks_common cx scope body rs hc.1.1 rs2 r2 (by simp only [cfgOf]; exact hm)
              simp only [cfgOf] at this
              rw [this]; exact h
        · rename_i ht
          simp only [ht, Bool.false_eq_true, if_false]
          exact renderBranches_common cx scope bs rs hc.2 rs' r h

theorem renderChoiceTexts_common (cx : Env S.V) (scope : Option (Env S.V)) : ∀ (cs : List Choice) (rs : RS S.V),
    choicesCommon cs = true →
    MainOkImpliesSame (renderChoiceTexts S (cfgOf .browser cx scope) cs rs) (renderChoiceTexts S (cfgOf .main cx scope) cs rs)
  | [], rs, _ => by intro rs' r h; simpa [renderChoiceTexts] using h
  | .mk text tgt args cnd sticky sec tags block :: cs, rs, hc => by
      intro rs' r h
      simp only [choicesCommon, Bool.and_eq_true] at hc
      simp only [renderChoiceTexts] at h ⊢
      rw [renderToks_plain_eq cx scope text rs hc.1]
      cases hm : renderToks S (cfgOf .main cx scope) text rs with
      | mk rs1 r1 =>
        rw [hm] at h
        cases r1 with
        | error e => simp at h
        | ok r1 =>
          simp only at h ⊢
          cases hm2 : renderChoiceTexts S (cfgOf .main cx scope) cs rs1 with
          | mk rs2 r2 =>
            rw [hm2] at h
            cases r2 with
            | error e => simp at h
            | ok ds =>
              rw [renderChoiceTexts_common cx scope cs rs1 hc.2 rs2 ds hm2]
              exact h
end

end Bardic
