import Bardic.Parser.Strip
/-!
# C17 — comments and indentation are presentation only (component theorems)
-/
namespace Bardic.Parser

/-- no slash and no backslash: nothing the comment scanner reacts to -/
def NoSlash (l : List Char) : Prop := ∀ c ∈ l, c ≠ '/' ∧ c ≠ '\\'

theorem strip_cons_plain (x : Char) (r : List Char) (h1 : x ≠ '/') (h2 : x ≠ '\\') :
    strip (x :: r) = (x :: (strip r).1, (strip r).2) := by
  rw [strip.eq_def]
  split
  · rename_i heq; cases heq; exact absurd rfl h2
  · rename_i heq; cases heq; exact absurd rfl h1
  · rename_i heq; cases heq; exact absurd rfl h1
  · rename_i heq; cases heq; rfl
  · rename_i heq; cases heq

theorem strip_slashes (c : List Char) (hc : c.head? ≠ some '=') :
    strip ('/' :: '/' :: c) = ([], '/' :: '/' :: c) := by
  rw [strip.eq_def]
  split
  · rename_i heq; cases heq
  · rename_i heq; cases heq; simp at hc
  · rename_i heq; cases heq; rfl
  · rename_i h1 h2 heq; cases heq; exact absurd rfl (h2 c rfl)
  · rename_i heq; cases heq

/-- a line without `/` and `\` is returned unchanged, with no comment -/
theorem strip_noslash : ∀ (l : List Char), NoSlash l → strip l = (l, [])
  | [], _ => by simp [strip]
  | x :: r, h => by
      have hx := h x (by simp)
      have hr : NoSlash r := fun y hy => h y (by simp [hy])
      rw [strip_cons_plain x r hx.1 hx.2, strip_noslash r hr]

/-- **a trailing `// comment` changes nothing but trailing blanks**: appending ` // c` to a line
(whose text does not start with `=`, which would read as the operator `//=`) yields the line plus
one blank as content and the comment as comment, whatever the comment says -/
theorem strip_comment_suffix : ∀ (l c : List Char), NoSlash l → c.head? ≠ some '=' →
    strip (l ++ ' ' :: '/' :: '/' :: c) = (l ++ [' '], '/' :: '/' :: c)
  | [], c, _, hc => by
      simp only [List.nil_append]
      rw [strip_cons_plain ' ' _ (by decide) (by decide), strip_slashes c hc]
  | x :: r, c, h, hc => by
      have hx := h x (by simp)
      have hr : NoSlash r := fun y hy => h y (by simp [hy])
      simp only [List.cons_append]
      rw [strip_cons_plain x _ hx.1 hx.2, strip_comment_suffix r c hr hc]

/-- an escaped `\//` is a literal `//` and does not start a comment -/
theorem strip_keeps_escaped (l r : List Char) (hl : NoSlash l) :
    strip (l ++ '\\' :: '/' :: '/' :: r) = (l ++ '/' :: '/' :: (strip r).1, (strip r).2) := by
  induction l with
  | nil => simp [strip]
  | cons x xs ih =>
    have hx := hl x (by simp)
    have hr : NoSlash xs := fun y hy => hl y (by simp [hy])
    simp only [List.cons_append]
    rw [strip_cons_plain x _ hx.1 hx.2, ih hr]

/-- `//=` (floor-division assignment) is left intact -/
theorem strip_keeps_floordiv_assign (l r : List Char) (hl : NoSlash l) :
    strip (l ++ '/' :: '/' :: '=' :: r) = (l ++ '/' :: '/' :: '=' :: (strip r).1, (strip r).2) := by
  induction l with
  | nil => simp [strip]
  | cons x xs ih =>
    have hx := hl x (by simp)
    have hr : NoSlash xs := fun y hy => hl y (by simp [hy])
    simp only [List.cons_append]
    rw [strip_cons_plain x _ hx.1 hx.2, ih hr]

/-- the side condition is real: a comment whose text starts with `=` is read as `//=` -/
example : (strip "x = 1 //= 2".toList).2 = [] := by decide
example : strip "a \\// b //= c // d".toList = ("a // b //= c ".toList, "// d".toList) := by decide

/-! ## uniform indentation -/

/-- indent a line by `k` more blanks — every line, blank ones too (editors do that) -/
def indentBy (k : Nat) (l : List Char) : List Char := List.replicate k ' ' ++ l

theorem isBlank_replicate_append (k : Nat) (l : List Char) : isBlank (List.replicate k ' ' ++ l) = isBlank l := by
  induction k with
  | zero => rfl
  | succ k ih => simp only [List.replicate_succ, List.cons_append, isBlank, List.all_cons] at ih ⊢; simp [isPyWs, ih]

theorem leadingWs_replicate_append (k : Nat) (l : List Char) (h : isBlank l = false) :
    leadingWs (List.replicate k ' ' ++ l) = leadingWs l + k := by
  induction k with
  | zero => rfl
  | succ k ih =>
    simp only [List.replicate_succ, List.cons_append, leadingWs]
    have : isPyWs ' ' = true := by decide
    simp only [this, if_true, ih]; omega

theorem isBlank_indentBy (k : Nat) (l : List Char) : isBlank (indentBy k l) = isBlank l :=
  isBlank_replicate_append k l

theorem lstripL_replicate_append (k : Nat) (l : List Char) : lstripL (List.replicate k ' ' ++ l) = lstripL l := by
  induction k with
  | zero => rfl
  | succ k ih =>
    have : isPyWs ' ' = true := by decide
    simp only [List.replicate_succ, List.cons_append, lstripL, this, if_true, ih]

theorem isCommentLine_indentBy (k : Nat) (l : List Char) : isCommentLine (indentBy k l) = isCommentLine l := by
  unfold isCommentLine indentBy
  rw [lstripL_replicate_append]

theorem baseIndentP_indent (k : Nat) (sc : Bool) : ∀ (ls : List (List Char)),
    baseIndentP sc (ls.map (indentBy k)) = (baseIndentP sc ls).map (· + k) := by
  intro ls
  induction ls with
  | nil => rfl
  | cons l rest ih =>
    simp only [List.map_cons, baseIndentP, isBlank_indentBy, isCommentLine_indentBy]
    split
    · exact ih
    · rename_i hb
      have hb' : isBlank l = false := by
        cases hbl : isBlank l with
        | false => rfl
        | true => simp [hbl] at hb
      simp only [indentBy, Option.map_some, leadingWs_replicate_append k l hb']

theorem baseIndent_indent (k : Nat) (ls : List (List Char)) :
    baseIndent (ls.map (indentBy k)) = (baseIndent ls).map (· + k) := by
  unfold baseIndent
  rw [baseIndentP_indent, baseIndentP_indent]
  cases baseIndentP true ls <;> simp

theorem dedentLine_indent (k b : Nat) (l : List Char) (hok : isBlank l = true ∨ leadingWs l ≥ b) :
    dedentLine (b + k) (indentBy k l) = dedentLine b l := by
  unfold dedentLine
  rw [isBlank_indentBy]
  split
  · rfl
  · rename_i hb
    have hb' : isBlank l = false := by simpa using hb
    have h : leadingWs l ≥ b := by
      rcases hok with h | h
      · exact absurd h hb
      · exact h
    simp only [indentBy, leadingWs_replicate_append k l hb']
    have h' : leadingWs l + k ≥ b + k := by omega
    simp only [h, h', if_true]
    rw [Nat.add_comm b k, ← List.drop_drop]
    simp [List.drop_left']

/-- **uniform indentation of a block body is presentation only**: shifting every line (blank lines included) of a
well-indented body (no line indented less than the first) by the same `k` blanks does not change what
`detect_and_strip_indentation` returns -/
theorem dedent_uniform (k : Nat) (ls : List (List Char))
    (hwell : ∀ b, baseIndent ls = some b → ∀ l ∈ ls, isBlank l = true ∨ leadingWs l ≥ b) :
    dedent (ls.map (indentBy k)) = dedent ls := by
  unfold dedent
  rw [baseIndent_indent]
  cases hb : baseIndent ls with
  | none => simp [List.map_map]
  | some b =>
    simp only [Option.map_some, List.map_map]
    apply List.map_congr_left
    intro l hl
    exact dedentLine_indent k b l (hwell b hb l hl)

/-- **a `#` comment line above a block body is presentation only**: it does not set the indentation base, so the
lines below it are dedented exactly as without it (wherever the comment itself is indented) -/
theorem dedent_comment_head (c : List Char) (ls : List (List Char)) (hc : isCommentLine c = true)
    (h : (baseIndentP true ls).isSome) : (dedent (c :: ls)).tail = dedent ls := by
  obtain ⟨b, hb⟩ := Option.isSome_iff_exists.mp h
  have h1 : baseIndent (c :: ls) = some b := by
    simp [baseIndent, baseIndentP, hc, hb]
  have h2 : baseIndent ls = some b := by
    simp [baseIndent, hb]
  simp [dedent, h1, h2]

example : dedent ["# note".toList, "    a".toList, "      b".toList] = ["# note".toList, "a".toList, "  b".toList] := by decide

example : dedent ["    a".toList, "      b".toList, "    ".toList, "    c".toList] = ["a".toList, "  b".toList, "".toList, "c".toList] := by decide

end Bardic.Parser
