import Proofs.Lemmas.Lift
import Proofs.C07
/-!
# C09 — `turn_end` hooks run once per successful choice, in order, until unhooked

Ghost log: `Ev.hookRun p` is recorded exactly when `trigger_event` runs hooked passage `p`.
-/
namespace Bardic
variable {S : Sem}

def hookRuns (log : List Ev) : List String :=
  log.filterMap fun e => match e with | .hookRun p => some p | _ => none

@[simp] theorem hookRuns_cons_enter (p : String) (log : List Ev) :
    hookRuns (Ev.enter p :: log) = hookRuns log := rfl
@[simp] theorem hookRuns_cons_exec (c : String) (log : List Ev) :
    hookRuns (Ev.exec c :: log) = hookRuns log := rfl
@[simp] theorem hookRuns_cons_reg (a : Bool) (e t : String) (log : List Ev) :
    hookRuns (Ev.hookReg a e t :: log) = hookRuns log := rfl
@[simp] theorem hookRuns_cons_run (p : String) (log : List Ev) :
    hookRuns (Ev.hookRun p :: log) = p :: hookRuns log := rfl

/-- rendering records no hook run -/
theorem renderInv_noHookRun : RenderInv S (fun rs' rs => hookRuns rs'.log = hookRuns rs.log) where
  refl := fun _ => rfl
  trans := fun h1 h2 => h1.trans h2
  stmt := by intro cfg code rs; unfold execStmt; dsimp only; split <;> rfl
  block := by intro cfg code rs; unfold execBlock; dsimp only; split <;> rfl
  hook := by intro cfg add ev tgt rs; unfold execHook; cases cfg.variant <;> rfl
  vars := fun _ _ => rfl

/-- **hooks never run on direct navigation**: `goto` (hence also `load_state`, which navigates with
`goto`) records no hook run -/
theorem goto_no_hookRun (c : ECfg S) (fuel : Nat) (spec : String) (l : Live S.V) :
    hookRuns (goto c fuel spec l).1.log = hookRuns l.log :=
  goto_inv (navInv_of_renderInv renderInv_noHookRun (fun _ _ => rfl) c) fuel spec l

theorem renderPassage_no_hookRun (c : ECfg S) (pid : String) (l : Live S.V) :
    hookRuns (renderPassage c pid l).1.log = hookRuns l.log :=
  renderPassage_lift renderInv_noHookRun c pid l

theorem executePassage_no_hookRun (c : ECfg S) (pid : String) (l : Live S.V) :
    hookRuns (executePassage c pid l).1.log = hookRuns l.log :=
  executePassage_lift renderInv_noHookRun (fun _ _ => rfl) c pid l

/-- the hooked passages that exist, in the order given -/
def existing (c : ECfg S) (ps : List String) : List String :=
  ps.filter fun p => (c.story.passage? p).isSome

/-- **once each, first registered first**: a completed `trigger_event` over the list `ps` runs
exactly the existing passages of `ps`, each once, in that order (the log is newest first) —
whatever the hooked passages do to the hook table meanwhile. -/
theorem runHooks_runs_each_once (c : ECfg S) : ∀ (ps acc : List String) (l : Live S.V) (s : String),
    (runHooks c ps acc l).2 = .ok s →
    hookRuns (runHooks c ps acc l).1.log = (existing c ps).reverse ++ hookRuns l.log := by
  intro ps
  induction ps with
  | nil => intro acc l s _; simp [runHooks, existing]
  | cons p ps ih =>
    intro acc l
    unfold runHooks
    split
    · rename_i hp
      have : existing c (p :: ps) = existing c ps := by simp [existing, hp]
      rw [this]; exact ih _ _
    · rename_i pp hp
      have hex : existing c (p :: ps) = p :: existing c ps := by simp [existing, hp]
      split
      · intro s hs; simp at hs
      · rename_i l1 _ h1
        have he : hookRuns l1.log = hookRuns (Ev.hookRun p :: l.log) := by
          have := executePassage_no_hookRun c p { l with log := Ev.hookRun p :: l.log }
          rw [h1] at this; exact this
        split
        · intro s hs; simp at hs
        · rename_i l2 o h2
          have hr : hookRuns l2.log = hookRuns l1.log := by
            have := renderPassage_no_hookRun c p l1
            rw [h2] at this; exact this
          intro s hs
          rw [ih _ _ _ hs, hr, he, hex]
          simp

/-- `trigger_event` iterates a *copy* of the registration list taken when triggering starts -/
theorem triggerEvent_runs_registered (c : ECfg S) (ev : String) (l : Live S.V) (s : String)
    (h : (triggerEvent c ev l).2 = .ok s) :
    hookRuns (triggerEvent c ev l).1.log =
      (existing c ((l.hooks.lookup ev).getD [])).reverse ++ hookRuns l.log := by
  unfold triggerEvent at h ⊢
  split
  · rename_i hn; simp [hn, existing]
  · rename_i active hn
    simp only [hn] at h
    simp only [hn, Option.getD_some]
    exact runHooks_runs_each_once c active [] l s h

/-! ## registration -/

theorem Hooks.lookup_set (h : Hooks) (ev : String) (l : List String) :
    List.lookup ev (Env.set h ev l) = some l := Env.get?_set_self h ev l

theorem lookup_append_new {V} (h : List (String × V)) (ev : String) (v : V) (hl : h.lookup ev = none) :
    List.lookup ev (h ++ [(ev, v)]) = some v := by
  induction h with
  | nil => simp [List.lookup]
  | cons a t ih =>
    obtain ⟨k, w⟩ := a
    simp only [List.lookup] at hl
    simp only [List.cons_append, List.lookup]
    split at hl
    · cases hl
    · exact ih hl

/-- registering twice has no additional effect -/
theorem register_idempotent (h : Hooks) (ev p : String) :
    Hooks.register (Hooks.register h ev p) ev p = Hooks.register h ev p := by
  cases hl : h.lookup ev with
  | none =>
    have h1 : Hooks.register h ev p = h ++ [(ev, [p])] := by unfold Hooks.register; rw [hl]
    rw [h1]
    unfold Hooks.register
    rw [lookup_append_new h ev [p] hl]
    simp
  | some l =>
    by_cases hc : l.contains p = true
    · have h1 : Hooks.register h ev p = h := by unfold Hooks.register; rw [hl]; simp only [hc, if_true]
      rw [h1, h1]
    · have hc' : l.contains p = false := by simpa using hc
      have h1 : Hooks.register h ev p = Env.set h ev (l ++ [p]) := by
        unfold Hooks.register; rw [hl]; simp only [hc', Bool.false_eq_true, if_false]
      rw [h1]
      unfold Hooks.register
      rw [Hooks.lookup_set h ev (l ++ [p])]
      simp

/-- a new registration goes to the end: first registered, first run -/
theorem register_order (h : Hooks) (ev p : String) (l : List String) (hl : h.lookup ev = some l)
    (hn : l.contains p = false) :
    (Hooks.register h ev p).lookup ev = some (l ++ [p]) := by
  unfold Hooks.register
  simp only [hl, hn, Bool.false_eq_true, if_false]
  exact Hooks.lookup_set h ev _

/-- unhooking removes that passage only and keeps the order of the others -/
theorem unregister_keeps_others (h : Hooks) (ev p : String) (l : List String) (hl : h.lookup ev = some l) :
    (Hooks.unregister h ev p).lookup ev = some (l.erase p) := by
  unfold Hooks.unregister
  simp only [hl]
  by_cases hc : l.contains p = true
  · simp only [hc, if_true]; exact Hooks.lookup_set h ev _
  · simp only [hc, Bool.false_eq_true, if_false]
    have : l.erase p = l := List.erase_of_not_mem (by simpa using hc)
    rw [this]; exact hl

/-- undo / redo / reads record no hook run (they never call `trigger_event`) -/
theorem undo_redo_no_hookRun (c : ECfg S) (e : Eng S.V) (hw : e.WF) :
    hookRuns (e.doUndo c).1.live.log = hookRuns e.live.log ∧
    hookRuns (e.doRedo c).1.live.log = hookRuns e.live.log := by
  constructor
  · unfold Eng.doUndo
    split
    · rfl
    · rename_i prev rest hu
      have hp : prev.out.isSome := hw.undo prev (by simp [hu])
      obtain ⟨cur, vars, used, hooks, joinIdx, out⟩ := prev
      cases out with
      | none => simp at hp
      | some o => simp only [restore]; cases c.variant <;> rfl
  · unfold Eng.doRedo
    split
    · rfl
    · rename_i nxt rest hu
      have hp : nxt.out.isSome := hw.redo nxt (by simp [hu])
      obtain ⟨cur, vars, used, hooks, joinIdx, out⟩ := nxt
      cases out with
      | none => simp at hp
      | some o => simp only [restore]; cases c.variant <;> rfl

end Bardic
