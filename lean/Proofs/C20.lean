import Bardic.Stdlib
/-!
# C20 — standard-library game objects keep their invariants under any operation sequence
-/
namespace Bardic.Stdlib

/-! ## Wallet -/

inductive WOp | spend (a : Int) | earn (a : Int) | setGold (v : Int)

def Wallet.step (w : Wallet) : WOp → Wallet
  | .spend a => (w.spend a).1
  | .earn a => w.earn a
  | .setGold v => w.setGold v

theorem Wallet.new_nonneg (g : Int) : 0 ≤ (Wallet.new g).gold := by simp [Wallet.new]; omega

theorem Wallet.step_nonneg (w : Wallet) (op : WOp) (h : 0 ≤ w.gold) : 0 ≤ (w.step op).gold := by
  cases op with
  | spend a =>
    simp only [Wallet.step, Wallet.spend, Wallet.canAfford]
    by_cases hc : w.gold ≥ a
    · simp [hc]
    · simp [hc]; exact h
  | earn a => simp only [Wallet.step, Wallet.earn]; omega
  | setGold v => simp only [Wallet.step, Wallet.setGold]; omega

/-- **gold never goes negative**, under any sequence of operations with any integer arguments -/
theorem wallet_nonneg (g : Int) (ops : List WOp) : 0 ≤ (ops.foldl Wallet.step (Wallet.new g)).gold := by
  have : ∀ (ops : List WOp) (w : Wallet), 0 ≤ w.gold → 0 ≤ (ops.foldl Wallet.step w).gold := by
    intro ops
    induction ops with
    | nil => intro w h; exact h
    | cons op ops ih => intro w h; exact ih _ (Wallet.step_nonneg w op h)
  exact this ops _ (Wallet.new_nonneg g)

/-- **spending is all-or-nothing** -/
theorem spend_all_or_nothing (w : Wallet) (a : Int) :
    ((w.spend a).2 = true ∧ (w.spend a).1.gold = w.gold - a ∧ a ≤ w.gold) ∨
    ((w.spend a).2 = false ∧ (w.spend a).1 = w ∧ w.gold < a) := by
  simp only [Wallet.spend, Wallet.canAfford]
  by_cases hc : w.gold ≥ a
  · simp [hc]
  · simp [hc]; omega

theorem wallet_dict_roundtrip (w : Wallet) (h : 0 ≤ w.gold) : Wallet.new w.gold = w := by
  cases w; simp [Wallet.new] at *; omega

/-! ## Inventory -/

theorem weightOf_append (a b : List Item) : weightOf (a ++ b) = weightOf a + weightOf b := by
  simp [weightOf, List.sum_append]

/-- **`add` never takes the inventory over its limit**, and refuses without changing anything -/
theorem add_respects_limit (i : Inventory) (it : Item) :
    ((i.add it).2 = true ∧ (i.add it).1.items = i.items ++ [it] ∧ (i.add it).1.curWeight ≤ i.maxWeight
        ∧ (i.add it).1.maxWeight = i.maxWeight) ∨
    ((i.add it).2 = false ∧ (i.add it).1 = i) := by
  simp only [Inventory.add]
  split
  · rename_i h
    refine Or.inl ⟨rfl, rfl, ?_, rfl⟩
    simp only [Inventory.curWeight, weightOf_append] at h ⊢
    simp [weightOf] at h ⊢; omega
  · exact Or.inr ⟨rfl, rfl⟩

theorem add_keeps_within (i : Inventory) (it : Item) (h : i.curWeight ≤ i.maxWeight) :
    (i.add it).1.curWeight ≤ (i.add it).1.maxWeight := by
  rcases add_respects_limit i it with ⟨_, _, h3, h4⟩ | ⟨_, h2⟩
  · rw [h4]; exact h3
  · rw [h2]; exact h

theorem removeFirst_weight (n : String) : ∀ (l l' : List Item), removeFirst n l = some l' →
    ∃ it, it ∈ l ∧ it.name = n ∧ weightOf l = weightOf l' + it.weight := by
  intro l
  induction l with
  | nil => intro l' h; simp [removeFirst] at h
  | cons x rest ih =>
    intro l' h
    simp only [removeFirst] at h
    split at h
    · rename_i hx
      simp only [Option.some.injEq] at h; subst h
      exact ⟨x, by simp, by simpa using hx, by simp [weightOf]; omega⟩
    · cases hr : removeFirst n rest with
      | none => rw [hr] at h; simp at h
      | some r =>
        rw [hr] at h
        simp only [Option.map_some, Option.some.injEq] at h; subst h
        obtain ⟨it, hm, hn, hw⟩ := ih r hr
        exact ⟨it, by simp [hm], hn, by simp [weightOf] at hw ⊢; omega⟩

inductive IOp | add (it : Item) | remove (n : String) | removeAll (n : String) | clear

def Inventory.step (i : Inventory) : IOp → Inventory
  | .add it => (i.add it).1
  | .remove n => (i.remove n).1
  | .removeAll n => (i.removeAll n).1
  | .clear => i.clear

theorem weightOf_filter_le (l : List Item) (p : Item → Bool) (hw : ∀ it ∈ l, 0 ≤ it.weight) :
    weightOf (l.filter p) ≤ weightOf l := by
  induction l with
  | nil => simp [weightOf]
  | cons x rest ih =>
    have hx := hw x (by simp)
    have := ih (fun it h => hw it (by simp [h]))
    simp only [List.filter]
    split <;> simp [weightOf] at this ⊢ <;> omega

theorem weightOf_nonneg (l : List Item) (hw : ∀ it ∈ l, 0 ≤ it.weight) : 0 ≤ weightOf l := by
  induction l with
  | nil => simp [weightOf]
  | cons x rest ih =>
    have hx := hw x (by simp)
    have := ih (fun it h => hw it (by simp [h]))
    simp [weightOf] at this ⊢; omega

/-- items with non-negative weights: the limit holds after any sequence of add / remove / clear -/
theorem inventory_weight_le (maxW : Int) (h0 : 0 ≤ maxW) (ops : List IOp)
    (hpos : ∀ op ∈ ops, ∀ it, op = IOp.add it → 0 ≤ it.weight) :
    let i := ops.foldl Inventory.step ⟨[], maxW⟩
    i.curWeight ≤ i.maxWeight ∧ i.maxWeight = maxW := by
  have key : ∀ (ops : List IOp) (i : Inventory),
      (∀ op ∈ ops, ∀ it, op = IOp.add it → 0 ≤ it.weight) →
      (∀ it ∈ i.items, 0 ≤ it.weight) → i.curWeight ≤ i.maxWeight →
      let j := ops.foldl Inventory.step i
      j.curWeight ≤ j.maxWeight ∧ j.maxWeight = i.maxWeight := by
    intro ops
    induction ops with
    | nil => intro i _ _ h; exact ⟨h, rfl⟩
    | cons op ops ih =>
      intro i hp hi h
      simp only [List.foldl_cons]
      have hp' : ∀ o ∈ ops, ∀ it, o = IOp.add it → 0 ≤ it.weight := fun o ho => hp o (by simp [ho])
      have step_ok : (∀ it ∈ (i.step op).items, 0 ≤ it.weight) ∧ (i.step op).curWeight ≤ (i.step op).maxWeight
          ∧ (i.step op).maxWeight = i.maxWeight := by
        cases op with
        | add it =>
          have hit := hp (IOp.add it) (by simp) it rfl
          simp only [Inventory.step]
          rcases add_respects_limit i it with ⟨_, h2, h3, h4⟩ | ⟨_, h2⟩
          · refine ⟨?_, by rw [h4]; exact h3, h4⟩
            rw [h2]; intro x hx
            rcases List.mem_append.mp hx with hx | hx
            · exact hi x hx
            · simp at hx; subst hx; exact hit
          · rw [h2]; exact ⟨hi, h, rfl⟩
        | remove n =>
          simp only [Inventory.step, Inventory.remove]
          cases hr : removeFirst n i.items with
          | none => exact ⟨hi, h, by first | rfl | trivial⟩
          | some l =>
            obtain ⟨it, hm, _, hw⟩ := removeFirst_weight n i.items l hr
            have hit := hi it hm
            refine ⟨?_, ?_, by first | rfl | trivial⟩
            · intro x hx
              -- every element of l is an element of i.items
              have hsub : ∀ (a b : List Item), removeFirst n a = some b → ∀ y ∈ b, y ∈ a := by
                intro a
                induction a with
                | nil => intro b hb; simp [removeFirst] at hb
                | cons z zs iha =>
                  intro b hb y hy
                  simp only [removeFirst] at hb
                  split at hb
                  · simp only [Option.some.injEq] at hb; subst hb; simp [hy]
                  · cases hz : removeFirst n zs with
                    | none => rw [hz] at hb; simp at hb
                    | some r =>
                      rw [hz] at hb
                      simp only [Option.map_some, Option.some.injEq] at hb; subst hb
                      rcases List.mem_cons.mp hy with e | e
                      · simp [e]
                      · simp [iha r hz y e]
              exact hi x (hsub _ _ hr x hx)
            · simp only [Inventory.curWeight] at h ⊢; omega
        | removeAll n =>
          simp only [Inventory.step, Inventory.removeAll]
          refine ⟨fun x hx => hi x (List.mem_filter.mp hx).1, ?_, by first | rfl | trivial⟩
          have := weightOf_filter_le i.items (fun it => it.name != n) hi
          simp only [Inventory.curWeight] at h ⊢; omega
        | clear =>
          simp only [Inventory.step, Inventory.clear]
          refine ⟨by simp, ?_, by first | rfl | trivial⟩
          have hnn := weightOf_nonneg i.items hi
          simp only [Inventory.curWeight] at h ⊢
          simp only [weightOf, List.map_nil, List.sum_nil]
          omega
      obtain ⟨s1, s2, s3⟩ := step_ok
      have := ih (i.step op) hp' s1 s2
      exact ⟨this.1, this.2.trans s3⟩
  have := key ops ⟨[], maxW⟩ hpos (by simp) (by simp [Inventory.curWeight, weightOf]; exact h0)
  exact this

/-! ## Shop -/

/-- **buy is an atomic exchange** (non-negative price): either the price is paid and a copy of the
item is added, or wallet and inventory are both exactly as before; shop stock is not an output of
`buy` at all (never mutated) -/
theorem buy_atomic (s : Shop) (n : String) (w : Wallet) (inv : Inventory) (hp : 0 ≤ s.buyPrice n) :
    (∃ it, s.find n = some it ∧ (s.buy n w inv).2.2 = true ∧ (s.buy n w inv).1.gold = w.gold - s.buyPrice n ∧
        (s.buy n w inv).2.1.items = inv.items ++ [it]) ∨
    ((s.buy n w inv).2.2 = false ∧ (s.buy n w inv).1 = w ∧ (s.buy n w inv).2.1 = inv) := by
  unfold Shop.buy
  cases hf : s.find n with
  | none => exact Or.inr ⟨rfl, rfl, rfl⟩
  | some it =>
    simp only
    rcases spend_all_or_nothing w (s.buyPrice n) with ⟨h1, h2, _⟩ | ⟨h1, h2, _⟩
    · generalize hs : w.spend (s.buyPrice n) = sp at h1 h2
      obtain ⟨w1, b⟩ := sp
      simp only at h1 h2; subst h1
      simp only
      rcases add_respects_limit inv it with ⟨a1, a2, _, _⟩ | ⟨a1, a2⟩
      · generalize ha : inv.add it = ad at a1 a2
        obtain ⟨inv1, b2⟩ := ad
        simp only at a1 a2; subst a1
        exact Or.inl ⟨it, rfl, rfl, h2, a2⟩
      · generalize ha : inv.add it = ad at a1 a2
        obtain ⟨inv1, b2⟩ := ad
        simp only at a1 a2; subst a1
        refine Or.inr ⟨rfl, ?_, rfl⟩
        cases w; cases w1
        simp only [Wallet.earn, Wallet.mk.injEq] at h2 ⊢
        omega
    · generalize hs : w.spend (s.buyPrice n) = sp at h1 h2
      obtain ⟨w1, b⟩ := sp
      simp only at h1 h2; subst h1
      exact Or.inr ⟨rfl, rfl, rfl⟩

/-- **sell is an atomic exchange**: the first item of that name leaves the inventory and its sell
price (never negative gold) is earned, or nothing changes -/
theorem sell_atomic (s : Shop) (n : String) (w : Wallet) (inv : Inventory) :
    (∃ it l, inv.get n = some it ∧ removeFirst n inv.items = some l ∧ (s.sell n w inv).2.2 = true ∧
        (s.sell n w inv).1.gold = w.gold + max 0 (s.sellPrice it.value) ∧ (s.sell n w inv).2.1.items = l) ∨
    ((s.sell n w inv).2.2 = false ∧ (s.sell n w inv).1 = w ∧ (s.sell n w inv).2.1 = inv) := by
  unfold Shop.sell
  cases hg : inv.get n with
  | none => exact Or.inr ⟨rfl, rfl, rfl⟩
  | some it =>
    simp only [Inventory.remove]
    cases hr : removeFirst n inv.items with
    | none => exact Or.inr ⟨rfl, rfl, rfl⟩
    | some l => exact Or.inl ⟨it, l, rfl, rfl, rfl, rfl, rfl⟩

/-! ## Relationship -/

theorem clamp_range (lo hi v : Int) (h : lo ≤ hi) : lo ≤ clamp lo hi v ∧ clamp lo hi v ≤ hi := by
  simp only [clamp]; omega

def Rel.InRange (r : Rel) : Prop :=
  0 ≤ r.trust ∧ r.trust ≤ 100 ∧ 0 ≤ r.comfort ∧ r.comfort ≤ 100 ∧ -10 ≤ r.openness ∧ r.openness ≤ 10

inductive ROp | addTrust (a : Int) | addComfort (a : Int) | addOpenness (a : Int)
  | setTrust (v : Int) | setComfort (v : Int) | setOpenness (v : Int) | discuss (t : String)

def Rel.step (r : Rel) : ROp → Rel
  | .addTrust a => r.addTrust a
  | .addComfort a => r.addComfort a
  | .addOpenness a => r.addOpenness a
  | .setTrust v => r.setTrust v
  | .setComfort v => r.setComfort v
  | .setOpenness v => r.setOpenness v
  | .discuss t => r.discuss t

theorem Rel.new_inRange (n : String) (t c o : Int) (ts : List String) : (Rel.new n t c o ts).InRange := by
  simp only [Rel.new, Rel.InRange, clamp]; omega

theorem Rel.step_inRange (r : Rel) (op : ROp) (h : r.InRange) : (r.step op).InRange := by
  cases op <;> simp only [Rel.step, Rel.addTrust, Rel.addComfort, Rel.addOpenness, Rel.setTrust,
    Rel.setComfort, Rel.setOpenness, Rel.discuss, Rel.InRange, clamp] at * <;> omega

/-- **stats stay within their documented ranges** under any operation sequence -/
theorem relationship_ranges (n : String) (t c o : Int) (ts : List String) (ops : List ROp) :
    (ops.foldl Rel.step (Rel.new n t c o ts)).InRange := by
  have : ∀ (ops : List ROp) (r : Rel), r.InRange → (ops.foldl Rel.step r).InRange := by
    intro ops
    induction ops with
    | nil => intro r h; exact h
    | cons op ops ih => intro r h; exact ih _ (Rel.step_inRange r op h)
  exact this ops _ (Rel.new_inRange n t c o ts)

/-- **threshold events fire exactly on upward crossings** -/
theorem threshold_iff_upcross (r : Rel) (a : Int) :
    (r.addTrust a).events = r.events
      ++ (if r.trust < 60 ∧ 60 ≤ (r.addTrust a).trust then [60] else [])
      ++ (if r.trust < 80 ∧ 80 ≤ (r.addTrust a).trust then [80] else []) := by
  simp [Rel.addTrust]

theorem rel_dict_roundtrip (r : Rel) (h : r.InRange) (hn : r.topics.eraseDups = r.topics) : r.roundTrip = r := by
  obtain ⟨name, t, c, o, ts, ev⟩ := r
  simp only [Rel.InRange] at h
  simp only at hn
  simp only [Rel.roundTrip, Rel.new, clamp, hn, Rel.mk.injEq, true_and, and_true]
  omega

/-! ## dice -/

theorem sum_bounds (sides : Int) : ∀ (outs : List Int), (∀ x ∈ outs, 1 ≤ x ∧ x ≤ sides) →
    (outs.length : Int) ≤ outs.sum ∧ outs.sum ≤ outs.length * sides := by
  intro outs
  induction outs with
  | nil => intro _; simp
  | cons x xs ih =>
    intro h
    have hx := h x (by simp)
    have := ih (fun y hy => h y (by simp [hy]))
    simp only [List.sum_cons, List.length_cons]
    constructor
    · push_cast; omega
    · push_cast
      have : ((xs.length : Int) + 1) * sides = xs.length * sides + sides := by
        rw [Int.add_mul]; simp
      omega

/-- **rolls stay within the bounds of their notation** `NdS+M`, whatever the random source does
within `randint(1, S)` -/
theorem roll_bounds (n : Nat) (sides modifier : Int) (outs : List Int) (hlen : outs.length = n)
    (h : ∀ x ∈ outs, 1 ≤ x ∧ x ≤ sides) :
    n + modifier ≤ rollWith outs modifier ∧ rollWith outs modifier ≤ n * sides + modifier := by
  have := sum_bounds sides outs h
  simp only [rollWith, ← hlen]; omega

end Bardic.Stdlib
