import Proofs.C08
/-!
# C15 — author-code failures are contained or surface cleanly, undoably

All statements are for an arbitrary `Sem`: `eval`/`exec` may fail anywhere, so every fault-injection
scenario is an instance.
-/
namespace Bardic
variable {S : Sem}

/-! ## display expressions: an inline marker, nothing else changes -/

theorem isPrefix_errText (code : String) (e : PyErr) : ∃ rest, errText code e = "{ERROR: " ++ rest :=
  ⟨_, rfl⟩

/-- a display expression never raises and never changes the state -/
theorem expr_contained (cfg : RCfg S) (code : String) (rs : RS S.V) :
    ∃ s, renderTok S cfg (.expr code) rs = (rs, .ok { text := s }) :=
  ⟨renderExpr S (rctx S cfg rs) code, by simp [renderTok]⟩

/-- a failing display expression (without format spec) becomes an inline `{ERROR: …}` marker -/
theorem expr_fault_marker (cfg : RCfg S) (code : String) (rs : RS S.V) (e : PyErr)
    (hsplit : splitFmt code = none) (hfail : S.eval (rctx S cfg rs) code = .error e) :
    ∃ rest, renderTok S cfg (.expr code) rs = (rs, .ok { text := "{ERROR: " ++ rest }) := by
  obtain ⟨rest, hr⟩ := isPrefix_errText code e
  exact ⟨rest, by simp [renderTok, renderExpr, hsplit, hfail, hr]⟩

/-! ## conditions: a failing one hides the choice / skips the branch -/

theorem branch_cond_fault_skips (cfg : RCfg S) (cnd : String) (body : List Tok) (chs : List Choice)
    (bs : List Branch) (rs : RS S.V) (e : PyErr) (hfail : S.eval (rctx S cfg rs) cnd = .error e) :
    renderBranches S cfg (.mk cnd body chs :: bs) rs = renderBranches S cfg bs rs := by
  simp [renderBranches, hfail]

theorem choice_cond_fault_hides (cfg : RCfg S) (cur : Option String) (used : List String)
    (text : List Tok) (tgt args cnd : String) (sec : Nat) (tags : List String) (block : List Tok)
    (rs : RS S.V) (e : PyErr) (hne : cnd ≠ "") (hfail : S.eval (rctx S cfg rs) cnd = .error e) :
    isAvail cfg cur used (.mk text tgt args (some cnd) true sec tags block) none rs = (rs, .ok false) := by
  have : (cnd == "") = false := by simpa using hne
  simp [isAvail, Choice.sticky, Choice.cond, this, hfail]

/-! ## statements and blocks: never silently discarded -/

theorem stmt_fault_raises (cfg : RCfg S) (code : String) (rs : RS S.V) (e : PyErr)
    (hfail : S.exec (rctx S cfg rs) code = .error e) :
    ∃ m, (execStmt S cfg code rs).2 = .error ⟨.runtimeError, m⟩ ∧ (execStmt S cfg code rs).1.vars = rs.vars := by
  simp only [execStmt, hfail]
  exact ⟨"Python statement failed: " ++ code ++ "\n  Error: " ++ e.msg, rfl, trivial⟩

theorem block_fault_raises (cfg : RCfg S) (code : String) (rs : RS S.V) (e : PyErr)
    (hfail : S.exec (Env.update cfg.cx rs.vars) code = .error e) :
    ∃ m, (execBlock S cfg code rs).2 = .error ⟨.runtimeError, m⟩ ∧ (execBlock S cfg code rs).1.vars = rs.vars := by
  simp only [execBlock, hfail]
  exact ⟨"Error executing Python block: " ++ e.cls ++ ": " ++ e.msg, rfl, trivial⟩

/-- a failing statement reached in a token list makes the whole render fail with that error: the
tokens after it are not rendered and no marker hides it -/
theorem render_stmt_fault_propagates (cfg : RCfg S) (pre post : List Tok) (code : String)
    (rs rs1 : RS S.V) (r1 : ROut S.V) (e : PyErr) (hm : ∀ x ∈ pre, x.isJoinMarker = false)
    (hpre : renderToks S cfg pre rs = (rs1, .ok r1)) (hnj : r1.jump = none)
    (hfail : S.exec (rctx S cfg rs1) code = .error e) :
    ∃ m, (renderToks S cfg (pre ++ Tok.stmt code :: post) rs).2 = .error ⟨.runtimeError, m⟩ := by
  rw [renderToks_append cfg _ pre rs hm, hpre]
  simp only [seqR, hnj, Option.isSome_none, Bool.false_eq_true, if_false]
  simp only [renderToks, Tok.isJoinMarker, Bool.false_and, Bool.false_eq_true, if_false, renderTok, execStmt, hfail]
  exact ⟨_, rfl⟩

/-- a failing command at the top level of a passage makes `_execute_passage` raise -/
theorem execCommands_fault (cfg : RCfg S) (code : String) (rest : List Tok) (rs : RS S.V) (e : PyErr)
    (hfail : S.exec (rctx S cfg rs) code = .error e) :
    ∃ m, (execCommands cfg (Tok.stmt code :: rest) rs).2 = .error ⟨.runtimeError, m⟩ := by
  simp only [execCommands, execStmt, hfail]; exact ⟨_, rfl⟩

/-! ## every error a render can produce is a `RuntimeError` or a `ValueError` (main engine) -/

theorem execStmt_errKind (cfg : RCfg S) (code : String) (rs : RS S.V) (e : Exc)
    (h : (execStmt S cfg code rs).2 = .error e) : e.kind = .runtimeError := by
  unfold execStmt at h
  dsimp only at h
  cases hx : S.exec (rctx S cfg rs) code with
  | ok ctx' => rw [hx] at h; simp at h
  | error pe => rw [hx] at h; simp only [Except.error.injEq] at h; rw [← h]

theorem execBlock_errKind (cfg : RCfg S) (code : String) (rs : RS S.V) (e : Exc)
    (h : (execBlock S cfg code rs).2 = .error e) : e.kind = .runtimeError := by
  unfold execBlock at h
  dsimp only at h
  cases hx : S.exec (Env.update cfg.cx rs.vars) code with
  | ok ctx' => rw [hx] at h; simp at h
  | error pe => rw [hx] at h; simp only [Except.error.injEq] at h; rw [← h]

def OkKind (e : Exc) : Prop := e.kind = .runtimeError ∨ e.kind = .valueError

def ErrOk {α} (x : RRes S α) : Prop := ∀ e, x.2 = .error e → OkKind e

theorem loopItems_errOk (lv : String)
    (body : RS S.V → RRes S (ROut S.V)) (chs : RS S.V → RRes S (List (Dir S.V)))
    (hb : ∀ rs, ErrOk (body rs)) (hc : ∀ rs, ErrOk (chs rs)) :
    ∀ (items : List S.V) (rs : RS S.V), ErrOk (loopItems S lv body chs items rs) := by
  intro items
  induction items with
  | nil => intro rs e h; simp [loopItems] at h
  | cons item items ih =>
    intro rs
    unfold loopItems
    dsimp only
    generalize loopAssign S lv item rs.vars = la
    obtain ⟨vars1, origs⟩ := la
    dsimp only
    have hb1 := hb { rs with vars := vars1 }
    split
    · rename_i rs2 e he
      intro e' h; rw [he] at hb1; simp only [Except.error.injEq] at h; subst h; exact hb1 e rfl
    · rename_i rs2 r he
      have hc1 := hc rs2
      split
      · rename_i rs3 e hce
        intro e' h; rw [hce] at hc1; simp only [Except.error.injEq] at h; subst h; exact hc1 e rfl
      · split
        · intro e' h; simp at h
        · have := ih { ‹RS S.V› with vars := loopRestore S origs (‹RS S.V›).vars }
          split
          · rename_i rs5 e hl
            intro e' h; rw [hl] at this; simp only [Except.error.injEq] at h; subst h; exact this e rfl
          · intro e' h; simp at h

mutual
theorem renderTok_errOk (cfg : RCfg S) (hv : cfg.variant = .main) :
    ∀ (t : Tok) (rs : RS S.V), ErrOk (renderTok S cfg t rs)
  | .text _ _, rs => by intro e h; simp [renderTok] at h
  | .expr _, rs => by intro e h; simp [renderTok] at h
  | .inlineCond c t f, rs => by
      intro e h
      simp only [renderTok] at h
      split at h
      · simp at h
      · split at h <;> (split at h <;> simp at h)
  | .render _ _ _, rs => by intro e h; simp [renderTok] at h
  | .input _, rs => by intro e h; simp [renderTok] at h
  | .stmt code, rs => by
      intro e h
      simp only [renderTok] at h
      split at h
      · simp at h
      · rename_i rs' e' he
        simp only [Except.error.injEq] at h; subst h
        exact Or.inl (execStmt_errKind cfg code rs e' (by rw [he]))
  | .pyblock code, rs => by
      intro e h
      simp only [renderTok] at h
      split at h
      · simp at h
      · rename_i rs' e' he
        simp only [Except.error.injEq] at h; subst h
        exact Or.inl (execBlock_errKind cfg code rs e' (by rw [he]))
  | .hook _ _ _, rs => by intro e h; simp [renderTok] at h
  | .cond bs, rs => by simp only [renderTok]; exact renderBranches_errOk cfg hv bs rs
  | .loop lv coll body choices, rs => by
      intro e h
      simp only [renderTok] at h
      split at h
      · simp at h
      · split at h
        · simp only [loopFail, hv, Except.error.injEq] at h; subst h; exact Or.inr rfl
        · split at h
          · simp at h
          · simp only [loopFail, hv, Except.error.injEq] at h; subst h; exact Or.inr rfl
  | .jump _ _, rs => by intro e h; simp [renderTok] at h
  | .joinMarker, rs => by intro e h; simp [renderTok] at h
  | .other _, rs => by intro e h; simp [renderTok] at h

theorem renderToks_errOk (cfg : RCfg S) (hv : cfg.variant = .main) :
    ∀ (ts : List Tok) (rs : RS S.V), ErrOk (renderToks S cfg ts rs)
  | [], rs => by intro e h; simp [renderToks] at h
  | t :: ts, rs => by
      intro e h
      simp only [renderToks] at h
      split at h
      · simp at h
      · have h1 := renderTok_errOk cfg hv t rs
        split at h
        · rename_i rs1 e1 he
          simp only [Except.error.injEq] at h; subst h
          exact h1 e1 (by rw [he])
        · split at h
          · simp at h
          · rename_i rs1 r1 he _
            have h2 := renderToks_errOk cfg hv ts rs1
            split at h
            · rename_i rs2 e2 he2
              simp only [Except.error.injEq] at h; subst h
              exact h2 e2 (by rw [he2])
            · simp at h

theorem renderBranches_errOk (cfg : RCfg S) (hv : cfg.variant = .main) :
    ∀ (bs : List Branch) (rs : RS S.V), ErrOk (renderBranches S cfg bs rs)
  | [], rs => by intro e h; simp [renderBranches] at h
  | .mk c body chs :: bs, rs => by
      intro e h
      simp only [renderBranches] at h
      split at h
      · exact renderBranches_errOk cfg hv bs rs e h
      · split at h
        · have := renderToks_errOk cfg hv body rs
          split at h
          · simp at h
          · rename_i rs' e' he
            simp only [Except.error.injEq] at h; subst h
            exact this e' (by rw [he])
        · exact renderBranches_errOk cfg hv bs rs e h
end

end Bardic
