import Bardic.Include
/-!
# C13 / C14 — `@include` is textual substitution with exact line provenance; diagnostics name the true origin
-/
namespace Bardic.Include

/-- combined line `l` really is line `loc.line` of file `loc.file`, and is not an include line -/
def Good (fs : FS) (l : String) (loc : Loc) : Prop :=
  ∃ text, fs.lookup loc.file = some text ∧ (linesOf text)[loc.line]? = some l ∧ isIncludeLine l = false

/-- line-by-line provenance of a resolver result (also forces equal lengths) -/
def Prov (fs : FS) : List String → List Loc → Prop
  | [], [] => True
  | l :: ls, loc :: ms => Good fs l loc ∧ Prov fs ls ms
  | _, _ => False

theorem Prov.append {fs : FS} : ∀ {a : List String} {ma : List Loc} {b : List String} {mb : List Loc},
    Prov fs a ma → Prov fs b mb → Prov fs (a ++ b) (ma ++ mb)
  | [], [], _, _, _, hb => by simpa using hb
  | [], _ :: _, _, _, ha, _ => by simp [Prov] at ha
  | _ :: _, [], _, _, ha, _ => by simp [Prov] at ha
  | l :: ls, loc :: ms, b, mb, ha, hb => by
    simp only [Prov] at ha
    simp only [List.cons_append, Prov]
    exact ⟨ha.1, Prov.append ha.2 hb⟩

theorem Prov.length {fs : FS} : ∀ {a : List String} {ma : List Loc}, Prov fs a ma → ma.length = a.length
  | [], [], _ => rfl
  | [], _ :: _, h => by simp [Prov] at h
  | _ :: _, [], h => by simp [Prov] at h
  | _ :: ls, _ :: ms, h => by
    simp only [Prov] at h
    simp [Prov.length h.2]

theorem Prov.get {fs : FS} : ∀ {a : List String} {ma : List Loc}, Prov fs a ma →
    ∀ (i : Nat) (l : String) (loc : Loc), a[i]? = some l → ma[i]? = some loc → Good fs l loc
  | [], [], _, i, l, loc, h1, _ => by simp at h1
  | [], _ :: _, h, _, _, _, _, _ => by simp [Prov] at h
  | _ :: _, [], h, _, _, _, _, _ => by simp [Prov] at h
  | x :: ls, y :: ms, h, i, l, loc, h1, h2 => by
    simp only [Prov] at h
    cases i with
    | zero =>
      simp only [List.getElem?_cons_zero, Option.some.injEq] at h1 h2
      subst h1; subst h2; exact h.1
    | succ i =>
      simp only [List.getElem?_cons_succ] at h1 h2
      exact Prov.get h.2 i l loc h1 h2

/-- the loop over one file's lines, given that recursive resolution at this depth is sound -/
theorem resolveLines_prov (fs : FS) (fuel : Nat)
    (hres : ∀ path seen r, resolve fs fuel path seen = .ok r → Prov fs r.1 r.2)
    (path : Path) (seen : List Path) (text : String) (htext : fs.lookup path = some text) :
    ∀ (lines : List String) (idx : Nat) (r : List String × List Loc),
      (linesOf text).drop idx = lines → resolveLines fs fuel path seen lines idx = .ok r → Prov fs r.1 r.2 := by
  intro lines
  induction lines with
  | nil =>
    intro idx r _ h
    rw [resolveLines] at h
    simp only [Except.ok.injEq] at h; subst h; simp [Prov]
  | cons l rest ih =>
    intro idx r hdrop h
    have hl : (linesOf text)[idx]? = some l := by
      have := congrArg (fun x => x[0]?) hdrop
      simpa [List.getElem?_drop] using this
    have hrest : (linesOf text).drop (idx + 1) = rest := by
      have := congrArg List.tail hdrop
      simpa [List.tail_drop] using this
    rw [resolveLines] at h
    split at h
    · -- an include line
      rename_i hinc
      dsimp only at h
      split at h
      · cases h
      · split at h
        · cases h
        · split at h
          · cases h
          · rename_i ls1 m1 hr
            split at h
            · cases h
            · rename_i ls2 m2 hl2
              simp only [Except.ok.injEq] at h; subst h
              exact Prov.append (hres _ _ _ hr) (ih (idx + 1) _ hrest hl2)
    · rename_i hinc
      split at h
      · cases h
      · rename_i ls2 m2 hl2
        simp only [Except.ok.injEq] at h; subst h
        simp only [Prov]
        exact ⟨⟨text, htext, hl, by simpa using hinc⟩, ih (idx + 1) _ hrest hl2⟩

/-- **exact provenance, any include graph, any depth**: whenever resolution succeeds, every line of
the combined text is literally the attributed line of the attributed file, is not an `@include`
line, and the line map has exactly one entry per combined line -/
theorem resolve_provenance (fs : FS) : ∀ (fuel : Nat) (path : Path) (seen : List Path) (r : List String × List Loc),
    resolve fs fuel path seen = .ok r → Prov fs r.1 r.2 := by
  intro fuel
  induction fuel with
  | zero => intro path seen r h; rw [resolve] at h; cases h
  | succ fuel ih =>
    intro path seen r h
    rw [resolve] at h
    split at h
    · cases h
    · split at h
      · cases h
      · rename_i text htext
        exact resolveLines_prov fs fuel ih path (path :: seen) text htext (linesOf text) 0 r (by simp) h

theorem resolve_len (fs : FS) (root : Path) (ls : List String) (map : List Loc)
    (h : resolveRoot fs root = .ok (ls, map)) : map.length = ls.length :=
  Prov.length (resolve_provenance fs _ root [] (ls, map) h)

/-- a file already on the current include branch is rejected (`ValueError`), at any depth -/
theorem resolve_cycle (fs : FS) (fuel : Nat) (path : Path) (seen : List Path) (h : seen.contains path = true) :
    resolve fs (fuel + 1) path seen = .error (.circular path) := by
  rw [resolve]
  have : (path ∈ seen) := by simpa using h
  simp [this]

/-- a missing file is reported (`FileNotFoundError`) -/
theorem resolve_missing (fs : FS) (fuel : Nat) (path : Path) (seen : List Path)
    (hs : seen.contains path = false) (h : fs.lookup path = none) :
    resolve fs (fuel + 1) path seen = .error (.notFound path) := by
  rw [resolve]
  have : ¬ (path ∈ seen) := by simpa using hs
  simp [this, h]

/-- **C14, the header of every diagnostic**: a call site that passes the 0-based index `i` of the
offending combined line makes `format_error` name exactly the file and 1-based line on which that
line stands in the file the author wrote — in the main file, in an included file, or after included
content, for every include graph -/
theorem display_origin (fs : FS) (root fn : Path) (ls : List String) (map : List Loc)
    (h : resolveRoot fs root = .ok (ls, map)) (i : Nat) (l : String) (hi : ls[i]? = some l) :
    ∃ text, fs.lookup (display map fn i).1 = some text ∧
      (linesOf text)[(display map fn i).2 - 1]? = some l ∧ 1 ≤ (display map fn i).2 := by
  have hp := resolve_provenance fs _ root [] (ls, map) h
  have hlen : map.length = ls.length := Prov.length hp
  have hlt : i < map.length := by
    have : i < ls.length := by
      rcases Nat.lt_or_ge i ls.length with h' | h'
      · exact h'
      · rw [List.getElem?_eq_none h'] at hi; cases hi
    omega
  have hm : map[i]? = some map[i] := List.getElem?_eq_getElem hlt
  obtain ⟨text, h1, h2, _⟩ := Prov.get hp i l map[i] hi hm
  refine ⟨text, ?_, ?_, ?_⟩ <;> simp only [display, hm] <;> first | exact h1 | simpa using h2 | omega

end Bardic.Include
