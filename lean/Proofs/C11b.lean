import Bardic.Parser.Content
import Proofs.C17
/-!
# C11 / C17 — the content tokenizer: its recursion is bounded by the length of the line; a trailing
comment does not change its result
-/
namespace Bardic.Parser

theorem lstripL_length (l : List Char) : (lstripL l).length ≤ l.length := by
  induction l with
  | nil => simp [lstripL]
  | cons c r ih => unfold lstripL; split <;> simp <;> omega

theorem rstripL_length (l : List Char) : (rstripL l).length ≤ l.length := by
  unfold rstripL
  have := lstripL_length l.reverse
  simp at this ⊢
  exact this

theorem stripL_length (l : List Char) : (stripL l).length ≤ l.length := by
  unfold stripL
  exact Nat.le_trans (rstripL_length _) (lstripL_length _)

theorem strip_length_aux : ∀ (n : Nat) (l : List Char), l.length ≤ n → (strip l).1.length ≤ l.length := by
  intro n
  induction n with
  | zero =>
    intro l h
    have : l = [] := List.eq_nil_of_length_eq_zero (by omega)
    subst this; simp [strip]
  | succ n ih =>
    intro l h
    rw [strip.eq_def]
    split
    · rename_i r
      simp only [List.length_cons] at h ⊢
      have := ih r (by omega)
      omega
    · rename_i r
      simp only [List.length_cons] at h ⊢
      have := ih r (by omega)
      omega
    · simp
    · rename_i c r h1 h2 h3
      simp only [List.length_cons] at h ⊢
      have := ih r (by omega)
      omega
    · simp

theorem strip_length (l : List Char) : (strip l).1.length ≤ l.length := strip_length_aux l.length l (Nat.le_refl _)

theorem length_takeWhile_le' {α} (p : α → Bool) (l : List α) : (l.takeWhile p).length ≤ l.length :=
  (List.takeWhile_sublist p).length_le

theorem tagMatch_pos (cs m : List Char) (h : tagMatch cs = some m) : 1 ≤ m.length := by
  unfold tagMatch at h
  split at h
  · dsimp only at h
    split at h
    · cases h
    · split at h
      · split at h <;> (cases h; simp)
      · cases h; simp
  · cases h

theorem tagMatch_le (cs m : List Char) (h : tagMatch cs = some m) : m.length ≤ cs.length := by
  cases cs with
  | nil => simp [tagMatch] at h
  | cons c r =>
    by_cases hc : c = '^'
    · subst hc
      simp only [tagMatch] at h
      have hw := length_takeWhile_le' isWord r
      split at h
      · cases h
      · split at h
        · rename_i r3 hr3
          have hd : (r.drop (List.takeWhile isWord r).length).length = r3.length + 1 := by rw [hr3]; simp
          simp only [List.length_drop] at hd
          have hp3 := length_takeWhile_le' (fun c => isWord c || c == '-') r3
          split at h <;> (cases h; simp only [List.length_cons, List.length_append]; omega)
        · cases h; simp only [List.length_cons]; omega
    · unfold tagMatch at h
      split at h
      · rename_i r' heq; cases heq; exact absurd rfl hc
      · cases h

/-- the line that `parse_tags` returns is never longer than the one it was given -/
theorem parseTagsGo_length : ∀ (n : Nat) (cs : List Char) (d : Int) (kept : List Char) (tags : List (List Char)),
    (parseTagsGo n cs d kept tags).1.length ≤ kept.length + cs.length
  | 0, cs, d, kept, tags => by simp [parseTagsGo]
  | n + 1, [], d, kept, tags => by simp [parseTagsGo]
  | n + 1, c :: r, d, kept, tags => by
      unfold parseTagsGo
      split
      · rename_i m hm
        dsimp only
        have hp := tagMatch_pos _ _ hm
        split
        · have := parseTagsGo_length n ((c :: r).drop m.length)
            (m.foldl (fun d x => if x == '{' then d + 1 else if x == '}' then d - 1 else d) d) kept (m.drop 1 :: tags)
          simp only [List.length_drop, List.length_cons] at this ⊢
          omega
        · have := parseTagsGo_length n ((c :: r).drop m.length)
            (m.foldl (fun d x => if x == '{' then d + 1 else if x == '}' then d - 1 else d) d) (m.reverse ++ kept) tags
          have hm2 : m.length ≤ (c :: r).length := tagMatch_le _ _ hm
          simp only [List.length_drop, List.length_cons, List.length_append, List.length_reverse] at this hm2 ⊢
          omega
      · dsimp only
        have := parseTagsGo_length n r (if c == '{' then d + 1 else if c == '}' then d - 1 else d) (c :: kept) tags
        simp only [List.length_cons] at this ⊢
        omega

theorem parseTags_length (line : List Char) : (parseTags line).1.length ≤ line.length := by
  unfold parseTags
  have := parseTagsGo_length (line.length + 1) line 0 [] []
  generalize parseTagsGo (line.length + 1) line 0 [] [] = x at this
  obtain ⟨l, tags⟩ := x
  dsimp only at this ⊢
  split
  · exact Nat.le_refl _
  · have := rstripL_length l
    simp only [List.length_nil, Nat.zero_add] at *
    omega

/-- every part that `split_expressions_with_depth` yields is a piece of the text -/
theorem splitGo_length : ∀ (cs cur : List Char) (depth : Nat) (res : List (List Char)) (N : Nat)
    (r : List (List Char)) (c2 : List Char),
    (∀ p ∈ res, p.length ≤ N) → cur.length + cs.length ≤ N → splitGo cs cur depth res = .ok (r, c2) →
    (∀ p ∈ r, p.length ≤ N) ∧ c2.length ≤ N
  | [], cur, depth, res, N, r, c2, hres, hcur, h => by
      unfold splitGo at h
      split at h
      · cases h
      · cases h
        exact ⟨by simpa using hres, by simpa using hcur⟩
  | c :: rest, cur, depth, res, N, r, c2, hres, hcur, h => by
      unfold splitGo at h
      simp only [List.length_cons] at hcur
      split at h
      · split at h
        · refine splitGo_length rest ['{'] 1 (cur.reverse :: res) N r c2 ?_ ?_ h
          · intro p hp
            rcases List.mem_cons.mp hp with e | e
            · subst e; simp; omega
            · exact hres p e
          · simp; omega
        · exact splitGo_length rest (c :: cur) (depth + 1) res N r c2 hres (by simp; omega) h
      · split at h
        · split at h
          · cases h
          · split at h
            · refine splitGo_length rest [] 0 (('}' :: cur).reverse :: res) N r c2 ?_ ?_ h
              · intro p hp
                rcases List.mem_cons.mp hp with e | e
                · subst e; simp; omega
                · exact hres p e
              · simp; omega
            · exact splitGo_length rest (c :: cur) (depth - 1) res N r c2 hres (by simp; omega) h
        · exact splitGo_length rest (c :: cur) depth res N r c2 hres (by simp; omega) h

theorem splitExprs_length (t : List Char) (parts : List (List Char)) (h : splitExprs t = .ok parts) :
    ∀ p ∈ parts, p.length ≤ t.length := by
  unfold splitExprs at h
  split at h
  · cases h
  · rename_i res cur hg
    have := splitGo_length t [] 0 [] t.length res cur (by simp) (by simp) hg
    split at h
    · cases h
      intro p hp
      rcases List.mem_append.mp hp with e | e
      · exact this.1 p e
      · simp at e; subst e; exact this.2
    · cases h
      exact this.1

/-- **the tokenizer's recursion is bounded by the length of the line**: with fuel above the length of the line
the recursive descent into the branches of inline conditionals never runs out — `parse_content_line`
terminates on every input, however the braces nest -/
theorem contentLine_fuel : ∀ (fuel : Nat),
    (∀ b (line : List Char), line.length < fuel → contentLine fuel b line ≠ .outOfFuel) ∧
    (∀ parts : List (List Char), (∀ p ∈ parts, p.length ≤ fuel) → contentParts fuel parts ≠ .outOfFuel) ∧
    (∀ expr : List Char, expr.length < fuel → inlineCond fuel expr ≠ some .outOfFuel) := by
  intro fuel
  induction fuel with
  | zero =>
    refine ⟨fun b line h => by omega, ?_, fun e h => by omega⟩
    intro parts
    induction parts with
    | nil => intro _; simp [contentParts]
    | cons p rest ih =>
      intro h
      have hp : p.length = 0 := by have := h p (by simp); omega
      have hp' : p = [] := List.eq_nil_of_length_eq_zero hp
      subst hp'
      have := ih (fun q hq => h q (by simp [hq]))
      unfold contentParts
      simp
      cases hc : contentParts 0 rest with
      | ok more => simp
      | diag d => simp
      | outOfFuel => exact absurd hc this
  | succ f ih =>
    obtain ⟨ihL, ihP, ihC⟩ := ih
    -- inline conditionals at fuel f+1 need lines at fuel f+1: prove lines first from parts at f
    have hL : ∀ b (line : List Char), line.length < f + 1 → contentLine (f + 1) b line ≠ .outOfFuel := by
      intro b line hlen
      unfold contentLine
      dsimp only
      generalize hl1 : (if b = true then (if (strip line).2.isEmpty = true then (strip line).1 else rstripL (strip line).1) else line) = line1
      have h1 : line1.length ≤ line.length := by
        subst hl1
        split
        · split
          · exact strip_length line
          · exact Nat.le_trans (rstripL_length _) (strip_length line)
        · exact Nat.le_refl _
      have h2 := parseTags_length line1
      generalize parseTags line1 = pt at h2
      obtain ⟨lwt, tags⟩ := pt
      dsimp only at h2 ⊢
      cases hs : splitExprs lwt with
      | error e => simp
      | ok parts =>
        have hp := splitExprs_length lwt parts hs
        have := ihP parts (fun p hp' => by have := hp p hp'; omega)
        simp only
        cases hc : contentParts f parts with
        | ok toks => simp
        | diag d => simp
        | outOfFuel => exact absurd hc this
    have hC : ∀ expr : List Char, expr.length < f + 1 → inlineCond (f + 1) expr ≠ some .outOfFuel := by
      intro expr hlen
      unfold inlineCond
      split
      · simp
      · split
        · simp
        · rename_i q hq
          dsimp only
          split
          · simp
          · rename_i p hp
            have ht : (stripL ((expr.drop (q + 1)).take p)).length < f + 1 := by
              have := stripL_length ((expr.drop (q + 1)).take p)
              simp only [List.length_take, List.length_drop] at this
              omega
            have hf : (stripL ((expr.drop (q + 1)).drop (p + 1))).length < f + 1 := by
              have := stripL_length ((expr.drop (q + 1)).drop (p + 1))
              simp only [List.length_drop] at this
              omega
            have h1 := hL false _ ht
            have h2 := hL false _ hf
            generalize htr : (if (stripL ((expr.drop (q + 1)).take p)).isEmpty = true then ContentRes.ok [] else contentLine (f + 1) false (stripL ((expr.drop (q + 1)).take p))) = tr
            generalize hfr : (if (stripL ((expr.drop (q + 1)).drop (p + 1))).isEmpty = true then ContentRes.ok [] else contentLine (f + 1) false (stripL ((expr.drop (q + 1)).drop (p + 1)))) = fr
            have htr' : tr ≠ .outOfFuel := by subst htr; split; simp; exact h1
            have hfr' : fr ≠ .outOfFuel := by subst hfr; split; simp; exact h2
            cases tr <;> cases fr <;> simp_all
    refine ⟨hL, ?_, hC⟩
    intro parts
    induction parts with
    | nil => intro _; simp [contentParts]
    | cons p rest ihr =>
      intro h
      have hrest := ihr (fun q hq => h q (by simp [hq]))
      have hp := h p (by simp)
      unfold contentParts
      dsimp only
      have htok : ∀ tok : ContentRes, tok ≠ .outOfFuel →
          (match tok with
            | .ok ts => (match contentParts (f + 1) rest with | .ok more => ContentRes.ok (ts ++ more) | r => r)
            | r => r) ≠ .outOfFuel := by
        intro tok ht
        cases tok with
        | ok ts =>
          simp only
          cases hc : contentParts (f + 1) rest with
          | ok more => simp
          | diag d => simp
          | outOfFuel => exact absurd hc hrest
        | diag d => simp
        | outOfFuel => exact absurd rfl ht
      apply htok
      split
      · rename_i hcond
        have hlen : ((p.drop 1).dropLast).length < f + 1 := by
          simp only [Bool.and_eq_true, decide_eq_true_eq] at hcond
          simp only [List.length_dropLast, List.length_drop]
          omega
        have := hC _ hlen
        cases hi : inlineCond (f + 1) ((p.drop 1).dropLast) with
        | none => simp
        | some r =>
          simp only
          intro hr
          rw [hr] at hi
          exact this hi
      · split <;> simp

theorem parseContentLine_terminates (line : List Char) : parseContentLine line ≠ .outOfFuel :=
  (contentLine_fuel (line.length + 1)).1 true line (Nat.lt_succ_self _)

/-! ## a trailing comment is invisible to the tokenizer -/

theorem lstripL_ws_cons (l : List Char) : lstripL (' ' :: l) = lstripL l := by
  simp [lstripL, isPyWs]

theorem rstripL_append_space (l : List Char) : rstripL (l ++ [' ']) = rstripL l := by
  simp [rstripL, lstripL_ws_cons]

/-- **a trailing `// comment` (and the blank before it) does not change what a content line compiles to** — for
every line without slashes or backslashes that does not itself end in a blank, every comment text, at any fuel -/
theorem contentLine_comment_invisible (fuel : Nat) (l c : List Char) (hl : NoSlash l) (hr : rstripL l = l)
    (hc : c.head? ≠ some '=') :
    contentLine fuel true (l ++ ' ' :: '/' :: '/' :: c) = contentLine fuel true l := by
  cases fuel with
  | zero => simp [contentLine]
  | succ f =>
    unfold contentLine
    simp only [strip_comment_suffix l c hl hc, strip_noslash l hl, if_true, List.isEmpty_nil,
      List.isEmpty_cons, Bool.false_eq_true, if_false, rstripL_append_space, hr]

end Bardic.Parser
