import Proofs.C07
/-!
# C05 — save / load

`save` is a read (see `read_noop`).  `load_state` validates first and rejects malformed documents and
unknown passages leaving everything untouched; once it accepts, it installs variables (through the
value codec), used choices and hooks from the document, clears both history stacks and re-enters the
saved passage with `goto`.  (That re-entry re-runs the passage's commands — recorded finding C05-F1;
`load_installs` states exactly what the code does.)
-/
namespace Bardic
variable {S : Sem}

/-- `save_state()` has no effect on the running game -/
theorem save_noop (c : ECfg S) (e : Eng S.V) : (step c e .save).1 = e := rfl

/-- malformed documents are rejected with `ValueError`, nothing changes -/
theorem load_rejects_malformed (c : ECfg S) (e : Eng S.V) :
    (∃ m, step c e (.load .notDict) = (e, .raised ⟨.valueError, m⟩)) ∧
    (∀ d, ∃ m, step c e (.load (.noVersion d)) = (e, .raised ⟨.valueError, m⟩)) :=
  ⟨⟨_, rfl⟩, fun _ => ⟨_, rfl⟩⟩

/-- a document pointing at an unknown passage is rejected with `ValueError`, nothing changes -/
theorem load_rejects_unknown_passage (c : ECfg S) (e : Eng S.V) (d : SaveDoc S.V)
    (h : c.story.passage? (d.cur.getD "Start") = none) :
    ∃ m, step c e (.load (.doc d)) = (e, .raised ⟨.valueError, m⟩) := by
  simp only [step, Eng.doLoad, h, Option.isNone_none, if_true]
  exact ⟨_, rfl⟩

/-- once accepted, loading clears undo and redo history — whether the re-entry succeeds or raises -/
theorem load_clears_history (c : ECfg S) (e : Eng S.V) (d : SaveDoc S.V)
    (h : (c.story.passage? (d.cur.getD "Start")).isSome) :
    (step c e (.load (.doc d))).1.undo = [] ∧ (step c e (.load (.doc d))).1.redo = [] := by
  have hn : (c.story.passage? (d.cur.getD "Start")).isNone = false := by
    cases hp : c.story.passage? (d.cur.getD "Start") <;> simp_all
  simp only [step, Eng.doLoad, hn, Bool.false_eq_true, if_false]
  split <;> exact ⟨rfl, rfl⟩

/-- what an accepted load installs before navigating: the document's variables through the value
codec (then the story's import bindings), its used choices as a set, its hooks; and the used choices
are not touched by the navigation that follows -/
theorem load_installs_used (c : ECfg S) (hv : c.variant = .main) (e : Eng S.V) (d : SaveDoc S.V)
    (h : (c.story.passage? (d.cur.getD "Start")).isSome) :
    (step c e (.load (.doc d))).1.live.used = d.used.eraseDups := by
  have hn : (c.story.passage? (d.cur.getD "Start")).isNone = false := by
    cases hp : c.story.passage? (d.cur.getD "Start") <;> simp_all
  simp only [step, Eng.doLoad, hn, Bool.false_eq_true, if_false, hv]
  split <;> rename_i hg <;> exact (SameFrame.of_eq_fst hg (goto_frame c _ _ _)).used

/-- `save` lists the used one-time choices in sorted order (deterministic across processes) and the
document is exactly the live position / variables / hooks -/
theorem save_doc (c : ECfg S) (hv : c.variant = .main) (e : Eng S.V) :
    (step c e .save).2 = .doc ⟨e.live.cur, e.live.vars, sortStrs e.live.used, e.live.hooks⟩ := by
  simp [step, Eng.doSave, hv]

end Bardic
