import Proofs.C08
import Proofs.C15
/-!
# C03 — entering a passage runs its commands once, in source order, after the entry is recorded
# C08 — the chain loop of `goto` always ends through its own visited check, never through the bound
-/
namespace Bardic
variable {S : Sem}

/-- the events the commands of a passage leave in the log, in source order -/
def cmdEvents (v : Variant) : List Tok → List Ev
  | [] => []
  | .stmt code :: cs => Ev.exec code :: cmdEvents v cs
  | .pyblock code :: cs => Ev.exec code :: cmdEvents v cs
  | .hook add ev tgt :: cs =>
    (match v with | .main => [Ev.hookReg add ev tgt] | .browser => []) ++ cmdEvents v cs
  | _ :: cs => cmdEvents v cs

theorem execStmt_log (cfg : RCfg S) (code : String) (rs : RS S.V) :
    (execStmt S cfg code rs).1.log = Ev.exec code :: rs.log := by
  unfold execStmt; dsimp only; split <;> rfl

theorem execBlock_log (cfg : RCfg S) (code : String) (rs : RS S.V) :
    (execBlock S cfg code rs).1.log = Ev.exec code :: rs.log := by
  unfold execBlock; dsimp only; split <;> rfl

/-- **commands run once each, in source order**: when `_execute_commands` succeeds, the log has grown by exactly one
event per command, in the order of the list (the log is newest-first) -/
theorem execCommands_log (cfg : RCfg S) : ∀ (cmds : List Tok) (rs rs' : RS S.V),
    execCommands cfg cmds rs = (rs', .ok ()) → rs'.log = (cmdEvents cfg.variant cmds).reverse ++ rs.log := by
  intro cmds
  induction cmds with
  | nil => intro rs rs' h; simp only [execCommands, Prod.mk.injEq] at h; simp [cmdEvents, ← h.1]
  | cons t cs ih =>
    intro rs rs' h
    cases t with
    | stmt code =>
      simp only [execCommands] at h
      have hl := execStmt_log cfg code rs
      generalize execStmt S cfg code rs = r at h hl
      obtain ⟨rs1, x⟩ := r
      cases x with
      | error e => simp at h
      | ok _ =>
        simp only at h hl
        rw [ih rs1 rs' h, hl]; simp [cmdEvents]
    | pyblock code =>
      simp only [execCommands] at h
      have hl := execBlock_log cfg code rs
      generalize execBlock S cfg code rs = r at h hl
      obtain ⟨rs1, x⟩ := r
      cases x with
      | error e => simp at h
      | ok _ =>
        simp only at h hl
        rw [ih rs1 rs' h, hl]; simp [cmdEvents]
    | hook add ev tgt =>
      simp only [execCommands] at h
      rw [ih _ rs' h]
      unfold execHook
      cases hv : cfg.variant <;> simp [cmdEvents, hv]
    | text _ _ => simp only [execCommands] at h; rw [ih rs rs' h]; simp [cmdEvents]
    | expr _ => simp only [execCommands] at h; rw [ih rs rs' h]; simp [cmdEvents]
    | inlineCond _ _ _ => simp only [execCommands] at h; rw [ih rs rs' h]; simp [cmdEvents]
    | render _ _ _ => simp only [execCommands] at h; rw [ih rs rs' h]; simp [cmdEvents]
    | input _ => simp only [execCommands] at h; rw [ih rs rs' h]; simp [cmdEvents]
    | cond _ => simp only [execCommands] at h; rw [ih rs rs' h]; simp [cmdEvents]
    | loop _ _ _ _ => simp only [execCommands] at h; rw [ih rs rs' h]; simp [cmdEvents]
    | jump _ _ => simp only [execCommands] at h; rw [ih rs rs' h]; simp [cmdEvents]
    | joinMarker => simp only [execCommands] at h; rw [ih rs rs' h]; simp [cmdEvents]
    | other _ => simp only [execCommands] at h; rw [ih rs rs' h]; simp [cmdEvents]

/-- **entering a passage**: a successful `_execute_passage` records the entry once and then one event per command, in
source order — and nothing else (no text is rendered before the commands have run: rendering happens after this
call returns) -/
theorem executePassage_log (c : ECfg S) (pid : String) (l l' : Live S.V) (j : Option String) (p : Passage)
    (hp : c.story.passage? pid = some p) (h : executePassage c pid l = (l', .ok j)) :
    l'.log = (cmdEvents c.variant p.execute).reverse ++ Ev.enter pid :: l.log := by
  unfold executePassage at h
  simp only [hp] at h
  split at h
  · cases h
  · rename_i rs1 u hx
    simp only [Prod.mk.injEq, Except.ok.injEq] at h
    have := execCommands_log _ _ _ _ (by cases u; exact hx)
    rw [← h.1]
    simpa [Live.withRS, Live.rs, Live.rcfg] using this

end Bardic

namespace Bardic
variable {S : Sem}

/-- pigeonhole on association lists: distinct keys that all have an entry are no more than the entries -/
theorem keys_le_length {α} : ∀ (ps : List (String × α)) (ks : List String), ks.Nodup →
    (∀ k ∈ ks, (ps.lookup k).isSome = true) → ks.length ≤ ps.length := by
  intro ps
  induction ps with
  | nil =>
    intro ks _ h
    cases ks with
    | nil => exact Nat.le_refl _
    | cons k r => have := h k (by simp); simp [List.lookup] at this
  | cons kv rest ih =>
    intro ks hnd h
    obtain ⟨k0, v0⟩ := kv
    have hsub : (ks.erase k0).length ≤ rest.length := by
      apply ih _ (hnd.sublist List.erase_sublist)
      intro k hk
      have hk' : k ∈ ks := List.mem_of_mem_erase hk
      have hne : k ≠ k0 := by
        intro e; subst e
        exact (List.Nodup.mem_erase_iff hnd).mp hk |>.1 rfl
      have := h k hk'
      simp only [List.lookup] at this
      have hb : (k == k0) = false := by simpa using hne
      simpa [hb] using this
    have hlen : ks.length ≤ (ks.erase k0).length + 1 := by
      rw [List.length_erase]; split <;> omega
    simp only [List.length_cons]
    omega

/-- the error the chain loop would give if its bound ran out -/
def boundExhausted : Exc := ⟨.other, "internal: chain bound exhausted"⟩

theorem okKind_ne_bound (e : Exc) (h : OkKind e) : e ≠ boundExhausted := by
  intro he; subst he
  rcases h with h | h <;> simp [boundExhausted] at h

theorem execCommands_errOk (cfg : RCfg S) : ∀ (cmds : List Tok) (rs : RS S.V), ErrOk (execCommands cfg cmds rs) := by
  intro cmds
  induction cmds with
  | nil => intro rs e h; simp [execCommands] at h
  | cons t cs ih =>
    intro rs e h
    cases t with
    | stmt code =>
      simp only [execCommands] at h
      have hk := execStmt_errKind cfg code rs
      generalize execStmt S cfg code rs = r at h hk
      obtain ⟨rs1, x⟩ := r
      cases x with
      | error e1 => simp only [Except.error.injEq] at h; subst h; exact Or.inl (hk _ rfl)
      | ok _ => exact ih rs1 e h
    | pyblock code =>
      simp only [execCommands] at h
      have hk := execBlock_errKind cfg code rs
      generalize execBlock S cfg code rs = r at h hk
      obtain ⟨rs1, x⟩ := r
      cases x with
      | error e1 => simp only [Except.error.injEq] at h; subst h; exact Or.inl (hk _ rfl)
      | ok _ => exact ih rs1 e h
    | hook add ev tgt => simp only [execCommands] at h; exact ih _ e h
    | text _ _ => simp only [execCommands] at h; exact ih _ e h
    | expr _ => simp only [execCommands] at h; exact ih _ e h
    | inlineCond _ _ _ => simp only [execCommands] at h; exact ih _ e h
    | render _ _ _ => simp only [execCommands] at h; exact ih _ e h
    | input _ => simp only [execCommands] at h; exact ih _ e h
    | cond _ => simp only [execCommands] at h; exact ih _ e h
    | loop _ _ _ _ => simp only [execCommands] at h; exact ih _ e h
    | jump _ _ => simp only [execCommands] at h; exact ih _ e h
    | joinMarker => simp only [execCommands] at h; exact ih _ e h
    | other _ => simp only [execCommands] at h; exact ih _ e h

theorem renderChoiceText_errOk (cfg : RCfg S) (hv : cfg.variant = .main) (ch : Choice) (pre : Option String) (rs : RS S.V) :
    ErrOk (renderChoiceText cfg ch pre rs) := by
  intro e h
  unfold renderChoiceText at h
  split at h
  · simp at h
  · have hk := renderToks_errOk cfg hv ch.text rs
    generalize renderToks S cfg ch.text rs = r at h hk
    obtain ⟨rs1, x⟩ := r
    cases x with
    | error e1 => simp only [Except.error.injEq] at h; subst h; exact hk _ rfl
    | ok _ => simp at h

theorem isAvail_errOk (cfg : RCfg S) (hv : cfg.variant = .main) (cur : Option String) (used : List String) (ch : Choice)
    (pre : Option String) (rs : RS S.V) : ErrOk (isAvail cfg cur used ch pre rs) := by
  intro e h
  unfold isAvail at h
  dsimp only at h
  split at h
  · have hk := renderChoiceText_errOk cfg hv ch pre rs
    generalize renderChoiceText cfg ch pre rs = r at h hk
    obtain ⟨rs1, x⟩ := r
    cases x with
    | error e1 => simp only [Except.error.injEq] at h; subst h; exact hk _ rfl
    | ok t => simp only at h; split at h <;> simp at h
  · simp at h

theorem offerChoices_errOk (cfg : RCfg S) (hv : cfg.variant = .main) (cur : Option String) (used : List String)
    (secOk : Choice → Bool) : ∀ (all : List (Choice × Option String × Bool)) (rs : RS S.V),
    ErrOk (offerChoices cfg cur used secOk all rs) := by
  intro all
  induction all with
  | nil => intro rs e h; simp [offerChoices] at h
  | cons x rest ih =>
    intro rs e h
    obtain ⟨ch, pre, blk⟩ := x
    unfold offerChoices at h
    have hk := isAvail_errOk cfg hv cur used ch pre rs
    generalize isAvail cfg cur used ch pre rs = r at h hk
    obtain ⟨rs1, x⟩ := r
    cases x with
    | error e1 => simp only [Except.error.injEq] at h; subst h; exact hk _ rfl
    | ok av =>
      simp only at h
      split at h
      · have hk2 := renderChoiceText_errOk cfg hv ch pre rs1
        generalize renderChoiceText cfg ch pre rs1 = r2 at h hk2
        obtain ⟨rs2, x2⟩ := r2
        cases x2 with
        | error e1 => simp only [Except.error.injEq] at h; subst h; exact hk2 _ rfl
        | ok t =>
          simp only at h
          have hk3 := ih rs2
          generalize offerChoices cfg cur used secOk rest rs2 = r3 at h hk3
          obtain ⟨rs3, x3⟩ := r3
          cases x3 with
          | error e1 => simp only [Except.error.injEq] at h; subst h; exact hk3 _ rfl
          | ok os => simp at h
      · exact ih rs1 e h

theorem renderPassage_errOk (c : ECfg S) (hv : c.variant = .main) (pid : String) (l : Live S.V) :
    ∀ e, (renderPassage c pid l).2 = .error e → OkKind e := by
  intro e h
  unfold renderPassage at h
  split at h
  · simp only [Except.error.injEq] at h; subst h; exact Or.inr rfl
  · dsimp only at h
    have hk := renderToks_errOk (Live.rcfg c l) hv ‹Passage›.content l.rs
    generalize renderToks S (Live.rcfg c l) ‹Passage›.content l.rs = r at h hk
    obtain ⟨rs1, x⟩ := r
    cases x with
    | error e1 => simp only [Except.error.injEq] at h; subst h; exact hk _ rfl
    | ok ro =>
      simp only at h
      split at h
      · rename_i rs2 e2 ho
        simp only [Except.error.injEq] at h; subst h
        exact offerChoices_errOk (Live.rcfg c l) hv _ _ _ _ _ _ (by rw [ho])
      · simp at h

theorem executePassage_errOk (c : ECfg S) (pid : String) (l : Live S.V) :
    ∀ e, (executePassage c pid l).2 = .error e → OkKind e := by
  intro e h
  unfold executePassage at h
  split at h
  · simp only [Except.error.injEq] at h; subst h; exact Or.inr rfl
  · dsimp only at h
    split at h
    · rename_i rs1 e1 hx
      simp only [Except.error.injEq] at h; subst h
      exact execCommands_errOk _ _ _ _ (by rw [hx])
    · simp at h

/-- **the chain loop of `goto` always ends through the engine's own visited check**: every passage of the chain exists
and is new, so there can be at most as many as the story has passages — the explicit bound of the model's loop
(passages + 1) is never what stops it.  Hence the real `while True` loop terminates too (by the same argument,
for every story, every state and every author code). -/
theorem gotoLoop_bound (c : ECfg S) (hv : c.variant = .main) (recur : String → Live S.V → NRes S (Output S.V))
    (hrec : ∀ spec l, (recur spec l).2 ≠ .error boundExhausted) :
    ∀ (n : Nat) (visited : List String) (cid : String) (accC : List String) (accD : List (Dir S.V)) (l : Live S.V),
      visited.Nodup → (∀ v ∈ visited, (c.story.passages.lookup v).isSome = true) →
      c.story.passages.length + 1 ≤ n + visited.length →
      (gotoLoop c recur n visited cid accC accD l).2 ≠ .error boundExhausted := by
  intro n
  induction n with
  | zero =>
    intro visited cid accC accD l hnd hex hlen
    have := keys_le_length c.story.passages visited hnd hex
    omega
  | succ n ih =>
    intro visited cid accC accD l hnd hex hlen
    unfold gotoLoop
    split
    · simp [boundExhausted]
    · rename_i hvis
      have hnv : cid ∉ visited := by simpa using hvis
      have hxe := executePassage_errOk c cid (markEntered c cid l)
      cases hx : executePassage c cid (markEntered c cid l) with
      | mk l2 x =>
        rw [hx] at hxe
        cases x with
        | error e =>
          simp only
          intro hcon
          simp only [Except.error.injEq] at hcon
          exact okKind_ne_bound e (hxe e rfl) hcon
        | ok j =>
          -- the passage exists: executePassage succeeded
          have hex' : (c.story.passages.lookup cid).isSome = true := by
            unfold executePassage at hx
            split at hx
            · cases hx
            · rename_i p hp; simp only [Story.passage?] at hp; simp [hp]
          cases j with
          | some spec =>
            simp only
            have := hrec spec l2
            generalize recur spec l2 = r at this ⊢
            obtain ⟨l3, y⟩ := r
            cases y with
            | error e => exact this
            | ok jo => simp only; split <;> simp
          | none =>
            simp only
            have hre := renderPassage_errOk c hv cid l2
            generalize renderPassage c cid l2 = r at hre ⊢
            obtain ⟨l3, y⟩ := r
            cases y with
            | error e =>
              simp only
              intro hcon
              simp only [Except.error.injEq] at hcon
              exact okKind_ne_bound e (hre e rfl) hcon
            | ok o =>
              simp only
              split
              · split
                · apply ih
                  · exact List.nodup_cons.mpr ⟨hnv, hnd⟩
                  · intro v hvm
                    rcases List.mem_cons.mp hvm with e | e
                    · subst e; exact hex'
                    · exact hex v e
                  · simp only [List.length_cons]; omega
                · simp
              · simp

theorem parseSpec_errKind (spec : String) (e : Exc) (h : parseSpec spec = .error e) : e.kind = .valueError := by
  unfold parseSpec at h
  split at h
  · cases h
  · split at h
    · cases h
    · cases h; rfl

theorem parseDirectiveArgs_errKind (ctx : Env S.V) (args : String) (e : Exc)
    (h : parseDirectiveArgs S ctx args = .error e) : e.kind = .valueError := by
  unfold parseDirectiveArgs at h
  split at h
  · cases h
  · split at h
    · cases h
    · cases h; rfl

theorem bindArgs_errKind (c : ECfg S) (l : Live S.V) : ∀ (ps : List Param) (ad : Env S.V) (k : Nat) (res : Env S.V) (e : Exc),
    bindArgs c l ps ad k res = .error e → e.kind = .valueError := by
  intro ps
  induction ps with
  | nil => intro ad k res e h; simp [bindArgs] at h
  | cons p ps ih =>
    intro ad k res e h
    unfold bindArgs at h
    split at h
    · exact ih _ _ _ _ h
    · split at h
      · split at h
        · cases h; rfl
        · exact ih _ _ _ _ h
      · split at h
        · split at h
          · exact ih _ _ _ _ h
          · cases h; rfl
        · cases h; rfl

/-- `goto` at any recursion depth never reports the exhausted bound -/
theorem goto_bound (c : ECfg S) (hv : c.variant = .main) : ∀ (fuel : Nat) (spec : String) (l : Live S.V),
    (goto c fuel spec l).2 ≠ .error boundExhausted := by
  intro fuel
  induction fuel with
  | zero => intro spec l; simp [goto, boundExhausted]
  | succ fuel ih =>
    intro spec l
    have hbody : ∀ pid l, (gotoBody c (goto c fuel) pid l).2 ≠ .error boundExhausted := by
      intro pid l
      unfold gotoBody
      rw [keepCurOnError_snd]
      exact gotoLoop_bound c hv _ ih (c.story.passages.length + 1) [] pid [] [] l List.nodup_nil (by simp) (by simp)
    have hval : ∀ e : Exc, e.kind = .valueError → e ≠ boundExhausted := by
      intro e he h; subst h; simp [boundExhausted] at he
    unfold goto
    split
    · rename_i e he
      simp only
      intro hcon
      simp only [Except.error.injEq] at hcon
      exact hval _ (parseSpec_errKind _ _ he) hcon
    · split
      · simp [boundExhausted, passageNotFound]
      · dsimp only
        split
        · exact hbody _ _
        · split
          · rename_i e he
            simp only
            intro hcon
            simp only [Except.error.injEq] at hcon
            exact hval _ (parseDirectiveArgs_errKind _ _ _ he) hcon
          · split
            · rename_i e he
              split
              · simp [boundExhausted]
              · rename_i hk
                exact absurd (by simp [bindArgs_errKind c l _ _ _ _ _ he]) hk
            · unfold withScope
              exact hbody _ _

end Bardic

namespace Bardic
variable {S : Sem}

theorem gotoBody_error_cur (c : ECfg S) (recur : String → Live S.V → NRes S (Output S.V)) (pid : String) (l : Live S.V)
    (e : Exc) (h : (gotoBody c recur pid l).2 = .error e) : (gotoBody c recur pid l).1.cur = l.cur := by
  unfold gotoBody keepCurOnError at h ⊢
  split
  · rfl
  · rename_i hne
    split at h
    · rename_i l' e' he
      exact absurd he (by intro hh; exact hne l' e' hh)
    · generalize gotoLoop c recur (c.story.passages.length + 1) [] pid [] [] l = r at h hne
      obtain ⟨l', x⟩ := r
      cases x with
      | error e' => exact absurd rfl (hne l' e')
      | ok o => simp at h

/-- **a navigation that fails leaves the position where it was**: whatever `goto` had entered before the failure, the
current passage afterwards is the one whose output is still displayed (so that a displayed `-> @join` choice, `undo`,
`save_state` … all speak about the same passage) -/
theorem goto_failed_keeps_position (c : ECfg S) (fuel : Nat) (spec : String) (l : Live S.V) (e : Exc)
    (h : (goto c fuel spec l).2 = .error e) : (goto c fuel spec l).1.cur = l.cur := by
  cases fuel with
  | zero => rfl
  | succ fuel =>
    unfold goto at h ⊢
    cases hps : parseSpec spec with
    | error e' => simp only [hps]
    | ok pa =>
      obtain ⟨pid, args⟩ := pa
      simp only [hps] at h ⊢
      cases hpp : c.story.passage? pid with
      | none => simp only [hpp]
      | some p =>
        simp only [hpp] at h ⊢
        by_cases hc : (p.params.isEmpty && args == "") = true
        · simp only [hc, if_true] at h ⊢
          exact gotoBody_error_cur c _ _ _ e h
        · simp only [hc, Bool.false_eq_true, if_false] at h ⊢
          cases hpd : parseDirectiveArgs S (evalCtx S c.cx l.vars l.scopes.head?) args with
          | error e' => simp only [hpd]
          | ok ad =>
            simp only [hpd] at h ⊢
            cases hb : bindArgs c l p.params ad 0 [] with
            | error e' => simp only [hb]; split <;> rfl
            | ok scope =>
              simp only [hb] at h ⊢
              unfold withScope at h ⊢
              have := gotoBody_error_cur c (goto c fuel) pid { l with scopes := scope :: l.scopes } e
              generalize gotoBody c (goto c fuel) pid { l with scopes := scope :: l.scopes } = r at h this ⊢
              obtain ⟨l', x⟩ := r
              exact this h

theorem gotoBody_error_join (c : ECfg S) (recur : String → Live S.V → NRes S (Output S.V)) (pid : String) (l : Live S.V)
    (e : Exc) (h : (gotoBody c recur pid l).2 = .error e) : (gotoBody c recur pid l).1.joinIdx = l.joinIdx := by
  unfold gotoBody at h ⊢
  rw [keepCurOnError_snd] at h
  exact keepCurOnError_joinIdx_error l _ e h

/-- **a navigation that fails part-way leaves the `@join` progress where it was**: what is displayed (the old output, a
later section of the passage) and the section the next `-> @join` choice continues from stay in step (C10, C15) -/
theorem goto_failed_keeps_join (c : ECfg S) (fuel : Nat) (spec : String) (l : Live S.V) (e : Exc)
    (h : (goto c fuel spec l).2 = .error e) : (goto c fuel spec l).1.joinIdx = l.joinIdx := by
  cases fuel with
  | zero => rfl
  | succ fuel =>
    unfold goto at h ⊢
    cases hps : parseSpec spec with
    | error e' => simp only [hps]
    | ok pa =>
      obtain ⟨pid, args⟩ := pa
      simp only [hps] at h ⊢
      cases hpp : c.story.passage? pid with
      | none => simp only [hpp]
      | some p =>
        simp only [hpp] at h ⊢
        by_cases hc : (p.params.isEmpty && args == "") = true
        · simp only [hc, if_true] at h ⊢
          exact gotoBody_error_join c _ _ _ e h
        · simp only [hc, Bool.false_eq_true, if_false] at h ⊢
          cases hpd : parseDirectiveArgs S (evalCtx S c.cx l.vars l.scopes.head?) args with
          | error e' => simp only [hpd]
          | ok ad =>
            simp only [hpd] at h ⊢
            cases hb : bindArgs c l p.params ad 0 [] with
            | error e' => simp only [hb]; split <;> rfl
            | ok scope =>
              simp only [hb] at h ⊢
              unfold withScope at h ⊢
              have := gotoBody_error_join c (goto c fuel) pid { l with scopes := scope :: l.scopes } e
              generalize gotoBody c (goto c fuel) pid { l with scopes := scope :: l.scopes } = r at h this ⊢
              obtain ⟨l', x⟩ := r
              exact this h

end Bardic
