import Proofs.C08
/-!
# C02 — an index selects what was shown; a one-time choice is recorded when taken and is not offered again
-/
namespace Bardic
variable {S : Sem}

/-- what `choose` records for the choice it takes -/
def usedAfter (e : Eng S.V) (cur : Output S.V) (ch : OChoice) : List String :=
  if !ch.c.sticky then setInsert e.live.used (choiceId cur.pid ch.text ch.c.target) else e.live.used

/-- **a one-time choice is recorded the moment it is taken**: after `choose i` with a valid index the set of used
choices is exactly the old set plus the identity (passage, shown text, target) of the `i`-th *shown* choice when
that choice is one-time, and unchanged when it is sticky — whether the navigation that follows succeeds, fails,
runs hooks or stays in the passage (`-> @join`) -/
theorem doChoose_used (c : ECfg S) (e : Eng S.V) (i : Int) (cur : Output S.V)
    (hc : e.live.out = some cur) (h0 : 0 ≤ i) (h1 : i < cur.choices.length) :
    (e.doChoose c i).1.live.used = usedAfter e cur (cur.choices[i.toNat]!) := by
  unfold Eng.doChoose
  split
  · rename_i hn; rw [hc] at hn; cases hn
  rename_i cur' hcur
  have hcc : cur = cur' := by rw [hc] at hcur; exact Option.some.inj hcur
  subst hcc
  have hrange : (decide (i < 0) || decide (i ≥ ↑cur.choices.length)) = false := by
    simp only [Bool.or_eq_false_iff, decide_eq_false_iff_not]
    omega
  simp only [hrange, Bool.false_eq_true, if_false]
  generalize hL : (if (!(cur.choices[i.toNat]!).c.sticky) = true then
        ({ e.live with used := setInsert e.live.used (choiceId cur.pid (cur.choices[i.toNat]!).text (cur.choices[i.toNat]!).c.target) } : Live S.V)
      else e.live) = L1
  have hk : L1.used = usedAfter e cur (cur.choices[i.toNat]!) := by
    rw [← hL]; unfold usedAfter; split <;> rfl
  split
  · split <;> rename_i hj <;> exact ((SameFrame.of_eq_fst hj (joinChoice_frame c _ _)).used).trans hk
  · split
    · rename_i l2 ex hg
      exact ((SameFrame.of_eq_fst hg (goto_frame c _ _ _)).used).trans hk
    · rename_i l2 r hg
      have f2 := ((SameFrame.of_eq_fst hg (goto_frame c _ _ _)).used).trans hk
      split
      · exact f2
      · split
        · rename_i l3 ex ht
          exact ((SameFrame.of_eq_fst ht (triggerEvent_frame c _ _)).used).trans f2
        · rename_i l3 h ht
          have f3 := ((SameFrame.of_eq_fst ht (triggerEvent_frame c _ _)).used).trans f2
          exact ((withHookText_frame l3 r h).used).trans f3

theorem mem_setInsert (xs : List String) (x : String) : x ∈ setInsert xs x := by
  unfold setInsert; split
  · rename_i h; simpa using h
  · simp

/-- **a used one-time choice is not available**: when the identity of a one-time choice — current passage, its text
as it renders now, its target — is among the used ones, `_is_choice_available` answers False (whatever its
condition says) -/
theorem isAvail_used (cfg : RCfg S) (cur : Option String) (used : List String) (ch : Choice) (pre : Option String)
    (rs rs1 : RS S.V) (t : String) (hs : ch.sticky = false)
    (ht : renderChoiceText cfg ch pre rs = (rs1, .ok t))
    (hu : used.contains (choiceId (curStr cur) t ch.target) = true) :
    isAvail cfg cur used ch pre rs = (rs1, .ok false) := by
  unfold isAvail
  simp only [hs, Bool.not_false, if_true, ht, hu]

/-- the section filter of a passage with `@join` markers: every choice the filter loop hands out satisfies the
section test it was given (in the main engine: its section is the passage's current one) -/
theorem offerChoices_sec (cfg : RCfg S) (cur : Option String) (used : List String) (secOk : Choice → Bool) :
    ∀ (all : List (Choice × Option String × Bool)) (rs rs' : RS S.V) (os : List OChoice),
      offerChoices cfg cur used secOk all rs = (rs', .ok os) → ∀ o ∈ os, secOk o.c = true := by
  intro all
  induction all with
  | nil =>
    intro rs rs' os h o ho
    simp only [offerChoices, Prod.mk.injEq, Except.ok.injEq] at h
    rw [← h.2] at ho; cases ho
  | cons x rest ih =>
    intro rs rs' os h o ho
    obtain ⟨ch, pre, blk⟩ := x
    unfold offerChoices at h
    split at h
    · cases h
    · rename_i rs1 av hav
      split at h
      · rename_i hcond
        split at h
        · cases h
        · rename_i rs2 t hrt
          split at h
          · cases h
          · rename_i rs3 os' hrest
            simp only [Prod.mk.injEq, Except.ok.injEq] at h
            rw [← h.2] at ho
            rcases List.mem_cons.mp ho with e | e
            · subst e
              simp only [Bool.and_eq_true] at hcond
              exact hcond.2
            · exact ih _ _ _ hrest o e
      · exact ih _ _ _ h o ho

/-- … and was available when the loop looked at it -/
theorem offerChoices_avail (cfg : RCfg S) (cur : Option String) (used : List String) (secOk : Choice → Bool) :
    ∀ (all : List (Choice × Option String × Bool)) (rs rs' : RS S.V) (os : List OChoice),
      offerChoices cfg cur used secOk all rs = (rs', .ok os) →
      ∀ o ∈ os, ∃ pre blk rsA rsB, (o.c, pre, blk) ∈ all ∧ isAvail cfg cur used o.c pre rsA = (rsB, .ok true) := by
  intro all
  induction all with
  | nil =>
    intro rs rs' os h o ho
    simp only [offerChoices, Prod.mk.injEq, Except.ok.injEq] at h
    rw [← h.2] at ho; cases ho
  | cons x rest ih =>
    intro rs rs' os h o ho
    obtain ⟨ch, pre, blk⟩ := x
    unfold offerChoices at h
    split at h
    · cases h
    · rename_i rs1 av hav
      split at h
      · rename_i hcond
        split at h
        · cases h
        · rename_i rs2 t hrt
          split at h
          · cases h
          · rename_i rs3 os' hrest
            simp only [Prod.mk.injEq, Except.ok.injEq] at h
            rw [← h.2] at ho
            rcases List.mem_cons.mp ho with e | e
            · subst e
              simp only [Bool.and_eq_true] at hcond
              refine ⟨pre, blk, rs, rs1, by simp, ?_⟩
              rw [hav, hcond.1]
            · obtain ⟨p, b, a1, a2, hm, ha⟩ := ih _ _ _ hrest o e
              exact ⟨p, b, a1, a2, List.mem_cons_of_mem _ hm, ha⟩
      · obtain ⟨p, b, a1, a2, hm, ha⟩ := ih _ _ _ h o ho
        exact ⟨p, b, a1, a2, List.mem_cons_of_mem _ hm, ha⟩

end Bardic

namespace Bardic
variable {S : Sem}

/-- in the main engine every choice a passage offers belongs to the passage's current `@join` section -/
theorem renderPassage_sec (c : ECfg S) (hv : c.variant = .main) (pid : String) (l l' : Live S.V) (o : Output S.V)
    (h : renderPassage c pid l = (l', .ok o)) : ∀ ch ∈ o.choices, (ch.c.sec == l.joinSec pid) = true := by
  unfold renderPassage at h
  split at h
  · cases h
  · dsimp only at h
    split at h
    · cases h
    · rename_i rs1 r hr
      split at h
      · cases h
      · rename_i rs2 os hos
        simp only [Prod.mk.injEq, Except.ok.injEq] at h
        intro ch hch
        rw [← h.2] at hch
        simp only [hv] at hos
        exact offerChoices_sec _ _ _ _ _ _ _ _ hos ch hch

/-- every offered choice comes from the list handed in, with its block flag -/
theorem offerChoices_from (cfg : RCfg S) (cur : Option String) (used : List String) (secOk : Choice → Bool) :
    ∀ (cs : List (Choice × Option String × Bool)) (rs : RS S.V) (os : List OChoice),
      (offerChoices cfg cur used secOk cs rs).2 = .ok os → ∀ o ∈ os, ∃ x ∈ cs, x.1 = o.c ∧ x.2.2 = o.isBlock := by
  intro cs
  induction cs with
  | nil => intro rs os h o ho; simp only [offerChoices, Except.ok.injEq] at h; subst h; simp at ho
  | cons x rest ih =>
    obtain ⟨ch, pre, blk⟩ := x
    intro rs os h o ho
    unfold offerChoices at h
    split at h
    · simp at h
    · rename_i rs1 av he
      split at h
      · split at h
        · simp at h
        · rename_i rs2 t he2
          split at h
          · simp at h
          · rename_i rs3 os' he3
            simp only [Except.ok.injEq] at h; subst h
            rcases List.mem_cons.mp ho with ho | ho
            · subst ho; exact ⟨(ch, pre, blk), by simp, rfl, rfl⟩
            · obtain ⟨x, hx, hc⟩ := ih rs2 os' (by rw [he3]) o ho
              exact ⟨x, by simp [hx], hc⟩
      · obtain ⟨x, hx, hc⟩ := ih rs1 os h o ho
        exact ⟨x, by simp [hx], hc⟩

theorem dirChoices_block {V} : ∀ (ds : List (Dir V)) x, x ∈ dirChoices ds → x.2.2 = true
  | [], x, h => by simp [dirChoices] at h
  | d :: ds, x, h => by
    cases d with
    | choice c pre =>
      simp only [dirChoices, List.mem_cons] at h
      rcases h with h | h
      · subst h; rfl
      · exact dirChoices_block ds x h
    | renderEval _ _ _ => exact dirChoices_block ds x (by simpa [dirChoices] using h)
    | renderErr _ _ _ => exact dirChoices_block ds x (by simpa [dirChoices] using h)
    | input _ => exact dirChoices_block ds x (by simpa [dirChoices] using h)

/-- after a `-> @join` choice the section shown offers choices of the next section and choices written inside the
blocks of the section just rendered — nothing else -/
theorem renderFromJoinMarker_sec (c : ECfg S) (idx : Nat) (l l' : Live S.V) (o : Output S.V)
    (h : renderFromJoinMarker c idx l = (l', .ok o)) :
    ∀ ch ∈ o.choices, ch.isBlock = true ∨ (ch.c.sec == idx + 1) = true := by
  unfold renderFromJoinMarker at h
  dsimp only at h
  split at h
  · cases h
  · split at h
    · cases h
    · split at h
      · cases h
      · split at h
        · cases h
        · rename_i rs2 os hos
          simp only [Prod.mk.injEq, Except.ok.injEq] at h
          intro ch hch
          rw [← h.2] at hch
          obtain ⟨x, hx, hc, hb⟩ := offerChoices_from _ _ _ _ _ _ _ (by rw [hos]) ch hch
          rcases List.mem_append.mp hx with hx | hx
          · right
            obtain ⟨y, hy, rfl⟩ := List.mem_map.mp hx
            rw [← hc]
            exact (List.mem_filter.mp hy).2
          · left
            rw [← hb]
            exact dirChoices_block _ _ hx

end Bardic
