import Bardic.Parser.Components
import Bardic.Engine.Nav
/-!
# C12 / C02 / C07: the compiler and the engine split a call the same way

The compiler splits the text after `->` into a passage name and an argument text (`extract_target_and_args`, model
`extractTargetAndArgs`); `choose()` puts the two together again as `name(args)` and `goto()` splits that spec on its own
(`parseSpec`).  Both scans count parentheses and skip string literals.  `engine_split_agrees_with_compiler`: for **every**
text in which the compiler finds the closing parenthesis, the engine's split of the re-assembled spec gives back exactly
the name and the argument text the compiler stored - whatever the arguments hold (nested calls, strings with parentheses
and escaped quotes, garbage behind the call).  Before both scans were made string-aware the statement was false
(`Say("fine :)")`: the compiler stored `"fine :`, the engine answered "Unclosed parenthesis"); with only one of them
string-aware it is false as well - the seeded change C12-m12 was exactly that.

`matchParenQ_spec` (what the engine's scan answers is a prefix followed by `)`, and only that prefix matters) and
`findCloseQ_matchParenQ` (the compiler's position-and-integer-depth scan and the engine's prefix-and-natural-depth scan find
the same parenthesis) are proved by functional induction over the engine's scan.
-/
namespace Bardic
open Bardic.Parser

macro "scan_step" : tactic => `(tactic| (
  intro pre h
  rename_i ih
  simp only [Option.map_eq_some_iff] at h
  obtain ⟨a, ha, hp⟩ := h
  subst hp
  obtain ⟨⟨rest, hr⟩, hall⟩ := ih a ha
  refine ⟨⟨rest, by rw [hr]; rfl⟩, fun rest' => ?_⟩
  simp only [List.cons_append]
  first
    | (rw [matchParenQ]; simp [*, hall rest'])
    | (rw [matchParenQ.eq_def]; simp [*, hall rest'])))

theorem matchParenQ_spec (d : Nat) (q : Option Char) (cs : List Char) : ∀ (pre : List Char),
    matchParenQ d q cs = some pre →
    (∃ rest, cs = pre ++ ')' :: rest) ∧ ∀ rest', matchParenQ d q (pre ++ ')' :: rest') = some pre := by
  fun_induction matchParenQ d q cs with
  | case1 => intro pre h; cases h
  | case2 d q c h1 => intro pre h; cases h
  | case3 d q c hc c' cs' ih =>
    intro pre h
    simp only [Option.map_eq_some_iff] at h
    obtain ⟨a, ha, rfl⟩ := h
    obtain ⟨⟨rest, hr⟩, hall⟩ := ih a ha
    refine ⟨⟨rest, by rw [hr]; rfl⟩, fun rest' => ?_⟩
    simp only [List.cons_append]
    rw [matchParenQ]
    simp only [hc, if_true, hall rest', Option.map_some]
  | case4 => scan_step
  | case5 => scan_step
  | case6 => scan_step
  | case7 => scan_step
  | case8 =>
    intro pre h
    rename_i c cs h1 h2 h3 h4
    cases h
    have hc : c = ')' := by simpa using h3
    subst hc
    refine ⟨⟨cs, rfl⟩, fun rest' => ?_⟩
    simp only [List.nil_append]
    rw [matchParenQ]
    simp [*]
  | case9 => scan_step
  | case10 => scan_step

/-- the compiler's scan (positions, an integer depth) and the engine's scan (prefixes, a natural depth) find the same
closing parenthesis -/
theorem findCloseQ_matchParenQ (d : Nat) (q : Option Char) (cs : List Char) : ∀ (pos pe : Nat), 1 ≤ d →
    findCloseQ cs pos (d : Int) q = some pe → ∃ pre, matchParenQ d q cs = some pre ∧ pe = pos + pre.length := by
  fun_induction matchParenQ d q cs with
  | case1 d q => intro pos pe hd h; cases q <;> simp [findCloseQ] at h
  | case2 d q c h1 => intro pos pe hd h; simp [findCloseQ, h1] at h
  | case3 d q c hc c' cs' ih =>
    intro pos pe hd h
    rw [findCloseQ] at h
    simp only [hc, if_true] at h
    obtain ⟨pre, hp, he⟩ := ih (pos + 2) pe hd h
    exact ⟨c :: c' :: pre, by simp [hp], by simp; omega⟩
  | case4 d q c cs h1 h2 ih =>
    intro pos pe hd h
    rw [findCloseQ.eq_def] at h
    simp only [h1, h2, if_true, if_false] at h
    obtain ⟨pre, hp, he⟩ := ih (pos + 1) pe hd h
    exact ⟨c :: pre, by simp [hp], by simp; omega⟩
  | case5 d q c cs h1 h2 ih =>
    intro pos pe hd h
    rw [findCloseQ.eq_def] at h
    simp only [h1, h2, if_true, if_false] at h
    obtain ⟨pre, hp, he⟩ := ih (pos + 1) pe hd h
    exact ⟨c :: pre, by simp [hp], by simp; omega⟩
  | case6 d c cs h1 ih =>
    intro pos pe hd h
    rw [findCloseQ] at h
    simp only [h1, if_true] at h
    obtain ⟨pre, hp, he⟩ := ih (pos + 1) pe hd h
    exact ⟨c :: pre, by simp [hp], by simp; omega⟩
  | case7 d c cs h1 h2 ih =>
    intro pos pe hd h
    rw [findCloseQ] at h
    simp only [h1, h2, if_true, if_false] at h
    have hc : ((d : Int) + 1) = ((d + 1 : Nat) : Int) := by omega
    rw [hc] at h
    obtain ⟨pre, hp, he⟩ := ih (pos + 1) pe (by omega) h
    exact ⟨c :: pre, by simp [hp], by simp; omega⟩
  | case8 d c cs h1 h2 h3 h4 =>
    intro pos pe hd h
    rw [findCloseQ] at h
    have hd1 : d = 1 := by simpa using h4
    subst hd1
    simp only [h1, h2, h3, if_true, if_false] at h
    simp at h
    exact ⟨[], rfl, by simp; omega⟩
  | case9 d c cs h1 h2 h3 h4 ih =>
    intro pos pe hd h
    rw [findCloseQ] at h
    have hd1 : d ≠ 1 := by simpa using h4
    have hne : (((d : Int) - 1 == 0) = false) := by
      simp only [beq_eq_false_iff_ne, ne_eq]; omega
    simp only [h1, h2, h3, if_true, if_false, hne] at h
    have hc : ((d : Int) - 1) = ((d - 1 : Nat) : Int) := by omega
    rw [hc] at h
    obtain ⟨pre, hp, he⟩ := ih (pos + 1) pe (by omega) h
    exact ⟨c :: pre, by simp [hp], by simp; omega⟩
  | case10 d c cs h1 h2 h3 ih =>
    intro pos pe hd h
    rw [findCloseQ] at h
    simp only [h1, h2, h3, if_true, if_false] at h
    obtain ⟨pre, hp, he⟩ := ih (pos + 1) pe hd h
    exact ⟨c :: pre, by simp [hp], by simp; omega⟩

theorem pyIndexOf_split (c : Char) : ∀ (t : List Char) (ps : Nat), pyIndexOf c t = .ok ps →
    t = t.take ps ++ c :: t.drop (ps + 1) ∧ (∀ x ∈ t.take ps, (x == c) = false) ∧ (t.take ps).length = ps
  | [], ps, h => by simp [pyIndexOf] at h
  | d :: r, ps, h => by
    unfold pyIndexOf at h
    split at h
    · rename_i hd
      cases h
      have : d = c := by simpa using hd
      subst this
      simp
    · rename_i hd
      cases hr : pyIndexOf c r with
      | error e => rw [hr] at h; simp [Except.map] at h
      | ok k =>
        rw [hr] at h
        simp only [Except.map] at h
        cases h
        obtain ⟨h1, h2, h3⟩ := pyIndexOf_split c r k hr
        refine ⟨?_, ?_, ?_⟩
        · simp only [List.take_succ_cons, List.drop_succ_cons, List.cons_append]
          rw [← h1]
        · intro x hx
          simp only [List.take_succ_cons, List.mem_cons] at hx
          rcases hx with hx | hx
          · subst hx; simpa using hd
          · exact h2 x hx
        · simp only [List.take_succ_cons, List.length_cons, h3]

theorem splitFirstL_append (c : Char) : ∀ (name rest : List Char), (∀ x ∈ name, (x == c) = false) →
    splitFirstL c (name ++ c :: rest) = some (name, rest)
  | [], rest, _ => by simp [splitFirstL]
  | x :: xs, rest, h => by
    have hx : (x == c) = false := h x (by simp)
    simp only [List.cons_append, splitFirstL, hx]
    rw [splitFirstL_append c xs rest (fun y hy => h y (by simp [hy]))]
    simp

/-- **the compiler and the engine split a call the same way**: when `extract_target_and_args` finds the closing
parenthesis of `t` (at `pe`, the opening one at `ps`) and stores `t[:ps]` and `t[ps+1:pe]`, the engine's `goto` splits the
spec `choose()` re-assembles from them — `name(args)` — into exactly that name and that argument text -/
theorem engine_split_agrees_with_compiler (t : List Char) (ps pe : Nat)
    (hps : pyIndexOf '(' t = .ok ps) (hpe : findCloseQ (t.drop ps) ps 0 none = some pe) :
    parseSpec (String.ofList (t.take ps ++ '(' :: ((t.take pe).drop (ps + 1) ++ [')']))) =
      .ok (String.ofList (t.take ps), String.ofList ((t.take pe).drop (ps + 1))) := by
  obtain ⟨hsplit, hno, hlen⟩ := pyIndexOf_split '(' t ps hps
  have hdrop : t.drop ps = '(' :: t.drop (ps + 1) := by
    conv => lhs; rw [hsplit]
    rw [List.drop_append_of_le_length (by omega)]
    simp [hlen]
  rw [hdrop, findCloseQ] at hpe
  simp only [show ('(' == '"' || '(' == '\'') = false by decide, show ('(' == '(') = true by decide, if_true] at hpe
  have hpe' : findCloseQ (t.drop (ps + 1)) (ps + 1) ((1 : Nat) : Int) none = some pe := by simpa using hpe
  obtain ⟨pre, hm, hpos⟩ := findCloseQ_matchParenQ 1 none _ _ _ (Nat.le_refl 1) hpe'
  obtain ⟨⟨rest, hrest⟩, hall⟩ := matchParenQ_spec 1 none _ pre hm
  generalize hname : t.take ps = name at hsplit hno hlen ⊢
  have ht : t = (name ++ '(' :: pre) ++ ')' :: rest := by
    rw [hsplit, hrest]; simp
  have hargs : (t.take pe).drop (ps + 1) = pre := by
    have h1 : t.take pe = name ++ '(' :: pre := by
      rw [ht]
      exact List.take_left' (by simp; omega)
    rw [h1]
    have h2 : name ++ '(' :: pre = (name ++ ['(']) ++ pre := by simp
    rw [h2]
    exact List.drop_left' (by simp; omega)
  rw [hargs]
  unfold parseSpec
  simp only [String.toList_ofList]
  rw [splitFirstL_append '(' _ _ hno]
  simp only [matchParen, hall []]

/-- the same in terms of what `extract_target_and_args` returns: when it did split the text (the name it returns is not the
whole text), the engine splits `name(args)` back into the two -/
theorem engine_split_of_extract (t name args : List Char) (h : extractTargetAndArgs t = .ok (name, args))
    (hsplit : name ≠ t) :
    parseSpec (String.ofList (name ++ '(' :: (args ++ [')']))) = .ok (String.ofList name, String.ofList args) := by
  unfold extractTargetAndArgs at h
  split at h
  · cases h; exact absurd rfl hsplit
  · cases hps : pyIndexOf '(' t with
    | error e => rw [hps] at h; simp [bind, Except.bind] at h
    | ok ps =>
      rw [hps] at h
      simp only [bind, Except.bind] at h
      split at h
      · cases h; exact absurd rfl hsplit
      · rename_i pe hpe
        cases h
        exact engine_split_agrees_with_compiler t ps pe hps hpe

/-- non-vacuity: a call whose string argument holds a parenthesis and an escaped quote, nested calls, text behind it -/
example : (match extractTargetAndArgs "Say(\"fine :)\", f(1, '\\')('), k=(2)) ^tag".toList with
    | .ok (n, a) => n == "Say".toList && a == "\"fine :)\", f(1, '\\')('), k=(2)".toList
    | .error _ => false) = true := by decide +kernel

end Bardic
