import Bardic.Extracted.UndoCap
import Bardic.Extracted.EntryPoints
import Bardic.Extracted.ErrorSites
import Bardic.Extracted.TokenKinds
import Bardic.Extracted.StoryWrites
import Bardic.Extracted.LoopPaths
import Bardic.Engine.Api
/-!
# Theorems over tables re-extracted from /repo's source on every run
-/
namespace Bardic

/-- the only assignment to `undo_stack` in each engine is `deque(maxlen=undoCap)` -/
theorem undoCap_extracted :
    Extracted.undoCapMain = [some undoCap] ∧ Extracted.undoCapBrowser = [some undoCap] := by decide

/-- every CLI entry point that accepts a `.bard` file compiles through a file-based, include-resolving
function (`compile_file`, `parse_file`, or the bundler, which itself uses `compile_file`); none
compiles the file's bare text with `compile_string` / `parse` -/
theorem entryPoints_resolve_includes :
    Extracted.entryPoints.all (fun e =>
      !e.2.contains "compile_string" && !e.2.contains "parse" &&
      (e.2.contains "compile_file" || e.2.contains "parse_file" || e.2.contains "create_browser_bundle")) = true ∧
    Extracted.entryPoints.length = 4 := by decide

/-- **no statement of either engine writes through an alias into the compiled story** (subscript /
attribute assignment, `del`, augmented assignment or a mutating method on a name that aliases
`self.story` / `self.passages` / a passage, choice or token taken from them) — re-extracted from the
source and re-checked on every run -/
theorem storyWrites_none : Extracted.storyWrites = [] := by decide

/-- the documented token kinds (C12) -/
def documentedKinds : List String :=
  ["text", "expression", "inline_conditional", "render_directive", "input", "python_statement", "python_block",
   "hook", "conditional", "for_loop", "jump", "join_marker"]

/-- **token kinds, re-established on every run**: every kind the parser can emit is documented and has
a branch in the engine's renderer; and every emitted kind that can carry choices or jumps (it has
`content` / `branches` / `choices` keys, or is a jump) has a branch in the story-graph walker — so
`renderToks_sub` covers everything the compiler can produce -/
theorem tokenKinds_covered :
    Extracted.emittedKinds.all (fun k => documentedKinds.contains k.1 && Extracted.engineKinds.contains k.1) = true ∧
    Extracted.emittedKinds.all (fun k =>
      !(k.2.contains "content" || k.2.contains "branches" || k.2.contains "choices" || k.1 == "jump")
        || Extracted.graphKinds.contains k.1) = true := by decide

/-- the index expressions a diagnostic site may report: the 0-based index of the offending line in
the combined text (`format_error` adds 1 and maps it through the line map, see `display_origin`) -/
def indexNames : List String := ["i", "start_index", "line_idx", "line_num", "error_line", "start_index+j"]

/-- **every `format_error` call site passes the 0-based index of the construct's line, unshifted**,
and so does every call that forwards a line index to a reporting function -/
theorem errorSites_unshifted :
    Extracted.errorSites.all (fun s => s.2.2.2.2 == 0 && indexNames.contains s.2.2.2.1) = true ∧
    Extracted.lineForwards.all (fun s => s.2.2.2.2.2 == 0 && indexNames.contains s.2.2.2.2.1) = true := by
  decide

/-- how the functions that report a number of used lines compute it (function, amount, initial scanning index):
 * the two Python-block extractors start scanning at `start_index + 1` and answer `i - start_index + 1` (≥ 2);
 * `extract_multiline_expression` answers `1` or scans from `start_index + 1` and answers `i - start_index` (≥ 1);
 * the `@if` / `@for` extractors scan from the opener line itself, whose branch advances by the literal 1 before any
   exit of the loop (rows of `loopPaths`), and answer `i - start_index` (≥ 1);
 * the choice-block collector may answer 0 — its only caller then advances by the literal 1 (row `core.py` below). -/
def reviewedConsumers : List (String × String × String) :=
  [("_extract_py_new_syntax", "i - start_index + 1", "start_index + 1"),
   ("_extract_py_old_syntax", "i - start_index + 1", "start_index + 1"),
   ("extract_conditional_block", "i - start_index", "start_index"),
   ("extract_loop_block", "i - start_index", "start_index"),
   ("extract_join_choice_block", "i - start_index", "start_index"),
   ("extract_join_choice_block", "0", "start_index"),
   ("extract_multiline_expression", "i - start_index", "start_index + 1"),
   ("extract_multiline_expression", "1", "start_index + 1")]

def amountFunctions : List String :=
  ["extract_python_block", "extract_multiline_expression", "extract_loop_block", "extract_conditional_block",
   "extract_join_choice_block"]

/-- **every path to the next iteration of every `while` loop of the compiler advances the loop index**
(table re-extracted from the Python AST on every run by a must-analysis over if / try / with / continue /
break / return / raise): each `continue` and each end of a loop body is reached only after the index was
increased — by a positive literal, or by an amount reported by one of the line-consuming functions, whose ways
of computing that amount are exactly the reviewed ones; no loop assigns its index in any other way; where the
only advance is the choice-block amount (which may be 0) a literal advance follows. -/
theorem loopPaths_advance :
    Extracted.loopPaths.all (fun r => r.2.2.2.2.2.2.2.1 &&
      r.2.2.2.2.2.2.2.2.all (fun a => a == "lines_consumed" || a == "nested_lines" || a == "nested_lines_consumed") &&
      r.2.2.2.1 != "") = true ∧
    Extracted.amountSources.all (fun s => amountFunctions.contains s.2.2.2) = true ∧
    Extracted.consumers.all (fun c => reviewedConsumers.contains (c.2.1, c.2.2.2.1, c.2.2.2.2)) = true ∧
    (Extracted.amountSources.filter (fun s => s.2.2.2 == "extract_join_choice_block")).length = 1 ∧
    Extracted.loopPaths.length ≥ 60 := by
  decide

end Bardic
