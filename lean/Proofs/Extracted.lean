import Bardic.Extracted.UndoCap
import Bardic.Engine.Api
/-!
# Theorems over tables re-extracted from /repo's source on every run
-/
namespace Bardic

/-- the only assignment to `undo_stack` in each engine is `deque(maxlen=undoCap)` -/
theorem undoCap_extracted :
    Extracted.undoCapMain = [some undoCap] ∧ Extracted.undoCapBrowser = [some undoCap] := by decide

end Bardic
