import Bardic.Extracted.UndoCap
import Bardic.Extracted.EntryPoints
import Bardic.Extracted.ErrorSites
import Bardic.Extracted.TokenKinds
import Bardic.Extracted.StoryWrites
import Bardic.Engine.Api
/-!
# Theorems over tables re-extracted from /repo's source on every run
-/
namespace Bardic

/-- the only assignment to `undo_stack` in each engine is `deque(maxlen=undoCap)` -/
theorem undoCap_extracted :
    Extracted.undoCapMain = [some undoCap] ∧ Extracted.undoCapBrowser = [some undoCap] := by decide

/-- every CLI entry point that accepts a `.bard` file compiles through a file-based, include-resolving
function (`compile_file`, `parse_file`, or the bundler, which itself uses `compile_file`); none
compiles the file's bare text with `compile_string` / `parse` -/
theorem entryPoints_resolve_includes :
    Extracted.entryPoints.all (fun e =>
      !e.2.contains "compile_string" && !e.2.contains "parse" &&
      (e.2.contains "compile_file" || e.2.contains "parse_file" || e.2.contains "create_browser_bundle")) = true ∧
    Extracted.entryPoints.length = 4 := by decide

/-- **no statement of either engine writes through an alias into the compiled story** (subscript /
attribute assignment, `del`, augmented assignment or a mutating method on a name that aliases
`self.story` / `self.passages` / a passage, choice or token taken from them) — re-extracted from the
source and re-checked on every run -/
theorem storyWrites_none : Extracted.storyWrites = [] := by decide

/-- the documented token kinds (C12) -/
def documentedKinds : List String :=
  ["text", "expression", "inline_conditional", "render_directive", "input", "python_statement", "python_block",
   "hook", "conditional", "for_loop", "jump", "join_marker"]

/-- **token kinds, re-established on every run**: every kind the parser can emit is documented and has
a branch in the engine's renderer; and every emitted kind that can carry choices or jumps (it has
`content` / `branches` / `choices` keys, or is a jump) has a branch in the story-graph walker — so
`renderToks_sub` covers everything the compiler can produce -/
theorem tokenKinds_covered :
    Extracted.emittedKinds.all (fun k => documentedKinds.contains k.1 && Extracted.engineKinds.contains k.1) = true ∧
    Extracted.emittedKinds.all (fun k =>
      !(k.2.contains "content" || k.2.contains "branches" || k.2.contains "choices" || k.1 == "jump")
        || Extracted.graphKinds.contains k.1) = true := by decide

/-- the index expressions a diagnostic site may report: the 0-based index of the offending line in
the combined text (`format_error` adds 1 and maps it through the line map, see `display_origin`) -/
def indexNames : List String := ["i", "start_index", "line_idx", "line_num", "error_line", "start_index+j"]

/-- **every `format_error` call site passes the 0-based index of the construct's line, unshifted**,
and so does every call that forwards a line index to a reporting function -/
theorem errorSites_unshifted :
    Extracted.errorSites.all (fun s => s.2.2.2.2 == 0 && indexNames.contains s.2.2.2.1) = true ∧
    Extracted.lineForwards.all (fun s => s.2.2.2.2.2 == 0 && indexNames.contains s.2.2.2.2.1) = true := by
  decide

end Bardic
