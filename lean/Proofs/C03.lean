import Proofs.Lemmas.WF
/-!
# C03 — reads are effect-free; `current()` is the last navigation result

(The "commands run once per entry" half is `enter_once` in `Proofs/C08.lean`, next to the chain lemmas.)
-/
namespace Bardic
variable {S : Sem}

/-- **read calls change nothing**: the whole engine state (live game, undo and redo history) after a
read call is the state before it, however often it is called -/
theorem read_noop (c : ECfg S) (e : Eng S.V) (op : Op S.V) (h : op.isRead = true) :
    (step c e op).1 = e := by
  cases op <;> simp [Op.isRead] at h <;> rfl

theorem reads_noop (c : ECfg S) (e : Eng S.V) (ops : List (Op S.V)) (h : ∀ op ∈ ops, op.isRead = true) :
    (run c e ops).1 = e := by
  induction ops generalizing e with
  | nil => rfl
  | cons op ops ih =>
    simp only [run]
    rw [read_noop c e op (h op (by simp))]
    exact ih e (fun o ho => h o (by simp [ho]))

/-- `current()` after a successful `goto` answers exactly what `goto` returned -/
theorem current_after_goto (c : ECfg S) (e : Eng S.V) (spec : String) (o : Output S.V)
    (h : (step c e (.goto spec)).2 = .out o) :
    ((step c e (.goto spec)).1.live.out) = some o := by
  simp only [step] at h ⊢
  have hc := goto_cached c c.fuel spec e.live
  generalize goto c c.fuel spec e.live = res at h hc
  obtain ⟨l, r⟩ := res
  cases r with
  | error ex => simp at h
  | ok o' =>
    simp only at h
    injection h with h
    subst h
    exact hc o' rfl

theorem withHookText_cached (l : Live S.V) (r : Output S.V) (h : String) (hl : l.out = some r) :
    (withHookText l r h).1.out = some (withHookText l r h).2 := by
  unfold withHookText
  split
  · rfl
  · exact hl

/-- hooks never touch the cache when they succeed: `runHooks` leaves `out` alone -/
theorem renderPassage_out (c : ECfg S) (pid : String) (l : Live S.V) :
    (renderPassage c pid l).1.out = l.out := by
  unfold renderPassage
  dsimp only
  repeat' split
  all_goals rfl

theorem executePassage_out (c : ECfg S) (pid : String) (l : Live S.V) :
    (executePassage c pid l).1.out = l.out := by
  unfold executePassage
  dsimp only
  repeat' split
  all_goals rfl

theorem runHooks_out (c : ECfg S) : ∀ (ps acc : List String) (l : Live S.V),
    (runHooks c ps acc l).1.out = l.out := by
  intro ps
  induction ps with
  | nil => intros; rfl
  | cons p ps ih =>
    intro acc l
    unfold runHooks
    split
    · exact ih _ _
    · have he := executePassage_out c p { l with log := Ev.hookRun p :: l.log }
      split
      · rename_i l1 e h1; rw [h1] at he; exact he
      · rename_i l1 _ h1
        rw [h1] at he
        have hp := renderPassage_out c p l1
        split
        · rename_i l2 e h2; rw [h2] at hp; exact hp.trans he
        · rename_i l2 o h2
          rw [h2] at hp
          exact (ih _ _).trans (hp.trans he)

theorem triggerEvent_out (c : ECfg S) (ev : String) (l : Live S.V) :
    (triggerEvent c ev l).1.out = l.out := by
  unfold triggerEvent
  split
  · rfl
  · exact runHooks_out c _ _ _

theorem out_of_eq_fst {α} {f : Live S.V × α} {l' : Live S.V} {r : α} {x : Option (Output S.V)}
    (h : f = (l', r)) (hf : f.1.out = x) : l'.out = x := by subst h; exact hf

theorem joinChoice_cached (c : ECfg S) (ch : OChoice) (l : Live S.V) : OutCached (joinChoice c ch l) := by
  unfold joinChoice
  dsimp only
  split
  · intro o h; simp at h
  · split
    · intro o h; simp at h
    · split
      · intro o h; simp at h
      · rename_i l5 hk ht
        intro o h
        simp only [Except.ok.injEq] at h
        subst h
        exact withHookText_cached l5 _ hk (out_of_eq_fst ht (triggerEvent_out c "turn_end" _))

/-- **`current()` always returns what the last navigation call returned** (for `choose`) -/
theorem current_after_choose (c : ECfg S) (e : Eng S.V) (i : Int) :
    ∀ o, (e.doChoose c i).2 = .out o → (e.doChoose c i).1.live.out = some o := by
  unfold Eng.doChoose
  split
  · intro o h; simp at h
  · split
    · intro o h; simp at h
    · dsimp only
      split
      · split
        · rename_i l2 r hjr
          intro o h
          injection h with h; subst h
          have := joinChoice_cached c _ _ r (by rw [hjr])
          rw [hjr] at this; exact this
        · intro o h; simp at h
      · split
        · intro o h; simp at h
        · rename_i l2 r hg
          have hgc := goto_cached c c.fuel _ _ r (by rw [hg])
          rw [hg] at hgc
          split
          · intro o h
            injection h with h; subst h; exact hgc
          · split
            · intro o h; simp at h
            · rename_i l3 hk ht
              intro o h
              injection h with h; subst h
              exact withHookText_cached l3 r hk ((out_of_eq_fst ht (triggerEvent_out c "turn_end" l2)).trans hgc)

end Bardic
