import Proofs.Lemmas.OutKept
/-!
# C04 — undo returns exactly to the previous decision point; redo exactly re-applies it

Observation of a game = `Snap.of live`: position, variables, used one-time choices, hook
registrations, `@join` progress and the displayed output (text, directives, offered choices).
All statements are for every story, every `Sem` (author code), every engine state.
-/
namespace Bardic
variable {S : Sem}

/-- every restore point on either stack, and the live game, carries a displayed output -/
structure Eng.WF (e : Eng S.V) : Prop where
  live : e.live.out.isSome
  undo : ∀ s ∈ e.undo, s.out.isSome
  redo : ∀ s ∈ e.redo, s.out.isSome
  cap : e.undo.length ≤ undoCap

theorem pushCap_head {α} (s : α) (st : List α) : pushCap s st = s :: st.take (undoCap - 1) := by
  simp [pushCap, undoCap, List.take]

theorem pushCap_length_le {α} (s : α) (st : List α) : (pushCap s st).length ≤ undoCap := by
  simp [pushCap]; omega

theorem pushCap_mem {α} (s x : α) (st : List α) (h : x ∈ pushCap s st) : x = s ∨ x ∈ st := by
  simp only [pushCap] at h
  have := List.mem_of_mem_take h
  simpa using this

/-- `restore` of a snapshot that carries an output installs exactly that snapshot (main engine) -/
theorem restore_obs (c : ECfg S) (hv : c.variant = .main) (s : Snap S.V) (l : Live S.V)
    (hs : s.out.isSome) :
    (restore c s l).2 = .ok () ∧ Snap.of (restore c s l).1 = s := by
  obtain ⟨cur, vars, used, hooks, joinIdx, out⟩ := s
  cases out with
  | none => simp at hs
  | some o => simp [restore, hv, Snap.of]

/-- what `choose` does to the history when the index is in range -/
theorem doChoose_history (c : ECfg S) (e : Eng S.V) (i : Int) (cur : Output S.V)
    (hout : e.live.out = some cur) (hlo : 0 ≤ i) (hhi : i < cur.choices.length) :
    (e.doChoose c i).1.undo = pushCap (Snap.of e.live) e.undo ∧ (e.doChoose c i).1.redo = [] := by
  unfold Eng.doChoose
  rw [hout]
  have hng : (i < 0 || i ≥ (cur.choices.length : Int)) = false := by
    simp only [Bool.or_eq_false_iff, decide_eq_false_iff_not]; omega
  simp only [hng, Bool.false_eq_true, ↓reduceIte]
  repeat' split
  all_goals exact ⟨rfl, rfl⟩

/-- **undo ∘ choose**: after any accepted `choose` — whether its navigation succeeded or raised —
one `undo` answers `True` and shows exactly the situation that existed before the choice. -/
theorem undo_choose (c : ECfg S) (hv : c.variant = .main) (e : Eng S.V) (i : Int) (cur : Output S.V)
    (hout : e.live.out = some cur) (hlo : 0 ≤ i) (hhi : i < cur.choices.length) :
    let e1 := (e.doChoose c i).1
    (e1.doUndo c).2 = Resp.bool true ∧ Snap.of (e1.doUndo c).1.live = Snap.of e.live
      ∧ (e1.doUndo c).1.undo = e.undo.take (undoCap - 1) := by
  intro e1
  have hh := doChoose_history c e i cur hout hlo hhi
  have hu : e1.undo = Snap.of e.live :: e.undo.take (undoCap - 1) := by
    rw [← pushCap_head]; exact hh.1
  have hs : (Snap.of e.live).out.isSome := by simp [Snap.of, hout]
  have hr := restore_obs c hv (Snap.of e.live) e1.live hs
  unfold Eng.doUndo
  rw [hu]
  dsimp only
  generalize hres : restore c (Snap.of e.live) e1.live = res at hr
  obtain ⟨l, r⟩ := res
  simp only at hr
  obtain ⟨hr1, hr2⟩ := hr
  subst hr1
  exact ⟨rfl, hr2, rfl⟩

/-- a new choice discards the redo history -/
theorem choose_clears_redo (c : ECfg S) (e : Eng S.V) (i : Int) (cur : Output S.V)
    (hout : e.live.out = some cur) (hlo : 0 ≤ i) (hhi : i < cur.choices.length) :
    (e.doChoose c i).1.redo = [] := (doChoose_history c e i cur hout hlo hhi).2

/-- **redo ∘ undo**: `redo` returns exactly to the situation the `undo` left -/
theorem redo_undo (c : ECfg S) (hv : c.variant = .main) (e : Eng S.V) (hw : e.WF)
    (prev : Snap S.V) (rest : List (Snap S.V)) (hu : e.undo = prev :: rest) :
    let e1 := (e.doUndo c).1
    (e.doUndo c).2 = Resp.bool true ∧ Snap.of e1.live = prev ∧
    (e1.doRedo c).2 = Resp.bool true ∧ Snap.of (e1.doRedo c).1.live = Snap.of e.live ∧
    (e1.doRedo c).1.redo = e.redo := by
  intro e1
  have hp : prev.out.isSome := hw.undo prev (by simp [hu])
  have hr := restore_obs c hv prev e.live hp
  have he1 : e.doUndo c = (⟨(restore c prev e.live).1, rest, Snap.of e.live :: e.redo⟩, Resp.bool true) := by
    unfold Eng.doUndo
    rw [hu]
    dsimp only
    generalize restore c prev e.live = res at hr ⊢
    obtain ⟨l, r⟩ := res
    simp only at hr
    obtain ⟨hr1, _⟩ := hr
    subst hr1
    rfl
  have hl : (Snap.of e.live).out.isSome := by simpa [Snap.of] using hw.live
  have e1def : e1 = ⟨(restore c prev e.live).1, rest, Snap.of e.live :: e.redo⟩ := by
    show (e.doUndo c).1 = _
    rw [he1]
  have hr2 := restore_obs c hv (Snap.of e.live) e1.live hl
  refine ⟨by rw [he1], by rw [e1def]; exact hr.2, ?_⟩
  unfold Eng.doRedo
  rw [e1def]
  dsimp only
  rw [e1def] at hr2
  dsimp only at hr2
  generalize restore c (Snap.of e.live) (restore c prev e.live).1 = res at hr2 ⊢
  obtain ⟨l, r⟩ := res
  simp only at hr2
  obtain ⟨h1, h2⟩ := hr2
  subst h1
  exact ⟨rfl, h2, rfl⟩

/-- undo / redo with nothing to do answer `False` and change nothing at all -/
theorem undo_empty_noop (c : ECfg S) (e : Eng S.V) (h : e.undo = []) :
    e.doUndo c = (e, Resp.bool false) := by
  unfold Eng.doUndo; rw [h]

theorem redo_empty_noop (c : ECfg S) (e : Eng S.V) (h : e.redo = []) :
    e.doRedo c = (e, Resp.bool false) := by
  unfold Eng.doRedo; rw [h]

/-- an index outside the offered range raises `IndexError` and changes nothing, history included -/
theorem choose_out_of_range_noop (c : ECfg S) (e : Eng S.V) (i : Int) (cur : Output S.V)
    (hout : e.live.out = some cur) (hbad : i < 0 ∨ (cur.choices.length : Int) ≤ i) :
    ∃ msg, e.doChoose c i = (e, Resp.raised ⟨.indexError, msg⟩) := by
  unfold Eng.doChoose
  rw [hout]
  have hg : (i < 0 || i ≥ (cur.choices.length : Int)) = true := by
    simp only [Bool.or_eq_true, decide_eq_true_eq]; omega
  simp only [hg, ↓reduceIte]
  exact ⟨_, rfl⟩

end Bardic
