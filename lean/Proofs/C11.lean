import Bardic.Parser.Components
/-!
# C11 — no internal error is reachable in the modelled parser components; scanners make progress
-/
namespace Bardic.Parser

theorem pyIndexOf_of_mem (c : Char) (s : List Char) (h : c ∈ s) : ∃ n, pyIndexOf c s = .ok n ∧ n < s.length := by
  induction s with
  | nil => cases h
  | cons d r ih =>
    unfold pyIndexOf
    by_cases hd : (d == c) = true
    · simp [hd]
    · have hne : d ≠ c := by intro e; exact hd (by simp [e])
      have hm : c ∈ r := by
        rcases List.mem_cons.mp h with e | e
        · exact absurd e.symm hne
        · exact e
      obtain ⟨n, hn, hl⟩ := ih hm
      simp [hd, hn, Except.map]
      omega

theorem pyIndexOf_of_contains (c : Char) (s : List Char) (h : s.contains c = true) :
    ∃ n, pyIndexOf c s = .ok n ∧ n < s.length :=
  pyIndexOf_of_mem c s (by simpa using h)

/-- `extract_passage_params` never raises: the `in` test guards `.index` -/
theorem extractPassageParams_ok (h : List Char) : ∃ r, extractPassageParams h = .ok r := by
  unfold extractPassageParams
  by_cases hc : h.contains '(' = true
  · obtain ⟨n, hn, _⟩ := pyIndexOf_of_contains '(' h hc
    simp only [hc, Bool.not_true, Bool.false_eq_true, ↓reduceIte, hn, bind, Except.bind]
    split <;> exact ⟨_, rfl⟩
  · simp only [hc, Bool.not_false, ↓reduceIte]
    exact ⟨_, rfl⟩

theorem extractTargetAndArgs_ok (t : List Char) : ∃ r, extractTargetAndArgs t = .ok r := by
  unfold extractTargetAndArgs
  by_cases hc : t.contains '(' = true
  · obtain ⟨n, hn, _⟩ := pyIndexOf_of_contains '(' t hc
    simp only [hc, Bool.not_true, Bool.false_eq_true, ↓reduceIte, hn, bind, Except.bind]
    split <;> exact ⟨_, rfl⟩
  · simp only [hc, Bool.not_false, ↓reduceIte]
    exact ⟨_, rfl⟩

/-- `parse_passage_params` answers a parameter list or one of its four diagnostics, never an internal error -/
theorem parseParamsGo_ok (ex : ExprOracle) (parts : List (List Char)) (seen : Bool) (names : List (List Char)) (acc : List Param) :
    ∃ r, parseParamsGo ex parts seen names acc = .ok r := by
  induction parts generalizing seen names acc with
  | nil => exact ⟨_, rfl⟩
  | cons p rest ih =>
    unfold parseParamsGo
    dsimp only
    split
    · exact ih _ _ _
    · by_cases hc : (stripL p).contains '=' = true
      · obtain ⟨n, hn, _⟩ := pyIndexOf_of_contains '=' _ hc
        simp only [hc, ↓reduceIte, hn, bind, Except.bind, pure, Except.pure]
        repeat' split
        all_goals first | exact ⟨_, rfl⟩ | exact ih _ _ _
      · simp only [hc, Bool.false_eq_true, ↓reduceIte, bind, Except.bind, pure, Except.pure]
        repeat' split
        all_goals first | exact ⟨_, rfl⟩ | exact ih _ _ _

theorem parsePassageParams_ok (ex : ExprOracle) (s : List Char) : ∃ r, parsePassageParams ex s = .ok r := by
  unfold parsePassageParams
  split
  · exact ⟨_, rfl⟩
  · exact parseParamsGo_ok _ _ _ _ _

/-- `validate_passage_name` accepts or raises its SyntaxError — whatever Unicode says about the characters:
`name[0]` is only read for a non-empty name, and the suggestion falls back to the generic text when the search
loop finds no offending character (`suggestion or "…"`) -/
theorem validatePassageName_ok (alnum digit : Char → Bool) (name : List Char) :
    ∃ r, validatePassageName alnum digit name = .ok r := by
  unfold validatePassageName
  repeat' split
  all_goals first
    | exact ⟨_, rfl⟩
    | (cases name with
       | nil => simp_all
       | cons c r => simp only [pyHead, bind, Except.bind]; split <;> exact ⟨_, rfl⟩)

/-- the bracket scanner never reads the top of an empty stack -/
theorem scanBrackets_ok (cs st : List Char) : ∃ r, scanBrackets cs st = .ok r := by
  induction cs generalizing st with
  | nil => exact ⟨_, rfl⟩
  | cons c r ih =>
    unfold scanBrackets
    split
    · exact ih _
    · split
      · exact ih _
      · split
        · exact ⟨_, rfl⟩
        · cases st with
          | nil => simp_all
          | cons t ts =>
            simp only [pyHead, bind, Except.bind]
            split
            · exact ih _
            · exact ⟨_, rfl⟩

theorem collectLines_ok (ls : List (List Char)) (st : List Char) : ∃ r, collectLines ls st = .ok r ∧ r.length ≤ ls.length := by
  induction ls generalizing st with
  | nil => exact ⟨_, rfl, Nat.le_refl _⟩
  | cons l rest ih =>
    unfold collectLines
    split
    · exact ⟨_, rfl, by simp⟩
    · obtain ⟨st', hs⟩ := scanBrackets_ok l st
      simp only [hs, bind, Except.bind]
      split
      · exact ⟨_, rfl, by simp⟩
      · obtain ⟨more, hm, hl⟩ := ih st'
        simp only [hm]
        exact ⟨_, rfl, by simp; omega⟩

/-- **`extract_multiline_expression` is total, uses at least one line and never runs past the text** -/
theorem multiline_ok (lines : List (List Char)) (start : Nat) (init : List Char) :
    ∃ e n, multiline lines start init = .ok (e, n) ∧ 1 ≤ n ∧ n ≤ max 1 (lines.length - start) := by
  unfold multiline
  dsimp only
  split
  · exact ⟨_, _, rfl, Nat.le_refl _, Nat.le_max_left _ _⟩
  · split
    · exact ⟨_, _, rfl, Nat.le_refl _, Nat.le_max_left _ _⟩
    · obtain ⟨more, hm, hl⟩ := collectLines_ok (lines.drop (start + 1)) ((stripL init).filter isOpenB).reverse
      simp only [hm, bind, Except.bind]
      refine ⟨_, _, rfl, by omega, ?_⟩
      simp only [List.length_drop] at hl
      omega

theorem pyNewGo_consumed (ls acc : List (List Char)) (code : List (List Char)) (n : Nat)
    (h : pyNewGo ls acc = some (code, n)) : acc.length + 2 ≤ n ∧ n ≤ acc.length + ls.length + 1 := by
  induction ls generalizing acc with
  | nil => simp [pyNewGo] at h
  | cons l rest ih =>
    unfold pyNewGo at h
    split at h
    · simp only [Option.some.injEq, Prod.mk.injEq] at h
      simp only [List.length_cons]
      omega
    · have := ih _ h
      simp only [List.length_cons] at this ⊢
      omega

/-- **`@py:` blocks**: on a line inside the text the extractor answers a block or one of its two diagnostics;
a block uses at least two lines (opener and closer) and ends inside the text -/
theorem pyNew_ok (lines : List (List Char)) (start : Nat) (h : start < lines.length) :
    ∃ r, pyNew lines start = .ok r ∧ ∀ code n, r = .ok (code, n) → 2 ≤ n ∧ start + n ≤ lines.length := by
  unfold pyNew
  have hl : lines[start]? = some lines[start] := by simp [h]
  simp only [hl, bind, Except.bind, pure, Except.pure]
  split
  · exact ⟨_, rfl, by intro _ _ h; cases h⟩
  · split
    · exact ⟨_, rfl, by intro _ _ h; cases h⟩
    · rename_i r hr
      refine ⟨_, rfl, ?_⟩
      intro code n he
      cases he
      have := pyNewGo_consumed _ _ _ _ hr
      simp only [List.length_nil, List.length_drop] at this
      omega

theorem pyOldGo_consumed (ls : List (List Char)) (acc : List (List Char)) :
    acc.length + 2 ≤ (pyOldGo ls acc).2 ∧ (pyOldGo ls acc).2 ≤ acc.length + ls.length + 2 := by
  induction ls generalizing acc with
  | nil => simp [pyOldGo]
  | cons l rest ih =>
    unfold pyOldGo
    split
    · simp
    · have := ih (l :: acc)
      simp only [List.length_cons] at this ⊢
      omega

/-- **legacy `<<py` blocks**: at least two lines are used and the index lands at most one past the end of the text
(an unclosed legacy block silently runs to the end) -/
theorem pyOld_consumed (lines : List (List Char)) (start : Nat) (h : start < lines.length) :
    2 ≤ (pyOld lines start).2 ∧ start + (pyOld lines start).2 ≤ lines.length + 1 := by
  unfold pyOld
  have := pyOldGo_consumed (lines.drop (start + 1)) []
  simp only [List.length_nil, List.length_drop] at this
  omega

/-- `findClose` answers a position inside the scanned text -/
theorem findClose_bound (cs : List Char) (pos : Nat) (d : Int) (pe : Nat) (h : findClose cs pos d = some pe) :
    pos ≤ pe ∧ pe < pos + cs.length := by
  induction cs generalizing pos d with
  | nil => simp [findClose] at h
  | cons c r ih =>
    unfold findClose at h
    simp only [List.length_cons]
    split at h
    · have := ih _ _ h; omega
    · split at h
      · split at h
        · simp only [Option.some.injEq] at h; omega
        · have := ih _ _ h; omega
      · have := ih _ _ h; omega

end Bardic.Parser

namespace Bardic.Parser
/-! concrete, non-trivial instances (tests, not theorems): the inputs of the seeded changes -/
def okWith {α} (p : α → Bool) : PyM α → Bool
  | .ok a => p a
  | .error _ => false
example : okWith (fun r => r.2 == 3) (multiline ["~ items = [".toList, "  1,".toList, "]]".toList, "x".toList] 0 "items = [".toList) = true := by decide
example : okWith (fun r => r == ("Cave ^dark".toList, "depth=(1)".toList)) (extractPassageParams "Cave(depth=(1)) ^dark".toList) = true := by decide
example : okWith (fun r => r == some .generic) (validatePassageName (fun _ => true) (fun _ => false) ".hidden".toList) = true := by decide
example : okWith (fun r => match r with | .ok (_, n) => n == 3 | _ => false) (pyNew ["@py:".toList, "x = 1".toList, "@endpy".toList] 0) = true := by decide
end Bardic.Parser
