import Bardic.Own
import Bardic.Engine.Api
/-!
# C16 — determinism and non-sharing

* Determinism: the model's `step`/`run`/`goto` are functions; equal inputs give equal outputs
  (`run_deterministic` merely states it — the content is in the tie to the code, which compares two
  runs, two processes with different hash seeds, and two engines sharing one story object).
* Non-sharing: `regions_separate` — in the ownership model of the engine's copy discipline no
  region is ever reachable from two different roots, for every history of operations.
-/
namespace Bardic.Own

def Disj (a b : Root) : Prop := ∀ x ∈ a.regions, x ∉ b.regions

theorem Disj.symm {a b : Root} (h : Disj a b) : Disj b a := fun x hx hxa => h x hxa hx

/-- all regions allocated so far are below `next`, and distinct roots hold disjoint regions -/
structure Inv (h : Heap) : Prop where
  bounded : ∀ r ∈ h.roots, ∀ x ∈ r.regions, x < h.next
  separate : h.roots.Pairwise Disj
  /-- there is at most one live game -/
  oneLive : h.roots.Pairwise (fun a b => ¬ (a.kind = .live ∧ b.kind = .live))

theorem fresh_range (h : Heap) (n : Nat) : ∀ x ∈ fresh h n, h.next ≤ x ∧ x < h.next + n := by
  intro x hx
  simp only [fresh, List.mem_map, List.mem_range] at hx
  obtain ⟨k, hk, rfl⟩ := hx
  exact ⟨Nat.le_add_left _ _, by rw [Nat.add_comm]; exact Nat.add_lt_add_left hk _⟩

/-- adding a root made of fresh regions to a sub-collection of the roots keeps everything separate -/
theorem add_fresh (h : Heap) (hi : Inv h) (roots' : List Root) (hsub : roots'.Sublist h.roots) (k : RootKind) (n : Nat)
    (hk : k = .live → ∀ r ∈ roots', r.kind ≠ .live) :
    Inv { next := h.next + n, roots := roots' ++ [⟨k, fresh h n⟩] } := by
  refine ⟨?_, ?_, ?_⟩
  rotate_left 2
  · rw [List.pairwise_append]
    refine ⟨hi.oneLive.sublist hsub, by simp, ?_⟩
    intro a ha b hb hab
    simp only [List.mem_singleton] at hb
    subst hb
    exact hk hab.2 a ha hab.1
  · intro r hr x hx
    rcases List.mem_append.mp hr with hr | hr
    · exact Nat.lt_of_lt_of_le (hi.bounded r (hsub.subset hr) x hx) (Nat.le_add_right _ _)
    · simp only [List.mem_singleton] at hr; subst hr; exact (fresh_range h n x hx).2
  · rw [List.pairwise_append]
    refine ⟨hi.separate.sublist hsub, by simp, ?_⟩
    intro a ha b hb x hx hf
    simp only [List.mem_singleton] at hb
    subst hb
    have h1 := hi.bounded a (hsub.subset ha) x hx
    have h2 := (fresh_range h n x hf).1
    exact absurd h1 (Nat.not_lt.mpr h2)

theorem pairwise_other_index {l : List Root} (hp : l.Pairwise Disj) (i j : Nat) (hi : i < l.length) (hj : j < l.length)
    (hne : i ≠ j) : Disj l[i] l[j] := by
  rw [List.pairwise_iff_getElem] at hp
  rcases Nat.lt_or_gt_of_ne hne with h | h
  · exact hp i j hi hj h
  · exact (hp j i hj hi h).symm

theorem step_inv (h : Heap) (op : AOp) (hi : Inv h) : Inv (step h op) := by
  cases op with
  | snapshot n => exact add_fresh h hi h.roots (List.Sublist.refl _) _ n (by intro h; cases h)
  | save n => exact add_fresh h hi h.roots (List.Sublist.refl _) _ n (by intro h; cases h)
  | callerDoc n => exact add_fresh h hi h.roots (List.Sublist.refl _) _ n (by intro h; cases h)
  | load n =>
    exact add_fresh h hi _ List.filter_sublist _ n (by
      intro _ r hr; have := (List.mem_filter.mp hr).2; simpa using this)
  | restore i =>
    simp only [step]
    split
    · exact hi
    · rename_i s hs
      split
      · have hlt : i < h.roots.length := by
          rcases Nat.lt_or_ge i h.roots.length with h' | h'
          · exact h'
          · rw [List.getElem?_eq_none h'] at hs; cases hs
        have hsi : h.roots[i] = s := by
          have := List.getElem?_eq_getElem hlt
          rw [this] at hs; exact Option.some.inj hs
        have hsub : ((h.roots.eraseIdx i).filter (·.kind != .live)).Sublist h.roots :=
          List.filter_sublist.trans (List.eraseIdx_sublist _ _)
        refine ⟨?_, ?_, ?_⟩
        rotate_left 2
        · rw [List.pairwise_append]
          refine ⟨hi.oneLive.sublist hsub, by simp, ?_⟩
          intro a ha b hb hab
          have := (List.mem_filter.mp ha).2
          simp only [bne_iff_ne, ne_eq] at this
          exact this hab.1
        · intro r hr x hx
          rcases List.mem_append.mp hr with hr | hr
          · exact hi.bounded r (hsub.subset hr) x hx
          · simp only [List.mem_singleton] at hr; subst hr
            exact hi.bounded s (hsi ▸ List.getElem_mem hlt) x hx
        · rw [List.pairwise_append]
          refine ⟨hi.separate.sublist hsub, by simp, ?_⟩
          intro a ha b hb
          simp only [List.mem_singleton] at hb
          subst hb
          have ha' := (List.mem_filter.mp ha).1
          rw [List.mem_eraseIdx_iff_getElem] at ha'
          obtain ⟨j, hj, hne, hja⟩ := ha'
          have := pairwise_other_index hi.separate j i hj hlt hne
          rw [hja, hsi] at this
          exact this
      · exact hi
  | liveAlloc n =>
    simp only [step]
    refine ⟨?_, ?_, ?_⟩
    · intro r hr x hx
      simp only [List.mem_map] at hr
      obtain ⟨r0, hr0, rfl⟩ := hr
      split at hx
      · rcases List.mem_append.mp hx with hx | hx
        · exact Nat.lt_of_lt_of_le (hi.bounded r0 hr0 x hx) (Nat.le_add_right _ _)
        · exact (fresh_range h n x hx).2
      · exact Nat.lt_of_lt_of_le (hi.bounded r0 hr0 x hx) (Nat.le_add_right _ _)
    · rw [List.pairwise_map, List.pairwise_iff_getElem]
      intro i j hi' hj' hij
      have hd := (List.pairwise_iff_getElem.mp hi.separate) i j hi' hj' hij
      have hl := (List.pairwise_iff_getElem.mp hi.oneLive) i j hi' hj' hij
      have bi := hi.bounded _ (List.getElem_mem hi')
      have bj := hi.bounded _ (List.getElem_mem hj')
      intro x hx hxb
      by_cases hli : h.roots[i].kind = .live <;> by_cases hlj : h.roots[j].kind = .live
      · exact hl ⟨hli, hlj⟩
      · simp only [hli, beq_self_eq_true, if_true, hlj, beq_iff_eq, if_false] at hx hxb
        rcases List.mem_append.mp hx with hx | hx
        · exact hd x hx hxb
        · exact absurd (bj x hxb) (Nat.not_lt.mpr (fresh_range h n x hx).1)
      · simp only [hli, beq_iff_eq, if_false, hlj, beq_self_eq_true, if_true] at hx hxb
        rcases List.mem_append.mp hxb with hxb | hxb
        · exact hd x hx hxb
        · exact absurd (bi x hx) (Nat.not_lt.mpr (fresh_range h n x hxb).1)
      · simp only [hli, hlj, beq_iff_eq, if_false] at hx hxb
        exact hd x hx hxb
    · rw [List.pairwise_map]
      refine hi.oneLive.imp ?_
      intro a b hab hab'
      apply hab
      constructor
      · have := hab'.1; split at this <;> simp_all
      · have := hab'.2; split at this <;> simp_all

theorem init_inv (nStory nLive : Nat) : Inv (init nStory nLive) := by
  refine ⟨?_, ?_, ?_⟩
  · intro r hr x hx
    simp only [init, List.mem_cons, List.mem_singleton, List.not_mem_nil, or_false] at hr
    rcases hr with rfl | rfl
    · simp only [List.mem_range] at hx
      exact Nat.lt_of_lt_of_le hx (Nat.le_add_right _ _)
    · simp only [List.mem_map, List.mem_range] at hx
      obtain ⟨k, hk, rfl⟩ := hx
      show k + nStory < nStory + nLive
      rw [Nat.add_comm]; exact Nat.add_lt_add_left hk _
  · simp only [init, List.pairwise_cons, List.mem_singleton, forall_eq, List.not_mem_nil, false_imp_iff,
      implies_true, List.Pairwise.nil, and_true]
    intro x hx hx2
    simp only [List.mem_range] at hx
    simp only [List.mem_map, List.mem_range] at hx2
    obtain ⟨k, _, rfl⟩ := hx2
    omega
  · simp [init]

/-- **no mutable data is ever shared** between the story, the live game, any undo/redo restore point
and any save document handed out or taken in — after every history of operations, of any length -/
theorem regions_separate (nStory nLive : Nat) (ops : List AOp) :
    Inv (ops.foldl step (init nStory nLive)) := by
  have : ∀ (ops : List AOp) (h : Heap), Inv h → Inv (ops.foldl step h) := by
    intro ops
    induction ops with
    | nil => intro h hi; exact hi
    | cons op ops ih => intro h hi; exact ih _ (step_inv h op hi)
  exact this ops _ (init_inv nStory nLive)

/-- the story's regions are never written: no operation changes the story root -/
theorem story_root_constant (h : Heap) (op : AOp) (r : Root) (hr : r ∈ h.roots) (hk : r.kind = .story) :
    r ∈ (step h op).roots := by
  cases op with
  | snapshot n => simp [step, hr]
  | save n => simp [step, hr]
  | callerDoc n => simp [step, hr]
  | load n => simp only [step]; exact List.mem_append_left _ (List.mem_filter.mpr ⟨hr, by simp [hk]⟩)
  | restore i =>
    simp only [step]
    split
    · exact hr
    · rename_i s hs
      split
      · rename_i hsk
        apply List.mem_append_left
        refine List.mem_filter.mpr ⟨?_, by simp [hk]⟩
        rw [List.mem_eraseIdx_iff_getElem]
        obtain ⟨j, hj, hjr⟩ := List.getElem_of_mem hr
        refine ⟨j, hj, ?_, hjr⟩
        intro e
        subst e
        have : h.roots[j]? = some h.roots[j] := List.getElem?_eq_getElem hj
        rw [this] at hs
        have : h.roots[j] = s := Option.some.inj hs
        rw [hjr] at this
        rw [← this, hk] at hsk
        simp at hsk
      · exact hr
  | liveAlloc n =>
    simp only [step, List.mem_map]
    exact ⟨r, hr, by simp [hk]⟩

end Bardic.Own

namespace Bardic
variable {S : Sem}

/-- the model is a function: equal stories, states and calls give equal results (the content of the
determinism clause lies in the tie to the code, which this run checks across runs, engines and
hash seeds) -/
theorem run_deterministic (c : ECfg S) (e : Eng S.V) (ops : List (Op S.V)) :
    ∀ r1 r2, r1 = run c e ops → r2 = run c e ops → r1 = r2 := by
  intro r1 r2 h1 h2; rw [h1, h2]

end Bardic
