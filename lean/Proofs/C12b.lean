import Proofs.C18
import Bardic.Wf
/-!
# C12 — in a story whose call sites are all valid, every choice a passage can offer leads somewhere
-/
namespace Bardic
variable {S : Sem}

mutual
theorem tokChoices_sites (src : String) : ∀ (t : Tok) (c : Choice), c ∈ tokChoices t →
    (⟨src, c.target, c.args, true, false⟩ : CallSite) ∈ tokSites src t
  | .cond bs, c, h => by simp only [tokChoices] at h; simp only [tokSites]; exact branchesChoices_sites src bs c h
  | .loop _ _ body chs, c, h => by
      simp only [tokChoices, List.mem_append] at h
      simp only [tokSites, List.mem_append, List.mem_map]
      rcases h with h | h
      · exact Or.inl ⟨c, h, rfl⟩
      · exact Or.inr (toksChoices_sites src body c h)
  | .text _ _, c, h => by simp [tokChoices] at h
  | .expr _, c, h => by simp [tokChoices] at h
  | .inlineCond _ _ _, c, h => by simp [tokChoices] at h
  | .render _ _ _, c, h => by simp [tokChoices] at h
  | .input _, c, h => by simp [tokChoices] at h
  | .stmt _, c, h => by simp [tokChoices] at h
  | .pyblock _, c, h => by simp [tokChoices] at h
  | .hook _ _ _, c, h => by simp [tokChoices] at h
  | .jump _ _, c, h => by simp [tokChoices] at h
  | .joinMarker, c, h => by simp [tokChoices] at h
  | .other _, c, h => by simp [tokChoices] at h
theorem toksChoices_sites (src : String) : ∀ (ts : List Tok) (c : Choice), c ∈ toksChoices ts →
    (⟨src, c.target, c.args, true, false⟩ : CallSite) ∈ toksSites src ts
  | [], c, h => by simp [toksChoices] at h
  | t :: ts, c, h => by
      simp only [toksChoices, List.mem_append] at h
      simp only [toksSites, List.mem_append]
      rcases h with h | h
      · exact Or.inl (tokChoices_sites src t c h)
      · exact Or.inr (toksChoices_sites src ts c h)
theorem branchesChoices_sites (src : String) : ∀ (bs : List Branch) (c : Choice), c ∈ branchesChoices bs →
    (⟨src, c.target, c.args, true, false⟩ : CallSite) ∈ branchesSites src bs
  | [], c, h => by simp [branchesChoices] at h
  | .mk _ body chs :: bs, c, h => by
      simp only [branchesChoices, List.mem_append] at h
      simp only [branchesSites, List.mem_append, List.mem_map]
      rcases h with (h | h) | h
      · exact Or.inl (Or.inl ⟨c, h, rfl⟩)
      · exact Or.inl (Or.inr (toksChoices_sites src body c h))
      · exact Or.inr (branchesChoices_sites src bs c h)
end

/-- a choice found at any depth of a passage's content is one of its nested call sites -/
theorem toksChoices_nestedSites (p : Passage) (c : Choice) (h : c ∈ toksChoices p.content) :
    (⟨p.id, c.target, c.args, true, false⟩ : CallSite) ∈ nestedSites p := by
  unfold nestedSites
  generalize p.content = ts at h
  induction ts with
  | nil => simp [toksChoices] at h
  | cons t ts ih =>
    simp only [toksChoices, List.mem_append] at h
    simp only [List.flatMap_cons, List.mem_append]
    rcases h with h | h
    · left
      cases t with
      | jump _ _ => simp [tokChoices] at h
      | cond bs => exact tokChoices_sites p.id _ c h
      | loop a b body chs => exact tokChoices_sites p.id _ c h
      | text _ _ => simp [tokChoices] at h
      | expr _ => simp [tokChoices] at h
      | inlineCond _ _ _ => simp [tokChoices] at h
      | render _ _ _ => simp [tokChoices] at h
      | input _ => simp [tokChoices] at h
      | stmt _ => simp [tokChoices] at h
      | pyblock _ => simp [tokChoices] at h
      | hook _ _ _ => simp [tokChoices] at h
      | joinMarker => simp [tokChoices] at h
      | other _ => simp [tokChoices] at h
    · exact Or.inr (ih h)

/-- **navigation safety at the choice level**: in a story where every call site at every depth is valid (`wfAll`, what
C12 asks of a compiled story), every choice any passage can ever offer — top-level or handed out by an `@if` / `@for`,
for every state and every author code — is either a `-> @join` choice or names a passage that exists -/
theorem wfAll_offered_target_exists (c : ECfg S) (parse : String → Option (Nat × List String))
    (hwf : wfAll c.story parse = true) (pid : String) (p : Passage) (l : Live S.V) (o : Output S.V)
    (hp : c.story.passage? pid = some p) (hmem : (pid, p) ∈ c.story.passages)
    (h : (renderPassage c pid l).2 = .ok o) :
    ∀ oc ∈ o.choices, oc.c.target = "@join" ∨ (c.story.passage? oc.c.target).isSome = true := by
  intro oc hoc
  have hin := (renderPassage_in_graph c pid l p o hp h).1 oc hoc
  simp only [wfAll, wfTop, Bool.and_eq_true, List.all_eq_true] at hwf
  have site_ok : ∀ cs : CallSite, cs.isJump = false → siteOk c.story parse cs = true →
      cs.target = "@join" ∨ (c.story.passage? cs.target).isSome = true := by
    intro cs hj hs
    unfold siteOk at hs
    split at hs
    · rename_i hc
      simp only [Bool.and_eq_true, beq_iff_eq] at hc
      exact Or.inl hc.1
    · split at hs
      · cases hs
      · rename_i q hq; exact Or.inr (by simp [hq])
  rcases List.mem_append.mp hin with h1 | h2
  · have := hwf.1.2 (pid, p) hmem ⟨p.id, oc.c.target, oc.c.args, false, false⟩ (by
      simp only [topSites, List.mem_append, List.mem_map]
      exact Or.inl ⟨oc.c, h1, rfl⟩)
    exact site_ok _ rfl this
  · have := hwf.2 (pid, p) hmem ⟨p.id, oc.c.target, oc.c.args, true, false⟩ (toksChoices_nestedSites p oc.c h2)
    exact site_ok _ rfl this

mutual
theorem tokJumps_sites (src : String) : ∀ (t : Tok) (x : String), x ∈ tokJumps t →
    ∃ a, (⟨src, x, a, true, true⟩ : CallSite) ∈ tokSites src t
  | .jump tg a, x, h => by
      simp only [tokJumps, List.mem_singleton] at h
      subst h; exact ⟨a, by simp [tokSites]⟩
  | .cond bs, x, h => by simp only [tokJumps] at h; simp only [tokSites]; exact branchesJumps_sites src bs x h
  | .loop _ _ body chs, x, h => by
      simp only [tokJumps] at h
      obtain ⟨a, ha⟩ := toksJumps_sites src body x h
      exact ⟨a, by simp only [tokSites, List.mem_append]; exact Or.inr ha⟩
  | .text _ _, x, h => by simp [tokJumps] at h
  | .expr _, x, h => by simp [tokJumps] at h
  | .inlineCond _ _ _, x, h => by simp [tokJumps] at h
  | .render _ _ _, x, h => by simp [tokJumps] at h
  | .input _, x, h => by simp [tokJumps] at h
  | .stmt _, x, h => by simp [tokJumps] at h
  | .pyblock _, x, h => by simp [tokJumps] at h
  | .hook _ _ _, x, h => by simp [tokJumps] at h
  | .joinMarker, x, h => by simp [tokJumps] at h
  | .other _, x, h => by simp [tokJumps] at h
theorem toksJumps_sites (src : String) : ∀ (ts : List Tok) (x : String), x ∈ toksJumps ts →
    ∃ a, (⟨src, x, a, true, true⟩ : CallSite) ∈ toksSites src ts
  | [], x, h => by simp [toksJumps] at h
  | t :: ts, x, h => by
      simp only [toksJumps, List.mem_append] at h
      rcases h with h | h
      · obtain ⟨a, ha⟩ := tokJumps_sites src t x h
        exact ⟨a, by simp only [toksSites, List.mem_append]; exact Or.inl ha⟩
      · obtain ⟨a, ha⟩ := toksJumps_sites src ts x h
        exact ⟨a, by simp only [toksSites, List.mem_append]; exact Or.inr ha⟩
theorem branchesJumps_sites (src : String) : ∀ (bs : List Branch) (x : String), x ∈ branchesJumps bs →
    ∃ a, (⟨src, x, a, true, true⟩ : CallSite) ∈ branchesSites src bs
  | [], x, h => by simp [branchesJumps] at h
  | .mk _ body chs :: bs, x, h => by
      simp only [branchesJumps, List.mem_append] at h
      rcases h with h | h
      · obtain ⟨a, ha⟩ := toksJumps_sites src body x h
        exact ⟨a, by simp only [branchesSites, List.mem_append]; exact Or.inl (Or.inr ha)⟩
      · obtain ⟨a, ha⟩ := branchesJumps_sites src bs x h
        exact ⟨a, by simp only [branchesSites, List.mem_append]; exact Or.inr ha⟩
end

/-- a jump target found at any depth is a top-level jump site or a nested site of the passage -/
theorem toksJumps_site (p : Passage) (x : String) (h : x ∈ toksJumps p.content) :
    ∃ a, (⟨p.id, x, a, false, true⟩ : CallSite) ∈ topSites p ∨ (⟨p.id, x, a, true, true⟩ : CallSite) ∈ nestedSites p := by
  unfold topSites nestedSites
  generalize p.content = ts at h
  induction ts with
  | nil => simp [toksJumps] at h
  | cons t ts ih =>
    simp only [toksJumps, List.mem_append] at h
    rcases h with h | h
    · cases t with
      | jump tg a =>
        simp only [tokJumps, List.mem_singleton] at h
        subst h
        exact ⟨a, Or.inl (by simp)⟩
      | cond bs =>
        obtain ⟨a, ha⟩ := tokJumps_sites p.id _ x h
        exact ⟨a, Or.inr (by simp only [List.flatMap_cons, List.mem_append]; exact Or.inl ha)⟩
      | loop v c body chs =>
        obtain ⟨a, ha⟩ := tokJumps_sites p.id _ x h
        exact ⟨a, Or.inr (by simp only [List.flatMap_cons, List.mem_append]; exact Or.inl ha)⟩
      | text _ _ => simp [tokJumps] at h
      | expr _ => simp [tokJumps] at h
      | inlineCond _ _ _ => simp [tokJumps] at h
      | render _ _ _ => simp [tokJumps] at h
      | input _ => simp [tokJumps] at h
      | stmt _ => simp [tokJumps] at h
      | pyblock _ => simp [tokJumps] at h
      | hook _ _ _ => simp [tokJumps] at h
      | joinMarker => simp [tokJumps] at h
      | other _ => simp [tokJumps] at h
    · obtain ⟨a, ha⟩ := ih h
      refine ⟨a, ?_⟩
      rcases ha with ha | ha
      · left
        simp only [List.mem_append, List.mem_map, List.mem_filterMap] at ha ⊢
        rcases ha with ha | ha
        · exact Or.inl ha
        · obtain ⟨tk, htk, he⟩ := ha
          exact Or.inr ⟨tk, List.mem_cons_of_mem _ htk, he⟩
      · right
        simp only [List.flatMap_cons, List.mem_append]
        exact Or.inr ha

/-- … and every jump a rendering reports (inside `@if` / `@for` or at the top level) names a passage that exists -/
theorem wfAll_jump_target_exists (c : ECfg S) (parse : String → Option (Nat × List String))
    (hwf : wfAll c.story parse = true) (pid : String) (p : Passage) (l : Live S.V) (o : Output S.V)
    (hp : c.story.passage? pid = some p) (hmem : (pid, p) ∈ c.story.passages)
    (h : (renderPassage c pid l).2 = .ok o) :
    ∀ t, o.jump = some t → (c.story.passage? t).isSome = true := by
  intro t ht
  have hin := (renderPassage_in_graph c pid l p o hp h).2 t ht
  simp only [wfAll, wfTop, Bool.and_eq_true, List.all_eq_true] at hwf
  have site_ok : ∀ cs : CallSite, cs.isJump = true → siteOk c.story parse cs = true →
      (c.story.passage? cs.target).isSome = true := by
    intro cs hj hs
    unfold siteOk at hs
    split at hs
    · rename_i hc
      simp only [Bool.and_eq_true, hj, Bool.not_true, Bool.and_false] at hc
      cases hc
    · split at hs
      · cases hs
      · rename_i q hq; simp [hq]
  obtain ⟨a, ha⟩ := toksJumps_site p t hin
  rcases ha with ha | ha
  · exact site_ok _ rfl (hwf.1.2 (pid, p) hmem _ ha)
  · exact site_ok _ rfl (hwf.2 (pid, p) hmem _ ha)

end Bardic
