import Bardic.Codec
/-!
# C06 — story values survive save → JSON → load at any nesting depth
-/
namespace Bardic.Codec

theorem lookup_encKVs_none (k : String) : ∀ (d : List (String × PyVal)),
    d.any (·.1 == k) = false → (encKVs d).lookup k = none := by
  intro d
  induction d with
  | nil => intro _; rfl
  | cons kv rest ih =>
    obtain ⟨k', v⟩ := kv
    intro h
    simp only [List.any_cons, Bool.or_eq_false_iff] at h
    simp only [encKVs, List.lookup]
    have : (k == k') = false := by
      have := h.1; simp only [beq_eq_false_iff_ne, ne_eq] at this ⊢; exact fun e => this e.symm
    rw [this]; exact ih h.2

theorem encPublic_eq_encKVs : ∀ (a : List (String × PyVal)), a.all (fun kv => isPublic kv.1) = true →
    encPublic a = encKVs a := by
  intro a
  induction a with
  | nil => intro _; rfl
  | cons kv rest ih =>
    obtain ⟨k, v⟩ := kv
    intro h
    simp only [List.all_cons, Bool.and_eq_true] at h
    simp only [encPublic, encKVs, h.1, if_true, ih h.2]

theorem dec_typed (ctx : Registry) (d : List (String × JVal)) (ty : String)
    (ht : d.lookup "_type" = some (.str ty)) (hne : ty ≠ "string_repr") :
    dec ctx (.obj d) = (match ctx.lookup ty with
      | none => PyVal.dict ((decDataOf ctx d).getD [])
      | some (m, kind) => PyVal.obj ty m kind ((decDataOf ctx d).getD [])) := by
  unfold dec
  rw [ht]
  split
  · rename_i heq; cases heq
  · rename_i heq
    injection heq with heq
    injection heq with heq
    exact absurd heq hne
  · rename_i ty' _ heq
    injection heq with heq
    injection heq with heq
    subst heq
    rfl
  · rename_i v h1 h2 h3
    injection h3 with h3
    exact absurd h3.symm (h2 ty)

mutual
/-- **round trip**: every supported value — scalars, lists, tuples, string-keyed dicts, plain
attribute objects, custom-serialised objects, nested in any combination to any depth — comes back
from save → JSON → load as an equal value of the same class, tuples as lists -/
theorem codec_roundtrip (ctx : Registry) : ∀ (v : PyVal), Supported ctx v = true → dec ctx (enc v) = norm v
  | .none, _ => by simp [enc, dec, norm]
  | .bool b, _ => by simp [enc, dec, norm]
  | .int i, _ => by simp [enc, dec, norm]
  | .str s, _ => by simp [enc, dec, norm]
  | .list l, h => by
      simp only [Supported] at h
      simp only [enc, dec, norm, roundtrip_list ctx l h]
  | .tuple l, h => by
      simp only [Supported] at h
      simp only [enc, dec, norm, roundtrip_list ctx l h]
  | .dict d, h => by
      simp only [Supported, Bool.and_eq_true, Bool.not_eq_true'] at h
      simp only [enc, dec, norm]
      rw [lookup_encKVs_none "_type" d h.1]
      simp only [roundtrip_kvs ctx d h.2]
  | .obj c m .auto a, h => by
      simp only [Supported, Bool.and_eq_true, beq_iff_eq, bne_iff_ne, ne_eq] at h
      obtain ⟨⟨⟨h1, h2⟩, h3⟩, h4⟩ := h
      simp only [enc, norm, encPublic_eq_encKVs a h3]
      rw [dec_typed ctx _ c (by simp [List.lookup]) h2, h1]
      simp [decDataOf, roundtrip_kvs ctx a h4]
  | .obj c m .custom a, h => by
      simp only [Supported, Bool.and_eq_true, beq_iff_eq, bne_iff_ne, ne_eq] at h
      obtain ⟨⟨h1, h2⟩, h4⟩ := h
      simp only [enc, norm]
      rw [dec_typed ctx _ c (by simp [List.lookup]) h2, h1]
      simp [decDataOf, roundtrip_kvs ctx a h4]

theorem roundtrip_list (ctx : Registry) : ∀ (l : List PyVal), supList ctx l = true →
    decList ctx (encList l) = normList l
  | [], _ => rfl
  | v :: vs, h => by
      simp only [supList, Bool.and_eq_true] at h
      simp only [encList, decList, normList, codec_roundtrip ctx v h.1, roundtrip_list ctx vs h.2]

theorem roundtrip_kvs (ctx : Registry) : ∀ (d : List (String × PyVal)), supKVs ctx d = true →
    decKVs ctx (encKVs d) = normKVs d
  | [], _ => rfl
  | (k, v) :: rest, h => by
      simp only [supKVs, Bool.and_eq_true] at h
      simp only [encKVs, decKVs, normKVs, codec_roundtrip ctx v h.1, roundtrip_kvs ctx rest h.2]
end

/-- non-vacuity: a concrete nested value (object in a dict in a list in an object's data) is supported -/
example : Supported [("Card", ("game", .auto)), ("Wallet", ("bardic.stdlib.economy", .custom))]
    (.obj "Wallet" "bardic.stdlib.economy" .custom
      [("gold", .int 5), ("log", .list [.dict [("c", .obj "Card" "game" .auto [("name", .str "Fool"), ("pos", .tuple [.int 1, .int 2])])]])]) = true := by
  decide

end Bardic.Codec
