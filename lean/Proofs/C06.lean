import Bardic.Codec
/-!
# C06 — story values survive save → JSON → load at any nesting depth
-/
namespace Bardic.Codec

theorem lookup_encKVs_none (k : String) : ∀ (d : List (String × PyVal)),
    d.any (·.1 == k) = false → (encKVs d).lookup k = none := by
  intro d
  induction d with
  | nil => intro _; rfl
  | cons kv rest ih =>
    obtain ⟨k', v⟩ := kv
    intro h
    simp only [List.any_cons, Bool.or_eq_false_iff] at h
    simp only [encKVs, List.lookup]
    have : (k == k') = false := by
      have := h.1; simp only [beq_eq_false_iff_ne, ne_eq] at this ⊢; exact fun e => this e.symm
    rw [this]; exact ih h.2

theorem encPublic_eq_encKVs : ∀ (a : List (String × PyVal)), a.all (fun kv => isPublic kv.1) = true →
    encPublic a = encKVs a := by
  intro a
  induction a with
  | nil => intro _; rfl
  | cons kv rest ih =>
    obtain ⟨k, v⟩ := kv
    intro h
    simp only [List.all_cons, Bool.and_eq_true] at h
    simp only [encPublic, encKVs, h.1, if_true, ih h.2]

theorem dec_typed (ctx : Registry) (d : List (String × JVal)) (ty : String)
    (ht : d.lookup "_type" = some (.str ty)) (hne : ty ≠ "string_repr") (hnd : ty ≠ "dict") :
    dec ctx (.obj d) = (match ctx.lookup ty with
      | none => PyVal.dict ((decDataOf ctx d).getD [])
      | some (m, .auto) => PyVal.obj ty m .auto ((decDataOf ctx d).getD [])
      | some (m, .custom) => PyVal.obj ty m .custom (match decDataC ctx d with | some (.dict kvs) => kvs | _ => [])) := by
  unfold dec
  rw [ht]
  split
  · rename_i heq; cases heq
  · rename_i heq
    injection heq with heq
    injection heq with heq
    exact absurd heq hne
  · rename_i heq
    injection heq with heq
    injection heq with heq
    exact absurd heq hnd
  · rename_i ty' _ _ heq
    injection heq with heq
    injection heq with heq
    subst heq
    rfl
  · rename_i v h1 h2 h3 h4
    injection h4 with h4
    exact absurd h4.symm (h3 ty)

/-- a wrapped dict comes back as the dict of its data -/
theorem dec_wrapped (ctx : Registry) (d : List (String × JVal)) (ht : d.lookup "_type" = some (.str "dict")) :
    dec ctx (.obj d) = PyVal.dict ((decDataOf ctx d).getD []) := by
  unfold dec
  rw [ht]
  split
  · rename_i heq; cases heq
  · rename_i heq
    injection heq with heq
    injection heq with heq
    exact absurd heq (by decide)
  · rfl
  · rename_i ty h1 h2 heq
    injection heq with heq
    injection heq with heq
    exact absurd heq.symm h2
  · rename_i v h1 h2 h3 h4
    injection h4 with h4
    exact absurd h4.symm (h3 "dict")

mutual
/-- **round trip**: every supported value — scalars, lists, tuples, string-keyed dicts, plain
attribute objects, custom-serialised objects, nested in any combination to any depth — comes back
from save → JSON → load as an equal value of the same class, tuples as lists -/
theorem codec_roundtrip (ctx : Registry) : ∀ (v : PyVal), Supported ctx v = true → dec ctx (enc v) = norm v
  | .none, _ => by simp [enc, dec, norm]
  | .bool b, _ => by simp [enc, dec, norm]
  | .int i, _ => by simp [enc, dec, norm]
  | .str s, _ => by simp [enc, dec, norm]
  | .list l, h => by
      simp only [Supported] at h
      simp only [enc, dec, norm, roundtrip_list ctx l h]
  | .tuple l, h => by
      simp only [Supported] at h
      simp only [enc, dec, norm, roundtrip_list ctx l h]
  | .dict d, h => by
      simp only [Supported] at h
      simp only [enc, norm]
      by_cases hk : d.any (·.1 == "_type") = true
      · -- the dict uses the reserved key: it travels wrapped
        rw [if_pos hk, dec_wrapped ctx _ (by simp [List.lookup])]
        simp [decDataOf, roundtrip_kvs ctx d h]
      · rw [if_neg hk]
        simp only [Bool.not_eq_true] at hk
        simp only [dec]
        rw [lookup_encKVs_none "_type" d hk]
        simp only [roundtrip_kvs ctx d h]
  | .obj c m .auto a, h => by
      simp only [Supported, Bool.and_eq_true, beq_iff_eq, bne_iff_ne, ne_eq] at h
      obtain ⟨⟨⟨⟨h1, h2⟩, h2d⟩, h3⟩, h4⟩ := h
      simp only [enc, norm, encPublic_eq_encKVs a h3]
      rw [dec_typed ctx _ c (by simp [List.lookup]) h2 h2d, h1]
      simp [decDataOf, roundtrip_kvs ctx a h4]
  | .obj c m .custom a, h => by
      simp only [Supported, Bool.and_eq_true, beq_iff_eq, bne_iff_ne, ne_eq] at h
      obtain ⟨⟨⟨h1, h2⟩, h2d⟩, h4⟩ := h
      simp only [enc, norm]
      rw [dec_typed ctx _ c (by simp [List.lookup]) h2 h2d, h1]
      -- the record the class handed out travels as a dict of its own (wrapped when it uses the reserved key)
      have hrec : dec ctx (if a.any (·.1 == "_type") then JVal.obj [("_type", .str "dict"), ("_data", .obj (encKVs a))] else .obj (encKVs a))
          = PyVal.dict (normKVs a) := by
        by_cases hk : a.any (·.1 == "_type") = true
        · rw [if_pos hk, dec_wrapped ctx _ (by simp [List.lookup])]
          simp [decDataOf, roundtrip_kvs ctx a h4]
        · rw [if_neg hk]
          simp only [Bool.not_eq_true] at hk
          simp only [dec]
          rw [lookup_encKVs_none "_type" a hk]
          simp only [roundtrip_kvs ctx a h4]
      simp [decDataC, hrec]

theorem roundtrip_list (ctx : Registry) : ∀ (l : List PyVal), supList ctx l = true →
    decList ctx (encList l) = normList l
  | [], _ => rfl
  | v :: vs, h => by
      simp only [supList, Bool.and_eq_true] at h
      simp only [encList, decList, normList, codec_roundtrip ctx v h.1, roundtrip_list ctx vs h.2]

theorem roundtrip_kvs (ctx : Registry) : ∀ (d : List (String × PyVal)), supKVs ctx d = true →
    decKVs ctx (encKVs d) = normKVs d
  | [], _ => rfl
  | (k, v) :: rest, h => by
      simp only [supKVs, Bool.and_eq_true] at h
      simp only [encKVs, decKVs, normKVs, codec_roundtrip ctx v h.1, roundtrip_kvs ctx rest h.2]
end

/-- the point the earlier statement of the theorem had to exclude (a dict that uses the reserved key, holding another) -/
example : Supported [] (.dict [("_type", .str "weapon"), ("dmg", .int 3), ("in", .list [.dict [("_type", .int 1), ("_data", .none)]])]) = true := by
  decide

/-- ... and a custom-serialised object whose own record uses the reserved keys -/
example : Supported [("Relic", ("game", .custom))]
    (.obj "Relic" "game" .custom [("_type", .str "weapon"), ("power", .int 3), ("_data", .dict [("_type", .none)])]) = true := by
  decide

/-- non-vacuity: a concrete nested value (object in a dict in a list in an object's data) is supported -/
example : Supported [("Card", ("game", .auto)), ("Wallet", ("bardic.stdlib.economy", .custom))]
    (.obj "Wallet" "bardic.stdlib.economy" .custom
      [("gold", .int 5), ("log", .list [.dict [("c", .obj "Card" "game" .auto [("name", .str "Fool"), ("pos", .tuple [.int 1, .int 2])])]])]) = true := by
  decide

end Bardic.Codec
