import Proofs.C11e
/-!
# C12 on the text-level parser model: what every returned story satisfies

`parseStory_wf`: whenever the model of `parse` returns a story (for any text and any behaviour of CPython's parser),
* every passage is keyed by its own id,
* the initial passage exists (it is the `@start` passage, else `Start`, else the first passage — `determineInitial`)
  and has no parameter without default (so that an engine can enter it without arguments),
* the argument validator accepted every top-level choice and jump (`validateArgs … = ok`): each target is `@join` or a
  defined passage and the arguments have a shape its parameters accept (`validateCall`).
-/
namespace Bardic.Parser

/-- "if the call returns a value, the value satisfies `P`" -/
structure Post {α} (x : PM α) (P : α → Prop) : Prop where
  h : ∀ a, x = .ok a → P a

theorem Post.triv {α} (x : PM α) : Post x (fun _ => True) := ⟨fun _ _ => trivial⟩
theorem Post.pure {α} {P : α → Prop} (a : α) (h : P a) : Post (Pure.pure a : PM α) P := ⟨by intro b hb; cases hb; exact h⟩
theorem Post.err {α} {P : α → Prop} (e : Fail) : Post (Except.error e : PM α) P := ⟨by intro b hb; cases hb⟩
theorem Post.synErr {α} {P : α → Prop} (i : Nat) (m : String) : Post (synErr i m : PM α) P := ⟨by intro b hb; cases hb⟩
theorem Post.bind {α β} {x : PM α} {f : α → PM β} {P : α → Prop} {Q : β → Prop}
    (hx : Post x P) (hf : ∀ a, P a → Post (f a) Q) : Post (x >>= f) Q := by
  cases x with
  | error e => exact ⟨by intro b hb; simp only [Bind.bind, Except.bind] at hb; cases hb⟩
  | ok a => exact hf a (hx.h a rfl)
theorem Post.ite {α} {c : Prop} [Decidable c] {a b : PM α} {P : α → Prop} (ha : Post a P) (hb : Post b P) :
    Post (if c then a else b) P := by
  split <;> assumption

def KeysOk (ps : List (Line × PPassage)) : Prop := ∀ kv ∈ ps, kv.2.id = kv.1

theorem KeysOk_modCur (s : PSt) (hk : KeysOk s.passages) (f : PPassage → PPassage) (hf : ∀ p, (f p).id = p.id) :
    KeysOk (s.modCur f).passages := by
  unfold PSt.modCur
  split
  · exact hk
  · intro kv hkv
    simp only [List.mem_map] at hkv
    obtain ⟨x, hx, rfl⟩ := hkv
    split
    · simp only [hf]; exact hk x hx
    · exact hk x hx

theorem KeysOk_dictSet (d : List (Line × PPassage)) (hk : KeysOk d) (k : Line) (v : PPassage) (hv : v.id = k) :
    KeysOk (dictSet d k v) := by
  unfold dictSet
  split
  · intro kv hkv
    simp only [List.mem_map] at hkv
    obtain ⟨x, hx, rfl⟩ := hkv
    split
    · exact hv
    · exact hk x hx
  · intro kv hkv
    rcases List.mem_append.mp hkv with h | h
    · exact hk kv h
    · simp only [List.mem_singleton] at h; subst h; exact hv

macro "post_close" : tactic => `(tactic| first
  | with_reducible exact Post.err _ | with_reducible exact Post.synErr _ _
  | with_reducible assumption)

macro "post_step" : tactic => `(tactic| first
  | post_close
  | (with_reducible apply Post.bind (P := fun _ => True) (Post.triv _))
  | (intro _)
  | (with_reducible apply Post.ite)
  | split
  | ((conv => zeta); first | post_close | (with_reducible apply Post.bind (P := fun _ => True) (Post.triv _)) | (with_reducible apply Post.ite) | split)
  | (dsimp only; first | post_close | (with_reducible apply Post.bind (P := fun _ => True) (Post.triv _)) | (with_reducible apply Post.ite) | split))

theorem headerLine_keys (O : PyOracle) (line : Line) (i : Nat) (s : PSt) (hk : KeysOk s.passages) :
    Post (headerLine O line i s) (fun s' => KeysOk s'.passages) := by
  unfold headerLine
  repeat (first
    | (refine Post.pure _ ?_; exact KeysOk_dictSet _ hk _ _ rfl)
    | post_step)

/-- the line classifier keeps every passage keyed by its own id -/
theorem coreLoop_keys (O : PyOracle) (lines : Lines) : ∀ (f i : Nat) (s : PSt), KeysOk s.passages →
    Post (coreLoop O lines f i s) (fun s' => KeysOk s'.passages)
  | 0, _, _, _ => by unfold coreLoop; exact Post.err _
  | f + 1, i, s, hk => by
    unfold coreLoop
    have ih := coreLoop_keys O lines f
    by_cases hi : i < lines.size
    · rw [dif_pos hi]
      split
      repeat (first
        | ((with_reducible show Post (coreLoop _ _ _ _ _) _); refine ih _ _ ?_;
            first | exact hk | (refine KeysOk_modCur _ ?_ _ (fun _ => rfl); exact hk) | assumption)
        | (with_reducible refine Post.bind (headerLine_keys O _ _ _ hk) ?_)
        | post_step)
    · rw [dif_neg hi]; exact Post.pure _ hk

theorem determineInitial_mem (e : Option Line) (ps : List (Line × PPassage)) (t : Line) (hne : ps ≠ [])
    (h : determineInitial e ps = .ok t) : ps.any (·.1 == t) = true := by
  unfold determineInitial at h
  split at h
  · split at h
    · rename_i hm; cases h; exact hm
    · cases h
  · split at h
    · rename_i hm; cases h; exact hm
    · cases h
      cases ps with
      | nil => exact absurd rfl hne
      | cons kv rest => obtain ⟨k, v⟩ := kv; simp

theorem lookup_of_any (ps : List (Line × PPassage)) (t : Line) (h : ps.any (·.1 == t) = true) :
    ∃ ip, ps.lookup t = some ip := by
  induction ps with
  | nil => simp at h
  | cons kv rest ih =>
    obtain ⟨k, v⟩ := kv
    simp only [List.any_cons, Bool.or_eq_true] at h
    simp only [List.lookup]
    by_cases hk : (t == k) = true
    · simp [hk]
    · have hk' : (t == k) = false := by simpa using hk
      simp only [hk']
      rcases h with h | h
      · have : k = t := by simpa using h
        subst this
        simp at hk
      · exact ih h

theorem Post.self {α} (x : PM α) : Post x (fun a => x = .ok a) := ⟨fun _ h => h⟩
theorem Post.ite_cond {α} {c : Prop} [Decidable c] {a b : PM α} {P : α → Prop} (ha : c → Post a P) (hb : ¬c → Post b P) :
    Post (if c then a else b) P := by
  split
  · exact ha ‹_›
  · exact hb ‹_›
theorem Post.valErr_bind {α β} {P : β → Prop} (m : String) (k : α → PM β) : Post (valErr m >>= k) P :=
  ⟨by intro b hb; simp only [valErr, Bind.bind, Except.bind] at hb; cases hb⟩

/-- what holds of a returned story -/
def Parsed.WF (O : PyOracle) (p : Parsed) : Prop :=
  KeysOk p.passages ∧
  (∃ ip, p.passages.lookup p.initial = some ip ∧ hasRequiredParam ip = false) ∧
  validateArgs O p.passages p.passages = .ok ()

/-- **C12 for the parser model**: every story `parse` returns (for any text, any behaviour of CPython's parser) keys each
passage by its own id, names an existing initial passage that can be entered without arguments, and has passed the
argument validator on every top-level choice and jump -/
theorem parseStory_wf (O : PyOracle) (src : Line) (p : Parsed) (h : parseStory O src = .ok p) : p.WF O := by
  suffices hp : Post (parseStory O src) (Parsed.WF O) from hp.h p h
  unfold parseStory parseLines
  conv => zeta
  refine Post.bind (coreLoop_keys O _ _ 0 {} (by intro kv hkv; cases hkv)) ?_
  intro s hk0
  have hk : KeysOk (s.passages.map fun kv => (kv.1, ({ kv.2 with content := trimJ (cleanupJ kv.2.content []) } : PPassage))) := by
    intro kv hkv
    simp only [List.mem_map] at hkv
    obtain ⟨x, hx, rfl⟩ := hkv
    exact hk0 x hx
  apply Post.ite_cond
  · intro _; exact Post.valErr_bind _ _
  · intro _
    refine Post.bind (Post.self _) ?_
    intro u hva
    apply Post.ite_cond
    · intro _; exact Post.valErr_bind _ _
    · intro hne
      refine Post.bind (Post.self _) ?_
      intro initial hini
      have hany := determineInitial_mem _ _ initial (by intro he; simp [he] at hne) hini
      obtain ⟨ip, hip⟩ := lookup_of_any _ initial hany
      simp only [hip]
      apply Post.ite_cond
      · intro _; exact Post.valErr_bind _ _
      · intro hreq
        exact Post.pure _ ⟨hk, ⟨ip, hip, by simpa using hreq⟩, by cases u; exact hva⟩

/-! ### what the validator's acceptance means -/

theorem bind_ok_unit {x : PM Unit} {k : Unit → PM Unit} (h : (x >>= k) = .ok ()) : x = .ok () ∧ k () = .ok () := by
  cases x with
  | error e => simp only [Bind.bind, Except.bind] at h; cases h
  | ok u => cases u; exact ⟨rfl, h⟩

theorem validateChoices_all (O : PyOracle) (ps : List (Line × PPassage)) : ∀ (l : List J),
    validateChoices O ps l = .ok () →
    ∀ ch ∈ l, validateCall O ps ((jGetStr ch "target").getD []) ((jGetStr ch "args").getD []) = .ok ()
  | [], _, ch, hch => by cases hch
  | c :: r, h, ch, hch => by
    unfold validateChoices at h
    obtain ⟨h1, h2⟩ := bind_ok_unit h
    rcases List.mem_cons.mp hch with rfl | hr
    · exact h1
    · exact validateChoices_all O ps r h2 ch hr

theorem validateArgs_choices (O : PyOracle) (ps : List (Line × PPassage)) : ∀ (l : List (Line × PPassage)),
    validateArgs O ps l = .ok () →
    ∀ kv ∈ l, ∀ ch ∈ kv.2.choices, validateCall O ps ((jGetStr ch "target").getD []) ((jGetStr ch "args").getD []) = .ok ()
  | [], _, kv, hkv => by cases hkv
  | (k, p) :: r, h, kv, hkv => by
    unfold validateArgs at h
    obtain ⟨h1, h2⟩ := bind_ok_unit h
    obtain ⟨_, h3⟩ := bind_ok_unit h2
    rcases List.mem_cons.mp hkv with rfl | hr
    · exact validateChoices_all O ps _ h1
    · exact validateArgs_choices O ps r h3 kv hr

/-- an accepted call names `@join` or a defined passage -/
theorem validateCall_target (O : PyOracle) (ps : List (Line × PPassage)) (t a : Line)
    (h : validateCall O ps t a = .ok ()) : strEq t "@join" = true ∨ ∃ tp, ps.lookup t = some tp := by
  unfold validateCall at h
  split at h
  · left; assumption
  · split at h
    · cases h
    · rename_i tp htp; exact Or.inr ⟨tp, htp⟩

/-- **every top-level choice of a returned story targets `@join` or a defined passage** -/
theorem parseStory_choice_targets (O : PyOracle) (src : Line) (p : Parsed) (h : parseStory O src = .ok p) :
    ∀ kv ∈ p.passages, ∀ ch ∈ kv.2.choices,
      strEq ((jGetStr ch "target").getD []) "@join" = true ∨ ∃ tp, p.passages.lookup ((jGetStr ch "target").getD []) = some tp := by
  intro kv hkv ch hch
  have hw := (parseStory_wf O src p h).2.2
  exact validateCall_target O _ _ _ (validateArgs_choices O _ _ hw kv hkv ch hch)

end Bardic.Parser
