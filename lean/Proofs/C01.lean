import Proofs.C08
import Bardic.Ref
/-!
# C01 — rendering the compiled tokens of a source body is the documented meaning of its items
-/
namespace Bardic
open Bardic.Src Bardic.Ref
variable {S : Sem}

/-- on a colon-safe expression the engine's first-colon split reads the author's code and spec -/
theorem renderExpr_ref (ctx : Env S.V) (c : String) (sp : Option String) (h : exprColonSafe c sp = true) :
    renderExpr S ctx (fullCode c sp) = refExpr S ctx c sp := by
  cases sp with
  | none =>
    simp only [exprColonSafe, beq_iff_eq] at h
    simp only [renderExpr, fullCode, h, refExpr]
    cases S.eval ctx c <;> rfl
  | some s =>
    simp only [exprColonSafe, beq_iff_eq] at h
    simp only [renderExpr, h, refExpr]
    cases S.eval ctx c with
    | error e => rfl
    | ok v => cases S.fmt v s <;> rfl

theorem renderToks_single (cfg : RCfg S) (t : Tok) (rs : RS S.V) (h : t.isJoinMarker = false) :
    renderToks S cfg [t] rs = renderTok S cfg t rs := by
  simp only [renderToks, h, Bool.false_and, Bool.false_eq_true, if_false]
  generalize renderTok S cfg t rs = r
  obtain ⟨rs1, r1⟩ := r
  cases r1 with
  | error e => rfl
  | ok r1 =>
    simp only
    split
    · rfl
    · rename_i hj
      obtain ⟨tx, j, d⟩ := r1
      cases j with
      | some x => simp at hj
      | none => simp

mutual
/-- inline parts render to their text, touch nothing and never fail -/
theorem renderTok_inl (cfg : RCfg S) : ∀ (i : Inl) (rs : RS S.V), inlColonSafe i = true →
    renderTok S cfg (cInl i) rs = (rs, .ok { text := inlText S (rctx S cfg rs) i })
  | .text s, rs, _ => by simp [cInl, renderTok, inlText]
  | .expr c sp, rs, h => by
      simp only [inlColonSafe] at h
      simp only [cInl, renderTok, inlText, renderExpr_ref _ c sp h]
  | .cond c t f, rs, h => by
      simp only [inlColonSafe, Bool.and_eq_true] at h
      simp only [cInl, renderTok, inlText]
      rw [renderToks_inls cfg t rs h.1, renderToks_inls cfg f rs h.2]
      cases S.eval (rctx S cfg rs) c with
      | error e => rfl
      | ok v => simp only; split <;> rfl
theorem renderToks_inls (cfg : RCfg S) : ∀ (l : List Inl) (rs : RS S.V), inlsColonSafe l = true →
    renderToks S cfg (cInls l) rs = (rs, .ok { text := inlsText S (rctx S cfg rs) l })
  | [], rs, _ => by simp [cInls, renderToks, inlsText]
  | i :: r, rs, h => by
      simp only [inlsColonSafe, Bool.and_eq_true] at h
      have hj : (cInl i).isJoinMarker = false := by cases i <;> simp [cInl, Tok.isJoinMarker]
      simp only [cInls, renderToks, hj, Bool.false_and, Bool.false_eq_true, if_false, renderTok_inl cfg i rs h.1,
        renderToks_inls cfg r rs h.2, inlsText]
      simp
end

theorem cInls_noJoin : ∀ (l : List Inl), ∀ t ∈ cInls l, t.isJoinMarker = false
  | [], t, h => by simp [cInls] at h
  | i :: r, t, h => by
      simp only [cInls, List.mem_cons] at h
      rcases h with h | h
      · subst h; cases i <;> simp [cInl, Tok.isJoinMarker]
      · exact cInls_noJoin r t h

/-- tags are invisible -/
theorem renderToks_attachTags (cfg : RCfg S) (tags : List String) : ∀ (ts : List Tok) (rs : RS S.V),
    renderToks S cfg (attachTags tags ts) rs = renderToks S cfg ts rs
  | [], rs => by simp [attachTags]
  | [t], rs => by
      cases t <;> simp [attachTags, renderToks, renderTok, Tok.isJoinMarker]
  | t :: u :: r, rs => by
      have ih := renderToks_attachTags cfg tags (u :: r)
      simp only [attachTags, renderToks]
      simp only [renderToks] at ih
      split
      · rfl
      · generalize renderTok S cfg t rs = x
        obtain ⟨rs1, r1⟩ := x
        cases r1 with
        | error e => rfl
        | ok r1 =>
          simp only
          split
          · rfl
          · rw [ih rs1]

theorem attachTags_noJoin (tags : List String) : ∀ (ts : List Tok), (∀ t ∈ ts, t.isJoinMarker = false) →
    ∀ t ∈ attachTags tags ts, t.isJoinMarker = false
  | [], _, t, h => by simp [attachTags] at h
  | [x], hx, t, h => by
      cases x <;> simp_all [attachTags, Tok.isJoinMarker]
  | x :: y :: r, hx, t, h => by
      simp only [attachTags, List.mem_cons] at h
      rcases h with h | h
      · subst h; exact hx _ (by simp)
      · exact attachTags_noJoin tags (y :: r) (fun z hz => hx z (by simp [hz])) t (by simpa using h)

/-- **a content line**: the text of its parts, then one newline unless it is glued; tags and comments show nothing -/
theorem render_line (cfg : RCfg S) (parts : List Inl) (glue : Bool) (tags : List String) (rs : RS S.V)
    (h : inlsColonSafe parts = true) :
    renderToks S cfg (cLine parts glue tags) rs =
      (rs, .ok { text := inlsText S (rctx S cfg rs) parts ++ (if glue then "" else "\n") }) := by
  unfold cLine
  rw [renderToks_append cfg _ _ rs (attachTags_noJoin tags _ (cInls_noJoin parts)), renderToks_attachTags,
    renderToks_inls cfg parts rs h]
  cases glue <;> simp [seqR, renderToks, renderTok, nl, Tok.isJoinMarker]

theorem renderChoiceTexts_ref (cfg : RCfg S) : ∀ (body : List Item) (rs : RS S.V), itemsColonSafe body = true →
    renderChoiceTexts S cfg (cChoices body) rs = refChoiceTexts S cfg body rs
  | [], rs, _ => by simp [cChoices, renderChoiceTexts, refChoiceTexts]
  | .choice (.mk text tgt args cnd sticky tags block) :: r, rs, h => by
      simp only [itemsColonSafe, itemColonSafe, Bool.and_eq_true] at h
      simp only [cChoices, cChoice, renderChoiceTexts, refChoiceTexts, renderToks_inls cfg text rs h.1.1,
        renderChoiceTexts_ref cfg r rs h.2]
      generalize refChoiceTexts S cfg r rs = x
      obtain ⟨a, b⟩ := x
      cases b <;> rfl
  | .line _ _ _ _ :: r, rs, h => by
      simp only [itemsColonSafe, Bool.and_eq_true] at h
      simp only [cChoices, refChoiceTexts, renderChoiceTexts_ref cfg r rs h.2]
  | .blank :: r, rs, h => by
      simp only [itemsColonSafe, Bool.and_eq_true] at h
      simp only [cChoices, refChoiceTexts, renderChoiceTexts_ref cfg r rs h.2]
  | .comment :: r, rs, h => by
      simp only [itemsColonSafe, Bool.and_eq_true] at h
      simp only [cChoices, refChoiceTexts, renderChoiceTexts_ref cfg r rs h.2]
  | .stmt _ :: r, rs, h => by
      simp only [itemsColonSafe, Bool.and_eq_true] at h
      simp only [cChoices, refChoiceTexts, renderChoiceTexts_ref cfg r rs h.2]
  | .py _ :: r, rs, h => by
      simp only [itemsColonSafe, Bool.and_eq_true] at h
      simp only [cChoices, refChoiceTexts, renderChoiceTexts_ref cfg r rs h.2]
  | .ifB _ :: r, rs, h => by
      simp only [itemsColonSafe, Bool.and_eq_true] at h
      simp only [cChoices, refChoiceTexts, renderChoiceTexts_ref cfg r rs h.2]
  | .forB _ _ _ :: r, rs, h => by
      simp only [itemsColonSafe, Bool.and_eq_true] at h
      simp only [cChoices, refChoiceTexts, renderChoiceTexts_ref cfg r rs h.2]
  | .render _ _ :: r, rs, h => by
      simp only [itemsColonSafe, Bool.and_eq_true] at h
      simp only [cChoices, refChoiceTexts, renderChoiceTexts_ref cfg r rs h.2]
  | .input _ :: r, rs, h => by
      simp only [itemsColonSafe, Bool.and_eq_true] at h
      simp only [cChoices, refChoiceTexts, renderChoiceTexts_ref cfg r rs h.2]
  | .hook _ _ _ :: r, rs, h => by
      simp only [itemsColonSafe, Bool.and_eq_true] at h
      simp only [cChoices, refChoiceTexts, renderChoiceTexts_ref cfg r rs h.2]
  | .jump _ _ :: r, rs, h => by
      simp only [itemsColonSafe, Bool.and_eq_true] at h
      simp only [cChoices, refChoiceTexts, renderChoiceTexts_ref cfg r rs h.2]
  | .join :: r, rs, h => by
      simp only [itemsColonSafe, Bool.and_eq_true] at h
      simp only [cChoices, refChoiceTexts, renderChoiceTexts_ref cfg r rs h.2]

theorem cItem_noJoin : ∀ (i : Item), ∀ t ∈ cItem i, t.isJoinMarker = false := by
  intro i t h
  cases i <;> simp only [cItem, List.mem_singleton, List.not_mem_nil] at h
  case line parts glue tags cmt =>
    unfold cLine at h
    rcases List.mem_append.mp h with h | h
    · exact attachTags_noJoin tags _ (cInls_noJoin parts) t h
    · cases glue <;> simp [nl] at h; subst h; rfl
  all_goals first | (subst h; rfl) | exact absurd h (by simp)

theorem seqR_nil (x : RRes S (ROut S.V)) : seqR x (fun rs => (rs, .ok {})) = x := by
  obtain ⟨rs1, r1⟩ := x
  cases r1 with
  | error e => rfl
  | ok r1 =>
    simp only [seqR]
    split
    · rfl
    · rename_i hj
      obtain ⟨tx, j, d⟩ := r1
      cases j with
      | some x => simp at hj
      | none => simp

mutual
/-- **one item** of a body: rendering its compiled tokens is its documented meaning -/
theorem render_cItem (cfg : RCfg S) : ∀ (i : Item) (rs : RS S.V), itemColonSafe i = true →
    renderToks S cfg (cItem i) rs = refItem S cfg i rs
  | .line parts glue tags cmt, rs, h => by
      simp only [itemColonSafe] at h
      simp only [cItem, refItem, render_line cfg parts glue tags rs h]
  | .blank, rs, _ => by simp [cItem, refItem, renderToks, renderTok, nl, Tok.isJoinMarker]
  | .comment, rs, _ => by simp [cItem, refItem, renderToks]
  | .stmt code, rs, _ => by
      rw [cItem, renderToks_single _ _ _ rfl]; simp only [renderTok, refItem]
      generalize execStmt S cfg code rs = x
      obtain ⟨a, b⟩ := x
      cases b <;> rfl
  | .py code, rs, _ => by
      rw [cItem, renderToks_single _ _ _ rfl]; simp only [renderTok, refItem]
      generalize execBlock S cfg code rs = x
      obtain ⟨a, b⟩ := x
      cases b <;> rfl
  | .ifB bs, rs, h => by
      simp only [itemColonSafe] at h
      rw [cItem, renderToks_single _ _ _ rfl]; simp only [renderTok, refItem, render_cBranches cfg bs rs h]
  | .forB lv coll body, rs, h => by
      simp only [itemColonSafe] at h
      rw [cItem, renderToks_single _ _ _ rfl]
      simp only [renderTok, refItem]
      have hb : (fun r => renderToks S cfg (cItems body) r) = (fun r => refItems S cfg body r) :=
        funext fun r => render_cItems cfg body r h
      have hc : (fun r => renderChoiceTexts S cfg (cChoices body) r) = (fun r => refChoiceTexts S cfg body r) :=
        funext fun r => renderChoiceTexts_ref cfg body r h
      rw [hb, hc]
      split
      · rfl
      · cases S.eval (rctx S cfg rs) coll >>= S.iter with
        | error e => rfl
        | ok items =>
          simp only
          generalize loopItems S lv (fun r => refItems S cfg body r) (fun r => refChoiceTexts S cfg body r) items rs = x
          obtain ⟨a, b⟩ := x
          cases b <;> rfl
  | .render name args, rs, _ => by
      rw [cItem, renderToks_single _ _ _ rfl]; simp only [renderTok, refItem]
  | .input attrs, rs, _ => by
      rw [cItem, renderToks_single _ _ _ rfl]; simp only [renderTok, refItem]
  | .hook add ev tgt, rs, _ => by
      rw [cItem, renderToks_single _ _ _ rfl]; simp only [renderTok, refItem]
  | .choice c, rs, _ => by simp [cItem, refItem, renderToks]
  | .jump tgt args, rs, _ => by
      rw [cItem, renderToks_single _ _ _ rfl]; simp only [renderTok, refItem]
  | .join, rs, _ => by simp [cItem, refItem, renderToks]
/-- **a body**: its items in order, a jump ending the rendering -/
theorem render_cItems (cfg : RCfg S) : ∀ (l : List Item) (rs : RS S.V), itemsColonSafe l = true →
    renderToks S cfg (cItems l) rs = refItems S cfg l rs
  | [], rs, _ => by simp [cItems, refItems, renderToks]
  | i :: r, rs, h => by
      simp only [itemsColonSafe, Bool.and_eq_true] at h
      rw [cItems, renderToks_append cfg _ _ rs (cItem_noJoin i), render_cItem cfg i rs h.1]
      simp only [refItems, seqR]
      generalize refItem S cfg i rs = x
      obtain ⟨rs1, r1⟩ := x
      cases r1 with
      | error e => rfl
      | ok r1 =>
        simp only
        split
        · rfl
        · rw [render_cItems cfg r rs1 h.2]
          generalize refItems S cfg r rs1 = y
          obtain ⟨a, b⟩ := y
          cases b <;> rfl
/-- **`@if`**: the first branch whose condition is truthy; a failing condition is skipped -/
theorem render_cBranches (cfg : RCfg S) : ∀ (bs : List SBranch) (rs : RS S.V), branchesColonSafe bs = true →
    renderBranches S cfg (cBranches bs) rs = refBranches S cfg bs rs
  | [], rs, _ => by simp [cBranches, renderBranches, refBranches]
  | .mk c body :: r, rs, h => by
      simp only [branchesColonSafe, Bool.and_eq_true] at h
      simp only [cBranches, renderBranches, refBranches, render_cItems cfg body rs h.1, render_cBranches cfg r rs h.2]
      cases S.eval (rctx S cfg rs) c with
      | error e => rfl
      | ok v =>
        simp only
        split
        · generalize refItems S cfg body rs = y
          obtain ⟨a, b⟩ := y
          cases b <;> rfl
        · rfl
end

end Bardic

namespace Bardic
open Bardic.Src Bardic.Ref
variable {S : Sem}

/-! ## the top level of a passage -/

/-- content tokens an item contributes at the top level -/
def topTok : Item → List Tok
  | .line p g t _ => cLine p g t
  | .blank => [nl]
  | .ifB bs => [.cond (cBranches bs)]
  | .forB v c body => [.loop v c (cItems body) (cChoices body)]
  | .render n a => [.render n a none]
  | .jump t a => [.jump t a]
  | .join => [.joinMarker]
  | _ => []

theorem foldl_cTopItem_content (items : List Item) (a : Acc) :
    (items.foldl cTopItem a).content = a.content ++ items.flatMap topTok := by
  induction items generalizing a with
  | nil => simp
  | cons i r ih =>
    simp only [List.foldl_cons, List.flatMap_cons, ih]
    cases i <;> simp [cTopItem, topTok]

/-- **commands**: the top-level `~` statements, Python blocks and hooks of a passage, in source order, are exactly
its `execute` list (run on entry, before the text is rendered) -/
theorem foldl_cTopItem_execute (items : List Item) (a : Acc) :
    (items.foldl cTopItem a).execute = a.execute ++ items.filterMap cmdTok := by
  induction items generalizing a with
  | nil => simp
  | cons i r ih =>
    simp only [List.foldl_cons, ih]
    cases i <;> simp [cTopItem, cmdTok, List.filterMap_cons]

theorem compilePassage_execute (p : SPassage) :
    (compilePassage p).execute = (normItems p.items).filterMap cmdTok := by
  simp [compilePassage, foldl_cTopItem_execute]

theorem renderToks_skipHead (cfg : RCfg S) (t : Tok) (ts : List Tok) (rs : RS S.V) (hj : t.isJoinMarker = false)
    (h : renderTok S cfg t rs = (rs, .ok {})) : renderToks S cfg (t :: ts) rs = renderToks S cfg ts rs := by
  simp only [renderToks, hj, Bool.false_and, Bool.false_eq_true, if_false, h]
  simp only [Option.isSome_none, Bool.false_eq_true, if_false]
  generalize renderToks S cfg ts rs = x
  obtain ⟨a, b⟩ := x
  cases b with
  | error e => rfl
  | ok r => simp

/-- **the text of a passage**: rendering the (uncleaned) content tokens is the meaning of the visible top-level items
in order; commands, `@input` lines, choices and comments contribute nothing here; in the main engine a `@join`
marker ends the section -/
theorem render_top (cfg : RCfg S) : ∀ (items : List Item) (rs : RS S.V), itemsColonSafe items = true →
    renderToks S cfg (items.flatMap topTok) rs = refTop S cfg items rs := by
  intro items
  induction items with
  | nil => intro rs _; simp [refTop, renderToks]
  | cons i r ih =>
    intro rs h
    simp only [itemsColonSafe, Bool.and_eq_true] at h
    have vis : ∀ (hv : topVisible i = true) (hi : topTok i = cItem i) (hnj : ∀ t ∈ cItem i, t.isJoinMarker = false)
        (hne : ∀ rr, refTop S cfg (i :: r) rr = (if topVisible i then seqR (refItem S cfg i rr) (refTop S cfg r) else refTop S cfg r rr)),
        renderToks S cfg ((i :: r).flatMap topTok) rs = refTop S cfg (i :: r) rs := by
      intro hv hi hnj hne
      rw [hne, hv]
      simp only [List.flatMap_cons, hi, if_true]
      rw [renderToks_append cfg _ _ rs hnj, render_cItem cfg i rs h.1]
      simp only [seqR]
      generalize refItem S cfg i rs = x
      obtain ⟨rs1, r1⟩ := x
      cases r1 with
      | error e => rfl
      | ok r1 =>
        simp only
        split
        · rfl
        · rw [ih rs1 h.2]
    have seqdef : ∀ rr, (match refItem S cfg i rr with
          | (rs1, .error e) => (rs1, .error e)
          | (rs1, .ok r1) =>
            if r1.jump.isSome then (rs1, .ok r1)
            else
              match refTop S cfg r rs1 with
              | (rs2, .error e) => (rs2, .error e)
              | (rs2, .ok r2) => (rs2, .ok { text := r1.text ++ r2.text, jump := r2.jump, dirs := r1.dirs ++ r2.dirs })) =
          seqR (refItem S cfg i rr) (refTop S cfg r) := by
      intro rr
      simp only [seqR]
      generalize refItem S cfg i rr = x
      obtain ⟨a, b⟩ := x
      cases b with
      | error e => rfl
      | ok r1 =>
        simp only
        split
        · rfl
        · generalize refTop S cfg r a = y
          obtain ⟨c, d⟩ := y
          cases d <;> rfl
    cases i with
    | line p g t c =>
      exact vis rfl rfl (cItem_noJoin _) (fun rr => by simp only [refTop, topVisible, if_true]; exact seqdef rr)
    | blank => exact vis rfl rfl (cItem_noJoin _) (fun rr => by simp only [refTop, topVisible, if_true]; exact seqdef rr)
    | ifB bs => exact vis rfl rfl (cItem_noJoin _) (fun rr => by simp only [refTop, topVisible, if_true]; exact seqdef rr)
    | forB v c b => exact vis rfl rfl (cItem_noJoin _) (fun rr => by simp only [refTop, topVisible, if_true]; exact seqdef rr)
    | render n a => exact vis rfl rfl (cItem_noJoin _) (fun rr => by simp only [refTop, topVisible, if_true]; exact seqdef rr)
    | comment => simp only [List.flatMap_cons, topTok, List.nil_append, refTop, topVisible, Bool.false_eq_true, if_false]; exact ih rs h.2
    | stmt c => simp only [List.flatMap_cons, topTok, List.nil_append, refTop, topVisible, Bool.false_eq_true, if_false]; exact ih rs h.2
    | py c => simp only [List.flatMap_cons, topTok, List.nil_append, refTop, topVisible, Bool.false_eq_true, if_false]; exact ih rs h.2
    | input a => simp only [List.flatMap_cons, topTok, List.nil_append, refTop, topVisible, Bool.false_eq_true, if_false]; exact ih rs h.2
    | hook a e t => simp only [List.flatMap_cons, topTok, List.nil_append, refTop, topVisible, Bool.false_eq_true, if_false]; exact ih rs h.2
    | choice c => simp only [List.flatMap_cons, topTok, List.nil_append, refTop, topVisible, Bool.false_eq_true, if_false]; exact ih rs h.2
    | jump t a =>
      simp only [List.flatMap_cons, topTok, List.singleton_append, refTop, topVisible, if_true, refItem]
      simp [renderToks, renderTok, Tok.isJoinMarker]
    | join =>
      simp only [List.flatMap_cons, topTok, List.singleton_append, refTop]
      by_cases hm : cfg.variant = .main
      · simp [renderToks, Tok.isJoinMarker, hm]
      · have hb : (cfg.variant == Variant.main) = false := by simpa using hm
        simp only [hb, Bool.false_eq_true, if_false]
        simp only [renderToks, Tok.isJoinMarker, hb, Bool.and_false, Bool.false_eq_true, if_false, renderTok]
        simp only [Option.isSome_none, Bool.false_eq_true, if_false]
        rw [ih rs h.2]
        generalize refTop S cfg r rs = y
        obtain ⟨c, d⟩ := y
        cases d with
        | error e => rfl
        | ok r2 => simp

/-! ## whitespace cleanup: only newline tokens next to a conditional are ever dropped -/

theorem cleanupGo_spec : ∀ (ts acc : List Tok),
    ∃ kept, cleanupGo ts acc = acc.reverse ++ kept ∧ kept.Sublist ts ∧
      (kept.filter (fun t => !isNl t) = ts.filter (fun t => !isNl t))
  | [], acc => ⟨[], by simp [cleanupGo], List.Sublist.refl _, rfl⟩
  | t :: rest, acc => by
      unfold cleanupGo
      split
      · rename_i h
        obtain ⟨k, hk, hs, hf⟩ := cleanupGo_spec rest acc
        have ht : isNl t = true := by
          simp only [Bool.and_eq_true] at h; exact h.1.1
        exact ⟨k, hk, hs.cons _, by simp [List.filter_cons, ht, hf]⟩
      · split
        · rename_i h
          obtain ⟨k, hk, hs, hf⟩ := cleanupGo_spec rest acc
          have ht : isNl t = true := by
            simp only [Bool.and_eq_true] at h; exact h.1.1
          exact ⟨k, hk, hs.cons _, by simp [List.filter_cons, ht, hf]⟩
        · obtain ⟨k, hk, hs, hf⟩ := cleanupGo_spec rest (t :: acc)
          refine ⟨t :: k, by simp [hk], hs.cons_cons _, ?_⟩
          simp only [List.filter_cons, hf]

/-- `_cleanup_whitespace` keeps every token that is not a newline, in order, and drops nothing else than newlines -/
theorem cleanup_spec (ts : List Tok) :
    (cleanup ts).Sublist ts ∧ (cleanup ts).filter (fun t => !isNl t) = ts.filter (fun t => !isNl t) := by
  obtain ⟨k, hk, hs, hf⟩ := cleanupGo_spec ts []
  simp only [cleanup, hk, List.reverse_nil, List.nil_append]
  exact ⟨hs, hf⟩

/-- with no conditional block in it, a passage's content is left as written -/
theorem cleanupGo_noCond : ∀ (ts acc : List Tok), (∀ t ∈ ts, isCondTok t = false) → (∀ t ∈ acc, isCondTok t = false) →
    cleanupGo ts acc = acc.reverse ++ ts
  | [], acc, _, _ => by simp [cleanupGo]
  | t :: rest, acc, h, ha => by
      unfold cleanupGo
      have h1 : headIs isCondTok rest = false := by
        cases rest with
        | nil => rfl
        | cons n _ => exact h n (by simp)
      have h2 : headIs isCondTok acc = false := by
        cases acc with
        | nil => rfl
        | cons p _ => exact ha p (by simp)
      simp only [h1, h2, Bool.and_false, Bool.false_and, Bool.false_eq_true, if_false]
      rw [cleanupGo_noCond rest (t :: acc) (fun x hx => h x (by simp [hx]))
        (fun x hx => by rcases List.mem_cons.mp hx with e | e; exact e ▸ h t (by simp); exact ha x e)]
      simp

theorem cleanup_noCond (ts : List Tok) (h : ∀ t ∈ ts, isCondTok t = false) : cleanup ts = ts := by
  simp [cleanup, cleanupGo_noCond ts [] h (by simp)]

/-- `_trim_trailing_newlines` only removes newline tokens from the end, and leaves one -/
theorem trimTrailing_prefix (ts : List Tok) : ∃ k, trimTrailing ts = ts.take k := by
  unfold trimTrailing
  dsimp only
  split
  · exact ⟨_, rfl⟩
  · exact ⟨ts.length, by simp⟩

end Bardic
