import Proofs.C11e
import Proofs.C13
/-!
# C14 on the whole text-level parser model: a located diagnostic names a line of the text

`parseStory` answers a malformed text with `Fail.diag cls (some l) what` — the model of
`raise SyntaxError(format_error(.., line_num=l, ..))`, `l` being the 0-based index into the combined text that
`format_error` turns into a file and a 1-based line through the include line map (`Include.display`).

`parseLines_diag_in_text`: for **every** text and every behaviour of CPython's parser, the index `l` of a located
diagnostic is the index of a line of the text: `l < lines.size`.  The argument follows the loops: every diagnostic names the
line the loop stands on (`i`, inside the array by the loop's own guard), the opening line of a block (`start`, likewise), a
line of a multi-line statement (`i + min (lineno - 1) (n - 1)`, `n` the lines the statement consumed), or a line of a
`-> @join` block (`start + j`, below the index where the block ends).  Nested blocks inside an `@for` body are parsed from a
copy of the text whose body is re-indented; that copy is never longer than the text.

An earlier version of this theorem needed the hypothesis `StmtLinesOk` ("`ast.parse` reports the syntax error of a statement
on one of the lines it was handed"), which the harness checked on every recorded table.  The thorough tier found it FALSE of
CPython: Python also ends a line at a bare carriage return, so for `~ x \r= 1` it answers line 2 of a one-line source, and
the real compiler named the line *after* the statement (one past the end of the file when the statement is the last line).
The compiler was repaired (the offset is kept on the statement's own lines), the model follows, and the hypothesis is gone.

`diag_names_true_origin`: composed with `Include.display_origin` — for every include graph, the file and 1-based line
that the header of such a diagnostic shows are those of a line that really exists in a file the author wrote, and that
line reads exactly what the parser was looking at (the combined line `l`).
-/
namespace Bardic.Parser

/-- a located diagnostic names an index below `n` -/
structure Rng {α} (n : Nat) (x : PM α) : Prop where
  rng : ∀ c l w, x = .error (.diag c (some l) w) → l < n

theorem Rng.okv {α} {n} (a : α) : Rng n (Except.ok a : PM α) := ⟨by intro c l w h; cases h⟩
theorem Rng.pure {α} {n} (a : α) : Rng n (Pure.pure a : PM α) := ⟨by intro c l w h; cases h⟩
theorem Rng.synErr {α} {n} (i : Nat) (m : String) (h : i < n) : Rng n (synErr i m : PM α) := by
  constructor; intro c l w he; unfold Parser.synErr at he; injection he with he; injection he with _ hl _; injection hl with hl; omega
theorem Rng.synErrNoLoc {α} {n} (m : String) : Rng n (synErrNoLoc m : PM α) := by
  constructor; intro c l w he; unfold Parser.synErrNoLoc at he; injection he with he; injection he with _ hl _; cases hl
theorem Rng.valErr {α} {n} (m : String) : Rng n (valErr m : PM α) := by
  constructor; intro c l w he; unfold Parser.valErr at he; injection he with he; injection he with _ hl _; cases hl
theorem Rng.internal {α} {n} (m) : Rng n (Except.error (Fail.internal m) : PM α) := by
  constructor; intro c l w he; injection he with he; cases he
theorem Rng.miss {α} {n} (q) : Rng n (Except.error (Fail.oracleMiss q) : PM α) := by
  constructor; intro c l w he; injection he with he; cases he
theorem Rng.fuel {α} {n} : Rng n (Except.error Fail.fuel : PM α) := by
  constructor; intro c l w he; injection he with he; cases he
theorem Rng.diagNone {α} {n} (c m) : Rng n (Except.error (Fail.diag c none m) : PM α) := by
  constructor; intro c l w he; injection he with he; injection he with _ hl _; cases hl
theorem Rng.liftPy {α} {n} (what : String) (x : PyM α) : Rng n (liftPy what x) := by
  cases x with
  | ok a => exact Rng.okv a
  | error e => exact Rng.internal _

theorem Rng.bind {α β} {n} {x : PM α} {f : α → PM β} (hx : Rng n x) (hf : ∀ a, x = .ok a → Rng n (f a)) :
    Rng n (x >>= f) := by
  cases x with
  | error e =>
    constructor
    intro c l w h
    simp only [Bind.bind, Except.bind] at h
    have he : e = Fail.diag c (some l) w := by injection h
    exact hx.rng c l w (by rw [he])
  | ok a => exact hf a rfl

theorem Rng.ite {α} {n} {c : Prop} [Decidable c] {a b : PM α} (ha : Rng n a) (hb : Rng n b) :
    Rng n (if c then a else b) := by
  split <;> assumption

theorem Rng.mono {α} {n m} {x : PM α} (h : Rng n x) (hnm : n ≤ m) : Rng m x := by
  constructor; intro c l w he; have := h.rng c l w he; omega

macro "rng_close" : tactic => `(tactic| first
  | with_reducible exact Rng.pure _ | with_reducible exact Rng.okv _
  | with_reducible exact Rng.synErrNoLoc _ | with_reducible exact Rng.valErr _
  | with_reducible exact Rng.internal _ | with_reducible exact Rng.miss _ | with_reducible exact Rng.fuel
  | with_reducible exact Rng.diagNone _ _ | with_reducible exact Rng.liftPy _ _
  | (with_reducible refine Rng.synErr _ _ ?_; omega)
  | with_reducible assumption)

macro "rng_step" : tactic => `(tactic| first
  | rng_close
  | ((with_reducible apply Rng.bind); (try (intro _ _)))
  | (intro _)
  | (with_reducible apply Rng.ite)
  | split
  | ((conv => zeta); first | rng_close | ((with_reducible apply Rng.bind); (try (intro _ _))) | (with_reducible apply Rng.ite) | split)
  | (dsimp only; first | rng_close | ((with_reducible apply Rng.bind); (try (intro _ _))) | (with_reducible apply Rng.ite) | split))

theorem contentToks_rng {n} (line : Line) (loc : Option Nat) (sc : Bool) (h : ∀ k, loc = some k → k < n) :
    Rng n (contentToks line loc sc) := by
  unfold contentToks
  split
  · exact Rng.okv _
  · constructor
    intro c l w he
    injection he with he; injection he with _ hl _
    exact h l hl
  · exact Rng.fuel

theorem contentLineGlue_rng {n} (line : Line) (loc : Option Nat) (h : ∀ k, loc = some k → k < n) :
    Rng n (contentLineGlue line loc) := by
  unfold contentLineGlue
  have := fun l sc => contentToks_rng (n := n) l loc sc h
  repeat (first | with_reducible exact this _ _ | rng_step)

theorem parseChoiceLine_rng {n} (line : Line) : Rng n (parseChoiceLine line) := by
  unfold parseChoiceLine
  have := fun l sc => contentToks_rng (n := n) l none sc (fun k hk => by cases hk)
  repeat (first | with_reducible exact this _ _ | rng_step)

theorem parseRenderLine_rng {n} (line : Line) (loc : Option Nat) (h : ∀ k, loc = some k → k < n) :
    Rng n (parseRenderLine line loc) := by
  unfold parseRenderLine
  repeat (first | (with_reducible exact Rng.synErr _ _ (h _ rfl)) | (with_reducible refine Rng.synErr _ _ (h _ ?_); assumption) | rng_step)

theorem parseInputLine_rng {n} (line : Line) (loc : Option Nat) (h : ∀ k, loc = some k → k < n) :
    Rng n (parseInputLine line loc) := by
  unfold parseInputLine
  repeat (first | (with_reducible exact Rng.synErr _ _ (h _ rfl)) | (with_reducible refine Rng.synErr _ _ (h _ ?_); assumption) | rng_step)

theorem flushPlainToks_rng {n} : ∀ ls : List Line, Rng n (flushPlainToks ls)
  | [] => Rng.pure _
  | l :: r => by
    unfold flushPlainToks
    have h1 := fun l sc => contentToks_rng (n := n) l none sc (fun k hk => by cases hk)
    have h2 := flushPlainToks_rng (n := n) r
    repeat (first | with_reducible exact h1 _ _ | with_reducible exact h2 | rng_step)

theorem flushGlueToks_rng {n} : ∀ ls : List Line, Rng n (flushGlueToks ls)
  | [] => Rng.pure _
  | l :: r => by
    unfold flushGlueToks
    have h1 := fun l => contentLineGlue_rng (n := n) l none (fun k hk => by cases hk)
    have h2 := flushGlueToks_rng (n := n) r
    repeat (first | with_reducible exact h1 _ | with_reducible exact h2 | rng_step)

theorem flushPlain_rng {n} (s : CondSt) : Rng n s.flushPlain := by
  unfold CondSt.flushPlain
  have := flushPlainToks_rng (n := n)
  repeat (first | with_reducible exact this _ | rng_step)

theorem finalize_rng {n} (s : CondSt) : Rng n s.finalize := by
  unfold CondSt.finalize
  have := flushGlueToks_rng (n := n)
  repeat (first | with_reducible exact this _ | rng_step)

theorem condHeader_rng {n} (st : Line) (kw : String) (i : Nat) (h : i < n) : Rng n (condHeader st kw i) := by
  unfold condHeader; repeat rng_step

theorem loopHeader_rng {n} (st : Line) (i : Nat) (h : i < n) : Rng n (loopHeader st i) := by
  unfold loopHeader; repeat rng_step

theorem extractPythonBlock_rng (lines : Lines) (start : Nat) : Rng lines.size (extractPythonBlock lines start) := by
  unfold extractPythonBlock
  by_cases h : start < lines.size
  · simp only [h, dite_true]
    repeat rng_step
  · simp only [h, dite_false]
    exact Rng.internal _

theorem loopCollect_rng (lines : Lines) : ∀ (f i depth : Nat) (acc : List Line),
    Rng lines.size (loopCollect lines f i depth acc)
  | 0, _, _, _ => Rng.fuel
  | f + 1, i, depth, acc => by
    unfold loopCollect
    by_cases hi : i < lines.size
    · rw [dif_pos hi]
      have ih := loopCollect_rng lines f
      repeat (first | with_reducible exact ih _ _ _ | rng_step)
    · rw [dif_neg hi]
      exact Rng.pure _

/-- the raw body lines are among the lines after `i` -/
theorem loopCollect_len (lines : Lines) : ∀ (f i depth : Nat) (acc : List Line) (r : List Line × Nat × Bool),
    loopCollect lines f i depth acc = .ok r → r.1.length ≤ acc.length + (lines.size - i)
  | 0, _, _, _, _, h => by cases h
  | f + 1, i, depth, acc, r, h => by
    unfold loopCollect at h
    by_cases hi : i < lines.size
    · rw [dif_pos hi] at h
      have ih : ∀ d (a : List Line), a.length = acc.length + 1 → loopCollect lines f (i + 1) d a = .ok r →
          r.1.length ≤ acc.length + (lines.size - i) := by
        intro d a ha he
        have := loopCollect_len lines f (i + 1) d a r he
        omega
      extract_lets line st at h
      split at h
      · cases h
      · split at h
        · exact ih _ _ (by simp) h
        · split at h
          · split at h
            · cases h; simp
            · exact ih _ _ (by simp) h
          · exact ih _ _ (by simp) h
    · rw [dif_neg hi] at h
      cases h; simp

/-- the four mutually recursive block functions: a located diagnostic names a line of the array they work on -/
theorem blocks_rng : ∀ f : Nat,
    (∀ (lines : Lines) (start i : Nat) (s : CondSt), start < lines.size → Rng lines.size (condLoop lines start f i s)) ∧
    (∀ (lines : Lines) (start : Nat), start < lines.size → Rng lines.size (extractCond lines f start)) ∧
    (∀ (al : Lines) (bs j : Nat) (c : List J) (ch : Option (List J)), Rng al.size (loopBody al bs f j c ch)) ∧
    (∀ (lines : Lines) (start : Nat), start < lines.size → Rng lines.size (extractLoop lines f start)) := by
  intro f
  induction f with
  | zero =>
    refine ⟨?_, ?_, ?_, ?_⟩
    · intro lines start i s _; exact Rng.fuel
    · intro lines start _; exact Rng.fuel
    · intro al bs j c ch; exact Rng.fuel
    · intro lines start _; exact Rng.fuel
  | succ f ih =>
    obtain ⟨ihC, ihEC, ihB, ihEL⟩ := ih
    refine ⟨?_, ?_, ?_, ?_⟩
    · -- condLoop
      intro lines start i s hs
      unfold condLoop
      by_cases hi : i < lines.size
      · rw [dif_pos hi]
        have hp := extractPythonBlock_rng lines
        have hfp := flushPlain_rng (n := lines.size)
        have hfin := finalize_rng (n := lines.size)
        have hin := fun l => parseInputLine_rng (n := lines.size) l none (fun k hk => by cases hk)
        have hre := fun l => parseRenderLine_rng (n := lines.size) l none (fun k hk => by cases hk)
        have hch := parseChoiceLine_rng (n := lines.size)
        have hcond := fun st kw => condHeader_rng (n := lines.size) st kw i hi
        repeat (first
          | ((with_reducible show Rng _ (condLoop _ _ _ _ _)); exact ihC _ _ _ _ hs)
          | ((with_reducible show Rng _ (extractCond _ _ _)); exact ihEC _ _ hi)
          | ((with_reducible show Rng _ (extractLoop _ _ _)); exact ihEL _ _ hi)
          | with_reducible exact hp _ | with_reducible exact hfp _ | with_reducible exact hfin _
          | with_reducible exact hin _ | with_reducible exact hre _ | with_reducible exact hch _
          | with_reducible exact hcond _ _
          | rng_step)
      · rw [dif_neg hi]
        exact Rng.pure _
    · -- extractCond
      intro lines start hs
      unfold extractCond
      repeat (first
        | ((with_reducible show Rng _ (condLoop _ _ _ _ _)); exact ihC _ _ _ _ hs)
        | rng_step)
    · -- loopBody
      intro al bs j c ch
      unfold loopBody
      by_cases hi : bs + j < al.size
      · rw [dif_pos hi]
        have hp := extractPythonBlock_rng al
        have hin := fun l => parseInputLine_rng (n := al.size) l none (fun k hk => by cases hk)
        have hre := fun l => parseRenderLine_rng (n := al.size) l none (fun k hk => by cases hk)
        have hch := parseChoiceLine_rng (n := al.size)
        have hgl := fun l => contentLineGlue_rng (n := al.size) l none (fun k hk => by cases hk)
        repeat (first
          | ((with_reducible show Rng _ (loopBody _ _ _ _ _ _)); exact ihB _ _ _ _ _)
          | ((with_reducible show Rng _ (extractCond _ _ _)); exact ihEC _ _ hi)
          | ((with_reducible show Rng _ (extractLoop _ _ _)); exact ihEL _ _ hi)
          | with_reducible exact hp _ | with_reducible exact hin _ | with_reducible exact hre _
          | with_reducible exact hch _ | with_reducible exact hgl _
          | rng_step)
      · rw [dif_neg hi]
        exact Rng.pure _
    · -- extractLoop
      intro lines start hs
      unfold extractLoop
      rw [dif_pos hs]
      refine Rng.bind (loopHeader_rng _ _ hs) ?_
      intro vc _
      refine Rng.bind (loopCollect_rng lines f (start + 1) 1 []) ?_
      intro r hr
      have hlen := loopCollect_len lines f (start + 1) 1 [] r hr
      obtain ⟨raw, i, found⟩ := r
      have hB : Rng lines.size (loopBody (lines.extract 0 (start + 1) ++ (dedent raw).toArray) (start + 1) f 0 [] none) := by
        refine (ihB _ _ _ _ _).mono ?_
        simp only [Array.size_append, Array.size_extract, List.size_toArray, dedent_length]
        simp only [List.length_nil] at hlen
        omega
      repeat (first | with_reducible exact hB | rng_step)

/-! ## the block under a `-> @join` choice -/

theorem joinCollect_spec (lines : Lines) (indent : Nat) : ∀ (f i : Nat) (acc : List Line),
    (joinCollect lines indent f i acc).1.length = acc.length + ((joinCollect lines indent f i acc).2 - i) ∧
    i ≤ (joinCollect lines indent f i acc).2 ∧ (joinCollect lines indent f i acc).2 ≤ max i lines.size
  | 0, i, acc => by unfold joinCollect; simp; omega
  | f + 1, i, acc => by
    unfold joinCollect
    by_cases hi : i < lines.size
    · rw [dif_pos hi]
      have ih := joinCollect_spec lines indent f (i + 1) (lines[i] :: acc)
      simp only [List.length_cons] at ih
      dsimp only
      split
      · simp; omega
      · split
        · refine ⟨by omega, by omega, by omega⟩
        · split
          · simp; omega
          · refine ⟨by omega, by omega, by omega⟩
    · rw [dif_neg hi]; simp; omega

theorem joinParse_rng {n} (start : Nat) : ∀ (ls : List Line) (j : Nat), start + j + ls.length ≤ n →
    Rng n (joinParse start j ls)
  | [], _, _ => by unfold joinParse; exact Rng.pure _
  | line :: rest, j, h => by
    unfold joinParse
    simp only [List.length_cons] at h
    have ih := joinParse_rng (n := n) start rest (j + 1) (by omega)
    have hc := fun sc => contentToks_rng (n := n) line (some (start + j)) sc (fun k hk => by cases hk; omega)
    repeat (first | with_reducible exact ih | with_reducible exact hc _ | rng_step)

theorem extractJoinBlock_rng (lines : Lines) (start indent : Nat) :
    Rng lines.size (extractJoinBlock lines start indent) := by
  unfold extractJoinBlock
  have hs := joinCollect_spec lines indent (lines.size + 1) start []
  generalize joinCollect lines indent (lines.size + 1) start [] = r at hs
  obtain ⟨block, i⟩ := r
  simp only [List.length_nil] at hs
  dsimp only
  split
  · exact Rng.pure _
  · rename_i hne
    have hpos : 0 < block.length := by
      cases block with
      | nil => simp at hne
      | cons _ _ => simp
    refine Rng.bind (joinParse_rng start _ 0 (by rw [dedent_length]; omega)) ?_
    intro _ _
    repeat rng_step

/-! ## lines hold no newline (they come from `source.split("\n")`), nor does anything cut out of them -/

def NoNl (l : Line) : Prop := ∀ c ∈ l, c ≠ '\n'

theorem lstripL_sub : ∀ (l : Line) (c : Char), c ∈ lstripL l → c ∈ l
  | [], _, h => by simp [lstripL] at h
  | x :: r, c, h => by
    unfold lstripL at h
    split at h
    · exact List.mem_cons_of_mem _ (lstripL_sub r c h)
    · exact h

theorem rstripL_sub (l : Line) (c : Char) (h : c ∈ rstripL l) : c ∈ l := by
  unfold rstripL at h
  have := lstripL_sub l.reverse c (by simpa using h)
  simpa using this

theorem stripL_sub (l : Line) (c : Char) (h : c ∈ stripL l) : c ∈ l :=
  lstripL_sub l c (rstripL_sub _ c h)

theorem strip_fst_sub : ∀ (l : Line) (c : Char), c ∈ (strip l).1 → c ∈ l := by
  intro l
  induction l using strip.induct with
  | case1 r ih =>
    intro c h
    simp only [strip, List.mem_cons] at h
    rcases h with h | h | h
    · subst h; simp
    · subst h; simp
    · have := ih c h; simp [this]
  | case2 r ih =>
    intro c h
    simp only [strip, List.mem_cons] at h
    rcases h with h | h | h | h
    · subst h; simp
    · subst h; simp
    · subst h; simp
    · have := ih c h; simp [this]
  | case3 r _ =>
    intro c h
    simp [strip] at h
  | case4 x r h1 h2 h3 ih =>
    intro c h
    rw [strip] at h
    · simp only [List.mem_cons] at h
      rcases h with h | h
      · subst h; simp
      · have := ih c h; simp [this]
    all_goals assumption
  | case5 => intro c h; simp [strip] at h

theorem NoNl.stripL {l : Line} (h : NoNl l) : NoNl (stripL l) := fun c hc => h c (stripL_sub l c hc)
theorem NoNl.rstripL {l : Line} (h : NoNl l) : NoNl (rstripL l) := fun c hc => h c (rstripL_sub l c hc)
theorem NoNl.strip {l : Line} (h : NoNl l) : NoNl (strip l).1 := fun c hc => h c (strip_fst_sub l c hc)
theorem NoNl.drop {l : Line} (h : NoNl l) (k : Nat) : NoNl (l.drop k) := fun c hc => h c (List.mem_of_mem_drop hc)

theorem stmtCode_noNl {l : Line} (h : NoNl l) : NoNl (stmtCode l) := by
  unfold stmtCode
  exact h.stripL.strip.rstripL

theorem splitNlGo_noNl : ∀ (s cur : Line) (acc : List Line), NoNl cur → (∀ l ∈ acc, NoNl l) →
    ∀ l ∈ splitNlGo s cur acc, NoNl l
  | [], cur, acc, hc, ha => by
    intro l hl
    unfold splitNlGo at hl
    simp only [List.mem_reverse, List.mem_cons] at hl
    rcases hl with hl | hl
    · subst hl; intro c h; exact hc c (by simpa using h)
    · exact ha l hl
  | x :: r, cur, acc, hc, ha => by
    intro l hl
    unfold splitNlGo at hl
    split at hl
    · refine splitNlGo_noNl r [] _ (by intro c h; cases h) ?_ l hl
      intro l' hl'
      simp only [List.mem_cons] at hl'
      rcases hl' with hl' | hl'
      · subst hl'; intro c h; exact hc c (by simpa using h)
      · exact ha l' hl'
    · rename_i hx
      refine splitNlGo_noNl r (x :: cur) acc ?_ ha l hl
      intro c h
      simp only [List.mem_cons] at h
      rcases h with h | h
      · subst h; simpa using hx
      · exact hc c h

theorem splitNl_noNl (s : Line) : ∀ l ∈ splitNl s, NoNl l :=
  splitNlGo_noNl s [] [] (by intro c h; cases h) (by intro l h; cases h)

theorem sdcGo_spec : ∀ (ls : List Line) (closer : Option String) (acc : List Line),
    (∀ l ∈ ls, NoNl l) → (∀ l ∈ acc, NoNl l) →
    (∀ l ∈ stripDirectiveCommentsGo ls closer acc, NoNl l) ∧
    (stripDirectiveCommentsGo ls closer acc).length = acc.length + ls.length
  | [], closer, acc, _, ha => by
    unfold stripDirectiveCommentsGo
    exact ⟨fun l hl => ha l (by simpa using hl), by simp⟩
  | line :: rest, closer, acc, hl, ha => by
    unfold stripDirectiveCommentsGo
    have hline : NoNl line := hl line (by simp)
    have hrest : ∀ l ∈ rest, NoNl l := fun l h => hl l (by simp [h])
    extract_lets st cm p line' st' closer'
    have hl' : NoNl line' := by
      show NoNl (if cm then (if p.2.isEmpty then line else _root_.Bardic.rstripL p.1) else line)
      split
      · split
        · exact hline
        · exact hline.strip.rstripL
      · exact hline
    have := sdcGo_spec rest closer' (line' :: acc) hrest (by
      intro l h
      simp only [List.mem_cons] at h
      rcases h with h | h
      · subst h; exact hl'
      · exact ha l h)
    refine ⟨this.1, ?_⟩
    rw [this.2]; simp; omega

theorem sdcGo_len : ∀ (ls : List Line) (closer : Option String) (acc : List Line),
    (stripDirectiveCommentsGo ls closer acc).length = acc.length + ls.length
  | [], closer, acc => by unfold stripDirectiveCommentsGo; simp
  | line :: rest, closer, acc => by
    unfold stripDirectiveCommentsGo
    extract_lets st cm p line' st' closer'
    rw [sdcGo_len rest closer' (line' :: acc)]
    simp; omega

theorem collectLines_mem : ∀ (ls : List Line) (st : List Char) (more : List Line),
    collectLines ls st = .ok more → ∀ l ∈ more, l ∈ ls
  | [], st, more, h => by unfold collectLines at h; cases h; intro l hl; cases hl
  | x :: r, st, more, h => by
    unfold collectLines at h
    split at h
    · cases h; intro l hl; cases hl
    · cases hs : scanBrackets x st with
      | error e => rw [hs] at h; simp [bind, Except.bind] at h
      | ok st' =>
        rw [hs] at h
        simp only [bind, Except.bind] at h
        split at h
        · cases h; intro l hl; simp at hl; subst hl; simp
        · cases hm : collectLines r st' with
          | error e => rw [hm] at h; simp at h
          | ok m =>
            rw [hm] at h
            simp only at h
            cases h
            intro l hl
            simp only [List.mem_cons] at hl
            rcases hl with hl | hl
            · subst hl; simp
            · have := collectLines_mem r st' m hm l hl
              simp [this]

/-- the lines a multi-line statement is made of: the statement's own text and lines of the array -/
theorem multiline_spec (lines : List Line) (start : Nat) (init : Line) (ls : List Line) (n : Nat)
    (h : multiline lines start init = .ok (ls, n)) (hl : ∀ l ∈ lines, NoNl l) (hi : NoNl init) :
    (∀ l ∈ ls, NoNl l) ∧ ls.length = n := by
  unfold multiline at h
  dsimp only at h
  split at h
  · cases h; exact ⟨by intro l hl'; simp at hl'; subst hl'; exact hi, rfl⟩
  · split at h
    · cases h; exact ⟨by intro l hl'; simp at hl'; subst hl'; exact hi, rfl⟩
    · cases hm : collectLines (lines.drop (start + 1)) ((stripL init).filter isOpenB).reverse with
      | error e => rw [hm] at h; simp [bind, Except.bind] at h
      | ok more =>
        rw [hm] at h
        simp only [bind, Except.bind] at h
        cases h
        refine ⟨?_, by simp⟩
        intro l hl'
        simp only [List.mem_cons] at hl'
        rcases hl' with hl' | hl'
        · subst hl'; exact hi
        · exact hl l (List.mem_of_mem_drop (collectLines_mem _ _ _ hm l hl'))

/-! ## the main loop -/

theorem liftPy_ok {α} (what : String) (x : PyM α) (a : α) (h : liftPy what x = .ok a) : x = .ok a := by
  cases x with
  | ok b => simp only [liftPy] at h; cases h; rfl
  | error e => simp [liftPy] at h

theorem headerLine_rng {n} (O : PyOracle) (line : Line) (i : Nat) (s : PSt) (h : i < n) :
    Rng n (headerLine O line i s) := by
  unfold headerLine
  repeat rng_step

theorem topChoice_rng (lines : Lines) (i : Nat) (line : Line) (sec : Nat) (h : i < lines.size) :
    Rng lines.size (topChoice lines i line sec) := by
  unfold topChoice
  have h1 := parseChoiceLine_rng (n := lines.size)
  have h2 := extractJoinBlock_rng lines
  repeat (first | with_reducible exact h1 _ | with_reducible exact h2 _ _ | rng_step)

theorem coreLoop_rng (O : PyOracle) (lines : Lines) :
    ∀ (f i : Nat) (s : PSt), Rng lines.size (coreLoop O lines f i s)
  | 0, _, _ => Rng.fuel
  | f + 1, i, s => by
    unfold coreLoop
    by_cases hi : i < lines.size
    · rw [dif_pos hi]
      have ih := coreLoop_rng O lines f
      have hhead := fun l s => headerLine_rng (n := lines.size) O l i s hi
      have hp := extractPythonBlock_rng lines
      have hb := blocks_rng f
      have hEC := hb.2.1 lines i hi
      have hEL := hb.2.2.2 lines i hi
      have hre := fun l => parseRenderLine_rng (n := lines.size) l (some i) (fun k hk => by cases hk; exact hi)
      have hin := fun l => parseInputLine_rng (n := lines.size) l (some i) (fun k hk => by cases hk; exact hi)
      have htc := fun l sec => topChoice_rng lines i l sec hi
      have hgl := fun l => contentLineGlue_rng (n := lines.size) l (some i) (fun k hk => by cases hk; exact hi)
      -- the statement branch: the statement consumed lines of the array
      have hstmt : ∀ (r : List Line × Nat),
          liftPy "extract_multiline_expression" (multiline lines.toList i (stmtCode (lines[i].drop 2))) = .ok r →
          1 ≤ r.2 ∧ i + r.2 ≤ lines.size := by
        intro r hr
        obtain ⟨ls, n⟩ := r
        have hm := liftPy_ok _ _ _ hr
        obtain ⟨e, n', he, h1, hn⟩ := multiline_ok lines.toList i (stmtCode (lines[i].drop 2))
        rw [he] at hm
        cases hm
        have : lines.toList.length = lines.size := by simp
        simp only at hn ⊢
        omega
      repeat (first
        | ((with_reducible show Rng _ (coreLoop _ _ _ _ _)); exact ih _ _)
        | ((with_reducible show Rng _ (extractCond _ _ _)); exact hEC)
        | ((with_reducible show Rng _ (extractLoop _ _ _)); exact hEL)
        | ((with_reducible show Rng _ (liftPy "extract_multiline_expression" _ >>= _));
            refine Rng.bind (Rng.liftPy _ _) ?_;
            intro r hr;
            have hs := hstmt r hr;
            obtain ⟨ls, n⟩ := r;
            simp only at hs;
            dsimp only;
            cases hv : O.stmt (joinNl ls) with
            | ok => simp only; exact ih _ _
            | syntaxError ln =>
              simp only
              cases ln with
              | none => exact Rng.synErr _ _ (by omega)
              | some k => exact Rng.synErr _ _ (by simp only; omega)
            | tooComplex => simp only; exact Rng.synErr _ _ hi
            | miss => simp only; exact Rng.miss _)
        | with_reducible exact hhead _ _ | with_reducible exact hp _ | with_reducible exact hre _
        | with_reducible exact hin _ | with_reducible exact htc _ _ | with_reducible exact hgl _
        | rng_step)
    · rw [dif_neg hi]
      exact Rng.pure _

theorem validateCall_rng {n} (O : PyOracle) (ps : List (Line × PPassage)) (t a : Line) : Rng n (validateCall O ps t a) := by
  unfold validateCall
  repeat rng_step

theorem validateChoices_rng {n} (O : PyOracle) (ps : List (Line × PPassage)) : ∀ l, Rng n (validateChoices O ps l)
  | [] => Rng.pure _
  | c :: r => by
    unfold validateChoices
    have h1 := validateCall_rng (n := n) O ps
    have h2 := validateChoices_rng (n := n) O ps r
    repeat (first | with_reducible exact h1 _ _ | with_reducible exact h2 | rng_step)

theorem validateJumps_rng {n} (O : PyOracle) (ps : List (Line × PPassage)) : ∀ l, Rng n (validateJumps O ps l)
  | [] => Rng.pure _
  | c :: r => by
    unfold validateJumps
    have h1 := validateCall_rng (n := n) O ps
    have h2 := validateJumps_rng (n := n) O ps r
    repeat (first | with_reducible exact h1 _ _ | with_reducible exact h2 | rng_step)

theorem validateArgs_rng {n} (O : PyOracle) (ps : List (Line × PPassage)) : ∀ l, Rng n (validateArgs O ps l)
  | [] => Rng.pure _
  | (_, p) :: r => by
    unfold validateArgs
    have h1 := validateChoices_rng (n := n) O ps
    have h2 := validateJumps_rng (n := n) O ps
    have h3 := validateArgs_rng (n := n) O ps r
    repeat (first | with_reducible exact h1 _ | with_reducible exact h2 _ | with_reducible exact h3 | rng_step)

theorem determineInitial_rng {n} (e : Option Line) (ps : List (Line × PPassage)) : Rng n (determineInitial e ps) := by
  unfold determineInitial
  repeat rng_step

/-- **C14 on the whole parser model**: a located diagnostic names a line of the text that was parsed -/
theorem parseLines_diag_in_text (O : PyOracle) (ls : List Line) :
    Rng ls.length (parseLines O ls) := by
  unfold parseLines
  have hs := sdcGo_len ls none []
  have hsz : (stripDirectiveComments ls).toArray.size = ls.length := by
    simp only [List.size_toArray, stripDirectiveComments]
    simpa using hs
  have hcore := coreLoop_rng O (stripDirectiveComments ls).toArray
  rw [hsz] at hcore
  have hv := validateArgs_rng (n := ls.length) O
  have hd := determineInitial_rng (n := ls.length)
  repeat (first | with_reducible exact hcore _ _ _ | with_reducible exact hv _ _ | with_reducible exact hd _ _ | rng_step)

theorem parseStory_diag_in_text (O : PyOracle) (src : Line) :
    Rng (splitNl src).length (parseStory O src) :=
  parseLines_diag_in_text O _

/-- for the compiled JSON as well -/
theorem parseText_diag_in_text (O : PyOracle) (src : Line) (c : DiagCls) (l : Nat) (w : String)
    (h : parseText O src = .error (.diag c (some l) w)) : l < (splitNl src).length := by
  unfold parseText at h
  split at h
  · cases h
  · rename_i e he
    cases h
    exact (parseStory_diag_in_text O src).rng c l w he

/-- **C14, end to end on the models**: whatever the include graph, when the parser rejects the combined text with a
located diagnostic, the file and the 1-based line that the diagnostic's header shows (`Include.display` through the line
map) are those of a line that exists in a file the author wrote, and that line reads exactly the combined line the
parser was looking at.  (`hn`: the lines of a file, `text.split("\n")`, hold no newline.) -/
theorem diag_names_true_origin (O : PyOracle) (fs : Include.FS) (root fn : Include.Path)
    (ls : List String) (map : List Include.Loc) (h : Include.resolveRoot fs root = .ok (ls, map))
    (c : DiagCls) (k : Nat) (w : String)
    (hd : parseLines O (ls.map String.toList) = .error (.diag c (some k) w)) :
    ∃ text line, ls[k]? = some line ∧ fs.lookup (Include.display map fn k).1 = some text ∧
      (Include.linesOf text)[(Include.display map fn k).2 - 1]? = some line ∧ 1 ≤ (Include.display map fn k).2 := by
  have hk := (parseLines_diag_in_text O (ls.map String.toList)).rng c k w hd
  simp only [List.length_map] at hk
  have hget : ls[k]? = some ls[k] := List.getElem?_eq_getElem hk
  obtain ⟨text, h1, h2, h3⟩ := Include.display_origin fs root fn ls map h k ls[k] hget
  exact ⟨text, ls[k], hget, h1, h2, h3⟩

end Bardic.Parser
