import Proofs.C10
/-!
# C08 — jumps act where they stand; cycles are RuntimeErrors; the engine stays usable
-/
namespace Bardic
variable {S : Sem}

/-- sequential composition of two renders: the second runs only if the first neither failed nor jumped -/
def seqR (x : RRes S (ROut S.V)) (k : RS S.V → RRes S (ROut S.V)) : RRes S (ROut S.V) :=
  match x with
  | (rs1, .error e) => (rs1, .error e)
  | (rs1, .ok r1) =>
    if r1.jump.isSome then (rs1, .ok r1)
    else match k rs1 with
      | (rs2, .error e) => (rs2, .error e)
      | (rs2, .ok r2) => (rs2, .ok { text := r1.text ++ r2.text, jump := r2.jump, dirs := r1.dirs ++ r2.dirs })

theorem renderToks_nil (cfg : RCfg S) (rs : RS S.V) : renderToks S cfg [] rs = (rs, .ok {}) := by
  simp [renderToks]

/-- `_render_content` is compositional: rendering `a ++ b` is rendering `a`, then `b` from the state
reached — unless `a` failed or jumped (main engine: `a` without join markers) -/
theorem renderToks_append (cfg : RCfg S) (b : List Tok) :
    ∀ (a : List Tok) (rs : RS S.V), (∀ t ∈ a, t.isJoinMarker = false) →
      renderToks S cfg (a ++ b) rs = seqR (renderToks S cfg a rs) (renderToks S cfg b) := by
  intro a
  induction a with
  | nil =>
    intro rs _
    simp only [List.nil_append, renderToks_nil, seqR]
    simp only [Option.isSome_none, Bool.false_eq_true, if_false]
    generalize renderToks S cfg b rs = res
    obtain ⟨rs2, r⟩ := res
    cases r with
    | error e => rfl
    | ok r2 => simp
  | cons t ts ih =>
    intro rs hm
    have ht : t.isJoinMarker = false := hm t (by simp)
    have hts : ∀ x ∈ ts, x.isJoinMarker = false := fun x hx => hm x (by simp [hx])
    simp only [List.cons_append, renderToks, ht, Bool.false_and, Bool.false_eq_true, if_false]
    generalize renderTok S cfg t rs = r1
    obtain ⟨rs1, r1⟩ := r1
    cases r1 with
    | error e => simp [seqR]
    | ok r1 =>
      simp only
      by_cases hj : r1.jump.isSome = true
      · simp [hj, seqR]
      · simp only [hj, Bool.false_eq_true, if_false]
        rw [ih rs1 hts]
        generalize renderToks S cfg ts rs1 = r2
        obtain ⟨rs2, r2⟩ := r2
        cases r2 with
        | error e => simp [seqR]
        | ok r2 =>
          simp only [seqR]
          by_cases hj2 : r2.jump.isSome = true
          · simp [hj2]
          · simp only [hj2, Bool.false_eq_true, if_false]
            generalize renderToks S cfg b rs2 = r3
            obtain ⟨rs3, r3⟩ := r3
            cases r3 with
            | error e => rfl
            | ok r3 => simp [String.append_assoc, List.append_assoc]

/-- **a jump transfers control at the point it is reached**: what was rendered before it is kept
(text, directives, state changes), everything after it in that token list is skipped — it is not
rendered, not executed, and cannot fail -/
theorem render_stops_at_jump (cfg : RCfg S) (pre post : List Tok) (t a : String) (rs rs1 : RS S.V)
    (r1 : ROut S.V) (hm : ∀ x ∈ pre, x.isJoinMarker = false)
    (hpre : renderToks S cfg pre rs = (rs1, .ok r1)) (hnj : r1.jump = none) :
    renderToks S cfg (pre ++ Tok.jump t a :: post) rs =
      (rs1, .ok { text := r1.text, jump := some t, dirs := r1.dirs }) := by
  rw [renderToks_append cfg _ pre rs hm, hpre]
  simp only [seqR, hnj, Option.isSome_none, Bool.false_eq_true, if_false]
  simp [renderToks, Tok.isJoinMarker, renderTok]

/-- only the first jump reached takes effect: a jump already found stops the list -/
theorem render_first_jump_wins (cfg : RCfg S) (pre post : List Tok) (rs rs1 : RS S.V) (r1 : ROut S.V)
    (hm : ∀ x ∈ pre, x.isJoinMarker = false)
    (hpre : renderToks S cfg pre rs = (rs1, .ok r1)) (hj : r1.jump.isSome = true) :
    renderToks S cfg (pre ++ post) rs = (rs1, .ok r1) := by
  rw [renderToks_append cfg _ pre rs hm, hpre]
  simp [seqR, hj]

/-! ## cycles -/

/-- re-entering a passage already visited in this chain is reported at once as a `RuntimeError`,
with nothing changed -/
theorem gotoLoop_revisit (c : ECfg S) (recur : String → Live S.V → NRes S (Output S.V)) (n : Nat)
    (visited : List String) (cid : String) (accC : List String) (accD : List (Dir S.V)) (l : Live S.V)
    (h : visited.contains cid = true) :
    ∃ m, gotoLoop c recur (n + 1) visited cid accC accD l = (l, .error ⟨.runtimeError, m⟩) := by
  unfold gotoLoop
  simp only [h, if_true]
  exact ⟨_, rfl⟩

/-- running out of recursion depth (a cycle of top-level jumps) surfaces as `RecursionError`, which
is a `RuntimeError` -/
theorem goto_out_of_fuel (c : ECfg S) (spec : String) (l : Live S.V) :
    ∃ m, goto c 0 spec l = (l, .error ⟨.recursionError, m⟩) ∧ ExcKind.recursionError.isRuntime = true :=
  ⟨_, rfl, rfl⟩

/-- **the engine remains usable after any failed navigation**: no parameter scope is left, the used
one-time choices are untouched, a displayed output is still cached, and (by `undo_choose`) a single
undo restores the situation before the failed choice -/
theorem usable_after_failed_goto (c : ECfg S) (fuel : Nat) (spec : String) (l : Live S.V) :
    (goto c fuel spec l).1.scopes = l.scopes ∧ (goto c fuel spec l).1.used = l.used ∧
    (l.out.isSome → (goto c fuel spec l).1.out.isSome) :=
  ⟨(goto_frame c fuel spec l).scopes, (goto_frame c fuel spec l).used, goto_outKept c fuel spec l⟩

end Bardic
