import Bardic.Parser.Core
import Proofs.C11
import Proofs.C11c
/-!
# C11 on the whole text-level parser model: no internal error, for every text

`parseText O src` (the model of `parse(source)`, `Bardic/Parser/Core.lean`) answers a story, a deliberate
diagnostic (`Fail.diag`: SyntaxError / ValueError), or — in the model's vocabulary — an *internal error*
(`Fail.internal`: a partial Python operation whose guard did not hold: `s.index`, `s[0]`, `lines[i]`,
tuple unpacking, an unbound local), exhausted loop fuel, or a question the `ast.parse` table cannot answer.

`parseText_no_internal`: for **every** source text and **every** behaviour of CPython's parser (`O`),
the outcome is never an internal error.  The proof goes through every function of the model; the partial
operations are discharged by the component theorems of `Proofs/C11.lean` / `C11c.lean`
(`extractPassageParams_ok`, `validatePassageName_ok`, `parsePassageParams_ok`, `extractTargetAndArgs_ok`,
`multiline_ok`, `validateChoice_ok`, `pyNew_ok`).
-/
namespace Bardic.Parser

/-- an outcome that is not an internal error -/
structure Good {α} (x : PM α) : Prop where
  h : ∀ w, x ≠ .error (.internal w)

theorem Good.pure {α} (a : α) : Good (Pure.pure a : PM α) := ⟨by intro w h; cases h⟩
theorem Good.ok {α} (a : α) : Good (Except.ok a : PM α) := ⟨by intro w h; cases h⟩
theorem Good.synErr {α} (i : Nat) (m : String) : Good (synErr i m : PM α) := ⟨by intro w h; cases h⟩
theorem Good.synErrNoLoc {α} (m : String) : Good (synErrNoLoc m : PM α) := ⟨by intro w h; cases h⟩
theorem Good.valErr {α} (m : String) : Good (valErr m : PM α) := ⟨by intro w h; cases h⟩
theorem Good.fuel {α} : Good (Except.error Fail.fuel : PM α) := ⟨by intro w h; cases h⟩
theorem Good.diag {α} (c l m) : Good (Except.error (Fail.diag c l m) : PM α) := ⟨by intro w h; cases h⟩
theorem Good.miss {α} (q) : Good (Except.error (Fail.oracleMiss q) : PM α) := ⟨by intro w h; cases h⟩

theorem Good.bind {α β} {x : PM α} {f : α → PM β} (hx : Good x) (hf : ∀ a, Good (f a)) : Good (x >>= f) := by
  refine ⟨?_⟩
  intro w h
  cases x with
  | error e =>
    simp only [Bind.bind, Except.bind] at h
    have he : e = Fail.internal w := by injection h
    exact hx.h w (by rw [he])
  | ok a => exact (hf a).h w h

theorem Good.ite {α} {c : Prop} [Decidable c] {a b : PM α} (ha : Good a) (hb : Good b) :
    Good (if c then a else b) := by
  split <;> assumption

theorem Good.ite_cond {α} {c : Prop} [Decidable c] {a b : PM α} (ha : c → Good a) (hb : Good b) :
    Good (if c then a else b) := by
  split
  · exact ha ‹_›
  · exact hb

theorem Good.liftPy {α} (what : String) (x : PyM α) (h : ∃ r, x = .ok r) : Good (liftPy what x) := by
  obtain ⟨r, hr⟩ := h
  rw [hr]
  exact Good.ok r

theorem splitFirstL_some_of_mem (c : Char) : ∀ s : List Char, c ∈ s → splitFirstL c s ≠ none
  | [], h => by cases h
  | d :: r, h => by
    unfold splitFirstL
    split
    · simp
    · rename_i hne
      have hr : c ∈ r := by
        cases h with
        | head => simp at hne
        | tail _ h => exact h
      have := splitFirstL_some_of_mem c r hr
      cases hs : splitFirstL c r with
      | none => exact absurd hs this
      | some p => simp

theorem splitColon_some (s : Line) (hc : s.contains ':' = true) (hn : splitColon s = none) : False := by
  have : ':' ∈ s := by simpa using hc
  exact splitFirstL_some_of_mem ':' s this hn

/-- one step of the routine part of these proofs -/
macro "good_close" : tactic => `(tactic| first
  | with_reducible exact Good.pure _ | with_reducible exact Good.ok _ | with_reducible exact Good.synErr _ _
  | with_reducible exact Good.synErrNoLoc _ | with_reducible exact Good.valErr _
  | with_reducible exact Good.fuel | with_reducible exact Good.diag _ _ _ | with_reducible exact Good.miss _
  | with_reducible assumption)

macro "good_step" : tactic => `(tactic| first
  | good_close
  | (with_reducible apply Good.bind)
  | (intro _)
  | (with_reducible apply Good.ite)
  | split
  | ((conv => zeta); first | good_close | (with_reducible apply Good.bind) | (with_reducible apply Good.ite) | split)
  | (dsimp only; first | good_close | (with_reducible apply Good.bind) | (with_reducible apply Good.ite) | split))

macro "good" : tactic => `(tactic| repeat good_step)

theorem contentToks_good (line : Line) (loc : Option Nat) (sc : Bool) : Good (contentToks line loc sc) := by
  unfold contentToks; good

theorem contentLineGlue_good (line : Line) (loc : Option Nat) : Good (contentLineGlue line loc) := by
  unfold contentLineGlue
  have := contentToks_good
  repeat (first | with_reducible exact this _ _ _ | good_step)

theorem parseChoiceLine_good (line : Line) : Good (parseChoiceLine line) := by
  unfold parseChoiceLine
  dsimp only
  split
  · exact Good.pure _
  · split
    · exact Good.pure _
    · apply Good.bind
      · exact Good.liftPy _ _ (extractTargetAndArgs_ok _)
      · intro p
        apply Good.bind
        · exact contentToks_good _ _ _
        · intro _; exact Good.pure _

theorem parseRenderLine_good (line : Line) (loc : Option Nat) : Good (parseRenderLine line loc) := by
  unfold parseRenderLine; good

theorem parseInputLine_good (line : Line) (loc : Option Nat) : Good (parseInputLine line loc) := by
  unfold parseInputLine; good

theorem flushPlainToks_good : ∀ ls : List Line, Good (flushPlainToks ls)
  | [] => Good.pure _
  | l :: r => by
    unfold flushPlainToks
    apply Good.bind (contentToks_good _ _ _)
    intro _
    apply Good.bind (flushPlainToks_good r)
    intro _; exact Good.pure _

theorem flushGlueToks_good : ∀ ls : List Line, Good (flushGlueToks ls)
  | [] => Good.pure _
  | l :: r => by
    unfold flushGlueToks
    apply Good.bind (contentLineGlue_good _ _)
    intro _
    apply Good.bind (flushGlueToks_good r)
    intro _; exact Good.pure _

theorem flushPlain_good (s : CondSt) : Good s.flushPlain := by
  unfold CondSt.flushPlain
  split
  · exact Good.pure _
  · split
    · exact Good.pure _
    · apply Good.bind (flushPlainToks_good _)
      intro _; exact Good.pure _

theorem finalize_good (s : CondSt) : Good s.finalize := by
  unfold CondSt.finalize
  have := flushGlueToks_good
  repeat (first | with_reducible exact this _ | good_step)

theorem condHeader_good (st : Line) (kw : String) (i : Nat) : Good (condHeader st kw i) := by
  unfold condHeader; good

theorem loopHeader_good (st : Line) (i : Nat) : Good (loopHeader st i) := by
  unfold loopHeader; good

/-- `extract_python_block` on a line inside the text: a block or a diagnostic, and a block uses ≥ 1 line -/
theorem extractPythonBlock_good (lines : Lines) (start : Nat) (h : start < lines.size) :
    Good (extractPythonBlock lines start) := by
  unfold extractPythonBlock
  simp only [h, dite_true]
  split
  · exact Good.pure _
  · split
    · have hl : start < lines.toList.length := by simpa using h
      obtain ⟨r, hr, _⟩ := pyNew_ok lines.toList start hl
      rw [hr]
      cases r with
      | error d => exact Good.synErr _ _
      | ok p => exact Good.pure _
    · exact Good.valErr _

theorem multiline_good (lines : List Line) (start : Nat) (init : Line) :
    Good (liftPy "extract_multiline_expression" (multiline lines start init)) := by
  obtain ⟨e, n, h, _⟩ := multiline_ok lines start init
  exact Good.liftPy _ _ ⟨_, h⟩

theorem loopCollect_good (lines : Lines) : ∀ (f i depth : Nat) (acc : List Line), Good (loopCollect lines f i depth acc)
  | 0, _, _, _ => Good.fuel
  | f + 1, i, depth, acc => by
    unfold loopCollect
    have ih := loopCollect_good lines f
    by_cases hi : i < lines.size
    · rw [dif_pos hi]
      extract_lets line st
      split
      · exact Good.synErr _ _
      · split
        · exact ih _ _ _
        · split
          · split
            · exact Good.pure _
            · exact ih _ _ _
          · exact ih _ _ _
    · rw [dif_neg hi]; exact Good.pure _

/-- the four mutually recursive block functions, by induction on the fuel -/
theorem blocks_good : ∀ f : Nat,
    (∀ (lines : Lines) (start i : Nat) (s : CondSt), Good (condLoop lines start f i s)) ∧
    (∀ (lines : Lines) (start : Nat), Good (extractCond lines f start)) ∧
    (∀ (al : Lines) (bs j : Nat) (c : List J) (ch : Option (List J)), Good (loopBody al bs f j c ch)) ∧
    (∀ (lines : Lines) (start : Nat), Good (extractLoop lines f start)) := by
  intro f
  induction f with
  | zero =>
    refine ⟨?_, ?_, ?_, ?_⟩
    · intro lines start i s; unfold condLoop; exact Good.fuel
    · intro lines start; unfold extractCond; exact Good.fuel
    · intro al bs j c ch; unfold loopBody; exact Good.fuel
    · intro lines start; unfold extractLoop; exact Good.fuel
  | succ f ih =>
    obtain ⟨ihC, ihEC, ihB, ihEL⟩ := ih
    refine ⟨?_, ?_, ?_, ?_⟩
    · -- condLoop
      intro lines start i s
      unfold condLoop
      by_cases hi : i < lines.size
      · rw [dif_pos hi]
        have hp := extractPythonBlock_good lines i hi
        have hfp := flushPlain_good
        have hfin := finalize_good
        have hm := multiline_good lines.toList i
        have hin := parseInputLine_good
        have hre := parseRenderLine_good
        have hch := parseChoiceLine_good
        have hcond := condHeader_good
        repeat (first
          | with_reducible exact ihC _ _ _ _ | with_reducible exact ihEC _ _ | with_reducible exact ihEL _ _ | with_reducible exact hp | with_reducible exact hfp _ | with_reducible exact hfin _ | with_reducible exact hm _
          | with_reducible exact hin _ _ | with_reducible exact hre _ _ | with_reducible exact hch _ | with_reducible exact hcond _ _ _
          | good_step)
      · rw [dif_neg hi]; exact Good.pure _
    · -- extractCond
      intro lines start
      unfold extractCond
      apply Good.bind (ihC _ _ _ _)
      intro _
      good
    · -- loopBody
      intro al bs j c ch
      unfold loopBody
      by_cases hi : bs + j < al.size
      · rw [dif_pos hi]
        have hp := extractPythonBlock_good al (bs + j) hi
        have hm := multiline_good al.toList (bs + j)
        have hin := parseInputLine_good
        have hre := parseRenderLine_good
        have hch := parseChoiceLine_good
        have hgl := contentLineGlue_good
        repeat (first
          | with_reducible exact ihB _ _ _ _ _ | with_reducible exact ihEC _ _ | with_reducible exact ihEL _ _ | with_reducible exact hp | with_reducible exact hm _
          | with_reducible exact hin _ _ | with_reducible exact hre _ _ | with_reducible exact hch _ | with_reducible exact hgl _ _
          | good_step)
      · rw [dif_neg hi]; exact Good.pure _
    · -- extractLoop
      intro lines start
      unfold extractLoop
      by_cases hi : start < lines.size
      · rw [dif_pos hi]
        have h1 := loopHeader_good
        have h2 := loopCollect_good lines
        repeat (first | with_reducible exact h1 _ _ | with_reducible exact h2 _ _ _ _ | with_reducible exact ihB _ _ _ _ _ | good_step)
      · rw [dif_neg hi]; exact Good.synErr _ _

theorem extractCond_good (lines : Lines) (f start : Nat) : Good (extractCond lines f start) := (blocks_good f).2.1 _ _
theorem extractLoop_good (lines : Lines) (f start : Nat) : Good (extractLoop lines f start) := (blocks_good f).2.2.2 _ _

theorem joinParse_good (start : Nat) : ∀ (j : Nat) (ls : List Line), Good (joinParse start j ls)
  | _, [] => by unfold joinParse; exact Good.pure _
  | j, l :: r => by
    unfold joinParse
    have ih := joinParse_good start (j + 1) r
    have hc := contentToks_good
    repeat (first | with_reducible exact ih | with_reducible exact hc _ _ _ | good_step)

theorem extractJoinBlock_good (lines : Lines) (start indent : Nat) : Good (extractJoinBlock lines start indent) := by
  unfold extractJoinBlock
  have := joinParse_good start 0
  repeat (first | with_reducible exact this _ | good_step)

theorem headerLine_good (O : PyOracle) (line : Line) (i : Nat) (s : PSt) : Good (headerLine O line i s) := by
  unfold headerLine
  have h1 : ∀ h, Good (liftPy "extract_passage_params" (extractPassageParams h)) :=
    fun h => Good.liftPy _ _ (extractPassageParams_ok h)
  have h2 : ∀ n, Good (liftPy "validate_passage_name" (validatePassageName isAsciiAlnum isAsciiDigit n)) :=
    fun n => Good.liftPy _ _ (validatePassageName_ok _ _ n)
  have h3 : ∀ ex p, Good (liftPy "parse_passage_params" (parsePassageParams ex p)) :=
    fun ex p => Good.liftPy _ _ (parsePassageParams_ok ex p)
  repeat (first | with_reducible exact h1 _ | with_reducible exact h2 _ | with_reducible exact h3 _ _ | good_step)

theorem topChoice_good (lines : Lines) (i : Nat) (line : Line) (sec : Nat) : Good (topChoice lines i line sec) := by
  unfold topChoice
  have hvc : ∀ l, Good (liftPy "validate_choice_syntax" (validateChoice l)) :=
    fun l => Good.liftPy _ _ (validateChoice_ok l)
  have hch := parseChoiceLine_good
  have hjb := extractJoinBlock_good lines
  repeat (first | with_reducible exact hvc _ | with_reducible exact hch _ | with_reducible exact hjb _ _ | good_step)

theorem coreLoop_good (O : PyOracle) (lines : Lines) : ∀ (f i : Nat) (s : PSt), Good (coreLoop O lines f i s)
  | 0, _, _ => by unfold coreLoop; exact Good.fuel
  | f + 1, i, s => by
    unfold coreLoop
    have ih := coreLoop_good O lines f
    by_cases hi : i < lines.size
    · rw [dif_pos hi]
      have hp := extractPythonBlock_good lines i hi
      have hm := multiline_good lines.toList i
      have hin := parseInputLine_good
      have hre := parseRenderLine_good
      have hch := parseChoiceLine_good
      have hgl := contentLineGlue_good
      have hhd := headerLine_good O
      have htc := topChoice_good lines
      have het : ∀ l, Good (liftPy "extract_target_and_args" (extractTargetAndArgs l)) :=
        fun l => Good.liftPy _ _ (extractTargetAndArgs_ok l)
      have hec := extractCond_good lines
      have hel := extractLoop_good lines
      -- the one `internal` written in the loop itself: `stripped.split(":", 1)` after `":" in stripped`
      split
      apply Good.ite (ih _ _)
      apply Good.ite
      · -- an import line: what `ast.parse` says about it
        repeat (first | with_reducible exact ih _ _ | good_step)
      conv => zeta
      apply Good.ite (ih _ _)
      apply Good.ite (ih _ _)
      apply Good.ite_cond
      · intro hmeta
        split
        · exact ih _ _
        · rename_i hsplit
          exfalso
          have hc : (stripL lines[i]).contains ':' = true := by
            simp only [Bool.and_eq_true] at hmeta; exact hmeta.2
          exact splitColon_some _ hc hsplit
      · repeat (first
          | with_reducible exact ih _ _ | with_reducible exact hp | with_reducible exact hm _ | with_reducible exact hin _ _
          | with_reducible exact hre _ _ | with_reducible exact hch _ | with_reducible exact hgl _ _
          | with_reducible exact hhd _ _ _ | with_reducible exact htc _ _ _ | with_reducible exact het _
          | with_reducible exact hec _ _ | with_reducible exact hel _ _
          | good_step)
    · rw [dif_neg hi]; exact Good.pure _

theorem validateCall_good (O : PyOracle) (ps : List (Line × PPassage)) (t a : Line) : Good (validateCall O ps t a) := by
  unfold validateCall; good

theorem validateChoices_good (O : PyOracle) (ps : List (Line × PPassage)) : ∀ l, Good (validateChoices O ps l)
  | [] => Good.pure _
  | c :: r => by
    unfold validateChoices
    apply Good.bind (validateCall_good _ _ _ _)
    intro _; exact validateChoices_good O ps r

theorem validateJumps_good (O : PyOracle) (ps : List (Line × PPassage)) : ∀ l, Good (validateJumps O ps l)
  | [] => Good.pure _
  | c :: r => by
    unfold validateJumps
    have h1 := validateCall_good O ps
    have h2 := validateJumps_good O ps r
    repeat (first | with_reducible exact h1 _ _ | with_reducible exact h2 | good_step)

theorem validateArgs_good (O : PyOracle) (ps : List (Line × PPassage)) : ∀ l, Good (validateArgs O ps l)
  | [] => Good.pure _
  | (_, p) :: r => by
    unfold validateArgs
    apply Good.bind (validateChoices_good _ _ _)
    intro _
    apply Good.bind (validateJumps_good _ _ _)
    intro _; exact validateArgs_good O ps r

/-- **C11, internal errors, whole parser**: for every source text and every behaviour of CPython's own
parser, `parse` never ends in an internal error (IndexError, ValueError from `.index`, unbound local, …) -/
theorem parseStory_good (O : PyOracle) (src : Line) : Good (parseStory O src) := by
  have hc := coreLoop_good O
  have hv := validateArgs_good O
  unfold parseStory parseLines determineInitial
  repeat (first | with_reducible exact hc _ _ _ _ | with_reducible exact hv _ _ | good_step)

theorem parseText_no_internal (O : PyOracle) (src : Line) : ∀ w, parseText O src ≠ .error (.internal w) := by
  intro w h
  unfold parseText at h
  split at h
  · cases h
  · rename_i e he
    cases h
    exact (parseStory_good O src).h w he

end Bardic.Parser
