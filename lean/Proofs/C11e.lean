import Proofs.C11d
import Proofs.C11b
/-!
# C11 on the whole text-level parser model: the loops always advance (the fuel never runs out)

Every `while` of the parser is modelled with one unit of fuel per iteration, and `Fail.fuel` is the outcome "a loop did
not advance".  `parseText_no_fuel`: for **every** source text and every behaviour of CPython's parser, that outcome is
unreachable with the fuel `parseText` starts from (three units per line).  The argument is the one a reader makes for
the Python code: every iteration of every loop moves its index forward by at least one line — a Python block uses at
least two lines (`pyNew_ok`, `pyOld_consumed`), a multi-line statement at least one (`multiline_ok`), a nested
`@if` / `@for` block at least one (`extractCond` / `extractLoop` answer a positive count, shown here together with the
fuel bound, by induction) — and a nested block is extracted from an index strictly behind its parent's opening line.

Together with `parseText_no_internal` (C11d): `parseText_total` — the outcome is a story, a deliberate diagnostic
(SyntaxError / ValueError), or a question the `ast.parse` table does not answer.
-/
namespace Bardic.Parser

/-- not out of fuel, and a postcondition on the value -/
structure Ok {α} (x : PM α) (P : α → Prop) : Prop where
  nf : x ≠ .error .fuel
  post : ∀ a, x = .ok a → P a

theorem Ok.pure {α} {P : α → Prop} (a : α) (h : P a) : Ok (Pure.pure a : PM α) P :=
  ⟨(by intro h; cases h), (by intro b hb; cases hb; exact h)⟩
theorem Ok.okv {α} {P : α → Prop} (a : α) (h : P a) : Ok (Except.ok a : PM α) P :=
  ⟨(by intro h; cases h), (by intro b hb; cases hb; exact h)⟩
theorem Ok.synErr {α} {P : α → Prop} (i : Nat) (m : String) : Ok (synErr i m : PM α) P :=
  ⟨(by intro h; cases h), (by intro b hb; cases hb)⟩
theorem Ok.synErrNoLoc {α} {P : α → Prop} (m : String) : Ok (synErrNoLoc m : PM α) P :=
  ⟨(by intro h; cases h), (by intro b hb; cases hb)⟩
theorem Ok.valErr {α} {P : α → Prop} (m : String) : Ok (valErr m : PM α) P :=
  ⟨(by intro h; cases h), (by intro b hb; cases hb)⟩
theorem Ok.diag {α} {P : α → Prop} (c l m) : Ok (Except.error (Fail.diag c l m) : PM α) P :=
  ⟨(by intro h; cases h), (by intro b hb; cases hb)⟩
theorem Ok.internal {α} {P : α → Prop} (m) : Ok (Except.error (Fail.internal m) : PM α) P :=
  ⟨(by intro h; cases h), (by intro b hb; cases hb)⟩
theorem Ok.miss {α} {P : α → Prop} (q) : Ok (Except.error (Fail.oracleMiss q) : PM α) P :=
  ⟨(by intro h; cases h), (by intro b hb; cases hb)⟩

theorem Ok.bind {α β} {x : PM α} {f : α → PM β} {P : α → Prop} {Q : β → Prop}
    (hx : Ok x P) (hf : ∀ a, P a → Ok (f a) Q) : Ok (x >>= f) Q := by
  cases x with
  | error e =>
    refine ⟨?_, ?_⟩
    · intro h
      simp only [Bind.bind, Except.bind] at h
      have he : e = Fail.fuel := by injection h
      exact hx.nf (by rw [he])
    · intro b hb; simp only [Bind.bind, Except.bind] at hb; cases hb
  | ok a => exact hf a (hx.post a rfl)

theorem Ok.weaken {α} {x : PM α} {P Q : α → Prop} (hx : Ok x P) (h : ∀ a, P a → Q a) : Ok x Q :=
  ⟨hx.nf, fun a ha => h a (hx.post a ha)⟩

theorem Ok.triv {α} {x : PM α} {P : α → Prop} (hx : Ok x P) : Ok x (fun _ => True) := hx.weaken (fun _ _ => trivial)

theorem Ok.ite {α} {c : Prop} [Decidable c] {a b : PM α} {P : α → Prop} (ha : Ok a P) (hb : Ok b P) :
    Ok (if c then a else b) P := by
  split <;> assumption

theorem Ok.ite_cond {α} {c : Prop} [Decidable c] {a b : PM α} {P : α → Prop} (ha : c → Ok a P) (hb : ¬c → Ok b P) :
    Ok (if c then a else b) P := by
  split
  · exact ha ‹_›
  · exact hb ‹_›

theorem Ok.liftPy {α} {P : α → Prop} (what : String) (x : PyM α) (h : ∃ r, x = .ok r ∧ P r) : Ok (liftPy what x) P := by
  obtain ⟨r, hr, hp⟩ := h
  rw [hr]
  exact Ok.okv r hp

abbrev T {α} : α → Prop := fun _ => True

macro "ok_close" : tactic => `(tactic| first
  | with_reducible exact Ok.pure _ trivial | with_reducible exact Ok.okv _ trivial | with_reducible exact Ok.synErr _ _
  | with_reducible exact Ok.synErrNoLoc _ | with_reducible exact Ok.valErr _
  | with_reducible exact Ok.diag _ _ _ | with_reducible exact Ok.miss _ | with_reducible exact Ok.internal _
  | with_reducible assumption)

macro "ok_step" : tactic => `(tactic| first
  | ok_close
  | (with_reducible apply Ok.bind (P := T))
  | (intro _)
  | (with_reducible apply Ok.ite)
  | split
  | ((conv => zeta); first | ok_close | (with_reducible apply Ok.bind (P := T)) | (with_reducible apply Ok.ite) | split)
  | (dsimp only; first | ok_close | (with_reducible apply Ok.bind (P := T)) | (with_reducible apply Ok.ite) | split))

theorem contentToks_ok (line : Line) (loc : Option Nat) (sc : Bool) : Ok (contentToks line loc sc) T := by
  unfold contentToks
  have hf := (contentLine_fuel (line.length + 1)).1 sc line (Nat.lt_succ_self _)
  split
  · exact Ok.okv _ trivial
  · exact Ok.diag _ _ _
  · rename_i h; exact absurd h hf

theorem contentLineGlue_ok (line : Line) (loc : Option Nat) : Ok (contentLineGlue line loc) T := by
  unfold contentLineGlue
  have := contentToks_ok
  repeat (first | with_reducible exact this _ _ _ | ok_step)

theorem parseChoiceLine_ok (line : Line) : Ok (parseChoiceLine line) T := by
  unfold parseChoiceLine
  have h1 : ∀ l, Ok (liftPy "extract_target_and_args" (extractTargetAndArgs l)) T := fun l => by
    obtain ⟨r, hr⟩ := extractTargetAndArgs_ok l
    exact Ok.liftPy _ _ ⟨r, hr, trivial⟩
  have h2 := contentToks_ok
  repeat (first | with_reducible exact h1 _ | with_reducible exact h2 _ _ _ | ok_step)

theorem parseRenderLine_ok (line : Line) (loc : Option Nat) : Ok (parseRenderLine line loc) T := by
  unfold parseRenderLine; repeat ok_step

theorem parseInputLine_ok (line : Line) (loc : Option Nat) : Ok (parseInputLine line loc) T := by
  unfold parseInputLine; repeat ok_step

theorem flushPlainToks_ok : ∀ ls : List Line, Ok (flushPlainToks ls) T
  | [] => Ok.pure _ trivial
  | l :: r => by
    unfold flushPlainToks
    have h1 := contentToks_ok
    have h2 := flushPlainToks_ok r
    repeat (first | with_reducible exact h1 _ _ _ | with_reducible exact h2 | ok_step)

theorem flushGlueToks_ok : ∀ ls : List Line, Ok (flushGlueToks ls) T
  | [] => Ok.pure _ trivial
  | l :: r => by
    unfold flushGlueToks
    have h1 := contentLineGlue_ok
    have h2 := flushGlueToks_ok r
    repeat (first | with_reducible exact h1 _ _ | with_reducible exact h2 | ok_step)

theorem flushPlain_ok (s : CondSt) : Ok s.flushPlain T := by
  unfold CondSt.flushPlain
  have := flushPlainToks_ok
  repeat (first | with_reducible exact this _ | ok_step)

theorem finalize_ok (s : CondSt) : Ok s.finalize T := by
  unfold CondSt.finalize
  have := flushGlueToks_ok
  repeat (first | with_reducible exact this _ | ok_step)

theorem condHeader_ok (st : Line) (kw : String) (i : Nat) : Ok (condHeader st kw i) T := by
  unfold condHeader; repeat ok_step

theorem loopHeader_ok (st : Line) (i : Nat) : Ok (loopHeader st i) T := by
  unfold loopHeader; repeat ok_step

/-- a Python block uses at least one line (in fact two) -/
theorem extractPythonBlock_ok (lines : Lines) (start : Nat) (h : start < lines.size) :
    Ok (extractPythonBlock lines start) (fun r => 1 ≤ r.2) := by
  unfold extractPythonBlock
  simp only [h, dite_true]
  have hl : start < lines.toList.length := by simpa using h
  split
  · exact Ok.pure _ (by have := (pyOld_consumed lines.toList start hl).1; simp only; omega)
  · split
    · obtain ⟨r, hr, hn⟩ := pyNew_ok lines.toList start hl
      rw [hr]
      cases r with
      | error d => exact Ok.synErr _ _
      | ok p =>
        obtain ⟨code, n⟩ := p
        exact Ok.pure _ (by have := (hn code n rfl).1; simp only; omega)
    · exact Ok.valErr _

theorem multiline_ok' (lines : List Line) (start : Nat) (init : Line) :
    Ok (liftPy "extract_multiline_expression" (multiline lines start init)) (fun r => 1 ≤ r.2) := by
  obtain ⟨e, n, h, h1, _⟩ := multiline_ok lines start init
  exact Ok.liftPy _ _ ⟨(e, n), h, h1⟩

theorem dedent_length (ls : List Line) : (dedent ls).length = ls.length := by
  unfold dedent; split <;> simp

/-- phase 1 of the loop extractor: enough fuel for the lines that remain; the lines collected are among them and the
index only moves forward -/
theorem loopCollect_ok (lines : Lines) : ∀ (f i depth : Nat) (acc : List Line), lines.size - i + 1 ≤ f →
    Ok (loopCollect lines f i depth acc) (fun r => r.1.length ≤ acc.length + (lines.size - i) ∧ i ≤ r.2.1)
  | 0, _, _, _, h => by omega
  | f + 1, i, depth, acc, h => by
    unfold loopCollect
    by_cases hi : i < lines.size
    · rw [dif_pos hi]
      have ih : ∀ d (a : List Line), a.length = acc.length + 1 →
          Ok (loopCollect lines f (i + 1) d a) (fun r => r.1.length ≤ acc.length + (lines.size - i) ∧ i ≤ r.2.1) := by
        intro d a ha
        refine (loopCollect_ok lines f (i + 1) d a (by omega)).weaken ?_
        intro r hr
        constructor <;> omega
      extract_lets line st
      split
      · exact Ok.synErr _ _
      · split
        · exact ih _ _ (by simp)
        · split
          · split
            · exact Ok.pure _ (by simp)
            · exact ih _ _ (by simp)
          · exact ih _ _ (by simp)
    · rw [dif_neg hi]
      exact Ok.pure _ (by simp)

/-- the four mutually recursive block functions: fuel for three units per remaining line is enough, and a block uses at
least one line -/
theorem blocks_ok : ∀ f : Nat,
    (∀ (lines : Lines) (start i : Nat) (s : CondSt), start ≤ i → (i = start → s.cur = none) →
        3 * (lines.size - i) + 1 + 2 * min (i - start) 1 ≤ f →
        Ok (condLoop lines start f i s) (fun r => r.2.2 = true → i < r.2.1)) ∧
    (∀ (lines : Lines) (start : Nat), 3 * (lines.size - start) + 2 ≤ f →
        Ok (extractCond lines f start) (fun r => 1 ≤ r.2)) ∧
    (∀ (al : Lines) (bs j : Nat) (c : List J) (ch : Option (List J)), 3 * (al.size - (bs + j)) + 3 ≤ f →
        Ok (loopBody al bs f j c ch) T) ∧
    (∀ (lines : Lines) (start : Nat), 3 * (lines.size - start) + 2 ≤ f →
        Ok (extractLoop lines f start) (fun r => 1 ≤ r.2)) := by
  intro f
  induction f with
  | zero =>
    refine ⟨?_, ?_, ?_, ?_⟩
    · intro lines start i s _ _ h; omega
    · intro lines start h; omega
    · intro al bs j c ch h; omega
    · intro lines start h; omega
  | succ f ih =>
    obtain ⟨ihC, ihEC, ihB, ihEL⟩ := ih
    refine ⟨?_, ?_, ?_, ?_⟩
    · -- condLoop
      intro lines start i s hsi hcur hreq
      unfold condLoop
      by_cases hi : i < lines.size
      · rw [dif_pos hi]
        have hp := extractPythonBlock_ok lines i hi
        have hfp := flushPlain_ok
        have hfin := finalize_ok
        have hm := multiline_ok' lines.toList i
        have hin := parseInputLine_ok
        have hre := parseRenderLine_ok
        have hch := parseChoiceLine_ok
        have hcond := condHeader_ok
        split
        -- 1 … 7: comment, Python block, @input, @render, @hook, @unhook, ~ statement
        iterate 7
          apply Ok.ite
          · repeat (first
              | ((with_reducible show Ok (condLoop _ _ _ _ _) _); refine (ihC _ _ _ _ (by omega) (fun h => by omega) (by omega)).weaken (fun r hr hfd => by have := hr hfd; omega))
              | (with_reducible refine Ok.bind hp ?_) | (with_reducible refine Ok.bind (hm _) ?_)
              | with_reducible exact hfp _ | with_reducible exact hin _ _ | with_reducible exact hre _ _
              | ok_step)
        -- 8: a nested conditional (never at the opening line itself)
        apply Ok.ite_cond
        · intro hc
          have hne : i ≠ start := by
            intro h
            simp only [Bool.and_eq_true, bne_iff_ne, ne_eq] at hc
            exact hc.1.2 h
          repeat (first
            | ((with_reducible show Ok (condLoop _ _ _ _ _) _); refine (ihC _ _ _ _ (by omega) (fun h => by omega) (by omega)).weaken (fun r hr hfd => by have := hr hfd; omega))
            | ((with_reducible show Ok (extractCond _ _ _ >>= _) _); refine Ok.bind (ihEC _ _ (by omega)) ?_)
            | with_reducible exact hfp _
            | ok_step)
        intro _
        -- 9: a nested loop (the branch needs an open branch, which the opening line does not have yet)
        apply Ok.ite_cond
        · intro hc
          have hne : i ≠ start := by
            intro h
            have := hcur h
            simp [this] at hc
          repeat (first
            | ((with_reducible show Ok (condLoop _ _ _ _ _) _); refine (ihC _ _ _ _ (by omega) (fun h => by omega) (by omega)).weaken (fun r hr hfd => by have := hr hfd; omega))
            | ((with_reducible show Ok (extractLoop _ _ _ >>= _) _); refine Ok.bind (ihEL _ _ (by omega)) ?_)
            | with_reducible exact hfp _
            | ok_step)
        intro _
        -- the rest: header, closers, @elif / @else, jump, choice, text
        repeat (first
          | ((with_reducible show Ok (condLoop _ _ _ _ _) _); refine (ihC _ _ _ _ (by omega) (fun h => by omega) (by omega)).weaken (fun r hr hfd => by have := hr hfd; omega))
          | with_reducible exact Ok.pure _ (fun _ => by simp)
          | with_reducible exact hfp _ | with_reducible exact hfin _ | with_reducible exact hch _ | with_reducible exact hcond _ _ _
          | ok_step)
      · rw [dif_neg hi]; exact Ok.pure _ (by simp)
    · -- extractCond
      intro lines start hreq
      unfold extractCond
      refine Ok.bind (ihC lines start start {} (Nat.le_refl _) (fun _ => rfl) (by omega)) ?_
      intro r hr
      obtain ⟨s, i, found⟩ := r
      dsimp only at hr ⊢
      cases found with
      | false => exact Ok.synErr _ _
      | true =>
        have := hr rfl
        exact Ok.pure _ (by simp only; omega)
    · -- loopBody
      intro al bs j c ch hreq
      unfold loopBody
      by_cases hi : bs + j < al.size
      · rw [dif_pos hi]
        have hp := extractPythonBlock_ok al (bs + j) hi
        have hm := multiline_ok' al.toList (bs + j)
        have hin := parseInputLine_ok
        have hre := parseRenderLine_ok
        have hch := parseChoiceLine_ok
        have hgl := contentLineGlue_ok
        split
        repeat (first
          | ((with_reducible show Ok (loopBody _ _ _ _ _ _) _); refine ihB _ _ _ _ _ (by omega))
          | (with_reducible refine Ok.bind hp ?_) | (with_reducible refine Ok.bind (hm _) ?_)
          | ((with_reducible show Ok (extractLoop _ _ _ >>= _) _); refine Ok.bind (ihEL _ _ (by omega)) ?_) | ((with_reducible show Ok (extractCond _ _ _ >>= _) _); refine Ok.bind (ihEC _ _ (by omega)) ?_)
          | with_reducible exact hin _ _ | with_reducible exact hre _ _ | with_reducible exact hch _ | with_reducible exact hgl _ _
          | ok_step)
      · rw [dif_neg hi]; exact Ok.pure _ trivial
    · -- extractLoop
      intro lines start hreq
      unfold extractLoop
      by_cases hi : start < lines.size
      · rw [dif_pos hi]
        refine Ok.bind (loopHeader_ok _ _) ?_
        intro _ _
        split
        refine Ok.bind (loopCollect_ok lines f (start + 1) 1 [] (by omega)) ?_
        intro r hr
        obtain ⟨raw, i, found⟩ := r
        dsimp only at hr ⊢
        simp only [List.length_nil] at hr
        apply Ok.ite
        · refine Ok.bind (P := T) (Ok.pure _ trivial) ?_
          intro _ _
          apply Ok.ite
          · exact Ok.synErr _ _
          · exact Ok.pure _ (by simp only; omega)
        · refine Ok.bind (P := T) (ihB _ _ _ _ _ ?_) ?_
          · simp only [Array.size_append, Array.size_extract, List.size_toArray, dedent_length]
            omega
          · intro _ _
            apply Ok.ite
            · exact Ok.synErr _ _
            · exact Ok.pure _ (by simp only; omega)
      · rw [dif_neg hi]; exact Ok.synErr _ _

theorem extractCond_ok (lines : Lines) (f start : Nat) (h : 3 * (lines.size - start) + 2 ≤ f) :
    Ok (extractCond lines f start) (fun r => 1 ≤ r.2) := (blocks_ok f).2.1 _ _ h
theorem extractLoop_ok (lines : Lines) (f start : Nat) (h : 3 * (lines.size - start) + 2 ≤ f) :
    Ok (extractLoop lines f start) (fun r => 1 ≤ r.2) := (blocks_ok f).2.2.2 _ _ h

theorem joinParse_ok (start : Nat) : ∀ (j : Nat) (ls : List Line), Ok (joinParse start j ls) T
  | _, [] => by unfold joinParse; exact Ok.pure _ trivial
  | j, l :: r => by
    unfold joinParse
    have ih := joinParse_ok start (j + 1) r
    have hc := contentToks_ok
    repeat (first | with_reducible exact ih | with_reducible exact hc _ _ _ | ok_step)

theorem extractJoinBlock_ok (lines : Lines) (start indent : Nat) : Ok (extractJoinBlock lines start indent) T := by
  unfold extractJoinBlock
  have := joinParse_ok start 0
  repeat (first | with_reducible exact this _ | ok_step)

theorem headerLine_ok (O : PyOracle) (line : Line) (i : Nat) (s : PSt) : Ok (headerLine O line i s) T := by
  unfold headerLine
  have h1 : ∀ h, Ok (liftPy "extract_passage_params" (extractPassageParams h)) T := fun h => by
    obtain ⟨r, hr⟩ := extractPassageParams_ok h; exact Ok.liftPy _ _ ⟨r, hr, trivial⟩
  have h2 : ∀ n, Ok (liftPy "validate_passage_name" (validatePassageName isAsciiAlnum isAsciiDigit n)) T := fun n => by
    obtain ⟨r, hr⟩ := validatePassageName_ok isAsciiAlnum isAsciiDigit n; exact Ok.liftPy _ _ ⟨r, hr, trivial⟩
  have h3 : ∀ ex p, Ok (liftPy "parse_passage_params" (parsePassageParams ex p)) T := fun ex p => by
    obtain ⟨r, hr⟩ := parsePassageParams_ok ex p; exact Ok.liftPy _ _ ⟨r, hr, trivial⟩
  repeat (first | with_reducible exact h1 _ | with_reducible exact h2 _ | with_reducible exact h3 _ _ | ok_step)

theorem topChoice_ok (lines : Lines) (i : Nat) (line : Line) (sec : Nat) : Ok (topChoice lines i line sec) T := by
  unfold topChoice
  have hvc : ∀ l, Ok (liftPy "validate_choice_syntax" (validateChoice l)) T := fun l => by
    obtain ⟨r, hr⟩ := validateChoice_ok l; exact Ok.liftPy _ _ ⟨r, hr, trivial⟩
  have hch := parseChoiceLine_ok
  have hjb := extractJoinBlock_ok lines
  repeat (first | with_reducible exact hvc _ | with_reducible exact hch _ | with_reducible exact hjb _ _ | ok_step)

/-- the line classifier: three units of fuel per remaining line (and three to spare) are enough -/
theorem coreLoop_ok (O : PyOracle) (lines : Lines) : ∀ (f i : Nat) (s : PSt), 3 * (lines.size - i) + 3 ≤ f →
    Ok (coreLoop O lines f i s) T
  | 0, _, _, h => by omega
  | f + 1, i, s, hreq => by
    unfold coreLoop
    have ih := coreLoop_ok O lines f
    by_cases hi : i < lines.size
    · rw [dif_pos hi]
      have hp := extractPythonBlock_ok lines i hi
      have hm := multiline_ok' lines.toList i
      have hin := parseInputLine_ok
      have hre := parseRenderLine_ok
      have hgl := contentLineGlue_ok
      have hhd := headerLine_ok O
      have htc := topChoice_ok lines
      have het : ∀ l, Ok (liftPy "extract_target_and_args" (extractTargetAndArgs l)) T := fun l => by
        obtain ⟨r, hr⟩ := extractTargetAndArgs_ok l; exact Ok.liftPy _ _ ⟨r, hr, trivial⟩
      have hec := extractCond_ok lines f i (by omega)
      have hel := extractLoop_ok lines f i (by omega)
      split
      repeat (first
        | ((with_reducible show Ok (coreLoop _ _ _ _ _) _); refine ih _ _ (by omega))
        | (with_reducible refine Ok.bind hp ?_) | (with_reducible refine Ok.bind (hm _) ?_)
        | (with_reducible refine Ok.bind hec ?_) | (with_reducible refine Ok.bind hel ?_)
        | with_reducible exact hin _ _ | with_reducible exact hre _ _ | with_reducible exact hgl _ _
        | with_reducible exact hhd _ _ _ | with_reducible exact htc _ _ _ | with_reducible exact het _
        | ok_step)
    · rw [dif_neg hi]; exact Ok.pure _ trivial

theorem validateCall_ok (O : PyOracle) (ps : List (Line × PPassage)) (t a : Line) : Ok (validateCall O ps t a) T := by
  unfold validateCall; repeat ok_step

theorem validateChoices_ok (O : PyOracle) (ps : List (Line × PPassage)) : ∀ l, Ok (validateChoices O ps l) T
  | [] => Ok.pure _ trivial
  | c :: r => by
    unfold validateChoices
    have h1 := validateCall_ok O ps
    have h2 := validateChoices_ok O ps r
    repeat (first | with_reducible exact h1 _ _ | with_reducible exact h2 | ok_step)

theorem validateJumps_ok (O : PyOracle) (ps : List (Line × PPassage)) : ∀ l, Ok (validateJumps O ps l) T
  | [] => Ok.pure _ trivial
  | c :: r => by
    unfold validateJumps
    have h1 := validateCall_ok O ps
    have h2 := validateJumps_ok O ps r
    repeat (first | with_reducible exact h1 _ _ | with_reducible exact h2 | ok_step)

theorem validateArgs_ok (O : PyOracle) (ps : List (Line × PPassage)) : ∀ l, Ok (validateArgs O ps l) T
  | [] => Ok.pure _ trivial
  | (_, p) :: r => by
    unfold validateArgs
    have h1 := validateChoices_ok O ps
    have h2 := validateJumps_ok O ps
    have h3 := validateArgs_ok O ps r
    repeat (first | with_reducible exact h1 _ | with_reducible exact h2 _ | with_reducible exact h3 | ok_step)

/-- **C11, termination, whole parser**: for every source text and every behaviour of CPython's own parser, no loop of
`parse` fails to advance — the fuel `parseText` starts from (three units per line) is never exhausted -/
theorem parseStory_ok (O : PyOracle) (src : Line) : Ok (parseStory O src) T := by
  have hc := coreLoop_ok O
  have hv := validateArgs_ok O
  unfold parseStory parseLines determineInitial
  repeat (first
    | ((with_reducible show Ok (coreLoop _ _ _ _ _) _); refine hc _ _ _ _ (by omega))
    | with_reducible exact hv _ _
    | ok_step)

theorem parseText_no_fuel (O : PyOracle) (src : Line) : parseText O src ≠ .error .fuel := by
  intro h
  unfold parseText at h
  split at h
  · cases h
  · rename_i e he
    cases h
    exact (parseStory_ok O src).nf he

/-- **C11 for the parser model**: every text yields a story or a deliberate diagnostic (SyntaxError / ValueError) — or,
in the model's own vocabulary, a question about Python syntax that the recorded `ast.parse` table does not answer -/
theorem parseText_total (O : PyOracle) (src : Line) :
    (∃ story, parseText O src = .ok story) ∨ (∃ cls line what, parseText O src = .error (.diag cls line what)) ∨
    (∃ q, parseText O src = .error (.oracleMiss q)) := by
  cases h : parseText O src with
  | ok j => exact Or.inl ⟨j, rfl⟩
  | error e =>
    cases e with
    | diag c l w => exact Or.inr (Or.inl ⟨c, l, w, rfl⟩)
    | internal w => exact absurd h (parseText_no_internal O src w)
    | fuel => exact absurd h (parseText_no_fuel O src)
    | oracleMiss q => exact Or.inr (Or.inr ⟨q, rfl⟩)

end Bardic.Parser
