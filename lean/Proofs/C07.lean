import Proofs.C03
/-!
# C07 — parameters bind like Python calls, are local, never leak or linger
-/
namespace Bardic
variable {S : Sem}

/-! ## the parameter scope ends when navigation completes **or fails** -/

/-- `goto` leaves the scope stack exactly as it found it, whether it returns or raises -/
theorem goto_scopes_balanced (c : ECfg S) (fuel : Nat) (spec : String) (l : Live S.V) :
    (goto c fuel spec l).1.scopes = l.scopes := (goto_frame c fuel spec l).scopes

theorem runHooks_frame (c : ECfg S) : ∀ (ps acc : List String) (l : Live S.V),
    SameFrame (runHooks c ps acc l).1 l := by
  intro ps
  induction ps with
  | nil => intros; exact .refl _
  | cons p ps ih =>
    intro acc l
    unfold runHooks
    split
    · exact ih _ _
    · have fe := executePassage_frame c p { l with log := Ev.hookRun p :: l.log }
      have f0 : SameFrame ({ l with log := Ev.hookRun p :: l.log } : Live S.V) l := ⟨rfl, rfl⟩
      split
      · rename_i l1 e he
        exact (SameFrame.of_eq_fst he fe).trans f0
      · rename_i l1 _ he
        have f1 := (SameFrame.of_eq_fst he fe).trans f0
        have fp := renderPassage_frame c p l1
        split
        · rename_i l2 e hp
          exact (SameFrame.of_eq_fst hp fp).trans f1
        · rename_i l2 o hp
          exact (ih _ _).trans ((SameFrame.of_eq_fst hp fp).trans f1)

theorem triggerEvent_frame (c : ECfg S) (ev : String) (l : Live S.V) :
    SameFrame (triggerEvent c ev l).1 l := by
  unfold triggerEvent
  split
  · exact .refl _
  · exact runHooks_frame c _ _ _

theorem withHookText_frame (l : Live S.V) (r : Output S.V) (h : String) :
    SameFrame (withHookText l r h).1 l := by
  unfold withHookText; split <;> exact ⟨rfl, rfl⟩

theorem renderFromJoinMarker_frame (c : ECfg S) (idx : Nat) (l : Live S.V) :
    SameFrame (renderFromJoinMarker c idx l).1 l := by
  unfold renderFromJoinMarker
  dsimp only
  repeat' split
  all_goals exact ⟨rfl, rfl⟩

theorem joinChoice_frame (c : ECfg S) (ch : OChoice) (l : Live S.V) :
    SameFrame (joinChoice c ch l).1 l := by
  unfold joinChoice
  dsimp only
  split
  · exact ⟨rfl, rfl⟩
  · rename_i rs1 b _
    have f0 : SameFrame (l.withRS rs1) l := ⟨rfl, rfl⟩
    split
    · rename_i l2 e hj
      exact (SameFrame.of_eq_fst hj (renderFromJoinMarker_frame c _ _)).trans f0
    · rename_i l2 post hj
      have f2 := (SameFrame.of_eq_fst hj (renderFromJoinMarker_frame c _ _)).trans f0
      split
      · rename_i l5 e ht
        have := SameFrame.of_eq_fst ht (triggerEvent_frame c _ _)
        exact ⟨this.scopes.trans f2.scopes, this.used.trans f2.used⟩
      · rename_i l5 h ht
        have h5 := SameFrame.of_eq_fst ht (triggerEvent_frame c _ _)
        exact ⟨(withHookText_frame l5 _ h).scopes.trans (h5.scopes.trans f2.scopes),
          (withHookText_frame l5 _ h).used.trans (h5.used.trans f2.used)⟩

theorem restore_scopes (c : ECfg S) (s : Snap S.V) (l : Live S.V) :
    (restore c s l).1.scopes = l.scopes := by
  unfold restore
  dsimp only
  cases c.variant <;> dsimp only <;> split
  all_goals first
    | rfl
    | (split <;> rename_i hp <;> exact (SameFrame.of_eq_fst hp (renderPassage_frame c _ _)).scopes)

/-- **every API call leaves the scope stack as it found it**, successful or not -/
theorem step_scopes (c : ECfg S) (e : Eng S.V) (op : Op S.V) :
    (step c e op).1.live.scopes = e.live.scopes := by
  cases op with
  | choose i =>
    simp only [step]
    unfold Eng.doChoose
    split
    · rfl
    · split
      · rfl
      · dsimp only
        have hk : ∀ (b : Bool) (u : List String),
            (if b then ({ e.live with used := u } : Live S.V) else e.live).scopes = e.live.scopes := by
          intro b u; cases b <;> rfl
        split
        · split <;> rename_i hj <;>
            exact ((SameFrame.of_eq_fst hj (joinChoice_frame c _ _)).scopes).trans (hk _ _)
        · split
          · rename_i l2 ex hg
            exact ((SameFrame.of_eq_fst hg (goto_frame c _ _ _)).scopes).trans (hk _ _)
          · rename_i l2 r hg
            have f2 := ((SameFrame.of_eq_fst hg (goto_frame c _ _ _)).scopes).trans (hk _ _)
            split
            · exact f2
            · split
              · rename_i l3 ex ht
                exact ((SameFrame.of_eq_fst ht (triggerEvent_frame c _ _)).scopes).trans f2
              · rename_i l3 h ht
                have f3 := ((SameFrame.of_eq_fst ht (triggerEvent_frame c _ _)).scopes).trans f2
                exact ((withHookText_frame l3 r h).scopes).trans f3
  | undo =>
    simp only [step]
    unfold Eng.doUndo
    split
    · rfl
    · dsimp only
      have := restore_scopes c ‹_› e.live
      split <;> rename_i hr <;> (rw [hr] at this; exact this)
  | redo =>
    simp only [step]
    unfold Eng.doRedo
    split
    · rfl
    · dsimp only
      have := restore_scopes c ‹_› e.live
      split <;> rename_i hr <;> (rw [hr] at this; exact this)
  | goto spec =>
    simp only [step]
    split <;> rename_i hg <;> exact (SameFrame.of_eq_fst hg (goto_frame c _ _ _)).scopes
  | load a =>
    simp only [step]
    unfold Eng.doLoad
    split
    · rfl
    · rfl
    · dsimp only
      split
      · rfl
      · cases c.variant <;> dsimp only <;>
          (split <;> rename_i hg <;> exact (SameFrame.of_eq_fst hg (goto_frame c _ _ _)).scopes)
  | resetOneTime => rfl
  | save => rfl
  | current => rfl
  | hasChoices => rfl
  | isEnd => rfl
  | choiceTexts => rfl
  | choiceTargets => rfl
  | storyInfo => rfl
  | saveMeta => rfl
  | canUndo => rfl
  | canRedo => rfl

/-- in every reachable state no parameter scope is left over -/
theorem reachable_no_scope (c : ECfg S) (e0 : Eng S.V) (h0 : Eng.init c = .ok e0) (ops : List (Op S.V)) :
    (run c e0 ops).1.live.scopes = [] := by
  have h00 : e0.live.scopes = [] := by
    unfold Eng.init at h0
    split at h0
    · cases h0
    · split at h0
      · cases h0
      · split at h0
        · rename_i l o hg
          cases h0
          exact (SameFrame.of_eq_fst hg (goto_frame c _ _ _)).scopes
        · cases h0
  have : ∀ (ops : List (Op S.V)) (e : Eng S.V), (run c e ops).1.live.scopes = e.live.scopes := by
    intro ops
    induction ops with
    | nil => intro e; rfl
    | cons op ops ih =>
      intro e
      simp only [run]
      exact (ih _).trans (step_scopes c e op)
  rw [this ops e0, h00]

/-! ## parameters never appear in or alter the global variables -/

/-- write-back after a `~` statement never creates or changes a variable named like a parameter of
the current scope, nor one whose name starts with an underscore (`_state`, `_local`, …) -/
theorem writeBack_skips {V} (cx : Env V) (sk : List String) (ctx' vars : Env V) (k : String)
    (hk : sk.contains k = true ∨ startsUnderscore k = true) :
    Env.get? (writeBack cx sk vars ctx') k = Env.get? vars k := by
  unfold writeBack
  induction ctx' generalizing vars with
  | nil => rfl
  | cons kv rest ih =>
    simp only [List.foldl_cons]
    split
    · exact ih vars
    · rename_i hc
      rw [ih]
      apply Env.get?_set_ne
      intro heq
      subst heq
      simp only [Bool.or_eq_true, not_or, Bool.not_eq_true] at hc
      rcases hk with h | h
      · rw [hc.2] at h; cases h
      · rw [hc.1.1] at h; cases h

end Bardic
