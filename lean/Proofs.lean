import Proofs.Lemmas.Frame
import Proofs.Lemmas.Cache
import Proofs.Lemmas.OutKept
import Proofs.C04
import Proofs.Lemmas.WF
import Proofs.C03
import Proofs.Extracted
