"""C01 (compile half): the real compiler's output for the printed form of a generated source AST must be exactly
`Src.compileStory` of that AST (Lean).  compile_file + json.load must equal compile_string."""
import copy
import json
import os
import shutil
import tempfile

from common import rng_for, run_driver, chash, quiet
import corr_play
import gen_story
import framework

FEATURES = dict(comments=0.3, faults=0.05, stmt_faults=0.0, py_blocks=0.4, join=0.5, hooks=0.4, params=0.4, render=0.5, inputs=0.4,
                glue=0.25, tags=0.3, inline_cond=0.6, block_choices=0.6, loops=0.6, conds=0.8, block_jumps=0.4, top_jumps=0.3)


def annotate(items):
    """mark the lines that carry a trailing comment in the printed form (default style: never on glued lines)"""
    for it in items:
        k = it["k"]
        if k == "line":
            it["cmt"] = bool(it.get("comment")) and not it["glue"]
        elif k == "if":
            for _, body in it["branches"]:
                annotate(body)
        elif k == "for":
            annotate(it["body"])
        elif k == "choice":
            for b in it.get("block") or []:
                if b["k"] == "line":
                    b["cmt"] = False     # the printer writes no comments inside the block of a choice
    return items


def glue_safe_ast(ast):
    """drop the glue flag where the compiler ignores it (recorded finding C01-F1), so that generated sources stay
    inside the fragment the compile model is stated for"""
    def fix_branch(body):
        for i, it in enumerate(body):
            if it["k"] == "line" and it["glue"] and not all(x["k"] in ("line", "blank", "comment") for x in body[i + 1:]):
                it["glue"] = False
        fix(body)
    def fix(items):
        for it in items:
            if it["k"] == "if":
                for _, body in it["branches"]:
                    fix_branch(body)
            elif it["k"] == "for":
                fix(it["body"])
            elif it["k"] == "choice":
                for b in it.get("block") or []:
                    if b["k"] == "line":
                        b["glue"] = False
    for p in ast["passages"]:
        fix(p["items"])
    return ast


def _chunk(arg):
    seed, idxs, features, label = arg
    cases, meta = [], []
    out = {"cases": 0, "compile_errors": 0, "same": 0, "fails": [], "disagreements": [], "hashes": [], "samples": [], "file_checked": 0}
    d = tempfile.mkdtemp(prefix="verif_c01_")
    try:
        for idx in idxs:
            r = rng_for(seed, "compile", label, idx)
            ast = glue_safe_ast(gen_story.generate(r.randrange(1 << 30), dict(features)))
            for p in ast["passages"]:
                annotate(p["items"])
            # comments also on directive lines, at any depth (they are invisible: the AST sent to the model has none)
            src = gen_story.print_story(ast, {"also": {"hook", "jump", "join", "endif", "py", "endpy", "render", "input", "ifhead", "forhead", "choice"},
                                              "rng": rng_for(seed, "compile-cmt", label, idx)})
            try:
                with quiet():
                    story = corr_play.compile_source(src)
            except Exception as e:  # noqa
                out["compile_errors"] += 1
                continue
            out["cases"] += 1
            if idx % 4 == 0:       # compiling to a JSON file and loading it gives the same story
                from bardic.compiler.compiler import BardCompiler
                pth = os.path.join(d, "s.bard")
                open(pth, "w", encoding="utf-8").write(src)
                with quiet():
                    o = BardCompiler().compile_file(pth, os.path.join(d, "s.json"))
                out["file_checked"] += 1
                if json.load(open(o, encoding="utf-8")) != json.loads(json.dumps(story)):
                    out["fails"].append({"cls": None, "family": label, "what": "compile_file + json.load differs from compile_string", "source": src})
            # the printer separates passages by one empty line: it belongs to the passage before it
            sent = [dict(p, items=p["items"] + ([] if p.get("compact") else [{"k": "blank"}])) for p in ast["passages"]]
            cases.append({"kind": "compile", "id": idx, "ast": {"passages": sent}, "story": story})
            meta.append((idx, src))
            out["hashes"].append(chash(src))
            if not out["samples"]:
                out["samples"].append({"source": src[:1200]})
        outs = run_driver(cases) if cases else []
        for (idx, src), c, m in zip(meta, cases, outs):
            same = m.get("verdict") == "same"
            if same:
                out["same"] += 1
                if not m.get("glue_safe", True):
                    out["disagreements"].append({"family": label, "detail": "generator produced a source outside the glue-safe fragment", "source": src})
            else:
                out["disagreements"].append({"family": label, "detail": {k: m.get(k) for k in ("verdict", "passage", "model", "real", "initial", "extra", "detail")}, "source": src})
            if not same or idx % 8 == 0:
                # the real engine plays the story the real compiler produced and the story the model says it should
                # produce (whose rendering is the reference meaning, Proofs/C01): any difference is a change of meaning
                out["played"] = out.get("played", 0) + 1
                f = play_both(seed, idx, src, c["ast"], c["story"])
                if f:
                    out["fails"].append(f)
    finally:
        shutil.rmtree(d, ignore_errors=True)
    return out


def play_both(seed, idx, src, ast, real_story, n_walks=3, n_ops=14):
    import real_play
    ms = run_driver([{"kind": "compile_out", "id": idx, "ast": ast}])[0]["story"]
    for w in range(n_walks):
        r = rng_for(seed, "compile-walk", idx, w)
        ops, real = corr_play.walk(r, copy.deepcopy(real_story), n_ops, "main",
                                   dict(choose=80, undo=4, redo=2, goto=4, read=4, bad=2, save=2, load=1, fresh=1, loadbad=0))
        if real.get("status") == "unmodelled":
            continue
        other = real_play.play(copy.deepcopy(ms), ops)
        if other != real:
            k = next((i for i, (a, b) in enumerate(zip(real.get("steps", []), other.get("steps", []))) if a != b), None)
            return {"cls": None, "family": "compile-play", "source": src, "ops": ops, "step": k,
                    "what": "the compiled story does not play with the reference meaning of its source: the real engine's observations on the "
                            "real compiler's output differ from those on the reference compilation of the same source"
                            + (f" at call {k}: {json.dumps(real['steps'][k])[:300]} vs {json.dumps(other['steps'][k])[:300]}" if k is not None else
                               f" ({real.get('status')} / {other.get('status')}; initial {json.dumps(real.get('init'))[:200]} vs {json.dumps(other.get('init'))[:200]})")}
    return None


def _unused():
    try:
        pass
    finally:
        shutil.rmtree(d, ignore_errors=True)
    return out


def compile_family(rep, n, nproc=16, features=None, label="c01-compile"):
    """features: generator features (default: the C01 mix); label: family name in the evidence"""
    features = dict(FEATURES, colon_conds=0.4, **(features or {}))
    chunk = max(1, n // (nproc * 2))
    idxs = list(range(n))
    outs = framework.pmap(_chunk, [(rep.seed, idxs[i:i + chunk], features, label) for i in range(0, n, chunk)], nproc)
    tot = {"cases": 0, "compile_errors": 0, "same": 0, "file_checked": 0}
    hashes = set()
    for o in outs:
        for k in tot:
            tot[k] += o[k]
        rep.violations.extend(o["fails"])
        rep.disagreements.extend(o["disagreements"])
        hashes.update(o["hashes"])
        if len(rep.samples) < 2:
            rep.samples.extend(o["samples"][:1])
    if tot["compile_errors"] > 0.1 * max(1, n):
        rep.infra_errors.append(f"{label}: {tot['compile_errors']} of {n} generated sources do not compile")
    cov = rep.coverage
    cov["evaluations"] = cov.get("evaluations", 0) + tot["cases"]
    cov["programs"] = cov.get("programs", 0) + tot["cases"]
    cov["traces_validated_against_impl"] = cov.get("traces_validated_against_impl", 0) + tot["same"]
    cov["distinct_nontrivial"] = cov.get("distinct_nontrivial", 0) + len(hashes)
    cov.setdefault("families", {})[label] = tot
    return tot
