"""C11: the compiler is total.  Search on the REAL compiler:

 * line sequences over the directive vocabulary (valid and broken forms of every kind of line, at
   several indentations), sampled (quick) or exhaustive up to a short length (thorough);
 * token-level mutations of every .bard file of the repository;
 * nesting probes (blocks and inline conditionals nested to a given depth);
 * files with @include lines (missing file, cycle) through compile_file.

Each compilation runs under a per-call timer.  The outcome must be a story (a dict that json can dump)
or a *deliberate* diagnostic: SyntaxError / ValueError (FileNotFoundError for a missing include) raised
by a `raise` statement of the bardic package with a non-empty message.  A SyntaxError / ValueError that
escapes from a library call (int(), tuple unpacking, ast.parse, re) is an internal error in disguise.
"""
import ast
import glob
import json
import os
import random
import shutil
import sys
import tempfile
import traceback

from common import REPO, rng_for, chash, quiet, time_limit, Timeout
import framework

IND = ["", "", "", "  ", "    ", "\t"]

VOCAB = [
    # headers
    ":: A", ":: B", ":: A(x)", ":: A(x=1, y=2)", ":: A(x=1, y)", ":: A ^t", "::A", ":: ", "::", ":: 9a", ":: A-b", ":: A b",
    ":: .a", ":: Caf\u00e9", ":: A(", ":: A(x=)", ":: A(x,,y)", ":: A(1x)", ":: A(*a)", ":: A(x=[1,2)", ":: A(x=(1,2))",
    ":: A() ^t ^u", ":: A // c (z)", ":: A(x) // c", ":: A ^", ":: A(x, x)", ":: A(x=1)(y)", ":: @join", ":: A.b.c", ":: _",
    # text
    "hello", "{x}", "{x", "x}", "{x:>5}", "{x:}", "{:}", "{x ? a | b}", "{x ? a", "{x ? {y ? a | b} | c}", "{}", "{{x}}", "{x}}",
    "a<>", "<>", "^tag", "text ^t:1", "a \\// b", "// c", "a // c", "{x ? | }", "{?}", "{x ? a | b | c}", "{'}'}", "{\"{\"}",
    "{x[1:2]}", "{d['a']:>{w}}", "{x!r}", "a | b", "a ? b", "{x ? {y} | {z:>3}}", "{x ? a {y ? b", "}{", "{ }", "{x:>5:<3}",
    # statements
    "~ x = 1", "~ x = [", "~", "~ ", "~x = 1", "~ x =", "~ x = (1,", "]]", "~ items = [", "1,", "]", "~ d = {", "}", "~ x = 1 // c",
    "~ x = [1, 2]]", "~ x = (", ")", "~ def f(:", "~ x = '", "~ x = \"\"\"", "~ x = {'a': [1, (2, 3)]}", "~ x = [}", "  2]", "~ x = [ # c",
    ")]}", "~ if x:", "~ x = [1,\\", "~ return", "~ x //= 2",
    # python blocks
    "@py:", "@py", "@endpy", "<<py", ">>", "x = 1", "  y = 2", "@py: x", "@endpy:", "<<py>>", "<<py x = 1 >>", "def f(:", "@py :",
    # conditionals
    "@if x:", "@if x", "@if", "@if :", "@if:", "@elif y:", "@elif", "@elif y", "@else:", "@else", "@else x:", "@endif", "@endif:", "<<if x>>",
    "<<if x", "<<elif y>>", "<<elif y", "<<else>>", "<<else", "<<endif>>", "<<endif", "<<if>>", "<<if >>", "@if x: text", "@if (x:", "@if x == [:",
    # loops
    "@for i in xs:", "@for i in", "@for i xs:", "@for in xs:", "@for i, j in d:", "@endfor", "@endfor:", "<<for i in xs>>", "<<for i in xs",
    "<<endfor>>", "@for:", "@for", "@for i in xs", "@for i in :", "@for 1 in xs:", "@for i,  in xs:", "<<for>>", "<<for i>>", "@for (a, b) in xs:",
    # choices
    "+ [a] -> B", "* [a] -> B", "+ [a] -> B(1)", "+ [a] -> B(", "+ [a] ->", "+ [a]", "+ [a -> B", "+ a] -> B", "+ {c} [a] -> B",
    "+ {c [a] -> B", "+ {c}} [a] -> B", "+ {'}'} [a] -> B", "+ [a {x}] -> B", "+ [a] -> @join", "+ [a] -> B ^t", "+ [] -> B", "+", "+ [",
    "+ {", "+ {} [a] -> B", "* {c} [a] -> B(x=1, 2)", "+ [a] -> B(x=)", "+ [a] -> B C", "+ [a]] -> B", "+ [[a] -> B", "+ [a] -> -> B",
    "+ [a {x ? y | z}] -> B", "+ [a] -> B(1, x=[1, 2)", "+[a] -> B", "+ [a]->B", "+ {c}[a] -> B", "+ [a] -> 9", "+ [a] -> @join(1)", "* [",
    "+ {c} {d} [a] -> B", "+ [a] -> B() ^", "+ [a {x] -> B", "+ [a] -> B(\"(\")",
    # jumps
    "-> B", "->", "-> B(1)", "-> B(", "->B", "-> @join", "-> B C", "-> B(x=)", "-> B)", "-> (", "-> B // c", "->  ",
    # directives
    "@join", "@join x", "@hook e P", "@hook e", "@hook", "@hook e P Q", "@unhook e P", "@unhook", "@render f(x)", "@render", "@render f(",
    "@render:react f(x)", "@render :x", "@render f", "@render f(x=)", "@render: f()", "@render:react", "@render f(x))", "@render 9(x)",
    "@input name=\"n\"", "@input", "@input name=", "@input name=\"n\" label=\"l\"", "@input foo", "@input name=\"", "@input name=n",
    "@input label=\"l\"", "@input name=\"n\" name=\"m\"", "@start B", "@start", "@start  ", "@metadata", "  title: T", "  title", "@include x.bard",
    "+ [a] -> // TODO", "* [a] ->   // later", "+ {c} [a] -> // x", "-> // c", "@hook e // c", "@render // c", "@input // c", "@if // c",
    "@for i in // c", ":: // c", ":: A // (", "~ // c", "@start // c", "~ x = 1\x000", "~ x = '\x00'", "hello\x00{x}", ":: A\x00", "\x0c", "+ [a\x00] -> B",
    "\ufeff:: A", "a\u2028b", "~ x = \"\\", "~ x = 1 \\", "@if x:\r", "+ [a] -> B\r", "{x\r}",
    # argument splats and stars in calls (keyword names that are not text)
    "+ [a] -> A(**o)", "-> A(**o)", "+ [a] -> A(*s)", "+ [a] -> A(1, **o)", "* [a] -> A(x=1, **{'y': 2})", "-> A(*s, **o)", "+ [a] -> A(**o, **p)",
    # long words in headers that do not match (a pattern that backtracks badly shows here)
    "@for abcdefghijklmnopqrstuvwxyz_abcdefghijklmn in xs", "@for a, b, c, d, e, f, g, h, i, j, k, l, m, n, o, p of xs", "<<for abcdefghijklmnopqrstuvwxyz_abcdefghij in xs",
    "@if aaaaaaaaaaaaaaaaaaaaaaaaaaaaaaaaaaaaaaaa bbbbbbbbbbbbbbbbbbbbbbbbbbbbbbbbbbbbbbbb", "<<if aaaaaaaaaaaaaaaaaaaaaaaaaaaaaaaaaaaaaaaaaaaaaa >",
    "+ {aaaaaaaaaaaaaaaaaaaaaaaaaaaaaaaaaaaaaaaaaaaaaaaa [bbbbbbbbbbbbbbbbbbbbbbbbbbbbbbbbbb -> C", "@render:" + "a" * 40, "@render " + "f(" * 30,
    "@input " + "a=\"b " * 25, ":: A(" + "x, " * 30, "{" + "a ? " * 25 + "}", "-> " + "a." * 40 + "(", "~ x = " + "(" * 40, "^" + "a:b" * 30,
    # calls of parameterised passages with too many / too few / doubly supplied arguments
    ":: A(p)", ":: A(p, q=1)", ":: B(x=1)", "-> A(1, 2, 3)", "+ [a] -> A(1, 2, 3)", "-> A(1, p=2)", "+ [a] -> A(q=1)", "-> B(1, 2)", "* [a] -> B(1, x=2)",
    "-> A()", "+ [a] -> A(1, 2, q=3, q=4)", "-> A(\"fine :)\")", "+ [a] -> A(\":(\")", "-> A(')')", "+ [a] -> B(x=\"(\")",
    # a carriage return inside a line (Python's parser takes it for a line end, the compiler's split("\n") does not)
    "~ x \r= 1", "~ y = (\r", "~ z = 1 +\r\r", "~ items \r\r\r= [", "@if a\r:", "{x\r +}",
    # a centre format spec behind an expression that itself holds closed braces; a tag behind it
    "{'{}/{}'.format(1, 2):^9}", "{d.get('k', {}):^6} ^tag", "x {'{}'.format(a):^5} y ^t", "+ [a {'{}'.format(1):^3}] -> A ^c",
    # lines that only look like imports
    "from the hills a wind blows", "  import os", "import x // note", "from x import (", "import os, sys", "from . import y", "import 9",
    # defaults that are strings holding commas and name=value look-alikes
    ":: H(text=\"stock=3, price=5\")", ":: H(a, b=\"x, y=1\")", ":: H(t='a, b')", "-> H", "+ [a] -> H(\"x\")", "-> H(1)",
    # attribute named like the token's own field; comments around @metadata; old markers after @join
    "@input name=\"n\" type=\"password\"", "@input type=\"x\"", "@metadata # c", "@metadata  # about", "  # c", "  author: A # c", "# title: no",
    "@include", "@foo", "@", "@@", "import os", "from x import y", "from", "import", "# c", "", "   ", "\t", "#", "@endjoin", "@if x: // c", "@prefix a",
]


def _raise_lines(path, cache={}):
    """line numbers covered by `raise` statements of a source file"""
    if path not in cache:
        covered = set()
        try:
            tree = ast.parse(open(path).read())
            for n in ast.walk(tree):
                if isinstance(n, ast.Raise):
                    covered.update(range(n.lineno, (n.end_lineno or n.lineno) + 1))
        except Exception:  # noqa
            pass
        cache[path] = covered
    return cache[path]


def classify(exc, tb, allow_fnf=False):
    """'diag' for a deliberate diagnostic, otherwise a description of the internal error"""
    name = type(exc).__name__
    frames = traceback.extract_tb(tb)
    inner = frames[-1] if frames else None
    where = f"{os.path.relpath(inner.filename, REPO)}:{inner.lineno}" if inner else "?"
    ok_types = (SyntaxError, ValueError) + ((FileNotFoundError,) if allow_fnf else ())
    if type(exc) not in ok_types:
        return f"{name} escaped at {where}: {str(exc)[:120]}"
    if inner is None or not os.path.abspath(inner.filename).startswith(os.path.join(os.path.abspath(REPO), "bardic")):
        return f"{name} raised outside the compiler (library call) reached the caller, innermost frame {where}: {str(exc)[:120]}"
    if inner.lineno not in _raise_lines(inner.filename):
        return f"{name} produced by an operation, not a raise statement, at {where}: {str(exc)[:120]}"
    if not str(exc).strip():
        return f"{name} with an empty message at {where}"
    return "diag"


def compile_text(text, limit=5.0, via_file=False):
    """returns (outcome, detail): outcome in story / diag / internal / hang.
    via_file: through compile_file (which also writes the JSON file) in a private temp directory"""
    from bardic.compiler.compiler import BardCompiler
    # (slow is not the same as hanging: a text that needs 13 s on an idle machine needs far more while 16 workers are busy)
    for attempt_limit in (limit, limit * 8, limit * 48):
        d = tempfile.mkdtemp(prefix="verif_c11_") if via_file else None
        try:
            with quiet(), time_limit(attempt_limit):
                if via_file:
                    src = os.path.join(d, "story.bard")
                    with open(src, "w", encoding="utf-8") as f:
                        f.write(text)
                    out = BardCompiler().compile_file(src, os.path.join(d, "story.json"))
                    story = json.load(open(out, encoding="utf-8"))
                else:
                    story = BardCompiler().compile_string(text)
            if not isinstance(story, dict) or "passages" not in story:
                return "internal", "the compiler returned something that is not a story"
            return "story", None
        except Timeout:
            continue            # once more with a generous limit before calling it a hang
        except RecursionError as e:
            return "internal", f"RecursionError escaped: {str(e)[:80]}"
        except BaseException as e:  # noqa
            if isinstance(e, KeyboardInterrupt):
                raise
            c = classify(e, e.__traceback__, allow_fnf=via_file)
            # (whatever the operating system says about an include target - missing, a directory, a name too long, unreadable -
            # arrives as FileNotFoundError; another OSError is an escaped internal error)
            return ("diag", type(e).__name__) if c == "diag" else ("internal", c)
        finally:
            if d:
                shutil.rmtree(d, ignore_errors=True)
    return "hang", f"no answer within {limit * 48:.0f} s"


def gen_sequence(r, max_len):
    n = r.randint(1, max_len)
    lines = []
    if r.random() < 0.8:
        lines.append(r.choice([":: Start", ":: A", ":: A(x=1)"]))
    for _ in range(n):
        v = r.choice(VOCAB)
        if r.random() < 0.12 and "//" not in v:
            v += r.choice([" // note", " // (x)", "// c", " // ^t", " //"])
        lines.append(r.choice(IND) + v)
        if r.random() < 0.25:         # a plausible continuation so that blocks get bodies and closers
            lines.append(r.choice(IND) + r.choice(["hello {x}", "+ [a] -> A", "~ x = 1", "@endif", "@endfor", "@endpy", "]", "-> A", "@else:", ">>"]))
    if r.random() < 0.3:
        lines.append(":: B")
        lines.append(r.choice(VOCAB))
    return "\n".join(lines) + r.choice(["", "\n", "\n\n"])


SPECIAL = list("{}[]()<>:@+*~^\"'\\/#|?=,.- \t") + ["\n", "//", "<<", ">>", "->", "::", "{{", "}}", "<>", "\u00e9", "\x00", "\r", "\x0c",
                                                     "\ufeff", "\u2028", " // c", "\\"]


def mutate(r, text):
    lines = text.split("\n")
    for _ in range(r.randint(1, 4)):
        k = r.randint(0, 10)
        if not lines:
            lines = [""]
        i = r.randrange(len(lines))
        if k == 0:
            del lines[i]
        elif k == 1:
            lines.insert(i, lines[i])
        elif k == 2:
            j = r.randrange(len(lines))
            lines[i], lines[j] = lines[j], lines[i]
        elif k == 3:
            lines[i] = lines[i][:r.randint(0, len(lines[i]))]
        elif k == 4:
            lines.insert(i, r.choice(IND) + r.choice(VOCAB))
        elif k == 5 and lines[i]:
            p = r.randrange(len(lines[i]))
            lines[i] = lines[i][:p] + lines[i][p + 1:]
        elif k == 6:
            p = r.randint(0, len(lines[i]))
            lines[i] = lines[i][:p] + r.choice(SPECIAL) + lines[i][p:]
        elif k == 7:
            lines = lines[:r.randint(0, len(lines))]
        elif k == 8:
            lines[i] = lines[i].lstrip()
        elif k == 9:
            lines[i] = r.choice(IND) + lines[i]
        else:
            lines[i] = lines[i][r.randint(0, len(lines[i])):]
    return "\n".join(lines)


def repo_stories():
    out = []
    for p in sorted(glob.glob(os.path.join(REPO, "**", "*.bard"), recursive=True)):
        if "/.git/" in p or "/node_modules/" in p:
            continue
        try:
            out.append((os.path.relpath(p, REPO), open(p, encoding="utf-8").read()))
        except Exception:  # noqa
            pass
    return out


def nesting_probes(depths):
    out = []
    for d in depths:
        out.append((f"@if nested {d}", ":: Start\n" + "".join("  " * k + "@if True:\n" for k in range(d)) + "  " * d + "x\n" + "".join("  " * k + "@endif\n" for k in reversed(range(d)))))
        out.append((f"@for nested {d}", ":: Start\n" + "".join("  " * k + f"@for i{k} in [1]:\n" for k in range(d)) + "  " * d + "x\n" + "".join("  " * k + "@endfor\n" for k in reversed(range(d)))))
        out.append((f"inline conditional nested {d}", ":: Start\n" + "{a ? " * d + "x" + " | y}" * d + "\n"))
        out.append((f"braces nested {d}", ":: Start\n" + "{" * d + "x" + "}" * d + "\n"))
        out.append((f"brackets nested {d}", ":: Start\n~ x = " + "[" * d + "]" * d + "\n"))
        out.append((f"unclosed @if nested {d}", ":: Start\n" + "@if True:\n" * d))
        out.append((f"choice condition braces {d}", ":: Start\n+ {" + "{" * d + "} [a] -> Start\n"))
        out.append((f"passage params nested {d}", ":: Start(x=" + "(" * d + ")" * d + ")\nhi\n"))
        out.append((f"unary chain {d * 40}", ":: Start\n~ x = " + "-" * (d * 40) + "1\n"))
        out.append((f"not chain {d * 10}", ":: Start\n~ x = " + "not " * (d * 10) + "1\n"))
        out.append((f"binary chain {d * 20}", ":: Start\n~ x = " + "1+" * (d * 20) + "1\n"))
        out.append((f"lambda chain {d * 3}", ":: Start\n@if " + "lambda: " * (d * 3) + "1:\n  x\n@endif\n~ y = " + "lambda: " * (d * 3) + "1\n"))
        out.append((f"call argument lambda chain {d * 5}", ":: Start\n+ [a] -> T(" + "lambda: " * (d * 5) + "1)\n-> T(" + "-" * (d * 40) + "1)\n\n:: T(x)\nhi\n"))
        out.append((f"expression unary chain {d * 40}", ":: Start\n{" + "-" * (d * 40) + "1}\n+ {" + "not " * (d * 10) + "1} [a] -> Start\n"))
    return out


def _chunk(arg):
    kind, seed, idxs, extra = arg
    out = {"n": 0, "outcomes": {}, "fails": [], "hashes": [], "diag_kinds": {}}
    stories = repo_stories() if kind == "mut" else None
    for idx in idxs:
        r = rng_for(seed, "total", kind, idx)
        if kind == "seq":
            text, label = gen_sequence(r, extra), "vocabulary sequence"
        elif kind == "mut":
            name, base = stories[idx % len(stories)]
            text, label = mutate(r, base), f"mutation of {name}"
        else:
            label, text = extra[idx]
        via_file = kind == "probe" and idx % 2 == 1 or kind != "probe" and r.random() < 0.15
        oc, detail = compile_text(text, via_file=via_file)
        if via_file:
            label += " (through compile_file)"
        out["n"] += 1
        out["outcomes"][oc] = out["outcomes"].get(oc, 0) + 1
        if oc == "diag":
            out["diag_kinds"][detail] = out["diag_kinds"].get(detail, 0) + 1
        out["hashes"].append(chash(text))
        if oc in ("internal", "hang"):
            out["fails"].append({"cls": None, "family": "c11-" + kind, "what": f"{label}: {detail}", "source": text, "label": label, "via_file": via_file})
    return out


def minimise(text, via_file=False):
    """greedy line-level reduction keeping the same kind of failure"""
    if text.count("\n") > 400:
        return text
    oc0, d0 = compile_text(text, via_file=via_file)
    if oc0 not in ("internal", "hang"):
        return text
    key = (d0 or "").split(":")[0]
    def bad(t):
        oc, d = compile_text(t, limit=2.0, via_file=via_file)
        return oc == oc0 and (d or "").split(":")[0] == key
    lines = text.split("\n")
    changed = True
    while changed and len(lines) > 1:
        changed = False
        for i in range(len(lines)):
            cand = lines[:i] + lines[i + 1:]
            if bad("\n".join(cand)):
                lines, changed = cand, True
                break
    return "\n".join(lines)


FIXED_TEXTS = [
    # blocks under a '-> @join' choice holding malformed or multi-line lines
    ":: A\n+ [a] -> @join\n    @hook turn_end\n    @unhook\n    @hook a b c\n    @unhook x\n@join\nafter\n",
    ":: A\n+ [a] -> @join\n    ~ x = [\n    1,\n    2]\n    @hook\n* [b] -> @join\n    ~ y = (\n@join\n",
    ":: A\n+ [a] -> @join\n\t@hook e\n\t~\n\t~ \n\t@unhook e P Q\n@join\n+ [b] -> @join\n    @hook e P\n    @render\n    @input\n",
    ":: A(p)\nx\n+ [a] -> A(1, 2)\n", ":: A(p, q=1)\nx\n-> A(1, 2, 3)\n", ":: A(p)\nx\n+ [a] -> A(1, p=2)\n",
]


def fixed_texts(rep):
    """texts that random sequences reach rarely (indented blocks under a join choice with malformed lines inside)"""
    n = 0
    for t in FIXED_TEXTS:
        for via_file in (False, True):
            n += 1
            oc, d = compile_text(t, limit=5.0, via_file=via_file)
            if oc not in ("story", "diag"):
                rep.violations.append({"cls": None, "family": "c11-fixed", "what": f"{'compile_file' if via_file else 'compile_string'}: {oc}: {d}", "source": t})
    rep.coverage.setdefault("families", {})["c11-fixed"] = {"cases": n}
    rep.coverage["evaluations"] = rep.coverage.get("evaluations", 0) + n


def include_cases(rep):
    """@include through compile_file: missing file, cycle, include of a broken file"""
    from bardic.compiler.compiler import BardCompiler
    d = tempfile.mkdtemp(prefix="verif_c11_")
    n = 0
    try:
        files = {"missing.bard": "@include nope.bard\n:: Start\nx\n",
                 "cyc_a.bard": "@include cyc_b.bard\n:: Start\nx\n", "cyc_b.bard": "@include cyc_a.bard\n:: B\ny\n",
                 "self.bard": ":: Start\n@include self.bard\n",
                 "broken_child.bard": ":: Start\n@include child.bard\n", "child.bard": "@if x:\n",
                 "empty_inc.bard": "@include \n:: Start\nx\n", "dir_inc.bard": "@include .\n:: Start\nx\n",
                 "below_file.bard": "@include child.bard/x.bard\n:: Start\nx\n", "updir.bard": "@include ..\n:: Start\nx\n",
                 "longname.bard": "@include " + "x" * 300 + ".bard\n:: Start\nx\n", "longdir.bard": "@include " + "d/" * 3000 + "x.bard\n:: Start\nx\n",
                 "commented.bard": "@include child2.bard // the chapter\n:: Start\nx\n", "child2.bard": ":: C2\ny\n"}
        # a (non-cyclic) chain of includes deeper than the interpreter's recursion limit
        for i in range(1150):
            files[f"deep{i}.bard"] = (f"@include deep{i + 1}.bard\n" if i < 1149 else "") + f":: D{i}\nx\n"
        for k, v in files.items():
            open(os.path.join(d, k), "w").write(v)
        # an include target that is a symlink pointing at itself, and one pointing at a directory
        try:
            os.symlink("selfloop.bard", os.path.join(d, "selfloop.bard"))
            os.symlink(d, os.path.join(d, "dirlink.bard"))
            for k, v in (("inc_selfloop.bard", "@include selfloop.bard\n:: Start\nx\n"), ("inc_dirlink.bard", "@include dirlink.bard\n:: Start\nx\n")):
                files[k] = v
                open(os.path.join(d, k), "w").write(v)
        except OSError:
            pass
        for k in files:
            if k.startswith("deep") and k != "deep0.bard":
                continue
            n += 1
            try:
                with quiet(), time_limit(20):
                    BardCompiler().compile_file(os.path.join(d, k), os.path.join(d, "out.json"))
            except Timeout:
                rep.violations.append({"cls": None, "family": "c11-include", "what": f"compile_file({k}) does not terminate", "files": {a: b for a, b in files.items() if not a.startswith("deep")}})
            except BaseException as e:  # noqa
                c = classify(e, e.__traceback__, allow_fnf=True)
                if c != "diag":
                    rep.violations.append({"cls": None, "family": "c11-include", "what": f"compile_file({k}): {c}", "files": {a: b for a, b in files.items() if not a.startswith("deep")}})
    finally:
        shutil.rmtree(d, ignore_errors=True)
    rep.coverage.setdefault("families", {})["c11-include"] = {"cases": n}
    rep.coverage["evaluations"] = rep.coverage.get("evaluations", 0) + n


def total_family(rep, n_seq, max_len, n_mut, depths, nproc=16):
    probes = [p for p in nesting_probes(depths) for _ in (0, 1)]     # each through compile_string and compile_file
    jobs = []
    for kind, n, extra in (("seq", n_seq, max_len), ("mut", n_mut, None), ("probe", len(probes), probes)):
        chunk = max(1, n // (nproc * 2))
        idxs = list(range(n))
        jobs += [(kind, rep.seed, idxs[i:i + chunk], extra) for i in range(0, n, chunk)]
    outs = framework.pmap(_chunk, jobs, nproc)
    fam = {}
    hashes = set()
    seen_fail = {}
    for (kind, _, _, _), o in zip(jobs, outs):
        f = fam.setdefault("c11-" + kind, {"cases": 0, "outcomes": {}, "diagnostics": {}})
        f["cases"] += o["n"]
        for k, v in o["outcomes"].items():
            f["outcomes"][k] = f["outcomes"].get(k, 0) + v
        for k, v in o["diag_kinds"].items():
            f["diagnostics"][k] = f["diagnostics"].get(k, 0) + v
        hashes.update(o["hashes"])
        for fl in o["fails"]:
            key = fl["what"].split(": ", 1)[-1][:90]
            seen_fail.setdefault(key, []).append(fl)
    for key, fls in seen_fail.items():
        fl = min(fls, key=lambda x: len(x["source"]))
        fl["source"] = minimise(fl["source"], fl.get("via_file", False))
        fl["occurrences"] = len(fls)
        rep.violations.append(fl)
    cov = rep.coverage
    tot = sum(f["cases"] for f in fam.values())
    cov["evaluations"] = cov.get("evaluations", 0) + tot
    cov["programs"] = cov.get("programs", 0) + tot
    cov["distinct_nontrivial"] = cov.get("distinct_nontrivial", 0) + len(hashes)
    cov.setdefault("families", {}).update(fam)
    if rep.samples is not None and len(rep.samples) < 2:
        rep.samples.append({"sequence": gen_sequence(rng_for(rep.seed, "total", "seq", 0), max_len)})
    return fam


# ------------------------------------------------------------------ component correspondence (model vs code)

NAME_ALPHA = list("abXY_09.- ") + ["é", "ß", "ж", "Ω", "東", "ａ", "٣", "²", "!", "(", "^", "'"]
PAREN_ALPHA = list("ab(),= []{}x1^") + ["((", "))", "()", ", ", "=1"]
PARAM_ALPHA = list("abx_1, =()[]{}'") + ["if", "x=1", "y", ", ", "None", "for", " = ", "a.b", "*a"]
CONTENT_ALPHA = list("ab {}{}?|^:_- /") + ["//", "\\//", "{x}", " ? ", " | ", "^t", "^a:b", "}", "{"]
BRACKET_ALPHA = list("[]{}()a, ") + ["[", "]", "]]", "{", "(", "1,", "'"]
PYL = ["@py:", "@endpy", "  @endpy  ", ">>", "  >>", "<<py", "x = 1", "  y = 2", "    z = 3", "", "  ", "\tq = 1", "@py", "@endpy x", "if a:", "      deep"]


def _rand_str(r, alpha, lo, hi):
    return "".join(r.choice(alpha) for _ in range(r.randint(lo, hi)))


def _diag_title(e):
    m = str(e)
    first = m.strip().split("\n")[0]
    return first.replace("✗", "").strip()


def _real_component(fn, case):
    """call the real function; ('ok', canonical value) | ('internal', description)"""
    from bardic.compiler.parsing import content, validation, directives, blocks
    try:
        with quiet(), time_limit(5):
            if fn == "extract_passage_params":
                return "ok", list(content.extract_passage_params(case["s"]))
            if fn == "extract_target_and_args":
                return "ok", list(content.extract_target_and_args(case["s"]))
            if fn == "split_on_commas":
                return "ok", content._split_on_commas(case["s"])
            if fn == "parse_passage_params":
                try:
                    ps = content.parse_passage_params(case["s"], 0, [":: X(" + case["s"] + ")"], None, None)
                    return "ok", [[p["name"], p["default"]] for p in ps]
                except SyntaxError as e:
                    if classify(e, e.__traceback__) != "diag":
                        raise
                    import re
                    m = re.search(r"(?:Required parameter |Parameter )?'(.*)' (?:cannot follow|is not a valid|is a Python keyword|is defined|has '=')", str(e), re.S)
                    return "ok", {"diag": _diag_title(e), "name": m.group(1) if m else None}
            if fn == "validate_passage_name":
                try:
                    validation.validate_passage_name(case["s"], 0, [":: " + case["s"]], None, None)
                    return "ok", None
                except SyntaxError as e:
                    if classify(e, e.__traceback__) != "diag":
                        raise
                    import re
                    m = str(e)
                    if "cannot be empty" in m:
                        d = "empty"
                    elif "Replace spaces" in m:
                        d = "spaces:" + re.search(r'underscores: ":: (.*)"', m, re.S).group(1)
                    elif "Replace hyphens" in m:
                        d = "hyphens:" + re.search(r'underscores: ":: (.*)"', m, re.S).group(1)
                    elif 'must start with a letter or underscore: "' in m:
                        d = "digit:" + re.search(r'underscore: ":: (.*)"', m, re.S).group(1)
                    elif "Invalid character" in m:
                        g = re.search(r"Invalid character '(.*)' at position (\d+)", m, re.S)
                        d = f"char:{g.group(1)}:{g.group(2)}"
                    else:
                        d = "generic"
                    return "ok", {"diag": d}
            if fn == "extract_multiline_expression":
                e, n = directives.extract_multiline_expression(list(case["lines"]), case["start"], case["s"])
                return "ok", [e, n]
            if fn == "py_new":
                try:
                    c, n = blocks._extract_py_new_syntax(list(case["lines"]), case["start"], None, None)
                    return "ok", [c, n]
                except SyntaxError as e:
                    if classify(e, e.__traceback__) != "diag":
                        raise
                    return "ok", {"diag": "missing colon" if "missing colon" in str(e) else "unclosed"}
            if fn == "py_old":
                c, n = blocks._extract_py_old_syntax(list(case["lines"]), case["start"])
                return "ok", [c, n]
            if fn == "parse_tags":
                l, tags = content.parse_tags(case["s"])
                return "ok", [l, tags]
            if fn == "validate_choice_syntax":
                try:
                    validation.validate_choice_syntax(case["s"], 0, [case["s"]])
                    return "ok", None
                except SyntaxError as e:
                    if classify(e, e.__traceback__) != "diag":
                        raise
                    tags_ = ["Missing arrow", "Missing opening bracket", "Missing closing bracket", "Unclosed conditional", "without matching",
                             "appears before", "Missing target", "contains spaces", "Empty choice text"]
                    return "ok", {"diag": next((t for t in tags_ if t in str(e)), "other")}
            if fn == "parse_content_line":
                try:
                    return "ok", content.parse_content_line(case["s"])
                except SyntaxError as e:
                    if classify(e, e.__traceback__) != "diag":
                        raise
                    return "ok", {"diag": "unclosed" if "Unclosed expression" in str(e) else ("unmatched" if "without matching" in str(e) else "other")}
    except Timeout:
        return "internal", "does not terminate"
    except BaseException as e:  # noqa
        if isinstance(e, KeyboardInterrupt):
            raise
        return "internal", f"{type(e).__name__}: {str(e)[:100]}"
    return "internal", "unknown component"


def gen_component_case(r, i):
    fn = ["extract_passage_params", "extract_target_and_args", "split_on_commas", "parse_passage_params", "validate_passage_name",
          "extract_multiline_expression", "py_new", "py_old", "parse_content_line", "parse_content_line", "parse_tags",
          "validate_choice_syntax", "validate_choice_syntax"][i % 13]
    c = {"kind": "pcomp", "id": i, "fn": fn}
    if fn in ("extract_passage_params", "extract_target_and_args"):
        c["s"] = _rand_str(r, PAREN_ALPHA, 0, 10)
    elif fn == "split_on_commas":
        c["s"] = _rand_str(r, PARAM_ALPHA, 0, 10)
    elif fn == "parse_passage_params":
        if r.random() < 0.6:     # mostly well-formed lists, with an occasional flaw
            parts = []
            for _ in range(r.randint(0, 4)):
                nm = r.choice(["a", "b", "item", "count", "_x", "x1", "if", "1x", "a b", ""])
                parts.append(nm + (r.choice(["=1", " = [1, 2]", "=f(a, b)", "= {'k': (1, 2)}", "=", "=a=b"]) if r.random() < 0.4 else ""))
            c["s"] = r.choice([", ", ",", " , "]).join(parts)
        else:
            c["s"] = _rand_str(r, PARAM_ALPHA, 0, 8)
    elif fn == "validate_passage_name":
        c["s"] = _rand_str(r, list("abXY_09."), 1, 6) if r.random() < 0.5 else _rand_str(r, NAME_ALPHA, 0, 6)
    elif fn == "validate_choice_syntax":
        if r.random() < 0.7:
            c["s"] = (r.choice(["+ ", "* ", "+", "  + "]) + r.choice(["", "", "{c} ", "{c ", "{a{b}} ", "} ", "{ x > {1} } "]) +
                      r.choice(["[x]", "[x]", "[go on]", "[ ]", "[]", "[x", "x]", "][", "[a {y}]", "[a] [b]"]) +
                      r.choice([" -> ", " -> ", " -> ", "->", " ->", " -> -> "]) + r.choice(["B", "B", "B(1, 2)", "", "B C", "  ", "// c", "B // c", "@join", "B ^t"]))
        else:
            c["s"] = _rand_str(r, list("ab []{}{}->+* /") + [" -> ", "->", "[x]", "{c}", " // c", "B", "+ ", "* "], 0, 10)
    elif fn in ("parse_content_line", "parse_tags"):
        if r.random() < 0.5:      # mostly well-formed lines
            parts = []
            for _ in range(r.randint(1, 4)):
                k = r.random()
                if k < 0.35:
                    parts.append(r.choice(["Hello ", "you see", " ", ", ", "a | b", "it's", "50%", "what? ", "x^2 "]))
                elif k < 0.6:
                    parts.append("{" + r.choice(["x", "d['k']", "t:^5", "a ^ b", "f(x, {1: 2})", "", " y "]) + "}")
                elif k < 0.8:
                    parts.append("{" + r.choice(["hp > 5", "x", "a ? b"]) + " ? " + r.choice(["Healthy", "HP: {hp}", "{a ? b | c}", "", " ^t "]) +
                                 r.choice([" | ", "|"]) + r.choice(["Wounded {n}", "", "no \\//t", "x // y"]) + "}")
                else:
                    parts.append(r.choice([" ^tag", " ^CLIENT:SPECIAL", "^a-b", " ^a:b-c", "^", "^:x", " // comment", " \\// kept", " //= x"]))
            c["s"] = "".join(parts)
        else:
            c["s"] = _rand_str(r, CONTENT_ALPHA, 0, 12)
    elif fn == "extract_multiline_expression":
        c["lines"] = [_rand_str(r, BRACKET_ALPHA, 0, 6) for _ in range(r.randint(0, 6))]
        c["start"] = r.randint(0, max(0, len(c["lines"])))
        c["s"] = r.choice(["x = [", "x = {", "f(", "x = 1", "", "  [  ", "[[", "[(", "x = [1, 2]", "x = ]["]) if r.random() < 0.8 else _rand_str(r, BRACKET_ALPHA, 0, 6)
    else:
        c["lines"] = [r.choice(PYL) for _ in range(r.randint(1, 7))]
        c["start"] = r.randrange(len(c["lines"]))
        if r.random() < 0.8:
            c["lines"][c["start"]] = "@py:" if fn == "py_new" else "<<py"
            if r.random() < 0.7:
                c["lines"].insert(r.randint(c["start"] + 1, len(c["lines"])), r.choice(["@endpy", "  @endpy"]) if fn == "py_new" else r.choice([">>", "  >>"]))
    return c


def component_family(rep, n):
    from common import run_driver
    r = rng_for(rep.seed, "components")
    cases = [gen_component_case(r, i) for i in range(n)]
    # CPython's answer to "is this default an expression?" for every default a parameter list could contain (the table the
    # model's oracle parameter is answered from)
    import ast as _ast
    from bardic.compiler.parsing import content as _content
    for c in cases:
        if c["fn"] == "parse_passage_params":
            ok, bad = [], []
            try:
                parts = _content._split_on_commas(c["s"])
            except Exception:  # noqa
                parts = []
            for part in parts:
                part = part.strip()
                if "=" in part:
                    d = part[part.index("=") + 1:].strip()
                    try:
                        _ast.parse(d, mode="eval")
                        ok.append(d)
                    except (SyntaxError, ValueError, MemoryError, RecursionError):
                        bad.append(d)
            c["expr_ok"], c["expr_bad"] = ok, bad
    outs = run_driver(cases)
    stats = {}
    agree = 0
    for c, m in zip(cases, outs):
        st = stats.setdefault(c["fn"], {"cases": 0, "diagnostics": 0, "agree": 0})
        st["cases"] += 1
        kind, val = _real_component(c["fn"], c)
        model = m.get("out")
        if isinstance(val, dict) and "diag" in val:
            st["diagnostics"] += 1
        if kind == "internal":
            rep.violations.append({"cls": None, "family": "c11-components", "what": f"{c['fn']} escapes with an internal error on {json.dumps({k: c[k] for k in c if k in ('s', 'lines', 'start')})}: {val}",
                                   "case": c, "model": model})
            continue
        if isinstance(model, dict) and "internal" in model:
            rep.disagreements.append({"family": "c11-components", "detail": "the model reaches an internal error where the code answers", "case": c, "real": val, "model": model})
            continue
        if json.loads(json.dumps(val)) != model:
            rep.disagreements.append({"family": "c11-components", "detail": "different answers", "case": c, "real": val, "model": model})
        else:
            st["agree"] += 1
            agree += 1
    rep.coverage.setdefault("families", {})["c11-components"] = stats
    rep.coverage["evaluations"] = rep.coverage.get("evaluations", 0) + n
    rep.coverage["traces_validated_against_impl"] = rep.coverage.get("traces_validated_against_impl", 0) + agree
