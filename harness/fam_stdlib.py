"""C20: operation sequences over small integer domains on the REAL stdlib classes vs the Lean model,
plus the invariants of the property evaluated directly on the real observations."""
import copy
import json
import re

from common import rng_for, run_driver, chash, quiet
from compare import first_diff
import framework

NAMES = ["Sword", "Potion", "Gem", "Rope"]
RATES = [(1, 2), (1, 1), (0, 1), (3, 2)]
DISCS = [(1, 1), (1, 2), (3, 2), (2, 1), (0, 1)]


def gen_case(seed, idx, n_ops):
    r = rng_for(seed, "stdlib", idx)
    shop_items = [{"name": n, "weight": r.randint(0, 6), "value": r.randint(0, 40)} for n in r.sample(NAMES, r.randint(1, 4))]
    if r.random() < 0.3:
        shop_items.append(dict(r.choice(shop_items), value=r.randint(0, 40)))      # duplicate name: first wins
    case = {"kind": "stdlib", "id": f"s{seed}-std-{idx}", "gold": r.randint(-5, 120), "max_weight": r.randint(0, 15),
            "shop": {"items": shop_items, "rate": list(r.choice(RATES)), "disc": list(r.choice(DISCS))},
            "rel": {"name": "Alex", "trust": r.randint(-20, 130), "comfort": r.randint(-20, 130), "openness": r.randint(-15, 15),
                    "topics": r.sample(["past", "family", "work"], r.randint(0, 2))},
            "ops": []}
    for _ in range(n_ops):
        k = r.random()
        if k < 0.10:
            op = {"o": "spend", "a": r.randint(-5, 60)}
        elif k < 0.17:
            op = {"o": "earn", "a": r.randint(-10, 40)}
        elif k < 0.20:
            op = {"o": "set_gold", "a": r.randint(-10, 80)}
        elif k < 0.23:
            op = {"o": "can_afford", "a": r.randint(-5, 80)}
        elif k < 0.33:
            op = {"o": "add", "item": {"name": r.choice(NAMES), "weight": r.randint(0, 7), "value": r.randint(0, 40)}}
        elif k < 0.39:
            op = {"o": "remove", "n": r.choice(NAMES)}
        elif k < 0.42:
            op = {"o": "remove_all", "n": r.choice(NAMES)}
        elif k < 0.44:
            op = {"o": "clear"}
        elif k < 0.58:
            op = {"o": "buy", "n": r.choice(NAMES)}
        elif k < 0.68:
            op = {"o": "sell", "n": r.choice(NAMES)}
        elif k < 0.72:
            op = {"o": "set_discount", "r": list(r.choice(DISCS))}
        elif k < 0.82:
            op = {"o": "add_trust", "a": r.randint(-50, 60)}
        elif k < 0.86:
            op = {"o": "add_comfort", "a": r.randint(-60, 60)}
        elif k < 0.90:
            op = {"o": "add_openness", "a": r.randint(-8, 8)}
        elif k < 0.92:
            op = {"o": r.choice(["set_trust", "set_comfort"]), "a": r.randint(-30, 140)}
        elif k < 0.93:
            op = {"o": "set_openness", "a": r.randint(-20, 20)}
        elif k < 0.95:
            op = {"o": "discuss", "t": r.choice(["past", "family", "work", "dreams"])}
        elif k < 0.965:
            op = {"o": r.choice(["rel_roundtrip", "wallet_roundtrip", "inv_roundtrip", "inv_roundtrip", "shop_roundtrip"])}
        else:
            n, s = r.randint(0, 4), r.randint(1, 8)
            op = {"o": "roll", "n": n, "sides": s, "mod": r.choice([0, 0, r.randint(-5, 9)]),
                  "outs": [r.randint(1, s) for _ in range(n)], "blanks": r.choice([0, 0, 1, 2, 3])}
        case["ops"].append(op)
    return case


def real_run(case):
    from bardic.stdlib.economy import Wallet, Shop
    from bardic.stdlib.inventory import Inventory
    from bardic.stdlib.relationship import Relationship
    import bardic.stdlib.dice as dice

    events = []

    class Rec(Relationship):
        def on_trust_threshold_60(self):
            events.append(60)

        def on_trust_threshold_80(self):
            events.append(80)

    w = Wallet(case["gold"])
    inv = Inventory(max_weight=case["max_weight"])
    sh = case["shop"]
    shop = Shop(copy.deepcopy(sh["items"]), sell_back_rate=sh["rate"][0] / sh["rate"][1], discount=sh["disc"][0] / sh["disc"][1])
    rj = case["rel"]
    rel = Rec(rj["name"], rj["trust"], rj["comfort"], rj["openness"], set(rj["topics"]))
    box = {"rel": rel}

    def obs(ret):
        r = box["rel"]
        return {"ret": ret, "gold": w.gold, "items": [[i["name"], i.get("weight", 0), i.get("value", 0)] for i in inv.items],
                "shop": [[i["name"], i.get("weight", 0), i.get("value", 0)] for i in shop.items],
                "rel": [r.trust, r.comfort, r.openness, sorted(r.topics_discussed), list(events)]}

    out = {"status": "ok", "init": obs(None), "steps": []}
    for op in case["ops"]:
        o = op["o"]
        a = op.get("a")
        ret = None
        try:
            if o == "spend":
                ret = w.spend(a)
            elif o == "earn":
                w.earn(a)
            elif o == "set_gold":
                w.gold = a
            elif o == "can_afford":
                ret = w.can_afford(a)
            elif o == "add":
                ret = inv.add(dict(op["item"]))
            elif o == "remove":
                ret = inv.remove(op["n"])
            elif o == "remove_all":
                ret = inv.remove_all(op["n"])
            elif o == "clear":
                inv.clear()
            elif o == "buy":
                ret = shop.buy(op["n"], w, inv)
            elif o == "sell":
                ret = shop.sell(op["n"], w, inv)
            elif o == "set_discount":
                shop.set_discount(op["r"][0] / op["r"][1])
            elif o == "add_trust":
                box["rel"].add_trust(a)
            elif o == "add_comfort":
                box["rel"].add_comfort(a)
            elif o == "add_openness":
                box["rel"].add_openness(a)
            elif o == "set_trust":
                box["rel"].trust = a
            elif o == "set_comfort":
                box["rel"].comfort = a
            elif o == "set_openness":
                box["rel"].openness = a
            elif o == "discuss":
                box["rel"].discuss_topic(op["t"])
            elif o == "rel_roundtrip":
                d = json.loads(json.dumps(box["rel"].to_dict()))
                box["rel"] = Rec.from_dict(d)
            elif o == "wallet_roundtrip":
                w2 = Wallet.from_dict(json.loads(json.dumps(w.to_dict())))
                w._gold = w2.gold
            elif o == "inv_roundtrip":
                # the sequence goes on with the rebuilt object
                inv = Inventory.from_dict(json.loads(json.dumps(inv.to_dict())))
            elif o == "shop_roundtrip":
                shop = Shop.from_dict(json.loads(json.dumps(shop.to_dict())))
            elif o == "roll":
                outs = list(op["outs"])
                orig = dice.random.randint
                dice.random.randint = lambda lo, hi: outs.pop(0)
                try:
                    m = op["mod"]
                    b = op.get("blanks", 0)
                    sp = " " if b else ""
                    mod = (f"{sp}{'+' if m > 0 else '-'}{sp if b > 1 else ''}{abs(m)}" if m else "")
                    ret = dice.roll((" " if b == 3 else "") + f"{op['n']}d{op['sides']}" + mod + ("\t" if b == 3 else ""))
                finally:
                    dice.random.randint = orig
        except Exception as e:  # noqa
            ret = {"raise": type(e).__name__, "msg": str(e)[:100]}
        out["steps"].append(obs(ret))
    return out


def invariants(case, real):
    """the property itself on the real observations"""
    fails = []
    prev = real["init"]
    shop0 = real["init"]["shop"]
    price_of = {}
    for i, (op, st) in enumerate(zip(case["ops"], real["steps"])):
        o = op["o"]
        def fail(what):
            fails.append({"cls": None, "step": i, "what": what})
        if isinstance(st["ret"], dict) and "raise" in st["ret"]:
            fail(f"{o} raised {st['ret']['raise']}: {st['ret']['msg']}")
            prev = st
            continue
        if st["gold"] < 0:
            fail("wallet gold went negative")
        if st["shop"] != shop0:
            fail("shop stock was mutated")
        w = sum(x[1] for x in st["items"])
        if o in ("add", "buy") and len(st["items"]) > len(prev["items"]) and w > case["max_weight"]:
            fail(f"inventory weight {w} exceeds the limit {case['max_weight']} through add")
        if o == "spend":
            if st["ret"] is True and st["gold"] != prev["gold"] - op["a"]:
                fail("spend answered True without deducting exactly the amount")
            if st["ret"] is False and st["gold"] != prev["gold"]:
                fail("spend answered False but gold changed")
            if st["ret"] is False and prev["gold"] >= op["a"]:
                fail("spend refused although affordable")
        if o == "buy":
            if st["ret"] is True:
                if len(st["items"]) != len(prev["items"]) + 1 or st["items"][:-1] != prev["items"] or st["items"][-1][0] != op["n"]:
                    fail("buy answered True but the inventory did not gain exactly that item")
                paid = prev["gold"] - st["gold"]
                if paid < 0:
                    fail("buy answered True and gold increased")
            elif st["gold"] != prev["gold"] or st["items"] != prev["items"]:
                fail(f"failed buy changed gold {prev['gold']} -> {st['gold']} or the inventory")
        if o == "sell":
            if st["ret"] is True:
                if len(st["items"]) != len(prev["items"]) - 1 or st["gold"] < prev["gold"]:
                    fail("sell answered True but item/gold did not change together")
                else:
                    # the gold gained is the sell price of the item that actually left the inventory
                    k = next((j for j, (x, y) in enumerate(zip(prev["items"], st["items"])) if x != y), len(st["items"]))
                    gone = prev["items"][k]
                    if prev["items"][:k] + prev["items"][k + 1:] != st["items"] or gone[0] != op["n"]:
                        fail("sell answered True but the inventory did not lose exactly one item of that name")
                    else:
                        num, den = case["shop"]["rate"]
                        want = int(gone[2] * (num / den))
                        if st["gold"] - prev["gold"] != want:
                            fail(f"sold {gone[0]} worth {gone[2]} (sell-back {num}/{den}): gained {st['gold'] - prev['gold']} gold, its price is {want}")
            elif st["gold"] != prev["gold"] or st["items"] != prev["items"]:
                fail("failed sell changed gold or the inventory")
        t, c, op_, topics, ev = st["rel"]
        if not (0 <= t <= 100 and 0 <= c <= 100 and -10 <= op_ <= 10):
            fail(f"relationship stats out of range: {t}, {c}, {op_}")
        if o == "add_trust":
            old = prev["rel"][0]
            exp = ([60] if old < 60 <= t else []) + ([80] if old < 80 <= t else [])
            if ev[len(prev["rel"][4]):] != exp:
                fail(f"trust {old} -> {t}: events {ev[len(prev['rel'][4]):]}, upward crossings {exp}")
        elif ev != prev["rel"][4]:
            fail("a threshold event fired without add_trust")
        if o == "rel_roundtrip" and st["rel"][:4] != prev["rel"][:4]:
            fail("Relationship to_dict/from_dict changed the object")
        if o in ("inv_roundtrip", "shop_roundtrip") and (st["items"], st["shop"]) != (prev["items"], prev["shop"]):
            fail(f"{o}: to_dict/from_dict changed the object")
        if o == "wallet_roundtrip" and st["gold"] != prev["gold"]:
            fail("Wallet to_dict/from_dict changed the object")
        if o == "roll" and isinstance(st["ret"], int):
            n, s, m = op["n"], op["sides"], op["mod"]
            if not (n + m <= st["ret"] <= n * s + m):
                fail(f"roll {n}d{s}{m:+d} = {st['ret']} outside its bounds")
        prev = st
    return fails


def _chunk(arg):
    seed, idxs, n_ops = arg
    cases = [gen_case(seed, i, n_ops) for i in idxs]
    out = {"cases": len(cases), "agree": 0, "ops": {}, "fails": [], "disagreements": [], "samples": [], "hashes": []}
    reals = []
    for c in cases:
        with quiet():
            reals.append(real_run(c))
    models = run_driver(cases)
    for c, r, m in zip(cases, reals, models):
        for op in c["ops"]:
            out["ops"][op["o"]] = out["ops"].get(op["o"], 0) + 1
        d = None
        if m.get("status") != "ok":
            d = ("/status", m.get("status"), "ok")
        else:
            d = first_diff(m["init"], r["init"], "/init")
            if not d:
                for i, (x, y) in enumerate(zip(m["steps"], r["steps"])):
                    d = first_diff(x, y, f"/steps/{i}")
                    if d:
                        break
        if d:
            out["disagreements"].append({"family": "c20-stdlib", "id": c["id"], "detail": d, "case": c})
        else:
            out["agree"] += 1
        for f in invariants(c, r):
            f.update({"family": "c20-stdlib", "id": c["id"], "case": c})
            out["fails"].append(f)
        out["hashes"].append(chash(c))
    if cases:
        out["samples"].append({k: cases[0][k] for k in ("gold", "max_weight", "shop", "rel")} | {"ops": cases[0]["ops"][:10]})
    return out


def independence_probe(rep, n):
    """two game objects alive at once never share state: what happens to one is invisible in the other (an inventory must not
    exceed ITS limit because another one was filled; a wallet's gold, a relationship's topics, a shop's stock likewise)"""
    from bardic.stdlib.economy import Wallet, Shop
    from bardic.stdlib.inventory import Inventory
    from bardic.stdlib.relationship import Relationship
    bad = 0
    def see(o):
        d = {k: (sorted(v) if isinstance(v, set) else copy.deepcopy(v)) for k, v in vars(o).items()}
        for p_ in ("gold", "trust", "comfort", "openness", "current_weight"):
            if hasattr(type(o), p_):
                d["." + p_] = getattr(o, p_)
        return d
    for idx in range(n):
        r = rng_for(rep.seed, "independence", idx)
        kind = r.choice(["inv", "inv", "wallet", "rel", "shop"])
        with quiet():
            if kind == "inv":
                a, b = Inventory(r.randint(3, 8)), Inventory(r.randint(30, 60))
                def act():
                    for _ in range(r.randint(1, 4)):
                        b.add({"name": r.choice(NAMES), "weight": r.randint(5, 20), "value": r.randint(0, 9)})
            elif kind == "wallet":
                a, b = Wallet(r.randint(0, 9)), Wallet(r.randint(0, 9))
                def act():
                    b.earn(r.randint(1, 50)); b.spend(r.randint(0, 5))
            elif kind == "rel":
                a, b = Relationship("Ann", 50, 50, 0), Relationship("Bo", 50, 50, 0)
                def act():
                    b.add_trust(r.randint(-40, 40)); b.topics_discussed.add(r.choice(["past", "work"]))
                    if hasattr(b, "discuss_topic"):
                        b.discuss_topic("family")
            else:
                stock = [{"name": "Rope", "weight": 1, "value": 10}]
                a, b = Shop(copy.deepcopy(stock)), Shop(copy.deepcopy(stock))
                def act():
                    b.set_discount(0.5); b.items.append({"name": "Gem", "weight": 1, "value": 30})
            before = see(a)
            act()
            after = see(a)
        if before != after:
            bad += 1
            rep.violations.append({"cls": None, "family": "c20-independence", "what": f"two {kind} objects share state: an operation on one changed the other: "
                                   + json.dumps(first_diff(before, after, ""), default=str)[:200], "id": f"s{rep.seed}-indep-{idx}"})
        elif kind == "inv" and a.current_weight > a.max_weight:
            bad += 1
            rep.violations.append({"cls": None, "family": "c20-independence", "what": "an inventory exceeds its weight limit", "id": f"s{rep.seed}-indep-{idx}"})
    rep.coverage.setdefault("families", {})["c20-independence"] = {"cases": n, "failing": bad}
    rep.coverage["evaluations"] = rep.coverage.get("evaluations", 0) + n


def stdlib_family(rep, n_cases, n_ops, nproc=16):
    chunk = max(1, n_cases // (nproc * 2))
    idxs = list(range(n_cases))
    outs = framework.pmap(_chunk, [(rep.seed, idxs[i:i + chunk], n_ops) for i in range(0, n_cases, chunk)], nproc)
    tot = {"cases": 0, "agree": 0, "ops": {}}
    hashes = set()
    for o in outs:
        tot["cases"] += o["cases"]
        tot["agree"] += o["agree"]
        for k, v in o["ops"].items():
            tot["ops"][k] = tot["ops"].get(k, 0) + v
        rep.violations.extend(o["fails"])
        rep.disagreements.extend(o["disagreements"])
        if len(rep.samples) < 2:
            rep.samples.extend(o["samples"][:1])
        hashes.update(o["hashes"])
    cov = rep.coverage
    cov["evaluations"] = cov.get("evaluations", 0) + tot["cases"]
    cov["programs"] = cov.get("programs", 0) + tot["cases"]
    cov["traces_validated_against_impl"] = cov.get("traces_validated_against_impl", 0) + tot["agree"]
    cov["distinct_nontrivial"] = cov.get("distinct_nontrivial", 0) + len(hashes)
    cov.setdefault("families", {})["c20-stdlib"] = tot
    return tot


def fractional_weights_probe(rep, n):
    """the weight limit with weights that are not whole numbers (real code only: the model's weights are integers): dyadic
    fractions - exact in binary floating point, so that nothing here is a rounding matter - down to 1/1024, limits that are
    met exactly, inventories that are full or have a limit of 0; `add` directly and through `Shop.buy`.  Judged with exact
    rational arithmetic."""
    from fractions import Fraction
    from bardic.stdlib.economy import Wallet, Shop
    from bardic.stdlib.inventory import Inventory
    WEIGHTS = [Fraction(1, 2 ** k) for k in (0, 1, 2, 3, 6, 8, 9, 10)] + [Fraction(3, 2), Fraction(5, 4), Fraction(0)]
    done = 0
    for idx in range(n):
        r = rng_for(rep.seed, "fractional", idx)
        limit = r.choice([Fraction(0), Fraction(1), Fraction(3, 2), Fraction(2), Fraction(1, 4), Fraction(5)])
        with quiet():
            inv = Inventory(float(limit))
            w = Wallet(1000)
            held = Fraction(0)
            log = []
            for step in range(r.randint(3, 14)):
                wt = r.choice(WEIGHTS)
                item = {"name": f"i{step}", "weight": float(wt), "value": 1}
                if r.random() < 0.3:
                    shop = Shop([dict(item)])
                    gold0, n0 = w.gold, len(inv.items)
                    ok = shop.buy(item["name"], w, inv)
                    via = "Shop.buy"
                    paid, arrived = w.gold != gold0, len(inv.items) == n0 + 1
                    if not (bool(ok) == paid == arrived):
                        rep.violations.append({"cls": None, "family": "c20-fractional", "log": log + [[via, str(wt), bool(ok)]],
                                               "what": f"buy of an item weighing {wt} (limit {limit}, carried {held}) answered {bool(ok)}: gold {gold0} -> {w.gold}, the item {'arrived' if arrived else 'did not arrive'} (an exchange is all or nothing)"})
                        break
                else:
                    ok = inv.add(dict(item))
                    via = "add"
                log.append([via, str(wt), bool(ok)])
                fits = held + wt <= limit
                if ok:
                    held += wt
                exact = sum((Fraction(i.get("weight", 0)) for i in inv.items), Fraction(0))
                if exact != held or exact > limit or bool(ok) != fits:
                    rep.violations.append({"cls": None, "family": "c20-fractional",
                                           "what": (f"limit {limit}, carried {held - (wt if ok else 0)} before: {via} of an item weighing {wt} answered {bool(ok)} "
                                                    f"(it {'fits' if fits else 'does not fit'}); the inventory now carries {exact} of {limit}"),
                                           "log": log})
                    break
        done += 1
    rep.coverage.setdefault("families", {})["c20-fractional"] = {"cases": done}
    rep.coverage["evaluations"] = rep.coverage.get("evaluations", 0) + done


def shop_consistency_probe(rep, n):
    """Shop.buy and Inventory.add agree, whatever the weights (decimal fractions that are NOT exact in binary, weightless items,
    a pack whose limit the story lowered below what it carries): gold is taken iff the item arrived iff buy answered True, and
    buy answers what add answers for the same item on an inventory in the same state"""
    from bardic.stdlib.economy import Wallet, Shop
    from bardic.stdlib.inventory import Inventory
    done = 0
    for idx in range(n):
        r = rng_for(rep.seed, "shop-consistency", idx)
        with quiet():
            inv = Inventory(r.choice([1.7, 2.9, 0.3, 1.0, 5]))
            w = Wallet(500)
            log = []
            for step in range(r.randint(2, 10)):
                if r.random() < 0.2:
                    inv.max_weight = r.choice([0, 0.5, 1.7, 2.9])
                    log.append(["limit", inv.max_weight])
                item = {"name": f"i{step}", "weight": r.choice([0, 0.1, 0.2, 0.6, 0.7, 1.1, 2.2, 0.3]), "value": r.randint(1, 9)}
                twin = copy.deepcopy(inv)
                expect = twin.add(dict(item))
                shop = Shop([dict(item)])
                gold0, n0 = w.gold, len(inv.items)
                ok = shop.buy(item["name"], w, inv)
                paid, arrived = w.gold != gold0, len(inv.items) == n0 + 1
                log.append(["buy", item["weight"], bool(ok)])
                if not (bool(ok) == paid == arrived == bool(expect)):
                    rep.violations.append({"cls": None, "family": "c20-shop-consistency", "log": log,
                                           "what": (f"inventory carrying {twin.current_weight - (item['weight'] if expect else 0)} of {inv.max_weight}: add of an item weighing {item['weight']} answers {bool(expect)}; "
                                                    f"buy answered {bool(ok)}, gold {gold0} -> {w.gold}, the item {'arrived' if arrived else 'did not arrive'}")})
                    break
        done += 1
    rep.coverage.setdefault("families", {})["c20-shop-consistency"] = {"cases": done}
    rep.coverage["evaluations"] = rep.coverage.get("evaluations", 0) + done


def reentrant_threshold_probe(rep, n):
    """threshold events fire exactly on upward crossings also when a threshold hook itself adds trust (a story's subclass:
    reaching 60 unlocks a scene that adds more): over the whole movement old -> final each threshold is reported once iff crossed"""
    from bardic.stdlib.relationship import Relationship
    done = 0
    for idx in range(n):
        r = rng_for(rep.seed, "reentrant", idx)
        bonus60, bonus80 = r.choice([0, 5, 25, 40]), r.choice([0, 0, 10])
        events = []

        class Rec(Relationship):
            def on_trust_threshold_60(self):
                events.append(60)
                if bonus60:
                    self.add_trust(bonus60)

            def on_trust_threshold_80(self):
                events.append(80)
                if bonus80:
                    self.add_trust(bonus80)
        with quiet():
            rel = Rec("Ann", r.randint(0, 100), 50, 0)
            log = []
            for _ in range(r.randint(1, 6)):
                old = rel.trust
                amt = r.randint(-40, 45)
                del events[:]
                rel.add_trust(amt)
                final = rel.trust
                log.append([old, amt, final, list(events)])
                want = ([60] if old < 60 <= final else []) + ([80] if old < 80 <= final else [])
                if sorted(events) != want or not (0 <= final <= 100):
                    rep.violations.append({"cls": None, "family": "c20-reentrant", "log": log, "bonus_on_60": bonus60, "bonus_on_80": bonus80,
                                           "what": (f"trust {old} -> {final} (add_trust({amt}); the hook for 60 adds {bonus60}, the one for 80 adds {bonus80}): "
                                                    f"events {events}, upward crossings {want}")})
                    break
        done += 1
    rep.coverage.setdefault("families", {})["c20-reentrant"] = {"cases": done}
    rep.coverage["evaluations"] = rep.coverage.get("evaluations", 0) + done
