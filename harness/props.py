"""Per-property check definitions: theorems (Lean obligations), families, oracles, known-finding classes."""
import json
import os

from common import VERIF
import corr_play
import real_play
import families
import framework
import oracles

T = "Bardic."


def sizes(rep, quick, thorough):
    return quick if rep.tier == "quick" else thorough


# ------------------------------------------------------------------------------------------------ runs

def compile_tie(rep, label, features, quick=120, thorough=1500):
    """The engine properties are stated on stories as authors write them: a change of the COMPILER can break them while
    engine and engine model still agree on whatever JSON comes out.  Each of those checks therefore also compiles sources
    with the property's feature mix and compares the real compiler's output with Src.compileStory (the reference
    compilation, Proofs/C01); on a mismatch the real engine plays both and a differing observation is the failing input."""
    import fam_compile
    fam_compile.compile_family(rep, sizes(rep, quick, thorough), features=features, label=label)


def text_tie(rep, label, quick=(250, 250, 200), thorough=(6000, 6000, 4000), line_is_violation=False):
    """The text-level parser model (lean/Bardic/Parser/{Re,Text,Blocks,Core}.lean, `parseText`) against the real `parse`
    on the same texts: generated stories in every surface style, every .bard file of the repository, mutations of both,
    sequences over the directive vocabulary.  A differing story or diagnostic is a broken correspondence; for C14 a
    located diagnostic naming another line than the reference parser does is a failing input."""
    import fam_text
    n_seq, n_mut, n_gen = sizes(rep, quick, thorough)
    dis, total = fam_text.text_family(rep, n_seq, n_mut, n_gen, label=label)
    for d in dis:
        payload = {"family": d["family"], "what": d["what"], "source": d["source"], "label": d["label"], "real": d["real"], "model": d["model"]}
        if line_is_violation and d["what"].startswith("diagnostic line"):
            rep.violations.append(dict(payload, cls=None, what="the diagnostic names another line than the one the malformed construct stands on "
                                                              "(the line the reference parser is looking at when it rejects the text): " + d["what"]))
        else:
            rep.disagreements.append(payload)
    if total:
        rep.notes.append(f"text-level parser correspondence: {total} disagreeing texts")


def run_c02(rep):
    n, ops = sizes(rep, (320, 14), (5000, 60))
    families.play_family(rep, n, ops, features=dict(one_time=0.6, block_choices=0.6, join=0.4, conds=0.8, block_counters=0.8),
                         weights=dict(bad=12, choose=50, undo=8, redo=6), oracle_names=["oracle_c02"],
                         known_classes=known_classes("C02"), label="c02")
    # join passages re-entered through jumps inside blocks (section progress must restart)
    n2, ops2 = sizes(rep, (160, 24), (2000, 60))
    families.play_family(rep, n2, ops2, features=dict(join=0.9, block_jumps=0.9, conds=0.9, top_jumps=0.1, params=0.1,
                                                       stmt_faults=0.02, faults=0.05, block_counters=0.8, block_choices=0.6),
                         weights=dict(bad=4, choose=75, undo=3, redo=2, goto=6, read=4, save=1, load=1, fresh=1),
                         oracle_names=["oracle_c02"], known_classes=known_classes("C02"), label="c02-join")
    # parameterised passages whose parameters shadow globals: conditions are judged with the parameters (recorded by the
    # passages' own `lk_<P> = dict(_local)` probes) over the globals; passages reached through jumps inside blocks
    n3, ops3 = sizes(rep, (240, 16), (3000, 50))
    families.play_family(rep, n3, ops3, features=dict(params=0.85, shadow=0.7, probes=1.0, one_time=0.6, conds=0.8, block_jumps=0.5,
                                                       top_jumps=0.2, block_choices=0.5, hooks=0.6, hook_early=0.7, param_conds=0.5),
                         weights=dict(bad=4, choose=70, undo=8, redo=3, goto=8, read=4, save=1, load=1, fresh=1),
                         oracle_names=["oracle_c02", "oracle_c07"], known_classes=known_classes("C02") | known_classes("C07"), label="c02-params")
    compile_tie(rep, "c02-compile", dict(one_time=0.6, block_choices=0.7, join=0.5, conds=0.8))
    c02_sessions(rep)
    import fam_fault
    fam_fault.exotic_failures(rep, "C02")      # "a condition that cannot be evaluated hides the choice", whatever it raises


C02_SESSIONS = [
    # a rejected index when the undo history is full (50 restore points): nothing observable changes, undo availability included
    (":: Start\n~ n = 0\nhub\n+ [step] -> Loop\n\n:: Loop\n~ n = n + 1\nstep {n}\n+ [again] -> Loop\n",
     [{"op": "choose", "i": 0}] * 53 + [{"op": "choose", "i": 7}, {"op": "choose", "i": -1}] + [{"op": "undo"}] * 50 + [{"op": "can_undo"}, {"op": "undo"}]),
    # fixed sessions judged by the same oracle as the generated ones: one-time choices whose text holds colons (written out or
    # produced by interpolation), taken, then saved and loaded (same engine / a fresh one), undone and redone
    (":: Start\n~ h = 12\nhub\n* [Ask: \"Who?\"] -> Answer\n* [Check (12:30)] -> Answer\n* [a:b:c] -> Answer\n* [plain] -> Answer\n+ [wait] -> Start\n\n:: Answer\nanswer\n+ [back] -> Start\n",
     [{"op": "choose", "i": 0}, {"op": "choose", "i": 0}, {"op": "save"}, {"op": "load", "slot": 0}, {"op": "choose", "i": 0}, {"op": "choose", "i": 0},
      {"op": "save"}, {"op": "fresh_load", "slot": 1}, {"op": "choose", "i": 0}, {"op": "choose", "i": 0}, {"op": "fresh_load", "slot": 0}, {"op": "choose", "i": 3},
      {"op": "undo"}, {"op": "choose", "i": 1}, {"op": "choose", "i": 0}, {"op": "save"}, {"op": "load", "slot": 2}]),
    (":: Start\nhub\n* [Time: now] -> Start\n* [Time: later] -> Start\n+ [stay] -> Start\n",
     [{"op": "choose", "i": 0}, {"op": "save"}, {"op": "choose", "i": 0}, {"op": "load", "slot": 0}, {"op": "choose", "i": 1}, {"op": "fresh_load", "slot": 0}, {"op": "choose", "i": 0}]),
]


def c02_sessions(rep):
    n = 0
    for src, ops in C02_SESSIONS:
        c = corr_play.run_fixed(src, ops, case_id="c02-session")
        n += 1
        if "compile_error" in c or c["real"].get("status") != "ok":
            rep.violations.append({"cls": None, "family": "c02-sessions", "what": "session does not run: " + str(c.get("compile_error") or c["real"])[:200], "source": src, "ops": ops})
            continue
        for f in oracles.oracle_c02(c):
            if f.get("cls") in known_classes("C02"):
                rep.known_hits[f["cls"]] = rep.known_hits.get(f["cls"], 0) + 1
            else:
                rep.violations.append(dict(f, family="c02-sessions", source=src, ops=ops, variant="main"))
    rep.coverage.setdefault("families", {})["c02-sessions"] = {"cases": n}
    rep.coverage["evaluations"] = rep.coverage.get("evaluations", 0) + n


def run_c03(rep):
    n, ops = sizes(rep, (320, 16), (5000, 60))
    families.play_family(rep, n, ops, features=dict(top_jumps=0.4, block_jumps=0.4, hooks=0.4, hook_early=0.5, join=0.35, inputs=0.6, conds=0.8, loops=0.5, render=0.5, block_counters=0.8),
                         weights=dict(read=45, choose=35, goto=8, save=6), oracle_names=["oracle_c03", "oracle_c10", "oracle_c04"],
                         known_classes=known_classes("C03") | known_classes("C10") | known_classes("C08"), label="c03")
    # (the commands in the block of a `-> @join` choice run exactly once too: each block bumps its own counter — C10's oracle)
    # reads never consume anything the story holds (one-shot iterators, ranges, sets, deques kept in variables): real code only
    # the commands of a passage are what the source says they are (a statement below a block is a command, not content)
    compile_tie(rep, "c03-compile", dict(top_jumps=0.5, block_jumps=0.3, hooks=0.4, conds=0.8, loops=0.5, join=0.3))
    import fam_reads
    fam_reads.reads_invisible(rep, sizes(rep, 25, 400), "C03")
    fam_reads.once_sessions(rep, sizes(rep, 30, 500))
    fam_reads.retry_sessions(rep)


def run_c04(rep):
    n, ops = sizes(rep, (320, 20), (5000, 120))
    families.play_family(rep, n, ops, features=dict(hooks=0.4, join=0.4, params=0.4, top_jumps=0.3),
                         weights=dict(choose=45, bad=6, undo=20, redo=14, goto=3, read=6, save=1, load=1, fresh=1, rechoose=0.4),
                         oracle_names=["oracle_c04"], known_classes=known_classes("C04"), label="c04")
    # stories in which variables SHARE objects (ys = xs, a dict holding the list): outside the value semantics of the engine
    # model, so real code only — the undo oracle, and "the same choice taken again after undo gives what it gave before"
    n2, ops2 = sizes(rep, (200, 20), (3000, 80))
    families.play_family(rep, n2, ops2, features=dict(alias=0.9, hooks=0.3, join=0.3, params=0.3, top_jumps=0.3, render=0.7),
                         weights=dict(choose=50, bad=3, undo=22, redo=10, goto=2, read=4, save=1, load=1, fresh=1, rechoose=0.6),
                         oracle_names=["oracle_c04"], known_classes=known_classes("C04"), label="c04-alias", model=False)
    # probe: a long run of choices crossing the 50-deep bound, then unwinding it completely
    # (every restore point shows something a bare re-rendering of its passage would not give: the text of a turn_end hook,
    # of a jump chain, a statement inside a block)
    CAP_STORY = (":: Start\n~ n = 0\n~ hl = 0\n@hook turn_end Tick\nHi\n+ [again] -> Loop\n\n:: Loop\n~ n = n + 1\n~ xs = [n]\nRound {n}\n"
                 "@if n % 2 == 0:\n  ~ hl = hl + 1\n  even {hl}\n@endif\n+ [again] -> Loop\n+ [via] -> Via\n\n:: Via\nvia {n}\n@if True:\n  -> Loop\n@endif\n\n"
                 ":: Tick\ntick {n} {hl}\n")
    probe = corr_play.run_fixed(CAP_STORY,
                                [{"op": "choose", "i": 0}] + [{"op": "choose", "i": 0}, {"op": "choose", "i": 1}] * 30 + [{"op": "undo"}] * 55 + [{"op": "redo"}] * 52 + [{"op": "undo"}] * 3,
                                case_id="c04-cap-probe")
    probe["cycles"] = False
    for f in oracles.oracle_c04(probe):
        rep.violations.append(dict(f, family="c04-probe", id="c04-cap-probe", source=probe["source"], ops=probe["ops"], oracle="oracle_c04", variant="main"))
    res = corr_play.run_cases([probe])
    if res and res[0]["verdict"] != "agree":
        rep.disagreements.append({"family": "c04-probe", "id": "c04-cap-probe", "detail": res[0]["detail"],
                                  "source": probe["source"], "ops": probe["ops"], "variant": "main"})
    rep.coverage["evaluations"] = rep.coverage.get("evaluations", 0) + 1
    # the same bound in a session that was loaded from a save (and loaded again later)
    probe2 = corr_play.run_fixed(probe["source"],
                                 [{"op": "choose", "i": 0}, {"op": "save"}, {"op": "fresh_load", "slot": 0}] + [{"op": "choose", "i": 0}] * 58 +
                                 [{"op": "undo"}] * 54 + [{"op": "save"}, {"op": "load", "slot": 1}] + [{"op": "choose", "i": 0}] * 53 + [{"op": "undo"}] * 52,
                                 case_id="c04-cap-after-load")
    probe2["cycles"] = False
    for f in oracles.oracle_c04(probe2):
        rep.violations.append(dict(f, family="c04-probe", id="c04-cap-after-load", source=probe2["source"], ops=probe2["ops"], oracle="oracle_c04", variant="main"))
    rep.coverage["evaluations"] = rep.coverage.get("evaluations", 0) + 1
    import fam_saveload
    fam_saveload.undo_sessions(rep, sizes(rep, 30, 400))


def run_c07(rep):
    n, ops = sizes(rep, (400, 14), (6000, 40))
    families.play_family(rep, n, ops, features=dict(params=0.85, shadow=0.5, block_jumps=0.4, top_jumps=0.4, probes=0.9, long_params=0.7,
                                                    block_choices=0.7, loops=0.5, str_args=0.1),
                         weights=dict(choose=65, goto=10, bad=3, undo=5, redo=3, read=5),
                         oracle_names=["oracle_c07"], known_classes=known_classes("C07"), label="c07")
    compile_tie(rep, "c07-compile", dict(params=0.9, block_jumps=0.4, top_jumps=0.4, block_choices=0.7))
    c07_sessions(rep)
    import fam_reads
    fam_reads.once_sessions(rep, sizes(rep, 30, 400))      # a default is evaluated when - and only when - the call relies on it
    # call sites that do NOT follow Python's call rule must be rejected by the compiler (or fail as Python would): the same
    # corrupted-call-site family that decides C12, judged by Python's own ast + call rule
    import fam_graph
    n2, ops2 = sizes(rep, (200, 10), (3000, 30))
    fam_graph.graph_family(rep, n2, ops2, "C12", known_classes=known_classes("C12") | known_classes("C07"))


C07_SESSIONS = [
    # (source, ops, indices of steps whose displayed text must be identical): the same call from the same globals shows the same
    # thing however often it is made — nothing of an earlier visit's parameter scope lingers (mutable defaults, in-place changes)
    (":: Start\nHi\n+ [pack] -> Pack\n\n:: Pack(bag=[], extra={})\n~ bag.append(1)\n~ extra['k'] = len(bag)\nbag {bag} {extra}\n+ [again] -> Pack\n+ [back] -> Start\n",
     [{"op": "choose", "i": 0}, {"op": "choose", "i": 0}, {"op": "choose", "i": 0}, {"op": "undo"}, {"op": "choose", "i": 0}], [0, 1, 2, 4]),
    (":: Start\nHi\n+ [a] -> Room(tags=['x'])\n\n:: Room(tags=[], seen=[1, 2])\n~ tags.append('t')\n~ seen += [3]\n~ seen.append(len(tags))\n{tags} {seen}\n+ [again] -> Room\n+ [same] -> Room(tags=['x'])\n",
     [{"op": "choose", "i": 0}, {"op": "choose", "i": 1}, {"op": "choose", "i": 0}, {"op": "choose", "i": 0}, {"op": "goto", "spec": "Room"}], [0, 1]),
    (":: Start\n~ base = [0]\nHi\n+ [a] -> Box\n\n:: Box(items=list(base), label='b' * 2, n=len(base))\n~ items.append(n)\n{items} {label} {n}\n+ [again] -> Box\n",
     [{"op": "choose", "i": 0}, {"op": "choose", "i": 0}, {"op": "choose", "i": 0}, {"op": "goto", "spec": "Box"}], [0, 1, 2, 3]),
]


def c07_sessions(rep):
    n = 0
    for src, ops, same in C07_SESSIONS + [(s_, o_[:3], sm[:2]) for (s_, o_, sm) in []]:
        c = corr_play.run_fixed(src, ops, case_id="c07-session")
        n += 1
        if "compile_error" in c or c["real"].get("status") != "ok":
            rep.violations.append({"cls": None, "family": "c07-sessions", "what": "session does not run: " + str(c.get("compile_error") or c["real"]), "source": src, "ops": ops})
            continue
        steps = c["real"]["steps"]
        texts = [(steps[i]["resp"].get("out") or {}).get("content") if "out" in steps[i]["resp"] else (steps[i]["state"]["out"] or {}).get("content") for i in same]
        if len(set(texts)) != 1 or texts[0] is None:
            rep.violations.append({"cls": None, "family": "c07-sessions", "oracle": "same call, same globals, same text",
                                   "what": f"the same call of a parameterised passage from the same globals shows different things on different visits: {texts}",
                                   "source": src, "ops": ops, "variant": "main"})
        # a fresh engine on the same compiled story starts from the same defaults too
        c2 = corr_play.run_fixed(src, ops[:1], case_id="c07-session-2")
        t2 = (c2["real"]["steps"][0]["resp"].get("out") or {}).get("content") if c2.get("real", {}).get("status") == "ok" else None
        if t2 != texts[0]:
            rep.violations.append({"cls": None, "family": "c07-sessions", "what": f"a second engine shows {t2!r} where the first showed {texts[0]!r}", "source": src, "ops": ops[:1], "variant": "main"})
    rep.coverage.setdefault("families", {})["c07-sessions"] = {"cases": n}
    rep.coverage["evaluations"] = rep.coverage.get("evaluations", 0) + n


def run_c09(rep):
    n, ops = sizes(rep, (400, 16), (6000, 60))
    families.play_family(rep, n, ops, features=dict(hooks=0.95, join=0.4, conds=0.7, top_jumps=0.2, stmt_faults=0.03),
                         weights=dict(choose=62, goto=6, undo=8, redo=5, save=2, load=2, fresh=2, read=8, bad=3),
                         oracle_names=["oracle_c09"], known_classes=known_classes("C09"), label="c09")
    compile_tie(rep, "c09-compile", dict(hooks=0.95, join=0.5, conds=0.7))
    c09_sessions(rep, sizes(rep, 30, 400))
    c09_swap_sessions(rep, sizes(rep, 60, 800))


C09_STORY = (":: Start\n~ ticks = 0\n~ silent = 0\n@hook turn_end Status\n@hook turn_end Quiet\nBegin\n+ [status] -> Status\n+ [walk] -> Road\n\n"
             ":: Road\nroad\n+ [status] -> Status\n+ [walk] -> Road\n+ [quiet] -> Quiet\n\n"
             ":: Status\n~ ticks = ticks + 1\nStatus {ticks}\n+ [back] -> Road\n+ [rest] -> @join\n    resting\n@join\nafter\n+ [back] -> Road\n+ [again] -> Status\n\n"
             # a hooked passage that shows nothing and whose only block holds hook lines (it unhooks itself after three runs)
             ":: Quiet\n~ silent = silent + 1\n@if silent >= 3:\n  @unhook   turn_end    Quiet\n@endif\n+ [back] -> Road\n")


def c09_sessions(rep, n_walks):
    """a hooked passage that is also a place the player walks into, and a silent one that unhooks itself from inside a block:
    after every successful choice each registered passage ran exactly once as a hook (on top of the entry the choice itself made)"""
    from common import rng_for as _rng
    n = 0
    story = corr_play.compile_source(C09_STORY)
    for w in range(n_walks):
        r = _rng(rep.seed, "c09-session", w)
        rp = real_play.RealPlay(story)
        st0, init = rp.start()
        if st0 != "ok":
            rep.violations.append({"cls": None, "family": "c09-sessions", "what": f"session does not start: {init}", "source": C09_STORY})
            return
        prev, ops = init, []
        for _ in range(r.randint(3, 14)):
            k = len(prev["out"]["choices"]) if prev.get("out") else 0
            if k == 0:
                break
            op = {"op": "choose", "i": r.randrange(k)}
            ops.append(op)
            step = rp.op(op)
            st = step["state"]
            if "out" not in step["resp"]:
                rep.violations.append({"cls": None, "family": "c09-sessions", "what": f"choice raised: {str(step['resp'])[:160]}", "source": C09_STORY, "ops": ops})
                break
            ch = prev["out"]["choices"][op["i"]]
            reg = prev["hooks"].get("turn_end", [])
            for var, pid in (("ticks", "Status"), ("silent", "Quiet")):
                entry = 1 if ch["target"] == pid else 0
                # (entering Quiet for the third time unhooks it during the navigation itself, before the hooks of the turn run)
                gone = pid == "Quiet" and entry and prev["vars"]["silent"] + 1 >= 3
                want = entry + (1 if pid in reg and not gone else 0)
                got = st["vars"][var] - prev["vars"][var]
                if got != want:
                    rep.violations.append({"cls": None, "family": "c09-sessions", "source": C09_STORY, "ops": list(ops), "variant": "main",
                                           "what": (f"choice '{ch['text']}' -> {ch['target']} with {reg} hooked to turn_end: {pid} ran {got} time(s), expected {want} "
                                                    f"({'one entry by the choice plus ' if ch['target'] == pid else ''}{'one run as a hook' if pid in reg else 'no hook run: it is not registered'})")})
            want_reg = [h for h in reg if not (h == "Quiet" and st["vars"]["silent"] >= 3)]
            if st["hooks"].get("turn_end", []) != want_reg:
                rep.violations.append({"cls": None, "family": "c09-sessions", "source": C09_STORY, "ops": list(ops), "variant": "main",
                                       "what": f"after the turn the registrations are {st['hooks'].get('turn_end')}, expected {want_reg} (Quiet unhooks itself from its third run on)"})
            prev = st
        n += 1
    rep.coverage.setdefault("families", {})["c09-sessions"] = {"walks": n}
    rep.coverage["evaluations"] = rep.coverage.get("evaluations", 0) + n


C09_SWAP_STORY = (":: Start\n~ hu = 0\n~ fa = 0\n~ ro = 0\n@hook turn_end Hunger\nBegin\n+ [wait] -> Hub\n\n"
                  ":: Hub\nhub\n+ [swap] -> Swap\n+ [rehook] -> Rehook\n+ [drop] -> Drop\n+ [both] -> Both\n+ [wait] -> Hub\n+ [rot] -> RotOn\n\n"
                  ":: RotOn\n@hook turn_end Rot\nrotting\n+ [back] -> Hub\n\n:: Rot\n~ ro = ro + 1\n@unhook turn_end Rot\n@hook turn_end Rot\n\n"
                  ":: Swap\n@unhook turn_end Hunger\n@hook turn_end Fatigue\nswapped\n+ [back] -> Hub\n\n"
                  ":: Rehook\n@hook turn_end Hunger\nrehooked\n+ [back] -> Hub\n\n"
                  ":: Drop\n@unhook turn_end Fatigue\ndropped\n+ [back] -> Hub\n\n"
                  ":: Both\n@hook turn_end Fatigue\n@hook turn_end Hunger\n@hook turn_end Fatigue\nboth\n+ [back] -> Hub\n\n"
                  ":: Hunger\n~ hu = hu + 1\n\n:: Fatigue\n~ fa = fa + 1\n")
C09_EFFECT = {"Swap": [("-", "Hunger"), ("+", "Fatigue")], "Rehook": [("+", "Hunger")], "Drop": [("-", "Fatigue")],
              "Both": [("+", "Fatigue"), ("+", "Hunger"), ("+", "Fatigue")], "Hub": [], "Start": [("+", "Hunger")], "RotOn": [("+", "Rot")]}


def c09_swap_sessions(rep, n_walks):
    """registrations replaced wholesale by undo / redo / load (same number of hooks, other members) and then changed again:
    the list and the runs are followed by a ten-line reference of this one story (register = append unless present, unhook =
    remove, a turn runs what is registered after the turn's own navigation, undo / redo / load put back what was there)"""
    from common import rng_for as _rng
    story = corr_play.compile_source(C09_SWAP_STORY)
    done = 0
    for w in range(n_walks):
        r = _rng(rep.seed, "c09-swap", w)
        rp = real_play.RealPlay(story)
        st0, init = rp.start()
        if st0 != "ok":
            rep.violations.append({"cls": None, "family": "c09-swap", "what": f"session does not start: {init}", "source": C09_SWAP_STORY})
            return
        cur = {"hooks": ["Hunger"], "hu": 0, "fa": 0, "ro": 0}
        past, future, slots, ops, prev = [], [], [], [], init
        for _ in range(r.randint(4, 18)):
            kind = r.choice(["choose"] * 5 + ["undo", "undo", "redo", "save", "load", "load"])
            if kind == "choose":
                k = len(prev["out"]["choices"]) if prev.get("out") else 0
                if not k:
                    break
                op = {"op": "choose", "i": r.randrange(k)}
                tgt = prev["out"]["choices"][op["i"]]["target"]
                past.append(dict(cur, hooks=list(cur["hooks"])))
                past, future = past[-50:], []
                cur = dict(cur, hooks=list(cur["hooks"]))
                for sign, h in C09_EFFECT[tgt]:
                    if sign == "+" and h not in cur["hooks"]:
                        cur["hooks"].append(h)
                    elif sign == "-" and h in cur["hooks"]:
                        cur["hooks"].remove(h)
                for h in list(cur["hooks"]):
                    cur[{"Hunger": "hu", "Fatigue": "fa", "Rot": "ro"}[h]] += 1
                    if h == "Rot":      # it unhooks itself and hooks itself again: it moves to the back and stays registered
                        cur["hooks"].remove("Rot")
                        cur["hooks"].append("Rot")
            elif kind == "undo":
                op = {"op": "undo"}
                if past:
                    future.append(cur)
                    cur = past.pop()
            elif kind == "redo":
                op = {"op": "redo"}
                if future:
                    past.append(cur)
                    cur = future.pop()
            elif kind == "save":
                op = {"op": "save"}
                slots.append(dict(cur, hooks=list(cur["hooks"])))
            else:
                if not slots:
                    continue
                op = {"op": "load", "slot": r.randrange(len(slots))}
                # (loading re-enters the saved passage: its own @hook / @unhook lines run again - finding C05-F1 - which
                # changes nothing here: every effect of this story is idempotent on the state it was saved in)
                cur, past, future = dict(slots[op["slot"]], hooks=list(slots[op["slot"]]["hooks"])), [], []
            ops.append(op)
            step = rp.op(op)
            st = step["state"]
            got = {"hooks": st["hooks"].get("turn_end", []), "hu": st["vars"].get("hu"), "fa": st["vars"].get("fa"), "ro": st["vars"].get("ro")}
            if "raise" in step["resp"] or got != cur:
                rep.violations.append({"cls": None, "family": "c09-swap", "source": C09_SWAP_STORY, "ops": list(ops), "variant": "main",
                                       "what": (f"after {op} the hooks registered for turn_end and the run counters are {got}"
                                                + (f" (the call raised {str(step['resp'])[:100]})" if "raise" in step["resp"] else "")
                                                + f"; registering appends unless present, unhooking removes, every turn runs what is registered: {cur}")})
                break
            prev = st
        done += 1
    rep.coverage.setdefault("families", {})["c09-swap"] = {"walks": done}
    rep.coverage["evaluations"] = rep.coverage.get("evaluations", 0) + done


C10_SESSIONS = [
    # two '-> @join' choices with the same label, told apart by their conditions: the block shown is the block of the one on offer
    (":: Start\n~ brave = False\n~ marks = []\ngo\n+ [in] -> J\n\n:: J\nS0\n+ {brave} [Enter] -> @join\n    ~ marks.append('bold')\n    You stride in.\n+ {not brave} [Enter] -> @join\n    ~ marks.append('shy')\n    You creep in.\n@join\nS1 {marks}\n+ [x] -> Start\n",
     [{"op": "choose", "i": 0}, {"op": "choose", "i": 0}], {1: "You creep in.\nS1 ['shy']\n"}),
    # a turn_end hook that fails on a '-> @join' turn: the choice raises, the screen it rendered stays, play goes on from it
    (":: Start\n~ t = 0\n@hook turn_end Tick\ngo\n+ [in] -> J\n\n:: J\nS0\n+ [n1] -> @join\n@join\nS1\n+ [n2] -> @join\n@join\nS2\n+ [n3] -> @join\n@join\nS3\n+ [x] -> Start\n\n"
     ":: Tick\n~ t = t + 1\n~ z = 1 % (2 - t)\n",
     [{"op": "choose", "i": 0}, {"op": "choose", "i": 0}, {"op": "current"}, {"op": "choose", "i": 0}, {"op": "choose", "i": 0}], {4: "S3\n"}),
    # text-only blocks under repeatable join choices (nothing but the section progress changes), then undo: one section back
    (":: Start\ngo\n+ [in] -> J\n\n:: J\nS0\n+ [n1] -> @join\n    b1\n@join\nS1\n+ [n2] -> @join\n    b2\n@join\nS2\n+ [n3] -> @join\n@join\nS3\n+ [x] -> Start\n",
     [{"op": "choose", "i": 0}, {"op": "choose", "i": 0}, {"op": "choose", "i": 0}, {"op": "undo"}, {"op": "choose", "i": 0}, {"op": "choose", "i": 0}, {"op": "undo"}, {"op": "undo"}],
     {1: "b1\nS1\n", 2: "b2\nS2\n", 3: "b1\nS1\n", 4: "b2\nS2\n", 5: "S3\n", 6: "b2\nS2\n", 7: "b1\nS1\n"}),
    # the text between two markers fails for one of the join choices; the other one, taken from the unchanged screen, shows it
    (":: Start\n~ d = 0\ngo\n+ [in] -> J\n\n:: J\nS0\n+ [a] -> @join\n    ~ d = 0\n+ [b] -> @join\n    ~ d = 2\n@join\n@if True:\n  ~ q = 10 % d\n@endif\nS1 {d}\n+ [c] -> @join\n@join\nS2\n+ [x] -> Start\n",
     [{"op": "choose", "i": 0}, {"op": "choose", "i": 0}, {"op": "choose", "i": 1}, {"op": "choose", "i": 0}], {2: "S1 2\n", 3: "S2\n"}),
    # a detour that comes back to the passage through a jump and fails there: the screen and its section stay
    (":: Start\n~ n = 0\ngo\n+ [in] -> P\n\n:: P\n~ n = n + 1\n~ z = 1 % (2 - n)\nS0\n+ [next] -> @join\n@join\nS1\n+ [detour] -> D\n+ [next2] -> @join\n@join\nS2\n+ [x] -> Start\n\n"
     ":: D\ndetour\n@if True:\n  -> P\n@endif\n",
     [{"op": "choose", "i": 0}, {"op": "choose", "i": 0}, {"op": "choose", "i": 0}, {"op": "choose", "i": 1}], {1: "S1\n", 3: "S2\n"}),
    # (source, ops, {step index: text that must be shown by that step}) — sections seen one at a time, in order, also after a choice failed
    (":: Start\n~ v = 0\ngo\n+ [in] -> J\n\n:: J\n~ v = v + 1\n~ k = 10 % (2 - v)\nS0\n+ [next] -> @join\n    b1\n@join\nS1\n+ [again] -> J\n+ [next2] -> @join\n    b2\n@join\nS2\n+ [x] -> Start\n",
     [{"op": "choose", "i": 0}, {"op": "choose", "i": 0}, {"op": "choose", "i": 0}, {"op": "choose", "i": 1}], {1: "b1\nS1\n", 3: "b2\nS2\n"}),
    (":: Start\n~ v = 0\ngo\n+ [in] -> J\n\n:: J\n~ v = v + 1\nS0\n+ [a] -> @join\n@join\nS1 {v}\n+ [b] -> @join\n    ~ w = 1 % (1 - v + 1)\n+ [c] -> @join\n@join\nS2\n+ [back] -> J\n",
     [{"op": "choose", "i": 0}, {"op": "choose", "i": 0}, {"op": "choose", "i": 1}, {"op": "choose", "i": 0}, {"op": "choose", "i": 0}],
     {1: "S1 1\n", 2: "S2\n", 3: "S0\n", 4: "S1 2\n"}),
]


def c10_sessions(rep):
    n = 0
    for src, ops, want in C10_SESSIONS:
        c = corr_play.run_fixed(src, ops, case_id="c10-session")
        n += 1
        if "compile_error" in c or c["real"].get("status") != "ok":
            rep.violations.append({"cls": None, "family": "c10-sessions", "what": "session does not run: " + str(c.get("compile_error") or c["real"])[:200], "source": src, "ops": ops})
            continue
        for k, text in want.items():
            st = c["real"]["steps"][k]
            got = (st["resp"].get("out") or {}).get("content") if "out" in st["resp"] else \
                ((st["state"].get("out") or {}).get("content") if st["resp"].get("ret") is True else None)
            if got != text:
                rep.violations.append({"cls": None, "family": "c10-sessions", "oracle": "sections in order",
                                       "what": f"step {k} should show {text!r} (the block of the join choice, then the text up to the next marker); it answered {str(st['resp'])[:160]}",
                                       "source": src, "ops": ops, "variant": "main"})
    rep.coverage.setdefault("families", {})["c10-sessions"] = {"cases": n}
    rep.coverage["evaluations"] = rep.coverage.get("evaluations", 0) + n


def run_c10(rep):
    n, ops = sizes(rep, (400, 20), (6000, 60))
    families.play_family(rep, n, ops, features=dict(join=0.95, block_jumps=0.5, conds=0.7, one_time=0.5, hooks=0.3,
                                                    params=0.15, stmt_faults=0.03, faults=0.08, block_counters=0.8, block_choices=0.7),
                         weights=dict(choose=70, goto=6, undo=7, redo=5, read=5, bad=3, save=1, load=1, fresh=1),
                         oracle_names=["oracle_c10", "oracle_c02"], known_classes=known_classes("C10") | known_classes("C02"), label="c10")
    compile_tie(rep, "c10-compile", dict(join=0.95, block_jumps=0.5, conds=0.7, one_time=0.5, hooks=0.3))
    c10_sessions(rep)


def c08_ring_probes(rep):
    """long chains and long cycles of jumps reached while rendering (no short random story has a 100-passage ring): an
    acyclic corridor of N passages shows all N texts in order; a ring of N passages answers RuntimeError within the time
    limit, and the engine is usable afterwards"""
    n = 0
    for size in sizes(rep, (3, 33, 45, 100), (2, 3, 31, 32, 33, 34, 45, 64, 100, 250)):
        for cyclic in (False, True):
            ps = [":: Start\nHi\n+ [go] -> R0\n+ [stay] -> Start\n"]
            for i in range(size):
                last = i == size - 1
                nxt = f"@if True:\n  -> R{(i + 1) % size}\n@endif\n" if (cyclic or not last) else "+ [home] -> Start\n"
                ps.append(f":: R{i}\nroom {i}\n{nxt}")
            src = "\n".join(ps)
            ops = [{"op": "choose", "i": 0}, {"op": "current"}, {"op": "choose", "i": 1 if cyclic else 0}]
            c = corr_play.run_fixed(src, ops, case_id=f"c08-ring-{size}-{cyclic}")
            n += 1
            if "compile_error" in c or c["real"].get("status") != "ok":
                rep.violations.append({"cls": None, "family": "c08-ring", "what": "probe does not run: " + str(c.get("compile_error") or c["real"])[:200], "source": src, "ops": ops})
                continue
            r0 = c["real"]["steps"][0]["resp"]
            if cyclic:
                if r0.get("raise") not in ("RuntimeError", "RecursionError"):
                    rep.violations.append({"cls": None, "family": "c08-ring", "oracle": "cycle -> RuntimeError",
                                           "what": f"a ring of {size} passages linked by jumps answered {str(r0)[:120]} instead of a RuntimeError", "source": src, "ops": ops, "variant": "main"})
                r2 = c["real"]["steps"][2]["resp"]
                if (r2.get("out") or {}).get("pid") != "Start":
                    rep.violations.append({"cls": None, "family": "c08-ring", "what": f"after the cycle error the engine is not usable: {str(r2)[:120]}", "source": src, "ops": ops, "variant": "main"})
            else:
                exp = "\n\n".join(f"room {i}\n" for i in range(size))
                got = (r0.get("out") or {}).get("content")
                if got is None or [l for l in got.split("\n") if l] != [l for l in exp.split("\n") if l]:
                    rep.violations.append({"cls": None, "family": "c08-ring", "what": f"a corridor of {size} passages does not show the {size} texts in order: {str(r0)[:160]}", "source": src, "ops": ops, "variant": "main"})
    rep.coverage.setdefault("families", {})["c08-ring"] = {"cases": n}
    rep.coverage["evaluations"] = rep.coverage.get("evaluations", 0) + n


def c08_chain_probe(rep):
    """a chain whose passages print nothing before they jump but issue render directives: text and directives of every passage
    of the chain are kept, in chain order"""
    src = (":: Start\nhi\n+ [go] -> A\n+ [loop] -> L\n\n:: A\n@render play_music('a')\n@if True:\n  -> B\n@endif\n\n"
           ":: B\n@if True:\n  @render stamp(1)\n  -> C\n@endif\n\n:: C\n@for i in [1]:\n  @render mark(i)\n  -> D\n@endfor\n\n:: D\nend\n@render point(2)\n\n"
           ":: L\n@render first(0)\nbefore\n@if True:\n  -> D\n@endif\n")
    n = 0
    for ops, want_names, want_text in (([{"op": "choose", "i": 0}], ["play_music", "stamp", "mark", "point"], "end\n"),
                                       ([{"op": "choose", "i": 1}], ["first", "point"], "before\nend\n")):
        c = corr_play.run_fixed(src, ops, case_id="c08-chain")
        n += 1
        if "compile_error" in c or c["real"].get("status") != "ok" or "out" not in c["real"]["steps"][0]["resp"]:
            rep.violations.append({"cls": None, "family": "c08-chain", "what": "probe does not run: " + str(c.get("compile_error") or c["real"])[:200], "source": src, "ops": ops})
            continue
        out = c["real"]["steps"][0]["resp"]["out"]
        names = [d.get("name") for d in out["rdirs"]]
        if names != want_names or [l for l in out["content"].split("\n") if l] != [l for l in want_text.split("\n") if l]:
            rep.violations.append({"cls": None, "family": "c08-chain", "source": src, "ops": ops, "variant": "main",
                                   "what": f"the chain shows {out['content']!r} with render directives {names}; every passage of the chain contributes its text and its directives, in order: {want_text!r}, {want_names}"})
    rep.coverage.setdefault("families", {})["c08-chain"] = {"cases": n}
    rep.coverage["evaluations"] = rep.coverage.get("evaluations", 0) + n


def run_c08(rep):
    n, ops = sizes(rep, (400, 14), (6000, 40))
    # (the chain's text must come with the FINAL passage's choices: the C02 oracle judges the offered list, join sections included)
    families.play_family(rep, n, ops, features=dict(top_jumps=0.6, block_jumps=0.7, markers=0.95, loops=0.5, conds=0.8,
                                                    jump_mode_cycles=0.3, params=0.3, join=0.35, odd_names=0.3),
                         weights=dict(choose=65, goto=12, undo=5, redo=3, read=8, bad=3),
                         oracle_names=["oracle_c08", "oracle_c02", "oracle_wasnow"], known_classes=known_classes("C08") | known_classes("C02"), label="c08")
    compile_tie(rep, "c08-compile", dict(top_jumps=0.6, block_jumps=0.7, loops=0.5, conds=0.8, params=0.3, odd_names=0.3))
    c08_chain_probe(rep)
    # the shipped game too: a bundle holds every passage a jump (at any depth, also inside @for) can reach
    import fam_browser
    fam_browser.bundle_check(rep, sizes(rep, 4, 12), rep.seed + 8)
    c08_ring_probes(rep)


def run_c15(rep):
    import fam_fault
    n, ops, per = sizes(rep, (120, 12, 6), (1500, 30, 12))
    fam_fault.fault_family(rep, n, ops, per, known_classes=known_classes("C15"))
    fam_fault.failed_choice_invisible(rep)
    fam_fault.exotic_failures(rep, "C15")
    c10_sessions(rep)      # (a failed choice leaves the @join progress of the displayed passage alone)
    # model tie + undo-after-fault on stories that fail at random points
    n2, ops2 = sizes(rep, (300, 14), (4000, 40))
    families.play_family(rep, n2, ops2, features=dict(faults=0.3, stmt_faults=0.25, hooks=0.4, params=0.5, loops=0.5),
                         weights=dict(choose=60, undo=15, redo=6, goto=6, read=6, bad=3),
                         oracle_names=["oracle_c04", "oracle_c07"], known_classes=known_classes("C15") | known_classes("C07"),
                         label="c15-play")
    # a failing choice among choices that change standard-library objects (and attributes the story put on them): one undo
    # restores everything a story can observe
    import fam_saveload
    fam_saveload.undo_sessions(rep, sizes(rep, 40, 500))


def run_c05(rep):
    import fam_saveload
    n, ops, pts = sizes(rep, (200, 14, 3), (3000, 40, 6))
    fam_saveload.saveload_family(rep, n, ops, pts, known_classes=known_classes("C05"))
    fam_saveload.session_probes(rep)
    import fam_reads
    fam_reads.reads_invisible(rep, sizes(rep, 15, 300), "C05")      # "save_state() ... has no effect on the running game"
    # "every continuation behaves exactly as it would have in the original session": also the 50-step undo limit
    pr = corr_play.run_fixed(":: Start\n~ n = 0\nHi\n+ [again] -> Loop\n\n:: Loop\n~ n = n + 1\nRound {n}\n+ [again] -> Loop\n",
                             [{"op": "choose", "i": 0}, {"op": "save"}, {"op": "fresh_load", "slot": 0}] + [{"op": "choose", "i": 0}] * 58 + [{"op": "undo"}] * 54 +
                             [{"op": "save"}, {"op": "load", "slot": 1}] + [{"op": "choose", "i": 0}] * 53 + [{"op": "undo"}] * 52, case_id="c05-cap-after-load")
    pr["cycles"] = False
    for f in oracles.oracle_c04(pr):
        rep.violations.append(dict(f, family="c05-probe", id="c05-cap-after-load", source=pr["source"], ops=pr["ops"], oracle="oracle_c04", variant="main"))
    import fam_codec
    fam_codec.stdlib_observation_family(rep, sizes(rep, 300, 5000))
    fam_codec.same_name_probe(rep, "C05")
    fam_codec.codec_family(rep, sizes(rep, 400, 6000), sizes(rep, 4, 8))      # every value class of the C06 family through a load
    n2, ops2 = sizes(rep, (300, 16), (4000, 40))
    families.play_family(rep, n2, ops2, features=dict(hooks=0.5, join=0.4, params=0.3),
                         weights=dict(choose=50, save=12, load=8, fresh=8, loadbad=4, undo=6, redo=3, goto=4, read=5),
                         oracle_names=["oracle_c04"], known_classes=known_classes("C05"), label="c05-play")


def run_c20(rep):
    import fam_stdlib
    n, ops = sizes(rep, (600, 30), (20000, 100))
    fam_stdlib.stdlib_family(rep, n, ops)
    fam_stdlib.independence_probe(rep, sizes(rep, 60, 1000))
    fam_stdlib.fractional_weights_probe(rep, sizes(rep, 80, 1500))
    fam_stdlib.reentrant_threshold_probe(rep, sizes(rep, 80, 1500))
    fam_stdlib.shop_consistency_probe(rep, sizes(rep, 100, 2000))


def run_c06(rep):
    import fam_codec
    n, depth = sizes(rep, (2000, 6), (50000, 12))
    fam_codec.codec_family(rep, n, depth)
    fam_codec.stdlib_observation_family(rep, sizes(rep, 300, 5000))
    fam_codec.same_name_probe(rep, "C06")
    fam_codec.history_probes(rep, "C06")
    # names bound by import lines are still usable after a load
    src = ("import math\nfrom bardic.stdlib.dice import roll\nfrom bardic.stdlib.economy import Wallet\n"
           ":: Start\n~ w = Wallet(3)\nhi\n+ [go] -> Next\n\n:: Next\n~ w2 = Wallet(math.floor(2.5))\n"
           "~ name = roll.__name__\nok {w2.gold} {name} {w.gold}\n")
    # classes bound under another name, or reached through their module, are rebuilt as objects too
    for imp, mk in (("from bardic.stdlib.economy import Wallet as Purse2", "Purse2(4)"), ("import bardic.stdlib.economy as eco", "eco.Wallet(4)"),
                    ("import bardic.stdlib as lib", "lib.Wallet(4)"), ("import bardic.stdlib", "bardic.stdlib.Wallet(4)"),
                    ("from bardic import stdlib as sl", "sl.Wallet(4)")):
        src2 = (f"{imp}\n:: Start\n~ w = {mk}\nhi\n+ [go] -> Mid\n\n:: Mid\nmid\n+ [go] -> Last\n\n:: Last\n"
                "{w.gold} {w.can_afford(4)} {type(w).__name__}\n")
        try:
            from common import quiet as _q
            import json as _j
            with _q():
                from bardic.runtime.engine import BardEngine as _E
                e = _E(corr_play.compile_source(src2))
                e.choose(0)
                doc = _j.loads(_j.dumps(e.save_state()))
                e2 = _E(corr_play.compile_source(src2))
                e2.load_state(doc)
                out = e2.choose(0).content
            if "4 True Wallet" not in out:
                rep.violations.append({"cls": None, "what": f"an object of a class imported as `{imp}` is not rebuilt by load_state: {out!r}", "family": "c06-imports", "source": src2})
        except Exception as ex:  # noqa
            rep.violations.append({"cls": None, "what": f"class imported as `{imp}`: {type(ex).__name__}: {ex}", "family": "c06-imports", "source": src2})
        rep.coverage["evaluations"] = rep.coverage.get("evaluations", 0) + 1
    from common import quiet
    import json as _json
    try:
        with quiet():
            from bardic.runtime.engine import BardEngine
            story = corr_play.compile_source(src)
            e = BardEngine(story)
            doc = _json.loads(_json.dumps(e.save_state()))
            e2 = BardEngine(corr_play.compile_source(src))
            e2.load_state(doc)
            out = e2.choose(0).content
        if "ok 2 roll 3" not in out:
            rep.violations.append({"cls": None, "what": f"imported names unusable after load: {out!r}", "family": "c06-imports", "source": src})
    except Exception as ex:  # noqa
        rep.violations.append({"cls": None, "what": f"imported names unusable after load: {type(ex).__name__}: {ex}", "family": "c06-imports", "source": src})
    rep.coverage["evaluations"] = rep.coverage.get("evaluations", 0) + 1


def run_c13(rep):
    import fam_include
    n, mf = sizes(rep, (240, 6), (4000, 10))
    fam_include.include_family(rep, n, mf)
    fam_include.history_probes(rep, "C13")
    fam_include.duplicate_report_probe(rep, "C13")
    # attribution as authors meet it: the location and the numbered context lines of diagnostics across include boundaries
    import fam_diag
    fam_diag.diag_family(rep, sizes(rep, 12, 150), known_classes=known_classes("C14"))


def run_c14(rep):
    import fam_diag
    n = sizes(rep, 40, 400)
    fam_diag.diag_family(rep, n, known_classes=known_classes("C14"))
    import fam_include
    fam_include.duplicate_report_probe(rep, "C14")
    text_tie(rep, "c14-text", quick=(500, 300, 100), thorough=(12000, 8000, 2000), line_is_violation=True)


def run_c18(rep):
    import fam_graph
    n, ops = sizes(rep, (300, 14), (5000, 30))
    fam_graph.graph_family(rep, n, ops, "C18", known_classes=known_classes("C18"))
    fam_graph.fixed_graph_probes(rep, "C18")


def run_c12(rep):
    import fam_graph
    n, ops = sizes(rep, (400, 12), (6000, 30))
    fam_graph.graph_family(rep, n, ops, "C12", known_classes=known_classes("C12"))
    import fam_text
    fam_text.initial_passage_family(rep, sizes(rep, 600, 12000))
    fam_text.symlink_start_probe(rep)
    fam_text.import_lines_probe(rep)
    fam_graph.fixed_graph_probes(rep, "C12")
    text_tie(rep, "c12-text", quick=(200, 200, 150), thorough=(4000, 4000, 3000))


def run_c19(rep):
    import fam_browser
    n, ops = sizes(rep, (240, 16), (3000, 60))
    fam_browser.browser_family(rep, n, ops, known_classes=known_classes("C19"))
    # the browser engine against the browser variant of the model
    n2, ops2 = sizes(rep, (240, 14), (3000, 40))
    families.play_family(rep, n2, ops2, features=dict(hooks=0, join=0, params=0.4, loops=0.5),
                         weights=dict(choose=60, undo=12, redo=8, save=5, load=4, fresh=3, goto=3, read=3, bad=2, loadbad=0),
                         oracle_names=["oracle_c04"], known_classes=known_classes("C19"), variant="browser", label="c19-model")
    fam_browser.long_history_probe(rep)
    fam_browser.import_sessions(rep, sizes(rep, 25, 400))
    fam_browser.render_order_probe(rep)
    fam_browser.bundle_imports_probe(rep)
    fam_browser.bundle_check(rep, sizes(rep, 6, 20), rep.seed)


def run_c16(rep):
    import fam_share
    n, ops = sizes(rep, (200, 14), (3000, 40))
    fam_share.share_family(rep, n, ops)
    fam_share.cross_process(rep, rep.seed, *sizes(rep, (80, 14, (0, 1, 2)), (400, 30, (0, 1, 2, 3, 4, 5, 6, 7))))
    fam_share.compile_determinism(rep, rep.seed, sizes(rep, 60, 800))
    fam_share.engine_isolation(rep)
    fam_share.inputs_isolation(rep, sizes(rep, 40, 600))
    fam_share.mutating_sessions(rep)
    fam_share.inputs_dict_probe(rep)
    import fam_reads
    fam_reads.reads_invisible(rep, sizes(rep, 15, 300), "C16")      # same inputs, same outputs, whatever is read in between
    # compilation is a function of the files as they are NOW: an included file edited between two compilations
    import fam_include
    fam_include.history_probes(rep, "C16")      # every history: failures, repairs, shared files, edits, one output path
    # the model side of the tie: an ordinary play family (the model is a function of story + calls)
    n2, ops2 = sizes(rep, (200, 14), (3000, 40))
    families.play_family(rep, n2, ops2, features=dict(hooks=0.4, join=0.4, render=0.5),
                         weights=dict(choose=60, save=10, load=6, fresh=4, undo=8, redo=5, read=5),
                         oracle_names=[], label="c16-play")


def run_c17(rep):
    import fam_style
    n, k = sizes(rep, (160, 6), (2500, 12))
    fam_style.style_family(rep, n, k)
    fam_style.string_level(rep, rep.seed, sizes(rep, 3000, 60000))
    fam_style.py_body_family(rep, sizes(rep, 300, 6000))
    fam_style.multiline_stmt_family(rep, sizes(rep, 150, 3000))
    text_tie(rep, "c17-text", quick=(100, 200, 400), thorough=(2000, 4000, 10000))


def run_c11(rep):
    import fam_total
    n_seq, max_len, n_mut, depths = sizes(rep, (4000, 6, 1500, [5, 60, 300, 1020]), (120000, 8, 40000, [5, 60, 250, 400, 600, 1100, 1500]))
    fam_total.total_family(rep, n_seq, max_len, n_mut, depths)
    fam_total.include_cases(rep)
    fam_total.fixed_texts(rep)
    fam_total.component_family(rep, sizes(rep, 8000, 160000))
    text_tie(rep, "c11-text", quick=(500, 400, 150), thorough=(15000, 10000, 3000))


def run_c01(rep):
    import fam_compile
    fam_compile.compile_family(rep, sizes(rep, 400, 8000))
    text_tie(rep, "c01-text", quick=(60, 150, 400), thorough=(1000, 3000, 10000))
    c07_sessions(rep)        # a parameter default is part of the source: the same call shows the same thing on every visit
    n, ops = sizes(rep, (800, 14), (8000, 50))
    before = len(rep.disagreements)
    families.play_family(rep, n, ops, features=dict(fam_compile.FEATURES, stmt_faults=0.02),
                         weights=dict(choose=78, goto=5, undo=4, redo=2, read=4, bad=2, save=2, load=1, fresh=1, loadbad=0),
                         oracle_names=["oracle_c01"], known_classes=known_classes("C01"), label="c01-play")
    # the model's rendering IS the reference meaning (render_cItems / render_top): where the real engine's text, choices,
    # directives or variables differ from it on one of these sources, that play-through is a failing input of C01
    for d in rep.disagreements[before:]:
        rep.violations.append({"cls": None, "family": "c01-play", "what": "the real engine's observations differ from the reference meaning "
                               "(engine model, proved equal to the source-level semantics): " + json.dumps(d.get("detail"))[:400],
                               "source": d.get("source"), "ops": d.get("ops"), "variant": "main"})


# ------------------------------------------------------------------------------------------------ registry

PROPS = {
    "C02": dict(
        theorems=[T + "choose_out_of_range_noop", T + "doChoose_history", T + "undo_choose", T + "doChoose_used", T + "isAvail_used",
                  T + "offerChoices_sec", T + "offerChoices_avail", T + "offerChoices_subset", T + "renderPassage_sec",
                  T + "renderFromJoinMarker_sec"],
        run=run_c02,
        rule="stories from the typed generator (conditional / one-time / block / join choices), random walks with "
             "indices drawn from [-2, n+7]; distinct by hash of (source, ops); non-trivial = at least one accepted "
             "choice and one other state-changing call",
    ),
    "C03": dict(
        theorems=[T + "read_noop", T + "reads_noop", T + "current_after_goto", T + "current_after_choose", T + "goto_cached",
                  T + "execCommands_log", T + "executePassage_log"],
        run=run_c03,
        rule="stories with jump chains and hooks; walks interleave read calls (45 %) with navigation; the whole engine "
             "state is compared around every read; distinct by hash; non-trivial as for C02",
    ),
    "C04": dict(
        theorems=[T + "undo_choose", T + "redo_undo", T + "choose_clears_redo", T + "undo_empty_noop", T + "redo_empty_noop",
                  T + "choose_out_of_range_noop", T + "step_WF", T + "run_WF", T + "undo_depth_le_cap", T + "init_WF",
                  T + "undoCap_extracted", T + "abs_step", T + "abs_run", T + "undo_redo_after_any_history",
                  T + "Zip.undo_choose", T + "Zip.redo_undo", T + "Zip.undo_redo", T + "Zip.choose_keeps_older"],
        run=run_c04,
        rule="random words over {choose valid, choose invalid, undo, redo, goto, save/load, reads} on generated stories "
             "with in-place list/dict mutation, chains, hooks, parameters, @join; plus a 60-choice probe crossing the "
             "50-deep bound; distinct by hash; non-trivial = an accepted choice and at least one undo/redo/goto/load",
    ),
    "C07": dict(
        theorems=[T + "goto_scopes_balanced", T + "goto_frame", T + "step_scopes", T + "reachable_no_scope",
                  T + "writeBack_skips", T + "bind_eq_pyCall", T + "validated_bind_never_missing", T + "pyCall_of_valid",
                  "Bardic.engine_split_agrees_with_compiler"],
        run=run_c07,
        rule="stories with parameterised passages (positional / keyword / defaults using earlier parameters / "
             "parameters shadowing globals) called from top-level choices, block choices, top-level and block jumps; "
             "each passage records dict(_local) on entry; the oracle binds the arguments independently by Python's "
             "call rule in the caller's variables; distinct by hash; non-trivial as for C02",
        level_text="proof: goto_frame/step_scopes/reachable_no_scope (scope stack restored by every call, success or "
                   "failure, for every story and Sem), writeBack_skips (parameters and _names never written to the "
                   "globals), bind_eq_pyCall + validated_bind_never_missing (the engine's binding equals Python's call "
                   "rule on every validated call site, for all argument values)",
    ),
    "C08": dict(
        theorems=[T + "renderToks_append", T + "render_stops_at_jump", T + "render_first_jump_wins", T + "gotoLoop_revisit",
                  T + "goto_out_of_fuel", T + "usable_after_failed_goto", T + "goto_frame", T + "goto_outKept",
                  T + "gotoLoop_bound", T + "goto_bound", T + "keys_le_length", T + "goto_failed_keeps_position"],
        run=run_c08,
        rule="jump graphs over 3-6 passages: top-level jumps (forward), jumps inside @if/@for (any direction in 30 % of the "
             "stories, so cyclic chains occur), with arguments; every passage shows a marker line; per-call time limit; "
             "distinct by hash; non-trivial as for C02",
        level_text="proof: renderToks_append / render_stops_at_jump / render_first_jump_wins (a jump keeps what precedes it, "
                   "skips what follows, first jump wins) for every token list and Sem; gotoLoop_revisit / goto_out_of_fuel "
                   "(cycles answer RuntimeError / RecursionError ⊂ RuntimeError); usable_after_failed_goto; gotoLoop_bound / goto_bound — "
                   "the chain loop always ends through the engine's own visited check (pigeonhole over the story's passages: "
                   "keys_le_length), never through the model's explicit bound, so the real `while True` terminates by the same "
                   "argument. The real interpreter's wall-clock behaviour is observed by a per-call timer (partial)",
    ),
    "C09": dict(
        theorems=[T + "runHooks_runs_each_once", T + "triggerEvent_runs_registered", T + "goto_no_hookRun",
                  T + "undo_redo_no_hookRun", T + "register_idempotent", T + "register_order", T + "unregister_keeps_others"],
        run=run_c09,
        rule="stories hooking/unhooking turn_end passages from passages, blocks, join blocks and hooks themselves; every hook "
             "passage appends its name to a list variable; walks with undo/redo/save/load/goto; distinct by hash",
        level_text="proof: a completed trigger runs each registered existing passage exactly once in registration order, "
                   "over a copy of the list (runHooks_runs_each_once, triggerEvent_runs_registered); goto/load/undo/redo "
                   "record no hook run; registration is idempotent, FIFO, and unhooking keeps the others' order",
    ),
    "C10": dict(
        theorems=[T + "goto_joinReset", T + "joinChoice_advances", T + "undo_choose", T + "goto_failed_keeps_position", T + "goto_failed_keeps_join",
                  T + "renderFromJoinMarker_sec", T + "renderPassage_sec"],
        run=run_c10,
        rule="passages with 1-3 @join markers and mixes of join / ordinary / conditional / one-time choices, re-entered by "
             "choice, goto and jumps inside blocks; each join block bumps its own counter; distinct by hash",
        level_text="proof: goto_joinReset (after any successful navigation the passage it ends in is at section 0, however it "
                   "was entered) and joinChoice_advances (a join choice moves exactly that passage from k to k+1), for every "
                   "story and Sem; block-only-once and section text by oracle + correspondence",
    ),
    "C15": dict(
        theorems=[T + "expr_contained", T + "expr_fault_marker", T + "branch_cond_fault_skips", T + "choice_cond_fault_hides",
                  T + "stmt_fault_raises", T + "block_fault_raises", T + "render_stmt_fault_propagates", T + "execCommands_fault",
                  T + "renderToks_errOk", T + "step_scopes", T + "undo_choose", T + "usable_after_failed_goto"],
        run=run_c15,
        rule="fault injection on the real engine: for fault-free generated stories and recorded histories, one author-code "
             "site (statement, block, argument list, default, display expression, branch/choice/inline condition, loop "
             "collection, render arguments) of the compiled story is made to fail and the history replayed (metamorphic "
             "oracle, see harness/fam_fault.py); plus a play family with random faults checked against the model and the "
             "undo oracle; distinct by hash of (source, ops, site)",
        level_text="proof (for every Sem, i.e. every way author code can fail): a display expression never raises nor "
                   "changes state and a failing one yields an {ERROR marker; a failing branch/choice condition skips/hides; "
                   "a failing statement/block makes the render and the passage execution raise RuntimeError "
                   "(render_stmt_fault_propagates, execCommands_fault), render errors are only Runtime/ValueError "
                   "(renderToks_errOk); no scope is left (step_scopes) and one undo restores the pre-choice situation "
                   "(undo_choose, which holds for choices that raised)",
    ),
    "C05": dict(
        theorems=[T + "save_noop", T + "load_rejects_malformed", T + "load_rejects_unknown_passage", T + "load_clears_history",
                  T + "load_installs_used", T + "save_doc", T + "read_noop", T + "goto_no_hookRun"],
        run=run_c05,
        rule="save after a random call of generated histories (position, variables, used choices, hooks, join progress "
             "all exercised), JSON text round trip, load into a fresh engine, compare the whole situation and up to 8 "
             "continuation calls with the original session; one malformed document per save point against the running "
             "game; plus a play family with save/load/fresh-load ops against the model; distinct by hash of (source, ops)",
        level_text="proof: save is effect-free (save_noop/read_noop), malformed documents and unknown passages are rejected "
                   "with ValueError with the whole engine state unchanged, an accepted load clears both histories whether "
                   "the re-entry succeeds or raises, installs the document's used choices, and runs no hooks; the "
                   "'continues exactly like the original' clause is false of the code (recorded finding C05-F1: load "
                   "re-enters the saved passage) and is decided by the oracle, which accepts exactly that deviation",
    ),
    "C20": dict(
        theorems=["Bardic.Stdlib." + t for t in ["wallet_nonneg", "spend_all_or_nothing", "wallet_dict_roundtrip",
                  "add_respects_limit", "add_keeps_within", "inventory_weight_le", "buy_atomic", "sell_atomic",
                  "relationship_ranges", "threshold_iff_upcross", "rel_dict_roundtrip", "roll_bounds"]],
        run=run_c20,
        rule="operation sequences (≤ 30 quick / 100 thorough) over small integer domains on the real Wallet, Inventory, "
             "Shop (sell-back rates and discounts 0, 1/2, 1, 3/2, 2; duplicate stock names) and Relationship (subclass "
             "recording threshold hooks), dice notations NdS±M with random.randint fed from the case; every object "
             "observed after every call and compared with the Lean model; the invariants are also evaluated directly on "
             "the real observations; distinct by hash of the case",
        level_text="proof over all operation sequences of any length and all integer arguments: wallet_nonneg, "
                   "spend_all_or_nothing, add_respects_limit / inventory_weight_le (non-negative weights), buy_atomic "
                   "(non-negative price), sell_atomic, relationship_ranges, threshold_iff_upcross, dict round trips, "
                   "roll_bounds; float weights / rates are outside the model (partial, named)",
        assumptions=["integer weights, values and amounts; rates and discounts are dyadic rationals so that the float arithmetic of the real code is exact"],
    ),
    "C06": dict(
        theorems=["Bardic.Codec." + t for t in ["codec_roundtrip", "roundtrip_list", "roundtrip_kvs", "dec_typed",
                                                "lookup_encKVs_none", "encPublic_eq_encKVs", "dec_wrapped"]],
        run=run_c06,
        rule="random value trees (depth ≤ 6 quick / 12 thorough) over None, bool, int, str, list, tuple, string-keyed dict, "
             "plain attribute objects (Card, Deck holding lists/dicts of values), custom-serialised objects (Purse, whose "
             "data holds further values), stdlib Wallet / Inventory / Relationship; through the real save_state → json → "
             "load_state of a fresh engine; serialised form and rebuilt value compared with the Lean model; equality, type "
             "and a method call checked on the real result; plus an import-names probe; distinct by hash of the value",
        level_text="proof: codec_roundtrip — for every value of the supported domain (explicit decidable predicate: no "
                   "reserved _type key, registered classes, plain objects without underscore attributes) at any nesting "
                   "depth, decode(encode(v)) is v with tuples as lists, by mutual structural induction on the value tree",
    ),
    "C13": dict(
        theorems=["Bardic.Include." + t for t in ["resolve_provenance", "resolveLines_prov", "resolve_len", "resolve_cycle",
                                                   "resolve_missing", "display_origin"]] + [T + "entryPoints_resolve_includes"],
        run=run_c13,
        rule="include graphs of 1-6 (thorough: 10) files in nested directories with relative paths (../, ./), trees, diamonds, "
             "cycles, self-includes, missing leaves, leading blank lines, files with and without a final newline, @include "
             "without / with several paths; materialised in a temp directory (removed afterwards); resolve_includes compared "
             "with the Lean resolver; parse_file, compile_file, bundle and `bardic play` compared with compiling the "
             "independently substituted text; distinct by hash of the file set",
        level_text="proof: resolve_provenance — for every file system, include graph and depth, each combined line is "
                   "literally the attributed line of the attributed file and no @include line survives; one map entry per "
                   "line (resolve_len); a path on the current branch is rejected (resolve_cycle), a missing file reported "
                   "(resolve_missing); extracted-table theorem: every .bard entry point compiles through a resolving function",
    ),
    "C14": dict(
        theorems=["Bardic.Include.display_origin", "Bardic.Include.resolve_provenance", T + "errorSites_unshifted",
                  "Bardic.Parser.parseLines_diag_in_text", "Bardic.Parser.parseStory_diag_in_text", "Bardic.Parser.parseText_diag_in_text",
                  "Bardic.Parser.diag_names_true_origin", "Bardic.Parser.blocks_rng", "Bardic.Parser.coreLoop_rng",
                  "Bardic.Parser.splitNl_noNl", "Bardic.Parser.multiline_spec"],
        run=run_c14,
        rule="~30 kinds of single malformed construct (hooks, render, input, bad ~ statement incl. multi-line, unbalanced "
             "braces, @if/@elif/@else/@for/@py headers in both syntaxes, @endif:/@endfor:, malformed choices, passage names "
             "and parameter lists, unclosed blocks) placed at a random top-level position of each of 40 (thorough 400) "
             "valid stories, in the main file, inside an included file, or after included content; file and line parsed "
             "from the diagnostic; distinct by hash of (files, kind)",
        level_text="proof: display_origin (composition of the resolver's provenance theorem with the header of format_error: a "
                   "site that passes the 0-based combined index of the offending line names exactly the file and 1-based "
                   "line the author wrote, in every include graph) + errorSites_unshifted, a kernel-checked theorem over the "
                   "table of all 42 format_error call sites and 8 forwarding calls re-extracted from the source on every run "
                   "(each passes the index unshifted); on the whole text-level parser model, parseLines_diag_in_text: for every text "
                   "and every behaviour of ast.parse a located diagnostic names a line OF the text (the line the loop "
                   "stands on, the opening line of an unclosed block, a line of a multi-line statement or of a join block), and "
                   "diag_names_true_origin: composed with the include resolver, the file and 1-based line in the diagnostic's header "
                   "exist in a file the author wrote and read exactly the combined line the parser was looking at; that this line is "
                   "the one the malformed construct stands on is decided by the placement oracle and the text correspondence",
    ),
    "C18": dict(
        theorems=[T + "renderToks_sub", T + "renderTok_sub", T + "renderBranches_sub", T + "renderChoiceTexts_sub",
                  T + "renderPassage_in_graph", T + "offerChoices_subset", T + "firstJumpSpec_in", T + "missing_exact",
                  T + "tokenKinds_covered"],
        run=run_c18,
        rule="compiled generated stories (choices and jumps at top level and nested in @if/@for to depth 2-3, @join, hooks), "
             "45 % with one corrupted call site (unknown target etc.), and every .bard file of the repository; real "
             "extract_connections vs the Lean model and vs a generic walk of the story; transitions observed in random "
             "play-throughs must be edges; distinct by hash of the source",
        level_text="proof: renderToks_sub (mutual induction over the token tree, for every Sem): every block choice a render "
                   "hands out and every jump target it reports is found by the static walk; renderPassage_in_graph lifts it "
                   "to offered choices and jumps of a passage, firstJumpSpec_in to immediate jumps; missing_exact: flagged = "
                   "referenced ∧ undefined, and @join is never a reference",
    ),
    "C12": dict(
        theorems=[T + "bind_eq_pyCall", T + "validated_bind_never_missing", T + "pyCall_of_valid", T + "renderPassage_in_graph", T + "tokenKinds_covered",
                  T + "wfAll_offered_target_exists", T + "wfAll_jump_target_exists", T + "compileStory_keys", T + "compileStory_initial",
                  "Bardic.Parser.parseStory_wf", "Bardic.Parser.parseStory_choice_targets", "Bardic.Parser.coreLoop_keys",
                  "Bardic.engine_split_agrees_with_compiler", "Bardic.engine_split_of_extract", "Bardic.matchParenQ_spec", "Bardic.findCloseQ_matchParenQ"],
        run=run_c12,
        rule="every story the real compiler accepts among generated sources (45 % with one call site corrupted: unknown "
             "target, surplus / unknown / missing / duplicate argument, at top level or nested in a block) and the "
             "repository's stories: JSON round trip, initial passage, keys = ids, token kinds, every call site judged by "
             "Python's ast + call rule independently, navigation errors in play; model predicates wfTop / wfAll compared",
        level_text="proof for validated (top-level) call sites: a site accepted by the validator can never raise a "
                   "missing/surplus/unknown/duplicate-argument error (bind_eq_pyCall, validated_bind_never_missing), and all "
                   "targets a play can reach are statically visible sites (renderPassage_in_graph); wfAll_offered_target_exists / "
                   "wfAll_jump_target_exists — in a story whose call sites at EVERY depth are valid, every choice a passage can "
                   "ever offer and every jump a rendering reports names an existing passage (or is -> @join), for every state and "
                   "author code; compileStory_keys / _initial (keys = ids, the initial passage exists); parseStory_wf / "
                   "parseStory_choice_targets on the TEXT-LEVEL parser model — every story parse() returns, for any text and any "
                   "behaviour of CPython's parser, keys each passage by its own id (coreLoop_keys, an invariant of the line "
                   "classifier), names an existing initial passage (@start, else Start, else the first) that has no parameter "
                   "without default, and passed the argument validator on every top-level choice and jump, whose targets are "
                   "therefore @join or defined passages; sites nested in blocks "
                   "are not validated by the compiler — recorded finding C12-F1 — so the navigation-safety clause is decided "
                   "by the oracle, which accepts exactly that class",
    ),
    "C19": dict(
        theorems=[T + "renderToks_common", T + "renderTok_common", T + "renderBranches_common", T + "renderChoiceTexts_common",
                  T + "renderToks_plain_eq", T + "loopItems_common"],
        run=run_c19,
        rule="stories in the common feature subset (no hooks, no @join; parameters, loops, conditionals, one-time and block "
             "choices, inputs, faults) played on the real main engine and the real engine_browser.BardEngine (imported from "
             "the template file) with the same choose / undo / redo / save / load / fresh-load history, every response and "
             "state compared (save data modulo the hooks key); the browser engine also against the browser variant of the "
             "Lean model; bundles (half through an @include, re-bundled after edits) compared with compile_file",
        level_text="proof: renderToks_common — on the common subset whatever the main engine's render yields successfully the "
                   "browser copy's render yields too (same text, jump, directives, same state), by mutual induction, for every "
                   "Sem; the remaining difference (a failing loop: inline marker vs ValueError) is recorded finding C19-F1; "
                   "navigation, undo/redo and save/load of the browser copy are tied to the model's browser variant by "
                   "correspondence and to the main engine by the differential oracle (partial: the Pyodide/JS half of a "
                   "bundle is not modelled)",
    ),
    "C16": dict(
        theorems=["Bardic.Own.regions_separate", "Bardic.Own.step_inv", "Bardic.Own.init_inv", "Bardic.Own.story_root_constant",
                  T + "run_deterministic", T + "storyWrites_none", T + "save_doc"],
        run=run_c16,
        rule="generated stories and histories: run twice; two engines built on ONE story object driven under a random "
             "interleaving vs solo runs; the story deep-compared before/after; a save document taken at a random call is "
             "id-walked against the live state and hooks, deep-compared after later play, and scribbled over after being "
             "loaded; compile + play + save repeated in subprocesses with different PYTHONHASHSEED and compared byte for byte",
        level_text="proof: regions_separate — in the ownership model of the engines' copy discipline (deep copies on snapshot, "
                   "save and load; restore moves a snapshot's containers) no region is ever reachable from two roots, and the "
                   "story root is never replaced, for every history; storyWrites_none — kernel-checked over the table of "
                   "alias-into-the-story mutation sites re-extracted from both engines on every run (empty); the model being a "
                   "function, determinism is definitional there and is established for the code by the differential runs",
    ),
    "C17": dict(
        theorems=["Bardic.Parser." + t for t in ["strip_comment_suffix", "strip_keeps_escaped", "strip_keeps_floordiv_assign",
                                                  "strip_noslash", "dedent_uniform", "dedent_comment_head", "directive_comment_invisible", "prepass_comment_invisible", "parseLines_comment_invisible", "contentLine_comment_invisible"]],
        run=run_c17,
        rule="each generated story (parameters, @if/@for nesting, @py blocks, hooks, @join blocks, render/input directives, "
             "block and conditional choices, jumps) is printed once plainly and in 6 (thorough 12) random style vectors over "
             "{legacy <<…>> vs @ forms, # comment lines between items, a trailing // comment per kind of line (text, ~, "
             "choice, passage header, @if/@elif/@else heads, @for head, @endif/@endfor, @py:/@endpy, @render, @input, "
             "@hook/@unhook, jump, @join), body indentation '', 2, 4 blanks or a tab}; the real compiler's outputs must be "
             "equal as JSON values; plus random strings over a comment-heavy alphabet through strip_inline_comment and "
             "random line groups through detect_and_strip_indentation against the Lean definitions; distinct by hash of source",
        level_text="proof: strip_comment_suffix (the kept part never depends on what follows the first unescaped // that is "
                   "not //=), strip_keeps_escaped, strip_keeps_floordiv_assign, strip_noslash (a line without '/' is returned "
                   "unchanged) and dedent_uniform (adding the same blank prefix to every line of a body does not change the "
                   "dedented body) for all strings; contentLine_comment_invisible (the content tokenizer gives the same tokens "
                   "for a line with and without a trailing // comment); dedent_comment_head (a # comment line above a body does not "
                   "set its indentation base); on the WHOLE text-level parser model: parseLines_comment_invisible — the story or "
                   "diagnostic parse() answers is the same with and without a trailing // comment on a directive line (@endif, "
                   "@endfor, @endpy, @py, @else, @join, @hook, @unhook, @start, ->, >>), wherever the line stands, whatever its "
                   "indentation and whatever the comment says, as long as the pre-pass is in the state in which the line is "
                   "commentable (outside Python blocks; inside one, the block's closer) — prepass_comment_invisible by induction over "
                   "the lines before it, directive_comment_invisible for the line itself; the remaining style dimensions (legacy/@ "
                   "heads, comments on content / choice / header lines through the classifier, body indentation through the block "
                   "extractors) are decided by the style-vector oracle on the real compiler and by the text correspondence",
    ),
    "C11": dict(
        theorems=["Bardic.Parser." + t for t in ["extractPassageParams_ok", "extractTargetAndArgs_ok", "parsePassageParams_ok",
                                                  "validatePassageName_ok", "scanBrackets_ok", "multiline_ok", "pyNew_ok",
                                                  "pyOld_consumed", "findClose_bound", "parseContentLine_terminates", "contentLine_fuel",
                                                  "splitExprs_length", "parseTags_length", "validateChoice_ok", "condScan_ok",
                                                  "bracketStage_ok", "parseText_no_internal", "blocks_good", "coreLoop_good", "parseText_no_fuel", "parseText_total", "blocks_ok", "coreLoop_ok"]] + [T + "loopPaths_advance"],
        run=run_c11,
        rule="(a) line sequences (1-6, thorough 1-8 lines plus continuations) over a vocabulary of ~330 valid and broken forms "
             "of every kind of line (headers, text with braces / inline conditionals, ~ statements with open brackets, "
             "@py / <<py, @if / @elif / @else / @endif and legacy forms, @for, choices, jumps, @join, @hook, @render, @input, "
             "@start, @metadata, @include, imports, comments, blanks) at 4 indentations; (b) 1-4 token-level mutations (delete / "
             "duplicate / swap / truncate line, insert vocabulary line, delete or insert a special character, truncate file, "
             "strip or add indentation) of every .bard file of the repository; (c) nesting probes (blocks, inline "
             "conditionals, braces, brackets, parameter lists nested 5 … 1100 deep); (d) @include of a missing file, a cycle, "
             "itself, a broken file, nothing, a directory, through compile_file; each compilation under a per-call timer, "
             "the outcome classified by exception type AND by whether a raise statement of the compiler produced it; "
             "(e) random inputs to ten parser components (incl. the content tokenizer parse_content_line and parse_tags) against "
             "their Lean models; (f) the WHOLE text-level parser model (parseText) against the real parse() on generated stories in every "
             "surface style, all repository .bard files, mutations of both and vocabulary sequences: story or diagnostic class and "
             "line must agree exactly (CPython's ast.parse answers recorded from the real run and handed to the model as a table); "
             "distinct by hash of the text",
        level_text="proof: parseText_total = parseText_no_internal + parseText_no_fuel — for EVERY source text and every behaviour of "
                   "CPython's own parser the model of parse() answers a story or a deliberate diagnostic (SyntaxError / ValueError): "
                   "no internal error, and no loop that fails to advance (every while of the parser has one unit of fuel per "
                   "iteration; with three units per line the fuel is never exhausted: a Python block uses >= 2 lines, a multi-line "
                   "statement >= 1, a nested @if / @for block >= 1 and is extracted strictly behind its parent's opening line — "
                   "blocks_ok by induction, coreLoop_ok). parseText_no_internal — for EVERY source text and every behaviour of CPython's own parser, the model of "
                   "parse() (strip_directive_comments, the line classifier of core.py, extract_python/conditional/loop/join blocks, "
                   "parse_choice_line, @render/@input lines, parse_content_line, the regular expressions run by a backtracking matcher "
                   "with Python's search order, whitespace cleanup, duplicate check, call validation, initial passage) never ends in "
                   "an internal error: every partial Python operation (s.index, s[0], lines[i], tuple unpacking, unbound locals) is an "
                   "explicit failure point shown unreachable (blocks_good: the four mutually recursive block functions by induction "
                   "on the loop fuel; coreLoop_good). Component theorems, every partial Python operation written as an explicit failure point: "
                   "extract_passage_params, extract_target_and_args, _split_on_commas + parse_passage_params, "
                   "validate_passage_name (for every Unicode character classification), extract_multiline_expression and both "
                   "Python-block extractors never reach an internal error, use at least one (two) lines and stay inside the "
                   "text (…_ok, multiline_ok, pyNew_ok, pyOld_consumed); parseContentLine_terminates / contentLine_fuel — the "
                   "recursive content tokenizer (tags, {…} splitting, nested inline conditionals) terminates on every line, its "
                   "recursion depth bounded by the line's length; loopPaths_advance — kernel-checked over the table of "
                   "all 70 ways to reach the next iteration of the 11 while loops of the compiler, re-extracted by a "
                   "must-analysis on every run: each advances the index. Partial: the regular expressions are run by the model's own "
                   "backtracking matcher (its fuel exhaustion reads as no-match; CPython's re is modelled, tied by the text correspondence); "
                   "deep nesting (RecursionError turned into SyntaxError by parse()) and non-ASCII letters are outside the model; "
                   "CPython's wall-clock behaviour is observed by a timer, not modelled",
    ),
    "C01": dict(
        theorems=[T + t for t in ["renderExpr_ref", "renderTok_inl", "renderToks_inls", "renderToks_attachTags", "render_line",
                                  "render_cItem", "render_cItems", "render_cBranches", "renderChoiceTexts_ref", "render_top",
                                  "compilePassage_execute", "compilePassage_content", "mergeTexts_text", "cleanup_spec", "cleanup_noCond",
                                  "trimTrailing_prefix", "renderToks_append", "read_noop"]],
        run=run_c01,
        rule="source ASTs from the typed generator (parameters; content lines of text / {expr} / {expr:spec} / {c ? a | b} parts with "
             "tags, glue, trailing comments, escaped slashes, apostrophes; blank lines; # comments; ~ statements; @py blocks; "
             "@if/@elif/@else and @for nested to depth 2-3 with statements, directives, choices and jumps inside; @render, @input, "
             "@hook, @join sections with choice blocks; top-level and block jumps) printed as .bard text: (1) the real compiler's "
             "story must equal Src.compileStory of the AST (every passage: content, execute, choices, inputs, params, tags; "
             "compile_file + json.load = compile_string on every 4th); (2) on every 8th and on every mismatch the real engine "
             "plays both the real and the reference compilation under 3 random walks; (3) generated play-throughs on the real "
             "engine against the engine model, whose rendering is proved equal to the reference semantics; distinct by hash of source",
        level_text="proof: render_cItems / render_cItem / render_cBranches (mutual induction over the source syntax, for every Sem): "
                   "rendering the compiled tokens of a body is the documented meaning of its items — a content line is the text "
                   "of its parts plus one newline unless glued (render_line), tags and comments show nothing, {code:spec} formats "
                   "(renderExpr_ref), {c ? a | b}, statements run where they stand, @if takes the first truthy branch, @for binds, "
                   "renders and offers per element, a jump ends the rendering; render_top + compilePassage_execute: top-level "
                   "commands are exactly the execute list in order and run before the text, @input / choices / comments add no "
                   "text, @join ends the section; cleanup_spec: only newline tokens are ever dropped. Hypotheses: colonSafe "
                   "(the engine's first-colon split reads {code:spec} as written — false for slices / dict displays, recorded "
                   "finding C01-F2) and glueSafe for the compile model (finding C01-F1). Partial: the parser is modelled by "
                   "compileStory on generated sources (checked against the real compiler every run), not as a text parser",
    ),
}


NOT_YET = {}

for _k, _t in {
    "C02": "proof, for every story, Sem and engine state: choose_out_of_range_noop / doChoose_history / undo_choose; doChoose_used (a valid index records exactly the identity of the i-th SHOWN choice when it is one-time, whatever the navigation then does) and isAvail_used (a used one-time choice is not available); offerChoices_sec / _avail / _subset (every choice handed out passed the section test and the availability test and is one of the passage's or the render's). That the offered list is ALL enabled choices in the variables as they stand is decided by the oracle on the real engine (false in two recorded classes)",
    "C03": "proof: read_noop/reads_noop (every read call leaves the whole engine state unchanged), goto_cached, current_after_goto, current_after_choose; executePassage_log / execCommands_log (a successful entry records the entry once and then exactly one event per command, in source order, before any text is rendered) for every story, Sem and state; once-per-chain entry counting by oracle on the real engine",
    "C04": "proof: refinement of the whole undo/redo machinery to a zipper of observations (past <= 50, present, future): abs_step (every API call moves the abstraction exactly as the zipper does, told only whether the call was accepted and which observation it ended in) and abs_run (every history of calls of any length from every reachable state), with the zipper laws Zip.undo_choose / redo_undo / undo_redo / choose_keeps_older and the engine-level corollary undo_redo_after_any_history; plus undo_choose, redo_undo, choose_clears_redo, empty no-ops, rejected index no-op and the invariant run_WF / undo_depth_le_cap; extracted maxlen table proved equal to the model's cap. In-place mutation of shared objects is outside Sem's value semantics and is decided by the alias / stdlib families on the real engine",
}.items():
    PROPS[_k]["level_text"] = _t


def known_classes(prop):
    return {f["cls"] for f in framework.load_findings(prop) if f["cls"]}


ORACLES_FOR = {"C02": ["oracle_c02"], "C03": ["oracle_c03"], "C04": ["oracle_c04"], "C07": ["oracle_c07"], "C08": ["oracle_c08"], "C09": ["oracle_c09"], "C10": ["oracle_c10"], "C15": ["oracle_c04", "oracle_c07"], "C05": ["oracle_c04"]}


def replay_findings(prop, rep):
    """Replay every listed finding's witness on the real code; print KNOWN-FINDING while it still fails."""
    lines = []
    for f in framework.load_findings(prop):
        w = f.get("witness")
        still = True
        if w and os.path.exists(os.path.join(VERIF, w)):
            wj = json.load(open(os.path.join(VERIF, w)))
            still = witness_fails(wj)
            if still is None:
                rep.notes.append(f"witness {w} could not be replayed")
                still = True
        if still:
            lines.append(f"KNOWN-FINDING: property={prop} {f['text']}")
        else:
            rep.notes.append(f"finding {f['id']} no longer reproduces (fixed?)")
    return lines


def witness_fails(wj):
    fam = wj.get("family", "play")
    if fam == "play":
        c = corr_play.run_fixed(wj["source"], wj["ops"], wj.get("variant", "main"))
        if "compile_error" in c:
            return None
        c["cycles"] = False
        fs = getattr(oracles, wj["oracle"])(c)
        return any(f["cls"] == wj.get("cls") for f in fs)
    if fam == "outtext":
        c = corr_play.run_fixed(wj["source"], wj["ops"])
        if "compile_error" in c:
            return None
        outs = [c["real"].get("init", {}).get("out", {})] + [st["resp"].get("out", {}) for st in c["real"].get("steps", []) if isinstance(st.get("resp"), dict)]
        if "bad_pid" in wj:      # the finding persists while the last call still ends in that passage
            return bool(outs) and (outs[-1] or {}).get("pid") == wj["bad_pid"]
        return any(wj["bad_substring"] in (o or {}).get("content", "") for o in outs)
    if fam == "browser":
        import fam_browser
        c = corr_play.run_fixed(wj["source"], wj["ops"])
        if "compile_error" in c:
            return None
        return any(f["cls"] == wj.get("cls") for f in fam_browser.compare_engines(c))
    if fam == "wf":
        import fam_graph
        try:
            story = corr_play.compile_source(wj["source"])
        except Exception:  # noqa
            return False      # the compiler now rejects it: the finding no longer reproduces
        sites = fam_graph.all_sites(story)
        return any(n and not fam_graph.site_ok(story, t, a, j) for (s_, t, a, n, j) in sites)
    if fam == "diag":
        import fam_diag, tempfile, shutil, os
        d = tempfile.mkdtemp(prefix="verif_w_")
        try:
            main = os.path.join(d, "main.bard")
            open(main, "w").write(wj["source"])
            kind, rf, rl, msg = fam_diag.compile_and_locate(main)
        finally:
            shutil.rmtree(d, ignore_errors=True)
        return kind in ("SyntaxError", "ValueError") and rl is None
    if fam == "saveload":
        import fam_saveload, random
        c = corr_play.run_fixed(wj["source"], wj["ops"])
        if "compile_error" in c:
            return None
        class R:   # deterministic "rng": always the witness's save point, a harmless malformed doc
            def randrange(self, n): return wj.get("save_after", 0)
            def choice(self, xs): return xs[0]
        fs, _ = fam_saveload.check_case(c, R(), 1)
        return any(f["cls"] == wj.get("cls") for f in fs)
    return None


def replay(prop, path):
    wj = json.load(open(path))
    print(json.dumps({k: wj.get(k) for k in ("property", "kind", "family", "oracle", "cls", "what", "step", "no_longer_checks")}, indent=1))
    if "source" in wj and "ops" in wj:
        c = corr_play.run_fixed(wj["source"], wj["ops"], wj.get("variant", "main"))
        if "compile_error" in c:
            print("compile error:", c["compile_error"])
            return 1
        c["cycles"] = False
        fails = []
        for on in ORACLES_FOR.get(prop, []):
            fails += getattr(oracles, on)(c)
        res = corr_play.run_cases([c])
        print("source:\n" + wj["source"])
        print("ops:", json.dumps(wj["ops"]))
        print("oracle failures on the current tree:", json.dumps(fails, indent=1))
        print("model/implementation:", res[0]["verdict"] if res else "n/a", res[0]["detail"] if res else "")
        return 1 if fails or (res and res[0]["verdict"] == "disagree") else 0
    return 1
