"""Case families shared by several properties: generate -> real code -> Lean model -> compare -> oracle."""
import json
import os
import time

from common import run_driver, chash, rng_for
import corr_play
import framework
from compare import compare_play


def _play_chunk(arg):
    (seed, idxs, features, n_ops, weights, variant, oracle_names, max_depth, label, model) = arg
    import oracles
    cases = []
    for idx in idxs:
        c = corr_play.make_case(seed, f"{label}:{idx}", features, n_ops, variant, weights, max_depth)
        cases.append(c)
    stats = {"cases": len(cases), "compile_errors": 0, "agree": 0, "unmodelled": 0, "init_error": 0,
             "ops": {}, "features": {}, "timeouts": 0, "steps": 0, "raises": {}}
    disagreements, failures, samples, hashes = [], [], [], []
    try:
        results = corr_play.run_cases(cases) if model else [{"id": c["id"], "verdict": "agree", "detail": None} for c in cases if "real" in c]
    except Exception as e:  # noqa
        return {"stats": stats, "infra": f"driver: {e}", "disagreements": [], "failures": [], "samples": [], "hashes": []}
    by_id = {r["id"]: r for r in results}
    for c in cases:
        if "compile_error" in c:
            stats["compile_errors"] += 1
            continue
        for k, v in c.get("stats", {}).items():
            stats["features"][k] = stats["features"].get(k, 0) + v
        real = c["real"]
        if real.get("status") == "unmodelled":
            stats["unmodelled"] += 1
            continue
        if real.get("status") == "init_error":
            stats["init_error"] += 1
        stats["timeouts"] += real.get("timeouts", 0)
        for op, st in zip(c.get("ops", []), real.get("steps", [])):
            stats["ops"][op["op"]] = stats["ops"].get(op["op"], 0) + 1
            stats["steps"] += 1
            if "raise" in st["resp"]:
                k = st["resp"]["raise"]
                stats["raises"][k] = stats["raises"].get(k, 0) + 1
        r = by_id.get(c["id"])
        if r is None:
            continue
        if r["verdict"] == "agree":
            stats["agree"] += 1
        elif r["verdict"] == "unmodelled":
            stats["unmodelled"] += 1
        else:
            disagreements.append({"family": label, "id": c["id"], "detail": r["detail"], "source": c["source"],
                                  "ops": c["ops"], "variant": variant})
        c["cycles"] = False
        for on in oracle_names:
            for f in getattr(oracles, on)(c):
                failures.append({"family": label, "oracle": on, "id": c["id"], "cls": f["cls"], "step": f["step"],
                                 "what": f["what"], "source": c["source"], "ops": c["ops"], "variant": variant})
        hashes.append((chash([c["source"], c["ops"]]), _nontrivial(c)))
        if len(samples) < 1 and c.get("ops"):
            samples.append({"source": c["source"][:1500], "ops": c["ops"][:14]})
    return {"stats": stats, "disagreements": disagreements, "failures": failures, "samples": samples, "hashes": hashes}


def _nontrivial(c):
    """a case is non-trivial when at least one choice was accepted and one other state-changing op ran"""
    ops = c.get("ops", [])
    steps = c["real"].get("steps", [])
    accepted = sum(1 for o, s in zip(ops, steps) if o["op"] == "choose" and "out" in s["resp"])
    other = sum(1 for o in ops if o["op"] in ("undo", "redo", "goto", "load", "fresh_load"))
    return accepted >= 1 and other >= 1


def merge(a, b):
    for k, v in b.items():
        if isinstance(v, dict):
            a.setdefault(k, {})
            merge(a[k], v)
        elif isinstance(v, (int, float)):
            a[k] = a.get(k, 0) + v
    return a


def play_family(rep, n_cases, n_ops, features=None, weights=None, oracle_names=(), known_classes=(),
                variant="main", max_depth=2, label="play", nproc=16, model=True):
    """Run one engine-play family; fills the report.  Returns aggregated stats."""
    chunk = max(1, min(25, n_cases // nproc or 1))
    idxs = list(range(n_cases))
    args = [(rep.seed, idxs[i:i + chunk], features, n_ops, weights, variant, tuple(oracle_names), max_depth, label, model)
            for i in range(0, n_cases, chunk)]
    outs = framework.pmap(_play_chunk, args, nproc)
    stats = {}
    hashes = {}
    for o in outs:
        merge(stats, o["stats"])
        if o.get("infra"):
            rep.infra_errors.append(o["infra"])
        rep.disagreements.extend(o["disagreements"])
        for f in o["failures"]:
            if f["cls"] is not None and f["cls"] in known_classes:
                rep.known_hits[f["cls"]] = rep.known_hits.get(f["cls"], 0) + 1
            else:
                rep.violations.append(f)
        if len(rep.samples) < 3:
            rep.samples.extend(o["samples"])
        for h, nt in o["hashes"]:
            hashes[h] = hashes.get(h, False) or nt
    if stats.get("cases", 0) and stats.get("unmodelled", 0) > 0.1 * stats["cases"]:
        rep.infra_errors.append(f"family {label}: {stats['unmodelled']} of {stats['cases']} cases fall outside the modelled fragment "
                                "(generator and MiniPy out of step)")
    cov = rep.coverage
    cov["evaluations"] = cov.get("evaluations", 0) + stats.get("cases", 0)
    cov["programs"] = cov.get("programs", 0) + stats.get("cases", 0) - stats.get("compile_errors", 0)
    if model:
        cov["traces_validated_against_impl"] = cov.get("traces_validated_against_impl", 0) + stats.get("agree", 0)
    cov["distinct_nontrivial"] = cov.get("distinct_nontrivial", 0) + sum(1 for v in hashes.values() if v)
    cov.setdefault("families", {})[label] = stats
    return stats
