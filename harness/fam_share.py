"""C16: determinism and non-sharing, on the REAL code.

 * the same compiled story and history give the same observations when run twice, when two engines
   share ONE story object under a random interleaving, and in processes with different hash seeds;
 * the compiled story is never modified (deep comparison before / after);
 * a save document taken earlier is not changed by later play and shares no container with the game;
   changing a document after it was loaded does not change the game.
"""
import copy
import hashlib
import json
import os
import subprocess
import sys

from common import REPO, VERIF, rng_for, chash, quiet
import corr_play
import real_play
import framework
from compare import norm


def container_ids(obj, acc=None):
    """ids of every mutable container reachable from obj"""
    acc = acc if acc is not None else set()
    if isinstance(obj, (list, dict, set)):
        if id(obj) in acc:
            return acc
        acc.add(id(obj))
        for v in (obj.values() if isinstance(obj, dict) else obj):
            container_ids(v, acc)
    elif hasattr(obj, "__dict__") and not isinstance(obj, type) and not callable(obj):
        if id(obj) in acc:
            return acc
        acc.add(id(obj))
        container_ids(vars(obj), acc)
    return acc


def mutate_in_place(doc):
    """scribble over every container of a document"""
    if isinstance(doc, dict):
        for v in list(doc.values()):
            mutate_in_place(v)
        doc["__scribble__"] = [1]
    elif isinstance(doc, list):
        for v in doc:
            mutate_in_place(v)
        doc.append("__scribble__")


def run_engine(engine_cls, story_obj, ops, raw_slots=None):
    """drive one engine on the given story OBJECT (no copy); returns observations"""
    rp = real_play.RealPlay(story_obj)
    rp.new_engine = lambda: (quiet().__enter__(), engine_cls(story_obj))[1]
    with quiet():
        rp.engine = engine_cls(story_obj)
    obs = [real_play.state_obs(rp.engine)]
    for o in ops:
        obs.append(rp.op(o))
    return obs


def check_case(c, rng):
    fails = []
    def fail(what):
        fails.append({"cls": None, "what": what})
    story, ops = c["story"], [o for o in c["ops"] if o["op"] not in ("fresh_load",)]
    from bardic.runtime.engine import BardEngine
    pristine = copy.deepcopy(story)
    # 1. same inputs, same outputs (two fresh runs on private copies)
    a = real_play.play(copy.deepcopy(story), ops)
    b = real_play.play(copy.deepcopy(story), ops)
    if a != b:
        fail("two runs of the same story with the same calls produced different observations")
    # 2. the story object is never modified; 3. two engines on ONE story object, interleaved
    shared = copy.deepcopy(story)
    try:
        with quiet():
            e1, e2 = BardEngine(shared), BardEngine(shared)
        r1, r2 = real_play.RealPlay(shared), real_play.RealPlay(shared)
        r1.engine, r2.engine = e1, e2
        r1.new_engine = lambda: BardEngine(shared)
        r2.new_engine = lambda: BardEngine(shared)
        o1, o2 = [], []
        i1 = i2 = 0
        while i1 < len(ops) or i2 < len(ops):
            if i2 >= len(ops) or (i1 < len(ops) and rng.random() < 0.5):
                o1.append(r1.op(ops[i1])); i1 += 1
            else:
                o2.append(r2.op(ops[i2])); i2 += 1
        if a.get("status") == "ok":
            core = lambda steps: [{k_: v_ for k_, v_ in s_.items() if k_ != "pre_hook_vars"} for s_ in steps]   # harness-side field
            if core(o1) != core(a["steps"]) or core(o2) != core(a["steps"]):
                fail("two engines sharing one story object interfere: an interleaved run differs from a solo run")
    except real_play.Unmodelled:
        pass
    except Exception as e:  # noqa
        if a.get("status") == "ok":
            fail(f"engines on a shared story object crashed: {type(e).__name__}: {e}")
    if shared != pristine:
        fail("the engine modified the compiled story it was given")
    # 4. / 5. save documents
    if a.get("status") == "ok" and ops:
        k = rng.randrange(len(ops))
        rp = real_play.RealPlay(copy.deepcopy(story))
        rp.start()
        for o in ops[:k + 1]:
            rp.op(o)
        with quiet():
            doc = rp.engine.save_state()
        frozen = copy.deepcopy(doc)
        live = container_ids(rp.engine.state) | container_ids(rp.engine.hooks)
        shared_ids = container_ids(doc) & live
        if shared_ids:
            fail("a save document shares mutable containers with the running game")
        with quiet():
            doc2 = rp.engine.save_state()
        if container_ids(doc) & container_ids(doc2):
            fail("two save documents share mutable containers")
        for o in ops[k + 1:]:
            rp.op(o)
        if doc != frozen:
            fail("later play changed a save document taken earlier")
        # loading a document object, then scribbling over it
        rp2 = real_play.RealPlay(copy.deepcopy(story))
        rp2.start()
        docobj = json.loads(json.dumps(frozen))
        r = rp2._call(lambda: (rp2.engine.load_state(docobj), {"ret": None})[1])
        if "raise" not in r:
            before = real_play.state_obs(rp2.engine)
            mutate_in_place(docobj)
            after = real_play.state_obs(rp2.engine)
            if before != after:
                fail("changing a save document after loading it changed the game")
    return fails


def _chunk(arg):
    seed, idxs, n_ops = arg
    out = {"cases": 0, "fails": [], "samples": [], "hashes": []}
    for idx in idxs:
        rng = rng_for(seed, "share", idx)
        c = corr_play.make_case(seed, f"share:{idx}", dict(hooks=0.5, join=0.4, params=0.4, render=0.5, inputs=0.3, block_choices=0.7, loops=0.6),
                                n_ops, "main", dict(choose=70, undo=8, redo=5, goto=5, save=4, load=3, fresh=0, read=3, bad=2, loadbad=0))
        if "story" not in c or c["real"].get("status") == "unmodelled":
            continue
        out["cases"] += 1
        try:
            fs = check_case(c, rng)
        except real_play.Unmodelled:
            continue
        for f in fs:
            f.update({"family": "c16-share", "id": c["id"], "source": c["source"], "ops": c["ops"]})
            out["fails"].append(f)
        out["hashes"].append(chash([c["source"], c["ops"]]))
        if not out["samples"]:
            out["samples"].append({"source": c["source"][:1000], "ops": c["ops"][:10]})
    return out


CHILD = r'''
import sys, json, hashlib
sys.path.insert(0, sys.argv[1]); sys.path.insert(0, sys.argv[2])
import corr_play, real_play
seed, n, n_ops = int(sys.argv[3]), int(sys.argv[4]), int(sys.argv[5])
order = sys.argv[6] if len(sys.argv) > 6 else "up"
h = hashlib.sha256()
per_case = {}
# (every process plays the same cases, but not all in the same order and one of them only every other case: what a case
# gives must not depend on what was compiled or played earlier in the process)
idxs = list(range(n))
if order == "down":
    idxs.reverse()
elif order == "odd":
    idxs = idxs[1::2]
for i in idxs:
    c = corr_play.make_case(seed, f"xproc:{i}", dict(hooks=0.5, join=0.4, params=0.4, one_time=0.6, jump_mode_cycles=0.4, block_jumps=0.6, shared_src=0.25), n_ops, "main",
                            dict(choose=75, undo=6, redo=4, goto=4, save=8, load=0, fresh=0, read=2, bad=1, loadbad=0))
    hc = hashlib.sha256()
    hc.update(json.dumps(c.get("story"), sort_keys=False, default=str).encode())
    hc.update(json.dumps(c.get("real"), sort_keys=False, default=str).encode())
    per_case[i] = hc.hexdigest()[:16]
for i in sorted(per_case):
    h.update(per_case[i].encode())
# stdlib game objects in the variables: their save data must not depend on the hash seed either
import io, contextlib
from bardic.runtime.engine import BardEngine
SRC = ("from bardic.stdlib.relationship import Relationship\nfrom bardic.stdlib.inventory import Inventory\nfrom bardic.stdlib.economy import Wallet, Shop\n"
       ":: Start\n~ alex = Relationship('Alex', 50, 50, 0)\n~ bag = Inventory(20)\n~ w = Wallet(9)\n~ shop = Shop([{'name': 'Gem', 'value': 3, 'weight': 1}])\nhi\n+ [talk] -> Talk\n\n"
       ":: Talk\n~ alex.discuss_topic('past')\n~ alex.discuss_topic('family')\n~ alex.discuss_topic('work')\n~ alex.discuss_topic('dreams')\n~ alex.discuss_topic('the war')\n"
       "~ bag.add({'name': 'Gem', 'weight': 1, 'value': 3})\n~ ok = shop.buy('Gem', w, bag)\ntalked {ok}\n+ [again] -> Talk\n")
with contextlib.redirect_stdout(io.StringIO()):
    e = BardEngine(corr_play.compile_source(SRC))
    e.choose(0)
    e.choose(0)
    doc = e.save_state()
doc = {k: v for k, v in doc.items() if k not in ("timestamp", "save_id", "story_id")}
per_case["stdlib"] = hashlib.sha256(json.dumps(doc, sort_keys=False, default=str).encode()).hexdigest()[:16]
print(json.dumps(per_case))
'''


def cross_process(rep, seed, n, n_ops, hash_seeds):
    """compile + play + save in subprocesses with different PYTHONHASHSEED; outputs must be byte-identical
    (dict / list order included: nothing may depend on set or hash order)"""
    digests = {}
    for k_, hs in enumerate(hash_seeds):
        order = ["up", "down", "odd"][k_ % 3]
        env = dict(os.environ, PYTHONHASHSEED=str(hs), BARDIC_REPO=REPO)
        p = subprocess.run(["/venv/bin/python", "-c", CHILD, os.path.join(VERIF, "harness"), REPO, str(seed), str(n), str(n_ops), order],
                           env=env, stdout=subprocess.PIPE, stderr=subprocess.PIPE, timeout=900)
        if p.returncode != 0:
            rep.infra_errors.append("cross-process child failed: " + p.stderr.decode()[-300:])
            return
        digests[f"{hs}/{order}"] = json.loads(p.stdout.decode().strip().splitlines()[-1])
    keys = set.intersection(*[set(d) for d in digests.values()])
    differing = sorted(k for k in keys if len({d[k] for d in digests.values()}) != 1)
    if differing:
        k0 = differing[0]
        rep.violations.append({"cls": None, "family": "c16-xproc", "seed": seed, "case": k0,
                               "what": (f"case {k0} of the cross-process family (compile + play + save) gives different outputs in different processes "
                                        f"(hash seed / order in which the process plays the cases): { {p_: d[k0] for p_, d in digests.items()} }; "
                                        f"{len(differing)} of {len(keys)} cases differ")})
    digests = {p_: hashlib.sha256(json.dumps(d, sort_keys=True).encode()).hexdigest()[:16] for p_, d in digests.items()}
    rep.coverage.setdefault("families", {})["c16-xproc"] = {"hash_seeds": list(hash_seeds), "cases_per_process": n, "digests": digests}
    rep.coverage["evaluations"] = rep.coverage.get("evaluations", 0) + n * len(hash_seeds)


def share_family(rep, n_cases, n_ops, nproc=16):
    chunk = max(1, n_cases // (nproc * 2))
    idxs = list(range(n_cases))
    outs = framework.pmap(_chunk, [(rep.seed, idxs[i:i + chunk], n_ops) for i in range(0, n_cases, chunk)], nproc)
    tot = {"cases": 0}
    hashes = set()
    for o in outs:
        tot["cases"] += o["cases"]
        rep.violations.extend(o["fails"])
        if len(rep.samples) < 2:
            rep.samples.extend(o["samples"][:1])
        hashes.update(o["hashes"])
    cov = rep.coverage
    cov["evaluations"] = cov.get("evaluations", 0) + tot["cases"]
    cov["distinct_nontrivial"] = cov.get("distinct_nontrivial", 0) + len(hashes)
    cov.setdefault("families", {})["c16-share"] = tot
    return tot


def compile_determinism(rep, seed, n):
    """compiling is a function of the source: the result does not depend on what was compiled before, an earlier result is
    not changed by a later compilation, and two results share no container.  B is A with every tag removed, so that the
    same lines (inline conditionals included) are tokenised once with and once without tags."""
    import re
    import gen_story
    done = 0
    for i in range(n):
        r = rng_for(seed, "compdet", i)
        a_src = gen_story.print_story(gen_story.generate(r.randrange(1 << 30), dict(tags=0.9, inline_cond=0.9, glue=0.1, comments=0)))
        # lines that END in an inline conditional and carry a tag are what a shared cache would trip over
        a_src += "\n:: Tail_%d\nStatus: {a > 0 ? alive | dead} ^status\nAgain: {a > 0 ? alive | dead}\n" % i
        b_src = re.sub(r" \^[\w:]+", "", a_src)
        try:
            with quiet():
                b1 = corr_play.compile_source(b_src)
                a1 = corr_play.compile_source(a_src)
                a1_frozen = copy.deepcopy(a1)
                b2 = corr_play.compile_source(b_src)
                a2 = corr_play.compile_source(a_src)
        except Exception:  # noqa
            continue
        done += 1
        def fail(what):
            rep.violations.append({"cls": None, "family": "c16-compile", "what": what, "source": a_src, "other_source": b_src})
        if b1 != b2:
            fail("the same source compiled to different stories before and after another source was compiled")
        if a1 != a2:
            fail("compiling the same source twice gave different stories")
        if a1 != a1_frozen:
            fail("a compiled story was changed by a later compilation")
        if container_ids(a1) & container_ids(b2) or container_ids(a1) & container_ids(a2):
            fail("two compiled stories share mutable containers")
    rep.coverage.setdefault("families", {})["c16-compile"] = {"cases": done}
    rep.coverage["evaluations"] = rep.coverage.get("evaluations", 0) + done


INPUT_STORY = (":: Start\n@input name=\"nm\" label=\"Name\"\nHello {_inputs.get('nm', '?')}\n+ [again] -> Start\n+ [go] -> Next\n\n"
               ":: Next\n@if True:\n  @input name=\"age\" placeholder=\"years\"\n@endif\n@input name=\"nm\"\nAge {_inputs.get('age', '?')}\n+ [back] -> Start\n+ [stay] -> Next\n")


def inputs_isolation(rep, n):
    """typed input never reaches the compiled story: after submit_inputs and re-rendering, the story object is what it was,
    and a second engine on the same object sees fresh input fields"""
    from bardic.runtime.engine import BardEngine
    done = 0
    try:
        story = corr_play.compile_source(INPUT_STORY)
    except Exception as ex:  # noqa
        rep.violations.append({"cls": None, "family": "c16-inputs", "what": f"probe story does not compile: {ex}", "source": INPUT_STORY})
        return
    for i in range(n):
        r = rng_for(rep.seed, "inputs-iso", i)
        shared = copy.deepcopy(story)
        pristine = copy.deepcopy(shared)
        ops = []
        with quiet():
            e1 = BardEngine(shared)
            ref = BardEngine(copy.deepcopy(pristine))
            first_dirs = copy.deepcopy(ref.current().input_directives)
            for _ in range(r.randint(2, 8)):
                k = r.random()
                if k < 0.45:
                    data = {r.choice(["nm", "age"]): r.choice(["Ann", "7", "", "Bo"])}
                    ops.append({"op": "submit_inputs", "data": data})
                    e1.submit_inputs(dict(data))
                else:
                    n_ch = len(e1.current().choices)
                    j = r.randrange(n_ch)
                    ops.append({"op": "choose", "i": j})
                    e1.choose(j)
            e2 = BardEngine(shared)
            second_dirs = copy.deepcopy(e2.current().input_directives)
        done += 1
        if shared != pristine:
            rep.violations.append({"cls": None, "family": "c16-inputs", "what": "the engine modified the compiled story it was given (typed input reached the story's own directive data)",
                                   "source": INPUT_STORY, "ops": ops})
        elif second_dirs != first_dirs:
            rep.violations.append({"cls": None, "family": "c16-inputs", "what": f"a second engine on the same story object sees {second_dirs} where a fresh one sees {first_dirs}",
                                   "source": INPUT_STORY, "ops": ops})
    rep.coverage.setdefault("families", {})["c16-inputs"] = {"cases": done}
    rep.coverage["evaluations"] = rep.coverage.get("evaluations", 0) + done


def engine_isolation(rep):
    """engines of DIFFERENT stories in one process do not influence each other: a story that uses a plain variable named
    like a class another story imports plays the same before and after that other engine was built"""
    from bardic.runtime.engine import BardEngine
    a_src = "from datetime import date\nfrom bardic.stdlib.economy import Wallet\n:: Start\n~ d0 = date(2020, 1, 2)\n~ w = Wallet(3)\nyear {d0.year} gold {w.gold}\n+ [go] -> Start\n"
    b_src = ":: Start\n~ date = 'Monday'\n~ Wallet = 7\nToday is {date}, wallet {Wallet}.\n+ [again] -> Next\n\n:: Next\n~ date = date + '!'\nStill {date} {Wallet + 1}\n+ [back] -> Start\n"
    def play_b():
        with quiet():
            e = BardEngine(corr_play.compile_source(b_src))
            outs = [e.current().content, e.choose(0).content, e.choose(0).content]
            doc = e.save_state()
        return outs, {k: doc["state"].get(k) for k in ("date", "Wallet")}, id(e.context)
    try:
        before = play_b()
        with quiet():
            ea = BardEngine(corr_play.compile_source(a_src))
            a_out = ea.current().content
        after = play_b()
        with quiet():
            ea2_ctx = BardEngine(corr_play.compile_source(a_src)).context
        if before[:2] != after[:2]:
            rep.violations.append({"cls": None, "family": "c16-isolation", "source": b_src, "other_source": a_src,
                                   "what": f"a story plays differently after an engine for ANOTHER story was built in the same process: {before[:2]} vs {after[:2]}"})
        if ea.context is ea2_ctx or before[2] == id(ea.context):
            rep.violations.append({"cls": None, "family": "c16-isolation", "source": a_src, "what": "two engines share one context dictionary"})
        if "year 2020 gold 3" not in a_out:
            rep.violations.append({"cls": None, "family": "c16-isolation", "source": a_src, "what": f"import story shows {a_out!r}"})
    except Exception as e:  # noqa
        rep.violations.append({"cls": None, "family": "c16-isolation", "source": b_src, "what": f"isolation probe crashed: {type(e).__name__}: {e}"})
    rep.coverage.setdefault("families", {})["c16-isolation"] = {"cases": 1}
    rep.coverage["evaluations"] = rep.coverage.get("evaluations", 0) + 1


MUTATING_SESSIONS = [
    # game objects built with their constructors' defaults and then filled: every engine starts with empty ones
    ("from bardic.stdlib.inventory import Inventory\nfrom bardic.stdlib.relationship import Relationship\nfrom bardic.stdlib.economy import Shop, Wallet\n"
     ":: Start\n~ bag = Inventory()\n~ chest = Inventory(5)\n~ ann = Relationship('Ann', 50, 50, 0)\n~ shop = Shop([{'name': 'Gem', 'weight': 1, 'value': 2}])\n~ w = Wallet(9)\n"
     "Bag {len(bag.items)} chest {len(chest.items)} topics {len(ann.topics_discussed)}\n+ [take] -> Take\n\n"
     ":: Take\n~ bag.add({'name': 'Lamp', 'weight': 1})\n~ ann.discuss_topic('lamps')\n~ ok = shop.buy('Gem', w, chest)\n"
     "Bag {len(bag.items)} chest {len(chest.items)} topics {len(ann.topics_discussed)} stock {len(shop.items)} gold {w.gold}\n+ [again] -> Take\n+ [restart] -> Start\n", [0, 0, 1, 0]),
    # stories whose passages change values IN PLACE that came out of the compiled story (parameter defaults, literals in
    # statements, loop collections): (source, choice indices)
    (":: Start\nHi\n+ [pack] -> Pack\n\n:: Pack(bag=[], extra={})\n~ bag.append(1)\n~ extra['k'] = len(bag)\nbag {bag} {extra}\n+ [again] -> Pack\n+ [back] -> Start\n", [0, 0, 0, 1, 0]),
    (":: Start\nHi\n+ [a] -> Room(tags=['x'])\n\n:: Room(tags=[], seen=[1, 2], notes={'k': [0]})\n~ tags.append('t')\n~ seen += [3]\n~ notes['k'].append(len(seen))\n{tags} {seen} {notes}\n+ [again] -> Room\n+ [same] -> Room(tags=['x'])\n", [0, 0, 1, 0]),
    (":: Start\n~ base = [0]\n~ log = []\nHi\n+ [a] -> Box\n\n:: Box(items=[1, 2], label='b', n=3)\n~ items.append(n)\n~ log.append(items)\n@for it in [[1], [2]]:\n  ~ it.append(9)\n  {it}\n@endfor\n{items} {label} {log}\n+ [again] -> Box\n", [0, 0, 0]),
]


def mutating_sessions(rep):
    """an engine never modifies the compiled story it was given, and engines sharing one story object do not interfere -
    on stories that mutate in place the values their passages were handed (real code only)"""
    from bardic.runtime.engine import BardEngine
    n = 0
    for src, picks in MUTATING_SESSIONS:
        try:
            story = corr_play.compile_source(src)
        except Exception as ex:  # noqa
            rep.violations.append({"cls": None, "family": "c16-mutating", "what": f"probe story does not compile: {ex}", "source": src})
            continue
        shared = copy.deepcopy(story)

        def play(obj):
            with quiet():
                e = BardEngine(obj)
                outs = [e.current().content]
                for p in picks:
                    outs.append(e.choose(p).content)
            return outs
        try:
            ref = play(copy.deepcopy(story))
            first = play(shared)
            changed = shared != story
            second = play(shared)
        except Exception as ex:  # noqa
            rep.violations.append({"cls": None, "family": "c16-mutating", "what": f"probe session failed: {type(ex).__name__}: {str(ex)[:160]}", "source": src, "picks": picks})
            continue
        n += 1
        if changed:
            rep.violations.append({"cls": None, "family": "c16-mutating", "source": src, "picks": picks,
                                   "what": "the engine modified the compiled story it was given (a value from the story was changed in place by the play)"})
        if first != ref or second != ref:
            rep.violations.append({"cls": None, "family": "c16-mutating", "source": src, "picks": picks,
                                   "what": f"the same choices on the same story show different things: own copy {ref}, first engine on the shared object {first}, second engine on it {second}"})
    rep.coverage.setdefault("families", {})["c16-mutating"] = {"cases": n}
    rep.coverage["evaluations"] = rep.coverage.get("evaluations", 0) + n


def inputs_dict_probe(rep):
    """the dictionary a front end hands to submit_inputs stays the front end's: the engine neither keeps it nor writes into it,
    and two engines given the same dictionary object do not see each other's later submissions"""
    from bardic.runtime.engine import BardEngine
    n = 0
    try:
        story = corr_play.compile_source(INPUT_STORY)
        with quiet():
            e1, e2 = BardEngine(copy.deepcopy(story)), BardEngine(copy.deepcopy(story))
            host = {"nm": "Ada"}
            e1.submit_inputs(host)
            e2.submit_inputs(host)
            e1.submit_inputs({"nm": "Grace", "age": "7"})
            o1, o2 = e1.choose(0).content, e2.choose(0).content
        n += 1
        if host != {"nm": "Ada"}:
            rep.violations.append({"cls": None, "family": "c16-inputs-dict", "source": INPUT_STORY,
                                   "what": f"submit_inputs changed the caller's dictionary: {host} (it was {{'nm': 'Ada'}})"})
        if "Grace" not in o1 or "Ada" not in o2:
            rep.violations.append({"cls": None, "family": "c16-inputs-dict", "source": INPUT_STORY,
                                   "what": f"engine 1 (submitted Ada, then Grace) shows {o1!r}; engine 2 (submitted Ada only, the same dictionary object) shows {o2!r}"})
    except Exception as ex:  # noqa
        rep.violations.append({"cls": None, "family": "c16-inputs-dict", "source": INPUT_STORY, "what": f"probe failed: {type(ex).__name__}: {ex}"})
    rep.coverage.setdefault("families", {})["c16-inputs-dict"] = {"cases": n}
    rep.coverage["evaluations"] = rep.coverage.get("evaluations", 0) + n
