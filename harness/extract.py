"""Tables re-extracted from /repo's current Python source on every run (lean/Bardic/Extracted/*.lean)."""
import ast
import os

from common import REPO, LEAN_DIR

OUT = os.path.join(LEAN_DIR, "Bardic", "Extracted")


def _write(name, text):
    os.makedirs(OUT, exist_ok=True)
    path = os.path.join(OUT, name)
    old = open(path).read() if os.path.exists(path) else None
    if old != text:
        with open(path, "w") as f:
            f.write(text)


def undo_cap():
    """the `deque(maxlen=N)` literal of the undo stack in both engines"""
    out = {}
    for label, rel in (("main", "bardic/runtime/engine.py"), ("browser", "bardic/templates/browser/engine_browser.py")):
        tree = ast.parse(open(os.path.join(REPO, rel)).read())
        vals = []
        for node in ast.walk(tree):
            if isinstance(node, (ast.Assign, ast.AnnAssign)):
                tgt = node.targets[0] if isinstance(node, ast.Assign) else node.target
                if isinstance(tgt, ast.Attribute) and tgt.attr == "undo_stack" and isinstance(node.value, ast.Call):
                    call = node.value
                    fn = call.func.id if isinstance(call.func, ast.Name) else getattr(call.func, "attr", "")
                    if fn == "deque":
                        for kw in call.keywords:
                            if kw.arg == "maxlen" and isinstance(kw.value, ast.Constant):
                                vals.append((kw.value.value, node.lineno))
                    else:
                        vals.append((None, node.lineno))
        out[label] = vals
    return out


COMPILE_FUNCS = {"compile_file", "compile_string", "parse_file", "parse", "resolve_includes", "create_browser_bundle"}


def entry_points():
    """which compile functions each CLI entry point that accepts a .bard file calls"""
    out = []
    for rel, funcs in (("bardic/cli/main.py", ["compile", "play", "bundle"]), ("bardic/cli/bundler.py", ["create_browser_bundle"])):
        tree = ast.parse(open(os.path.join(REPO, rel)).read())
        for node in ast.walk(tree):
            if isinstance(node, ast.FunctionDef) and node.name in funcs:
                calls = []
                for n in ast.walk(node):
                    if isinstance(n, ast.Call):
                        f = n.func
                        name = f.attr if isinstance(f, ast.Attribute) else (f.id if isinstance(f, ast.Name) else None)
                        if name in COMPILE_FUNCS and name != node.name:
                            calls.append((name, n.lineno))
                out.append((f"{rel}:{node.name}", calls))
    return out


LINE_FUNCS = {"parse_render_line", "parse_input_line", "parse_content_line", "parse_passage_params",
              "validate_passage_name", "validate_choice_syntax"}


def _norm_line_expr(e):
    """normalise a `line_num=` expression to (base, offset): the base is a name standing for the
    0-based index of the construct's line, the offset what is added to it"""
    if isinstance(e, ast.Name):
        return e.id, 0
    if isinstance(e, ast.Constant) and isinstance(e.value, int):
        return "const", e.value
    if isinstance(e, ast.BinOp) and isinstance(e.op, (ast.Add, ast.Sub)):
        lb, lo = _norm_line_expr(e.left)
        rb, ro = _norm_line_expr(e.right)
        sign = 1 if isinstance(e.op, ast.Add) else -1
        if rb == "const":
            return lb, lo + sign * ro
        if lb == "const":
            return rb, lo + ro
        return f"{lb}+{rb}", lo + sign * ro
    return ast.unparse(e), 0


def error_sites():
    """every format_error(...) call of the parsing package with its line_num expression, and every call that
    forwards a line index to a function which reports it"""
    sites, forwards = [], []
    base = os.path.join(REPO, "bardic", "compiler", "parsing")
    for fn in sorted(os.listdir(base)):
        if not fn.endswith(".py"):
            continue
        src = open(os.path.join(base, fn)).read()
        tree = ast.parse(src)
        for func in [n for n in ast.walk(tree) if isinstance(n, ast.FunctionDef)]:
            # local definitions such as `error_line = i + (e.lineno - 1 ...)`: keep the leading index term
            for n in ast.walk(func):
                if isinstance(n, ast.Call):
                    f = n.func
                    name = f.attr if isinstance(f, ast.Attribute) else (f.id if isinstance(f, ast.Name) else None)
                    if name == "format_error":
                        for kw in n.keywords:
                            if kw.arg == "line_num":
                                b, o = _norm_line_expr(kw.value)
                                sites.append((fn, n.lineno, func.name, b, o))
                    elif name in LINE_FUNCS and len(n.args) >= 2:
                        b, o = _norm_line_expr(n.args[1])
                        if not (b == "const"):
                            forwards.append((fn, n.lineno, func.name, name, b, o))
    # nested helper functions are visited twice by ast.walk over FunctionDefs: de-duplicate
    return sorted(set(sites)), sorted(set(forwards))


def token_kinds():
    """token kinds the parsing package can emit (dict literals with a constant "type"), with their keys;
    kinds `_render_content` has a branch for; kinds the graph walker has a branch for"""
    emitted = {}
    base = os.path.join(REPO, "bardic", "compiler", "parsing")
    for fn in sorted(os.listdir(base)):
        if not fn.endswith(".py"):
            continue
        tree = ast.parse(open(os.path.join(base, fn)).read())
        for n in ast.walk(tree):
            if isinstance(n, ast.Dict):
                keys = [k.value for k in n.keys if isinstance(k, ast.Constant)]
                if "type" in keys:
                    v = n.values[keys.index("type")] if len(keys) == len(n.keys) else None
                    for k, val in zip(n.keys, n.values):
                        if isinstance(k, ast.Constant) and k.value == "type" and isinstance(val, ast.Constant):
                            emitted.setdefault(val.value, set()).update(keys)
    def compared(path, func_name):
        tree = ast.parse(open(os.path.join(REPO, path)).read())
        out = set()
        for f in ast.walk(tree):
            if isinstance(f, ast.FunctionDef) and f.name == func_name:
                for n in ast.walk(f):
                    if isinstance(n, ast.Compare) and len(n.comparators) == 1 and isinstance(n.comparators[0], ast.Constant) \
                            and isinstance(n.comparators[0].value, str):
                        src = ast.unparse(n.left)
                        if "type" in src:
                            out.add(n.comparators[0].value)
        return out
    engine = compared("bardic/runtime/engine.py", "_render_content") | compared("bardic/runtime/engine.py", "_execute_commands")
    graph = compared("bardic/cli/graph.py", "extract_connections")
    return emitted, engine, graph


MUTATORS = {"append", "extend", "insert", "remove", "pop", "clear", "update", "setdefault", "sort", "reverse", "add", "discard", "popitem"}
STORY_PARAMS = {"passage", "choice", "token", "directive", "loop", "conditional", "branch", "cmd", "commands",
                "content_tokens", "content", "tokens", "story_data", "choices", "section_tokens", "block_content"}


def _root_name(e):
    """the variable an expression is an alias INTO: x, x.a, x[k], x.get(k) -> x; constructors are fresh"""
    while True:
        if isinstance(e, ast.Name):
            return e.id
        if isinstance(e, ast.Attribute):
            if isinstance(e.value, ast.Name) and e.value.id == "self":
                return "self." + e.attr
            e = e.value
        elif isinstance(e, ast.Subscript):
            e = e.value
        elif isinstance(e, ast.Call) and isinstance(e.func, ast.Attribute) and e.func.attr == "get":
            e = e.func.value
        else:
            return None


def story_writes(rel):
    """mutation sites in an engine file whose target is (an alias into) the compiled story"""
    tree = ast.parse(open(os.path.join(REPO, rel)).read())
    out = []
    for func in [n for n in ast.walk(tree) if isinstance(n, ast.FunctionDef)]:
        tainted = {"self.story", "self.passages"} | {a.arg for a in func.args.args if a.arg in STORY_PARAMS}
        if func.name in ("__init__",):
            tainted.discard("story_data")      # the constructor only stores it
            tainted.add("story_data")
        changed = True
        while changed:
            changed = False
            for n in ast.walk(func):
                tgt, val = None, None
                if isinstance(n, ast.Assign) and len(n.targets) == 1 and isinstance(n.targets[0], ast.Name):
                    tgt, val = n.targets[0].id, n.value
                elif isinstance(n, ast.For) and isinstance(n.target, ast.Name):
                    tgt, val = n.target.id, n.iter
                    if isinstance(val, ast.Call) and isinstance(val.func, ast.Name) and val.func.id == "enumerate":
                        val = None
                elif isinstance(n, ast.For) and isinstance(n.target, ast.Tuple) and isinstance(n.iter, ast.Call) \
                        and isinstance(n.iter.func, ast.Name) and n.iter.func.id == "enumerate" and n.iter.args:
                    last = n.target.elts[-1]
                    if isinstance(last, ast.Name):
                        tgt, val = last.id, n.iter.args[0]
                if tgt and val is not None:
                    r = _root_name(val)
                    if r in tainted and tgt not in tainted:
                        tainted.add(tgt)
                        changed = True
        for n in ast.walk(func):
            site = None
            if isinstance(n, (ast.Assign, ast.AugAssign)):
                targets = n.targets if isinstance(n, ast.Assign) else [n.target]
                for t in targets:
                    if isinstance(t, (ast.Subscript, ast.Attribute)) and not (isinstance(t, ast.Attribute) and isinstance(t.value, ast.Name) and t.value.id == "self"):
                        r = _root_name(t)
                        if r in tainted:
                            site = (r, ast.unparse(t))
                    elif isinstance(n, ast.AugAssign) and isinstance(t, ast.Name) and t.id in tainted:
                        site = (t.id, ast.unparse(n))
            elif isinstance(n, ast.Delete):
                for t in n.targets:
                    r = _root_name(t)
                    if isinstance(t, ast.Subscript) and r in tainted:
                        site = (r, ast.unparse(t))
            elif isinstance(n, ast.Call) and isinstance(n.func, ast.Attribute) and n.func.attr in MUTATORS:
                r = _root_name(n.func.value)
                if r in tainted:
                    site = (r, ast.unparse(n)[:60])
            if site:
                out.append((rel, n.lineno, func.name, site[0], site[1]))
    return sorted(set(out))


def _index_vars(test):
    out = []
    for n in ast.walk(test):
        if isinstance(n, ast.Compare) and isinstance(n.left, ast.Name) and len(n.ops) == 1 and isinstance(n.ops[0], ast.Lt):
            c = n.comparators[0]
            if isinstance(c, ast.Call) and isinstance(c.func, ast.Name) and c.func.id == "len":
                out.append(n.left.id)
    return out


def _advance(stmts, st, idx, exits, amounts):
    """must-analysis: st = (advanced by a positive literal, advanced by anything) on every path reaching here,
    or None when no path falls through.  Records the state at every `continue` of THIS loop."""
    for s in stmts:
        if st is None:
            break
        if isinstance(s, ast.AugAssign) and isinstance(s.target, ast.Name) and s.target.id in idx:
            if isinstance(s.op, ast.Add) and isinstance(s.value, ast.Constant) and isinstance(s.value.value, int) and s.value.value >= 1:
                st = (True, True)
            elif isinstance(s.op, ast.Add) and isinstance(s.value, ast.Name):
                st = (st[0], True)
                amounts.add(s.value.id)
            else:
                amounts.add("?" + ast.unparse(s))          # anything else (i -= 1, i += f(x)) is not accepted
        elif isinstance(s, ast.Assign) and any(isinstance(t, ast.Name) and t.id in idx for t in s.targets):
            amounts.add("?" + ast.unparse(s))
        elif isinstance(s, ast.If):
            outs = [x for x in (_advance(s.body, st, idx, exits, amounts), _advance(s.orelse, st, idx, exits, amounts)) if x is not None]
            st = None if not outs else (all(o[0] for o in outs), all(o[1] for o in outs))
        elif isinstance(s, (ast.For, ast.While)):
            # a nested loop may run zero times and its continue/break are its own; but an assignment to our index
            # inside it would escape this analysis: record it as not accepted
            for n in ast.walk(s):
                if isinstance(n, (ast.Assign, ast.AugAssign)):
                    tg = n.targets if isinstance(n, ast.Assign) else [n.target]
                    if any(isinstance(t, ast.Name) and t.id in idx for t in tg):
                        amounts.add("?nested " + ast.unparse(n))
        elif isinstance(s, ast.Try):
            outs = [_advance(s.body, st, idx, exits, amounts)] + [_advance(h.body, st, idx, exits, amounts) for h in s.handlers]
            outs = [x for x in outs if x is not None]
            st = None if not outs else (all(o[0] for o in outs), all(o[1] for o in outs))
            if s.finalbody and st is not None:
                st = _advance(s.finalbody, st, idx, exits, amounts)
        elif isinstance(s, ast.With):
            st = _advance(s.body, st, idx, exits, amounts)
        elif isinstance(s, ast.Continue):
            exits.append(("continue", s.lineno, st))
            st = None
        elif isinstance(s, (ast.Break, ast.Return, ast.Raise)):
            st = None
    return st


def loop_paths():
    """every `while` loop of the compiler: for each way of reaching the next iteration (a `continue` or the end
    of the body), whether the loop index has been advanced on every path leading there"""
    rows, consumers = [], []
    files = []
    for root in ("bardic/compiler/parsing", "bardic/compiler"):
        for fn in sorted(os.listdir(os.path.join(REPO, root))):
            if fn.endswith(".py"):
                files.append(os.path.join(root, fn))
    for rel in files:
        tree = ast.parse(open(os.path.join(REPO, rel)).read())
        for f in ast.walk(tree):
            if not isinstance(f, ast.FunctionDef):
                continue
            own = [w for w in ast.walk(f) if isinstance(w, ast.While)]
            for w in own:
                idx = _index_vars(w.test)
                exits, amounts = [], set()
                out = _advance(w.body, (False, False), idx, exits, amounts)
                if out is not None:
                    exits.append(("end", w.body[-1].end_lineno, out))
                for kind, line, st in exits:
                    rows.append((rel, f.name, w.lineno, ",".join(idx), kind, line, st[0], st[1], sorted(amounts)))
            # consumption results: `return <x>, <amount>` of functions whose result feeds an index
            for r in ast.walk(f):
                if isinstance(r, ast.Return) and isinstance(r.value, ast.Tuple) and len(r.value.elts) >= 2:
                    last = r.value.elts[-1]
                    expr = ast.unparse(last)
                    if isinstance(last, ast.Name):
                        # the latest simple assignment to that name before the return
                        defs = [a for a in ast.walk(f) if isinstance(a, ast.Assign) and len(a.targets) == 1 and isinstance(a.targets[0], ast.Name)
                                and a.targets[0].id == last.id and a.lineno <= r.lineno]
                        if defs:
                            expr = ast.unparse(max(defs, key=lambda a: a.lineno).value)
                    if "consumed" in ast.unparse(last) or (isinstance(last, ast.Constant) and isinstance(last.value, int)):
                        init = [ast.unparse(a.value) for a in ast.walk(f) if isinstance(a, ast.Assign) and len(a.targets) == 1
                                and isinstance(a.targets[0], ast.Name) and a.targets[0].id == "i" and "start_index" in ast.unparse(a.value)]
                        consumers.append((rel, f.name, r.lineno, expr, init[0] if init else ""))
    # where each named amount comes from: `<x>, <amount> = callee(...)`
    sources = []
    for rel in files:
        tree = ast.parse(open(os.path.join(REPO, rel)).read())
        for a in ast.walk(tree):
            if isinstance(a, ast.Assign) and isinstance(a.targets[0], ast.Tuple) and isinstance(a.value, ast.Call):
                last = a.targets[0].elts[-1]
                if isinstance(last, ast.Name) and ("consumed" in last.id or last.id == "nested_lines"):
                    fn = a.value.func
                    sources.append((rel, a.lineno, last.id, fn.id if isinstance(fn, ast.Name) else ast.unparse(fn)))
    return rows, consumers, sources


def regenerate():
    rows, consumers, sources = loop_paths()
    def qs(x):
        return '"' + str(x).replace("\\", "/").replace('"', "'").replace("\n", " ") + '"'
    def qb(b):
        return "true" if b else "false"
    _write("LoopPaths.lean",
           "/-! GENERATED by harness/extract.py from /repo on every run — do not edit. -/\n"
           "namespace Bardic.Extracted\n\n"
           "/-- every way of reaching the next iteration of every `while` loop of the compiler:\n"
           "    (file, function, loop line, index variables, continue/end, line, advanced by a positive literal on every path,\n"
           "     advanced by something on every path, the non-literal amounts used in the loop) -/\n"
           "def loopPaths : List (String × String × Nat × String × String × Nat × Bool × Bool × List String) := [\n" +
           ",\n".join("  (" + ", ".join([qs(a), qs(b), str(c), qs(d), qs(e), str(f), qb(g), qb(h), "[" + ", ".join(qs(x) for x in i) + "]"]) + ")"
                       for a, b, c, d, e, f, g, h, i in rows) + "\n]\n\n"
           "/-- `return …, <amount>` of the functions that report how many lines they used:\n"
           "    (file, function, line, the amount as an expression, how the scanning index was initialised) -/\n"
           "def consumers : List (String × String × Nat × String × String) := [\n" +
           ",\n".join("  (" + ", ".join([qs(a), qs(b), str(c), qs(d), qs(e)]) + ")" for a, b, c, d, e in consumers) + "\n]\n\n"
           "/-- where each named amount comes from: (file, line, name, function called) -/\n"
           "def amountSources : List (String × Nat × String × String) := [\n" +
           ",\n".join("  (" + ", ".join([qs(a), str(b), qs(c), qs(d)]) + ")" for a, b, c, d in sources) + "\n]\n\n"
           "end Bardic.Extracted\n")
    sw = story_writes("bardic/runtime/engine.py") + story_writes("bardic/templates/browser/engine_browser.py")
    def q2(x):
        return '"' + str(x).replace("\\", "/").replace('"', "'").replace("\n", " ") + '"'
    _write("StoryWrites.lean",
           "/-! GENERATED by harness/extract.py from /repo on every run — do not edit. -/\n"
           "namespace Bardic.Extracted\n\n"
           "/-- mutation sites of the engines whose target is an alias into the compiled story:\n"
           "    (file, line, function, aliased name, expression) -/\n"
           "def storyWrites : List (String × Nat × String × String × String) := [" +
           (",\n".join("\n  (" + ", ".join([q2(a), str(b), q2(c), q2(d), q2(e)]) + ")" for a, b, c, d, e in sw)) + "]\n\n"
           "end Bardic.Extracted\n")
    emitted, engine, graph = token_kinds()
    def ql(xs):
        return "[" + ", ".join('"' + x + '"' for x in sorted(xs)) + "]"
    _write("TokenKinds.lean",
           "/-! GENERATED by harness/extract.py from /repo on every run — do not edit. -/\n"
           "namespace Bardic.Extracted\n\n"
           "/-- token kinds the parser can emit, with the keys of the emitted dict literal -/\n"
           "def emittedKinds : List (String × List String) := [\n" +
           ",\n".join(f'  ("{k}", {ql(v)})' for k, v in sorted(emitted.items())) + "\n]\n\n"
           f"/-- kinds `_render_content` / `_execute_commands` have a branch for -/\ndef engineKinds : List String := {ql(engine)}\n\n"
           f"/-- kinds the walker of `extract_connections` has a branch for -/\ndef graphKinds : List String := {ql(graph)}\n\n"
           "end Bardic.Extracted\n")
    sites, forwards = error_sites()
    def qq(x):
        return '"' + str(x).replace('"', "'") + '"'
    _write("ErrorSites.lean",
           "/-! GENERATED by harness/extract.py from /repo on every run — do not edit. -/\n"
           "namespace Bardic.Extracted\n\n"
           "/-- every `format_error(...)` call site: (file, line, function, index expression, offset added to it) -/\n"
           "def errorSites : List (String × Nat × String × String × Int) := [\n" +
           ",\n".join(f"  ({qq(a)}, {b}, {qq(c)}, {qq(d)}, {e})" for a, b, c, d, e in sites) + "\n]\n\n"
           "/-- every call forwarding a line index to a reporting function: (file, line, caller, callee, expression, offset) -/\n"
           "def lineForwards : List (String × Nat × String × String × String × Int) := [\n" +
           ",\n".join(f"  ({qq(a)}, {b}, {qq(c)}, {qq(d)}, {qq(e)}, {f})" for a, b, c, d, e, f in forwards) + "\n]\n\n"
           "end Bardic.Extracted\n")
    eps = entry_points()
    def q(x):
        return '"' + x + '"'
    text = ("/-! GENERATED by harness/extract.py from /repo on every run — do not edit. -/\n"
            "namespace Bardic.Extracted\n\n"
            "/-- compile functions called by each CLI entry point that accepts a `.bard` file (with source lines) -/\n"
            "def entryPoints : List (String × List String) := [\n" +
            ",\n".join(f"  ({q(n)}, [{', '.join(q(c) for c, _ in calls)}])  -- lines {[l for _, l in calls]}" for n, calls in eps) +
            "\n]\n\nend Bardic.Extracted\n")
    # put the commas before the comments
    lines = text.split("\n")
    fixed = []
    for l in lines:
        if "])  -- lines" in l and l.rstrip().endswith(","):
            l = l.rstrip()[:-1]
            l = l.replace("])  -- lines", "]),  -- lines")
        fixed.append(l)
    _write("EntryPoints.lean", "\n".join(fixed))
    caps = undo_cap()
    def lst(vs):
        return "[" + ", ".join("none" if v is None else f"some {v}" for v, _ in vs) + "]"
    text = ("/-! GENERATED by harness/extract.py from /repo on every run — do not edit. -/\n"
            "namespace Bardic.Extracted\n\n"
            f"/-- `maxlen` of every assignment to `undo_stack` in engine.py (lines {[l for _, l in caps['main']]}) -/\n"
            f"def undoCapMain : List (Option Nat) := {lst(caps['main'])}\n"
            f"/-- same for engine_browser.py (lines {[l for _, l in caps['browser']]}) -/\n"
            f"def undoCapBrowser : List (Option Nat) := {lst(caps['browser'])}\n\n"
            "end Bardic.Extracted\n")
    _write("UndoCap.lean", text)


if __name__ == "__main__":
    regenerate()
    print(open(os.path.join(OUT, "UndoCap.lean")).read())
