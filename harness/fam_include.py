"""C13 / C14: include graphs materialised in a temp directory; the REAL resolve_includes / parse_file /
compile_file / bundle vs the Lean resolver model, plus the property itself (substitution equality,
provenance of every combined line, cycles/missing reported) on the real results; and diagnostics
placed on every line of every file (C14)."""
import json
import zlib
import os
import re
import shutil
import tempfile

from common import rng_for, run_driver, chash, quiet, time_limit, Timeout
from compare import first_diff
import framework

DIRS = ["", "ch", "ch/deep", "shared"]


def rel(from_dir, to_path):
    r = os.path.relpath(to_path, from_dir or ".")
    return r


def gen_graph(seed, idx, max_files=6):
    r = rng_for(seed, "include", idx)
    n = r.randint(1, max_files)
    paths = ["main.bard"]
    while len(paths) < n:
        d = r.choice(DIRS)
        p = (d + "/" if d else "") + f"f{len(paths)}.bard"
        if len(paths) > 1 and r.random() < 0.2:
            # a second file whose path differs from an existing one in letter case only (two files on a case-sensitive file system)
            q = r.choice(paths[1:])
            p = r.choice([q.upper().replace(".BARD", ".bard"), q.replace("f", "F", 1), os.path.join(os.path.dirname(q).upper(), os.path.basename(q)) if os.path.dirname(q) else q.capitalize()])
            if p in paths:
                p = (d + "/" if d else "") + f"f{len(paths)}.bard"
        paths.append(p)
    files = {}
    mode = r.random()      # < 0.65 tree/diamond (acyclic), else any direction (cycles, self-includes)
    for i, p in enumerate(paths):
        lines = []
        if r.random() < 0.2:
            lines += [""] * r.randint(1, 2)          # leading blank lines
        if i == 0 or r.random() < 0.5:
            lines.append(f":: P{i}")
        for _ in range(r.randint(0, 4)):
            k = r.random()
            if k < 0.45:
                lines.append(f"text {i}.{len(lines)}")
            elif k < 0.5:
                lines.append("")
            elif k < 0.9:
                cands = [q for j, q in enumerate(paths) if (j > i if mode < 0.65 else True)]
                if r.random() < 0.08:
                    tgt = "missing/nowhere.bard"
                elif cands:
                    tgt = r.choice(cands)
                else:
                    lines.append(f"text {i}.{len(lines)}")
                    continue
                relp = rel(os.path.dirname(p), tgt)
                if r.random() < 0.2 and not relp.startswith(".."):
                    relp = "./" + relp
                pad = r.choice(["", "  ", "\t"])
                lines.append(f"{pad}@include {relp}" + r.choice(["", " ", "", "", " // part two", "  // see notes.bard", " //x"]))
            elif k < 0.93 and r.random() < 0.5:
                # a Python block whose closer carries a comment, in a file that goes on including
                lines += r.choice([["@py:", "x = 1", "@endpy // done"], ["<<py", "y = 2", ">> // end"], ["@py:", "z = 3", "@endpy"]])
            elif k < 0.93:
                lines.append("@include")
            elif k < 0.95:
                lines.append("@include a.bard b.bard")
            else:
                lines.append(f"~ v{i} = {len(lines)}")
        text = "\n".join(lines) + ("\n" if r.random() < 0.7 else "")
        files[p] = text
    return {"id": f"s{seed}-inc-{idx}", "files": files, "root": "main.bard"}


def materialise(case, root_dir):
    for p, text in case["files"].items():
        full = os.path.join(root_dir, p)
        os.makedirs(os.path.dirname(full), exist_ok=True)
        # (files as editors on other systems save them: an included file with CRLF or CR line ends is the same text)
        nl = {0: "\r\n", 1: "\r"}.get(zlib.crc32((case.get("id", "") + p).encode()) % 5) if p != case["root"] else None
        with open(full, "w", encoding="utf-8", newline=nl) as f:
            f.write(text)


def comps(root_dir, path):
    r = os.path.relpath(os.path.realpath(path), os.path.realpath(root_dir))
    return ["R"] + r.split(os.sep)


def real_resolve(case, root_dir):
    from bardic.compiler.parsing.preprocessing import resolve_includes
    main = os.path.join(root_dir, case["root"])
    src = open(main, encoding="utf-8").read()
    try:
        with quiet(), time_limit(10):
            text, lmap = resolve_includes(src, main)
    except Timeout:
        return {"status": "error", "error": "timeout"}
    except ValueError as e:
        return {"status": "error", "error": "circular" if "Circular" in str(e) else "ValueError"}
    except FileNotFoundError as e:
        return {"status": "error", "error": "notFound", "msg": str(e)}
    except SyntaxError as e:
        return {"status": "error", "error": "noPath" if "missing file path" in str(e) else ("manyPaths" if "one file at a time" in str(e) else "SyntaxError"),
                "msg": str(e)}
    except RecursionError:
        return {"status": "error", "error": "RecursionError"}
    except OSError as e:
        return {"status": "error", "error": "OSError"}
    return {"status": "ok", "lines": text.split("\n"), "map": [[comps(root_dir, l.file_path), l.line_num] for l in lmap], "text": text}


def oracle(case, real, root_dir):
    """the property on the real result"""
    fails = []
    def fail(what):
        fails.append({"cls": None, "what": what})
    files = case["files"]
    if real["status"] == "ok":
        lines, lmap = real["lines"], real["map"]
        if len(lines) != len(lmap):
            fail(f"combined text has {len(lines)} lines but the line map has {len(lmap)} entries")
        for i, (l, (pc, n)) in enumerate(zip(lines, lmap)):
            p = "/".join(pc[1:])
            src = files.get(p)
            if src is None:
                fail(f"line {i} attributed to unknown file {p}")
                break
            sl = src.split("\n")
            if n >= len(sl) or sl[n] != l:
                fail(f"combined line {i} ({l!r}) is attributed to {p}:{n + 1} which reads {sl[n] if n < len(sl) else None!r}")
                break
            if l.strip().startswith("@include"):
                fail(f"an @include line survived in the combined text at {i}")
                break
        # textual substitution, computed independently
        exp = substitute(files, case["root"], [])
        if isinstance(exp, list) and exp != lines:
            fail("combined text differs from the text obtained by substituting each include")
        # every entry point compiles the file like the substituted text
        try:
            with quiet():
                from bardic.compiler.parsing.core import parse
                from bardic.compiler.parsing.io import parse_file
                from bardic.compiler.compiler import BardCompiler
                want = outcome(lambda: parse("\n".join(exp)))
                main = os.path.join(root_dir, case["root"])
                got1 = outcome(lambda: parse_file(main))
                outp = os.path.join(root_dir, "_out.json")
                def cf():
                    BardCompiler().compile_file(main, outp)
                    return json.load(open(outp))
                got2 = outcome(cf)
                if got1 != want:
                    fail("parse_file(main) differs from parsing the substituted text")
                if got2 != want:
                    fail("compile_file(main) differs from parsing the substituted text")
                if want[0] == "ok":
                    from bardic.cli.bundler import create_browser_bundle
                    bdir = os.path.join(root_dir, "_bundle")
                    def bf():
                        create_browser_bundle(main, bdir, minimal=True)
                        return json.load(open(os.path.join(bdir, "game.json")))
                    got3 = outcome(bf)
                    if got3 != want:
                        fail("the bundle's game.json differs from compiling the substituted text")
                    # a second compilation in the same process after an included file was edited sees the new text
                    inc = [q for q in files if q != case["root"] and "@include" not in files[q]]
                    if inc:
                        q = sorted(inc)[0]
                        edited = dict(files)
                        edited[q] = files[q] + ("" if files[q].endswith("\n") or not files[q] else "\n") + "edited line\n"
                        open(os.path.join(root_dir, q), "w").write(edited[q])
                        try:
                            exp2 = substitute(edited, case["root"], [])
                            if isinstance(exp2, list):
                                want2 = outcome(lambda: parse("\n".join(exp2)))
                                if outcome(lambda: parse_file(main)) != want2 or outcome(cf) != want2:
                                    fail(f"after {q} was edited, compiling again in the same process does not give the substituted text "
                                         "of the files as they are now")
                        finally:
                            open(os.path.join(root_dir, q), "w").write(files[q])
                    # `bardic play <file>.bard`
                    import click.testing
                    from bardic.cli.main import cli
                    res = click.testing.CliRunner().invoke(cli, ["play", main, "--no-color"], input="\n" * 3)
                    if "Compile Error" in (res.output or ""):
                        fail("`bardic play` could not compile a file that `bardic compile` compiles: " + res.output[:160])
        except Exception as e:  # noqa
            fail(f"entry-point comparison crashed: {type(e).__name__}: {e}")
    else:
        exp = substitute(files, case["root"], [])
        kind = real["error"]
        if kind in ("timeout", "RecursionError", "OSError", "ValueError", "SyntaxError"):
            fail(f"include resolution ended in {kind}")
        elif isinstance(exp, list):
            fail(f"include resolution reported {kind} although plain substitution succeeds")
        elif exp != kind:
            fail(f"include resolution reported {kind}, expected {exp}")
        elif kind == "notFound":
            # the report names the file that is really missing (not one of the files that include it)
            miss = first_missing(files, case["root"], [])
            head = (real.get("msg") or "").split("\n")[0]
            if miss and os.path.basename(miss) not in head:
                fail(f"the missing file is {miss}, the report says: {head[:120]}")
    return fails


def outcome(f):
    try:
        return ("ok", json.loads(json.dumps(f())))
    except Exception as e:  # noqa
        return ("raise", type(e).__name__)


def substitute(files, path, stack):
    """textual substitution by the book: returns list of lines or an error kind"""
    path = os.path.normpath(path)
    if path in stack:
        return "circular"
    if path not in files:
        return "notFound"
    out = []
    for l in files[path].split("\n"):
        if l.strip().startswith("@include"):
            arg = l.strip()[8:].strip()
            if "//" in arg:
                arg = arg[:arg.index("//")].strip()      # a trailing comment is not part of the path (the generator writes no // inside paths)
            if not arg:
                return "noPath"
            if " " in arg:
                return "manyPaths"
            r = substitute(files, os.path.join(os.path.dirname(path), arg), stack + [path])
            if not isinstance(r, list):
                return r
            out.extend(r)
        else:
            out.append(l)
    return out


def first_missing(files, path, stack):
    """the normalised path of the first include target that does not exist (walking like the resolver does)"""
    path = os.path.normpath(path)
    if path in stack or path not in files:
        return path if path not in files else None
    for l in files[path].split("\n"):
        if l.strip().startswith("@include"):
            arg = l.strip()[8:].strip()
            if "//" in arg:
                arg = arg[:arg.index("//")].strip()
            if not arg or " " in arg:
                return None
            m = first_missing(files, os.path.join(os.path.dirname(path), arg), stack + [path])
            if m:
                return m
    return None


def _chunk(arg):
    seed, idxs, max_files = arg
    out = {"cases": 0, "agree": 0, "fails": [], "disagreements": [], "samples": [], "hashes": [], "outcomes": {}}
    cases = [gen_graph(seed, i, max_files) for i in idxs]
    lines = []
    for c in cases:
        lines.append({"kind": "include", "id": c["id"], "root": ["R", c["root"]],
                      "fs": [[["R"] + p.split("/"), t] for p, t in c["files"].items()]})
    models = run_driver(lines)
    for c, m in zip(cases, models):
        d = tempfile.mkdtemp(prefix="verif_inc_")
        try:
            materialise(c, d)
            real = real_resolve(c, d)
            out["cases"] += 1
            k = real["status"] if real["status"] == "ok" else real["error"]
            out["outcomes"][k] = out["outcomes"].get(k, 0) + 1
            # model vs implementation
            if m["status"] == "ok" and real["status"] == "ok":
                dis = first_diff(m["lines"], real["lines"], "/lines") or first_diff(m["map"], real["map"], "/map")
            elif m["status"] == "error" and real["status"] == "error":
                dis = None if m["error"] == real["error"] else ("/error", m["error"], real["error"])
            else:
                dis = ("/status", m["status"] + ":" + m.get("error", ""), real["status"] + ":" + real.get("error", ""))
            if dis:
                out["disagreements"].append({"family": "c13-include", "id": c["id"], "detail": dis, "files": c["files"]})
            else:
                out["agree"] += 1
            for f in oracle(c, real, d):
                f.update({"family": "c13-include", "id": c["id"], "files": c["files"]})
                out["fails"].append(f)
            out["hashes"].append(chash(c["files"]))
        finally:
            shutil.rmtree(d, ignore_errors=True)
    if cases:
        out["samples"].append({"files": cases[0]["files"]})
    return out


def include_family(rep, n_cases, max_files, nproc=16):
    chunk = max(1, n_cases // (nproc * 2))
    idxs = list(range(n_cases))
    outs = framework.pmap(_chunk, [(rep.seed, idxs[i:i + chunk], max_files) for i in range(0, n_cases, chunk)], nproc)
    tot = {"cases": 0, "agree": 0, "outcomes": {}}
    hashes = set()
    for o in outs:
        tot["cases"] += o["cases"]
        tot["agree"] += o["agree"]
        for k, v in o["outcomes"].items():
            tot["outcomes"][k] = tot["outcomes"].get(k, 0) + v
        rep.violations.extend(o["fails"])
        rep.disagreements.extend(o["disagreements"])
        if len(rep.samples) < 2:
            rep.samples.extend(o["samples"][:1])
        hashes.update(o["hashes"])
    cov = rep.coverage
    cov["evaluations"] = cov.get("evaluations", 0) + tot["cases"]
    cov["programs"] = cov.get("programs", 0) + tot["cases"]
    cov["traces_validated_against_impl"] = cov.get("traces_validated_against_impl", 0) + tot["agree"]
    cov["distinct_nontrivial"] = cov.get("distinct_nontrivial", 0) + len(hashes)
    cov.setdefault("families", {})["c13-include"] = tot
    return tot


# ------------------------------------------------------------------ histories within one process; includes on the first line

def _compile_here(root_dir, main):
    """outcome of compiling root_dir/main through parse_file and compile_file, and of parsing the substituted text"""
    from bardic.compiler.parsing.core import parse
    from bardic.compiler.parsing.io import parse_file
    from bardic.compiler.compiler import BardCompiler
    files = {}
    for dp, _, fns in os.walk(root_dir):
        for fn in fns:
            if fn.endswith(".bard"):
                full = os.path.join(dp, fn)
                files[os.path.relpath(full, root_dir)] = open(full, encoding="utf-8").read()
    exp = substitute(files, main, [])
    def err_kind(e):
        if isinstance(e, FileNotFoundError):
            return "notFound"
        if isinstance(e, ValueError) and "ircular" in str(e):
            return "circular"
        return type(e).__name__
    def run(f):
        try:
            with quiet(), time_limit(10):
                return ("ok", json.loads(json.dumps(f())))
        except Timeout:
            return ("raise", "timeout")
        except Exception as e:  # noqa
            return ("raise", err_kind(e))
    if isinstance(exp, list):
        want = run(lambda: parse("\n".join(exp)))
    else:
        want = ("raise", exp)
    full = os.path.join(root_dir, main)
    outp = os.path.join(root_dir, "_out.json")
    def cf():
        BardCompiler().compile_file(full, outp)
        return json.load(open(outp))
    got3 = None
    if want[0] == "ok":
        # the bundle, always into the SAME directory (re-bundling after an edit is what authors do)
        from bardic.cli.bundler import create_browser_bundle
        bdir = os.path.join(root_dir, "_bundle")
        def bf():
            create_browser_bundle(full, bdir, minimal=True)
            return json.load(open(os.path.join(bdir, "game.json")))
        got3 = run(bf)
    return want, run(lambda: parse_file(full)), run(cf), got3


HISTORIES = [
    # name, list of (files to write / None to delete, main to compile)
    ("the only @include stands on the first line",
     [({"main.bard": "@include ch.bard\n:: Start\nHi\n+ [go] -> Ch\n", "ch.bard": ":: Ch\nChapter\n+ [back] -> Start\n"}, "main.bard")]),
    ("first-line @include of a missing file",
     [({"main.bard": "@include nope.bard\n:: Start\nHi\n"}, "main.bard")]),
    ("first-line @include of the file itself",
     [({"main.bard": "@include main.bard\n:: Start\nHi\n"}, "main.bard")]),
    ("first-line @include, second include later in an included file",
     [({"main.bard": "@include a.bard\n:: Start\nHi\n+ [go] -> A\n", "a.bard": ":: A\nA\n+ [go] -> B\n@include b.bard\n", "b.bard": ":: B\nB\n"}, "main.bard")]),
    ("a missing include, then the file is added",
     [({"main.bard": ":: Start\nHi\n+ [go] -> Ch\n@include ch.bard\n"}, "main.bard"),
      ({"ch.bard": ":: Ch\nChapter\n"}, "main.bard")]),
    ("a cycle, then the cycle is broken",
     [({"main.bard": ":: Start\nHi\n+ [go] -> A\n@include a.bard\n", "a.bard": ":: A\nA\n@include b.bard\n", "b.bard": ":: B\nB\n@include a.bard\n"}, "main.bard"),
      ({"b.bard": ":: B\nB\n"}, "main.bard")]),
    ("a failing story, then another story sharing its files",
     [({"main.bard": ":: Start\nHi\n@include a.bard\n", "a.bard": ":: A\nA\n@include missing.bard\n"}, "main.bard"),
      ({"other.bard": ":: Start\nOther\n+ [go] -> C\n@include c.bard\n", "c.bard": ":: C\nC\n"}, "other.bard"),
      ({"a.bard": ":: A\nA\n"}, "main.bard")]),
    ("an included file is edited between two compilations",
     [({"main.bard": ":: Start\nHi\n+ [go] -> A\n@include sub/a.bard\n", "sub/a.bard": ":: A\nfirst text\n@include b.bard\n", "sub/b.bard": ":: B\nb one\n"}, "main.bard"),
      ({"sub/b.bard": ":: B\nb two\n+ [x] -> A\n"}, "main.bard"),
      ({"sub/a.bard": ":: A\nsecond text\n"}, "main.bard")]),
    ("files whose paths differ in letter case only include one another (two files, no cycle)",
     [({"Prologue.bard": ":: Start\nHi\n+ [go] -> P\n@include prologue.bard\n", "prologue.bard": ":: P\nlower\n@include Shared/items.bard\n",
        "Shared/items.bard": ":: Items\nupper dir\n@include ../shared/items.bard\n", "shared/items.bard": ":: items_lower\nlower dir\n@include ITEMS.bard\n",
        "shared/ITEMS.bard": ":: ITEMS_UP\nshouting\n"}, "Prologue.bard")]),
    ("cycles whose hops are written with .. (they pass through another directory)",
     [({"main.bard": ":: Start\nHi\n@include chapters/one.bard\n", "chapters/one.bard": ":: One\none\n@include ../main.bard\n"}, "main.bard"),
      ({"main.bard": ":: Start\nHi\n@include chapters/one.bard\n", "chapters/one.bard": ":: One\none\n@include ../shared/lib.bard\n",
        "shared/lib.bard": ":: Lib\nlib\n@include ../chapters/./one.bard\n"}, "main.bard"),
      ({"shared/lib.bard": ":: Lib\nlib\n"}, "main.bard")]),
    ("two stories compiled to the same output file, and back",
     [({"main.bard": ":: Start\nmain story\n+ [go] -> A\n@include a.bard\n", "a.bard": ":: A\nA of main\n", "other.bard": ":: Start\nother story\n"}, "main.bard"),
      ({}, "other.bard"), ({}, "main.bard"), ({}, "other.bard")]),
    ("includes below Python blocks whose closers carry comments",
     [({"main.bard": ":: Start\nHi\n@py:\nx = 1\n@endpy // done\n+ [go] -> A\n@include a.bard\n",
        "a.bard": ":: A\nA\n<<py\ny = 2\n>> // end\n+ [go] -> B\n@include sub/b.bard\n", "sub/b.bard": ":: B\nB\n@py: // note\nz = 3\n@endpy   // x\n@include ../c.bard\n", "c.bard": ":: C\nC\n"}, "main.bard")]),
    ("a diamond after a failure",
     [({"main.bard": ":: Start\nHi\n@include l.bard\n@include r.bard\n", "l.bard": ":: L\nl\n@include nope.bard\n", "r.bard": ":: R\nr\n"}, "main.bard"),
      ({"l.bard": ":: L\nl\n"}, "main.bard")]),
]


def history_probes(rep, prop, only_edit=False):
    """compilations made one after the other in ONE process, the files changing in between: each must be the compilation of
    the text obtained by substituting the includes of the files as they are at that moment"""
    n = 0
    for name, steps in HISTORIES:
        if only_edit and "edited" not in name and "same output" not in name:
            continue
        d = tempfile.mkdtemp(prefix="verif_hist_")
        try:
            for k, (files, main) in enumerate(steps):
                for p_, text in files.items():
                    full = os.path.join(d, p_)
                    os.makedirs(os.path.dirname(full), exist_ok=True)
                    with open(full, "w", encoding="utf-8") as f:
                        f.write(text)
                want, got1, got2, got3 = _compile_here(d, main)
                n += 1
                for label, got in (("parse_file", got1), ("compile_file", got2), ("the bundle's game.json", got3)):
                    if got is not None and got != want:
                        rep.violations.append({"cls": None, "family": "include-history", "what": f"history '{name}', compilation {k + 1} ({label} of {main}): "
                                               f"got {str(got)[:100]} where compiling the substituted text gives {str(want)[:100]}",
                                               "steps": [{"write": s_[0], "compile": s_[1]} for s_ in steps[:k + 1]]})
                        break
        finally:
            shutil.rmtree(d, ignore_errors=True)
    rep.coverage.setdefault("families", {})["include-history"] = {"compilations": n}
    rep.coverage["evaluations"] = rep.coverage.get("evaluations", 0) + n


DUP_LAYOUTS = [
    # (files, path handed to the compiler relative to the working directory)
    ({"main.bard": ":: Start\nHi\n+ [go] -> Courtyard\n\n:: Courtyard\nmain one\n\n@include chapters/main.bard\n",
      "chapters/main.bard": "# chapter file\n\n:: Gate\ngate\n\n:: Courtyard\nchapter one\n"}, "main.bard"),
    ({"main.bard": ":: Start\nHi\n+ [go] -> Courtyard\n\n:: Courtyard\nmain one\n\n@include chapters/main.bard\n",
      "chapters/main.bard": "# chapter file\n\n:: Gate\ngate\n\n:: Courtyard\nchapter one\n"}, "./main.bard"),
    ({"story/main.bard": ":: Start\nHi\n@include x/story/main.bard\n\n\n\n:: Hall\nsecond\n",
      "story/x/story/main.bard": ":: Hall\nfirst\n"}, "story/main.bard"),
    ({"main.bard": ":: Start\nHi\n\n:: A\none\n\n\n:: A\ntwo\n"}, "main.bard"),
    # both definitions stand in the same included file
    ({"main.bard": ":: Start\nHi\n+ [go] -> Twin\n\n\n\n\n@include ch/twins.bard\n", "ch/twins.bard": "# twins\n:: Twin\nfirst\n\n:: Other\no\n\n:: Twin\nsecond\n"}, "main.bard"),
    # text lines holding characters that str.splitlines() - but not split("\n") - takes for line ends, above the locations listed
    ({"main.bard": ":: Start\nHi\u2028there\nform\x0cfeed\n+ [go] -> A\n\n:: A\none\n@include sub/a.bard\n", "sub/a.bard": "note\x85x\nfs\x1cgs\x1d\n\n:: A\ntwo\n"}, "main.bard"),
    ({"main.bard": "@include a.bard\n@include sub/a.bard\n:: Start\nHi\n", "a.bard": "\n:: A\none\n", "sub/a.bard": "\n\n\n:: A\ntwo\n:: Start\nagain\n"}, "main.bard"),
]
_DUP_LINE = re.compile(r"^\s*Line\s+(\d+)(?: in (.+?))?: (.*?)  ← ", re.M)


def duplicate_report_probe(rep, prop):
    """every line of the combined text is attributed to its true file and line - also in the report of passages defined
    twice: each listed location, read in the file it names (the compiled file when it names none), must hold the listed line.
    The file is compiled through a relative path from the story's directory, the way authors call the compiler."""
    from bardic.compiler.parsing.io import parse_file
    from bardic.compiler.compiler import BardCompiler
    fam = prop.lower() + "-duplicate-report"
    n = 0
    for files, given in DUP_LAYOUTS:
        d = tempfile.mkdtemp(prefix="verif_dup_")
        cwd = os.getcwd()
        try:
            for p_, text in files.items():
                full = os.path.join(d, p_)
                os.makedirs(os.path.dirname(full), exist_ok=True)
                with open(full, "w", encoding="utf-8") as f:
                    f.write(text)
            os.chdir(d)
            for label, f in (("parse_file", lambda: parse_file(given)), ("compile_file", lambda: BardCompiler().compile_file(given, os.path.join(d, "_out.json"))),
                             ("parse_file (absolute)", lambda: parse_file(os.path.join(d, given)))):
                n += 1
                try:
                    with quiet():
                        f()
                    rep.violations.append({"cls": None, "family": fam, "what": f"{label}: a passage defined twice was accepted", "files": files, "compile": given})
                    continue
                except ValueError as e:
                    msg = str(e)
                except Exception as e:  # noqa
                    rep.violations.append({"cls": None, "family": fam, "what": f"{label}: {type(e).__name__}: {str(e)[:160]}", "files": files, "compile": given})
                    continue
                listed = _DUP_LINE.findall(msg)
                if len(listed) < 2:
                    rep.violations.append({"cls": None, "family": fam, "what": f"{label}: the duplicate-passage report lists no locations: {msg[:200]}", "files": files, "compile": given})
                    continue
                main_path = given if "absolute" not in label else os.path.join(d, given)
                for num, fil, content in listed:
                    path = fil.strip() if fil else main_path
                    try:
                        src = open(path, encoding="utf-8").read().split("\n")
                    except OSError:
                        src = None
                    got = src[int(num) - 1].strip() if src is not None and 0 < int(num) <= len(src) else None
                    if got != content.strip():
                        rep.violations.append({"cls": None, "family": fam, "files": files, "compile": given,
                                               "what": f"{label} of {given}: the report lists '{content.strip()}' at line {num} of "
                                                       f"{fil.strip() if fil else 'the compiled file (no file named)'}; that line reads {got!r}"})
                        break
        finally:
            os.chdir(cwd)
            shutil.rmtree(d, ignore_errors=True)
    rep.coverage.setdefault("families", {})[fam] = {"cases": n}
    rep.coverage["evaluations"] = rep.coverage.get("evaluations", 0) + n


def edit_recompile_probe(rep, prop):
    history_probes(rep, prop, only_edit=True)
