"""Executable statements of the properties, evaluated on observations of the REAL engine only
(independent of the Lean model).  Each oracle returns a list of failures
{"cls": <known-finding class or None>, "step": i, "what": text}."""
import copy
import re
import json

from compare import norm


def vn(pid):
    """passage name as part of a variable name (gen_story.vn)"""
    return pid.replace(".", "_")

SAFE_BUILTINS = {"len": len, "str": str, "int": int, "bool": bool, "list": list, "dict": dict, "range": range,
                 "sum": sum, "min": min, "max": max, "abs": abs, "sorted": sorted, "repr": repr}

READ_OPS = {"current", "has_choices", "is_end", "choice_texts", "choice_targets", "story_info", "save_meta",
            "can_undo", "can_redo", "save"}
NAV_OPS = {"choose", "goto"}


def strip_hist(st):
    return {k: v for k, v in st.items() if k not in ("nundo", "nredo")}


def fail(step, what, cls=None):
    return {"cls": cls, "step": step, "what": what}


def is_raise(resp, kind=None):
    return "raise" in resp and (kind is None or resp["raise"] == kind)


# ------------------------------------------------------------------------------------ C04

def oracle_c04(case, cap=50):
    real = case["real"]
    if real.get("status") != "ok":
        return []
    out = []
    past, future = [], []
    prev = real["init"]
    done, undone = [], None      # (index, response, state after) of accepted choices; the one just undone
    for i, (op, step) in enumerate(zip(case["ops"], real["steps"])):
        st, resp, name = step["state"], step["resp"], op["op"]
        # taking the same choice again after undoing it gives exactly what it gave the first time
        if name == "choose" and undone is not None and op["i"] == undone[0]:
            if norm(resp) != norm(undone[1]) or norm(strip_hist(st)) != norm(strip_hist(undone[2])):
                out.append(fail(i, "after undo the same choice was taken again and did not give what it gave the first time "
                                   f"(first: {json.dumps(undone[1])[:160]}; now: {json.dumps(resp)[:160]})"))
        if name == "choose" and prev.get("out") and 0 <= op["i"] < len(prev["out"]["choices"]):
            done.append((op["i"], resp, st))
            done = done[-cap:]
            undone = None
        elif name == "undo" and resp.get("ret") is True and done:
            undone = done.pop()
        elif name not in READ_OPS:
            undone = None
            if name in ("load", "fresh_load", "load_doc", "goto", "reset_one_time", "redo"):
                done = []
        if name == "choose":
            n = len(prev["out"]["choices"]) if prev.get("out") else 0
            if not (0 <= op["i"] < n):
                if not is_raise(resp, "IndexError"):
                    out.append(fail(i, f"index {op['i']} outside 0..{n - 1} answered {resp}"))
                if st != prev:
                    out.append(fail(i, "a rejected index changed the observable state (incl. undo/redo availability)"))
            else:
                past.append(strip_hist(prev))
                if len(past) > cap:
                    past.pop(0)
                future = []
        elif name == "undo":
            if past:
                if resp.get("ret") is not True:
                    out.append(fail(i, f"undo with history answered {resp}"))
                elif norm(strip_hist(st)) != norm(past[-1]):
                    out.append(fail(i, "undo did not restore the situation before the last choice"))
                future.append(strip_hist(prev))
                past.pop()
            else:
                if resp.get("ret") is not False or st != prev:
                    out.append(fail(i, "undo with nothing to undo did not answer False / changed something"))
        elif name == "redo":
            if future:
                if resp.get("ret") is not True:
                    out.append(fail(i, f"redo with history answered {resp}"))
                elif norm(strip_hist(st)) != norm(future[-1]):
                    out.append(fail(i, "redo did not return to the situation the undo left"))
                past.append(strip_hist(prev))
                if len(past) > cap:
                    past.pop(0)
                future.pop()
            else:
                if resp.get("ret") is not False or st != prev:
                    out.append(fail(i, "redo with nothing to redo did not answer False / changed something"))
        elif name in ("load", "fresh_load", "load_doc"):
            if not is_raise(resp) or (st["nundo"] == 0 and st["nredo"] == 0 and (prev["nundo"] or prev["nredo"])):
                if not is_raise(resp):
                    past, future = [], []
                elif st["nundo"] == 0 and st["nredo"] == 0:
                    past, future = [], []
        if st["nundo"] != len(past) or st["nredo"] != len(future):
            out.append(fail(i, f"history depth undo={st['nundo']} redo={st['nredo']} but {len(past)}/{len(future)} expected after {name}"))
            past = past[-st["nundo"]:] if st["nundo"] else []
            future = future[-st["nredo"]:] if st["nredo"] else []
        if st["nundo"] > cap:
            out.append(fail(i, f"more than {cap} undo levels"))
        if name == "can_undo" and resp.get("ret") != (len(past) > 0):
            out.append(fail(i, "can_undo disagrees with the history"))
        if name == "can_redo" and resp.get("ret") != (len(future) > 0):
            out.append(fail(i, "can_redo disagrees with the history"))
        prev = st
    return out


# ------------------------------------------------------------------------------------ C03

def oracle_c03(case):
    real = case["real"]
    if real.get("status") != "ok":
        return []
    out = []
    prev = real["init"]
    last_nav = None
    counters_prev = {k: v for k, v in prev["vars"].items() if k.startswith("n_")}
    hook_names = {k[2:] for k in counters_prev if k.startswith("n_H")}
    for i, (op, step) in enumerate(zip(case["ops"], real["steps"])):
        st, resp, name = step["state"], step["resp"], op["op"]
        if name in READ_OPS:
            if st != prev:
                out.append(fail(i, f"read call {name} changed the engine state"))
        if name in NAV_OPS:
            last_nav = resp["out"] if "out" in resp else None
        elif name not in READ_OPS:
            last_nav = None
        if name == "current" and last_nav is not None and "out" in resp:
            if norm(resp["out"]) != norm(last_nav):
                out.append(fail(i, "current() differs from what the last navigation call returned"))
        if name in NAV_OPS and "out" in resp:
            if norm(st["out"]) != norm(resp["out"]):
                out.append(fail(i, "the cached output differs from the result just returned"))
        # entry counters: each passage of a chain is entered exactly once per navigation
        counters = {k: v for k, v in st["vars"].items() if k.startswith("n_")}
        if name in NAV_OPS and not case.get("cycles"):
            for k, v in counters.items():
                d = v - counters_prev.get(k, 0) if isinstance(v, int) and isinstance(counters_prev.get(k, 0), int) else 0
                if d not in (0, 1):
                    # C08-F3: a cycle that runs through a TOP-LEVEL jump restarts the loop detection (each recursive goto has
                    # its own visited set), so its passages are entered again instead of the cycle being reported
                    has_top = any(t.get("type") == "jump" for p_ in case.get("story", {}).get("passages", {}).values() for t in p_.get("content", []))
                    out.append(fail(i, f"passage counter {k} moved by {d} in one navigation", "C08-mixed-cycle" if has_top else None))
            if "out" in resp:
                pid = resp["out"]["pid"]
                k = "n_" + vn(pid)
                if k in counters and isinstance(counters[k], int) and counters[k] - counters_prev.get(k, 0) != 1 \
                        and not (name == "choose" and _is_join(prev, op)):
                    out.append(fail(i, f"final passage {pid} was not entered exactly once"))
        # a statement inside an @if block (outside loops) runs at most once per entry of its passage
        if name in NAV_OPS and not case.get("cycles"):
            for k, v in st["vars"].items():
                if k.startswith("ib_") and isinstance(v, int) and isinstance(prev["vars"].get(k), int):
                    d = v - prev["vars"][k]
                    owner = "n_" + k[3:].rsplit("_", 1)[0]
                    own = [c for c in counters if c.replace(".", "_") == owner]
                    entries = (counters[own[0]] - counters_prev.get(own[0], 0)) if own and isinstance(counters[own[0]], int) else None
                    if entries is not None and d > max(entries, 0) and not (name == "choose" and _is_join(prev, op)):
                        out.append(fail(i, f"a statement inside a block of {owner[2:]} ran {d} time(s) while the passage was entered {entries} time(s) in this navigation"))
        counters_prev = counters
        prev = st
    return out


def _is_join(prev, op):
    try:
        return prev["out"]["choices"][op["i"]]["target"] == "@join"
    except Exception:  # noqa
        return False


# ------------------------------------------------------------------------------------ C02

def _eval_cond(cond, vars_):
    try:
        return bool(eval(cond, {"__builtins__": SAFE_BUILTINS}, copy.deepcopy(vars_)))
    except Exception:  # noqa
        return False


def _plain_text(tokens, env=None):
    """the text of a choice: plain text, or (given the variables) text with simple {expr} interpolations evaluated by the
    harness itself; None when it cannot be decided here (format specs, inline conditionals, failing expressions)"""
    if isinstance(tokens, str):
        return tokens
    if all(t.get("type") == "text" for t in tokens):
        return "".join(t["value"] for t in tokens)
    if env is None:
        return None
    out = []
    for t in tokens:
        if t.get("type") == "text":
            out.append(t["value"])
        elif t.get("type") == "expression" and ":" not in t.get("code", ":"):
            try:
                out.append(str(eval(t["code"], {"__builtins__": SAFE_BUILTINS}, copy.deepcopy(env))))
            except Exception:  # noqa
                return None
        else:
            return None
    return "".join(out)


def expected_top_choices(story, st, sec=None, own_used=None):
    """Top-level choices of the current passage/section that should be offered in the CURRENT
    variables; entries are (target, args, sticky, text or None); None = cannot be decided here."""
    pid = st["out"]["pid"]
    p = story["passages"].get(pid)
    if p is None:
        return None
    env = st["vars"]
    if p.get("params"):
        # the passage recorded its parameters on entry (probe `lk_<pid> = dict(_local)`): conditions see them over the globals
        lk = st["vars"].get("lk_" + vn(pid))
        if not isinstance(lk, dict) or set(lk) != {q["name"] for q in p["params"]} or own_used is None:
            return None
        env = dict(st["vars"], **lk)
    if sec is None:
        sec = st["join"].get(pid, 0)
    exp = []
    for c in p.get("choices", []):
        if c.get("section", 0) != sec:
            continue
        # (a one-time choice whose text interpolates variables is identified by the engine through its RENDERED text; whether
        # it counts as taken then depends on when the text was rendered — the oracle abstains for such passages)
        txt = _plain_text(c["text"])
        if not c.get("sticky", True):
            if txt is None:
                return None
            if own_used is not None:
                if (pid, txt, c["target"], c.get("section", 0)) in own_used:
                    continue
            elif f"{pid}:{txt}:{c['target']}" in st["used"]:
                continue
        cond = c.get("condition")
        if cond and not _eval_cond(cond, env):
            continue
        exp.append((c["target"], c.get("args", ""), c.get("sticky", True), txt))
    return exp


def oracle_c02(case):
    real = case["real"]
    if real.get("status") != "ok":
        return []
    story = case["story"]
    out = []
    prev = real["init"]
    states = [(-1, {"op": "init"}, {"out": prev["out"]}, prev, None)] + \
        [(i, op, s["resp"], s["state"], s.get("pre_hook_vars")) for i, (op, s) in enumerate(zip(case["ops"], real["steps"]))]
    exp_sec = 0      # the @join section the player is in, tracked independently of the engine
    own_used = set()  # one-time choices taken, as (passage they were shown in : text : target) — kept by the oracle itself
    own_past = []
    own_slots = []    # the oracle's record at each successful save
    for i, op, resp, st, pre_hook in states:
        name = op["op"]
        if own_used is None:
            pass
        elif name == "choose" and prev.get("out") and 0 <= op["i"] < len(prev["out"]["choices"]):
            own_past.append(set(own_used))
            own_past = own_past[-50:]
            ch0 = prev["out"]["choices"][op["i"]]
            if not ch0["sticky"]:
                # (a choice is the one written at that place: same text and target in ANOTHER section is another choice)
                own_used.add((prev["out"]["pid"], ch0["text"], ch0["target"], ch0.get("section", 0)))
        elif name == "undo" and resp.get("ret") is True:
            own_used = own_past.pop() if own_past else None
        if name == "save" and "doc" in resp:
            own_slots.append(set(own_used) if own_used is not None else None)
        if name in ("load", "fresh_load") and not is_raise(resp) and op.get("slot", -1) < len(own_slots) and own_slots[op["slot"]] is not None:
            # a loaded game has taken exactly the one-time choices that had been taken when it was saved
            own_used = set(own_slots[op["slot"]])
            own_past = []
        elif name in ("redo", "load", "fresh_load", "load_doc", "load_bad", "reset_one_time"):
            # (also when a load raises: loading re-enters the saved passage after the game was replaced, finding C05-F1)
            own_used = None      # beyond this oracle's own bookkeeping from here on (the engine's record is used instead)
        if name in ("init", "goto") and "out" in resp:
            exp_sec = 0
        elif name == "choose" and "out" in resp:
            exp_sec = (exp_sec + 1 if exp_sec is not None else None) if _is_join(prev, op) else 0
        elif name in ("load", "fresh_load") and not is_raise(resp) and st.get("out") and \
                not any(c.get("target") == "@join" for c in story["passages"].get(st["cur"], {}).get("choices", [])):
            exp_sec = 0      # loading re-enters the saved passage; without @join choices it has one section only
        elif name not in READ_OPS and name != "choose":
            exp_sec = None   # undo / redo / load: C04 / C05 territory
        elif name == "choose" and is_raise(resp) and not is_raise(resp, "IndexError"):
            exp_sec = None
        if name == "choose":
            n = len(prev["out"]["choices"]) if prev.get("out") else 0
            idx = op["i"]
            if not (0 <= idx < n):
                if not is_raise(resp, "IndexError"):
                    out.append(fail(i, f"index {idx} outside the offered range answered {resp}"))
                if st != prev:
                    out.append(fail(i, "a rejected index changed something observable"))
            else:
                ch = prev["out"]["choices"][idx]
                # one-time choice recorded as used, from the passage it was shown in
                cid = f"{prev['out']['pid']}:{ch['text']}:{ch['target']}"
                if not ch["sticky"] and cid not in st["used"]:
                    out.append(fail(i, "a taken one-time choice was not recorded as used"))
                if ch["sticky"] and cid in st["used"] and cid not in prev["used"]:
                    out.append(fail(i, "a repeatable choice was recorded as used"))
                # the story moved to the target of the choice that was shown
                if "out" in resp and ch["target"] != "@join":
                    tgt = ch["target"]
                    tp = story["passages"].get(tgt, {})
                    has_jump = _has_jump(tp)
                    if not has_jump and resp["out"]["pid"] != tgt:
                        out.append(fail(i, f"choose({idx}) showed target {tgt} but landed in {resp['out']['pid']}"))
                    k = "n_" + vn(tgt)
                    if k in st["vars"] and isinstance(st["vars"][k], int) and st["vars"][k] != prev["vars"].get(k, 0) + 1 and not case.get("cycles"):
                        out.append(fail(i, f"choose({idx}) did not enter its target {tgt} exactly once"))
        # a choice reached while rendering (inside @if / @for) is offered or filtered — never handed out as a render directive
        if name in ("init", "choose", "goto") and "out" in resp and resp["out"]:
            for d_ in resp["out"].get("rdirs", []):
                if d_.get("type") == "choice":
                    out.append(fail(i, f"a choice written inside a block ({d_.get('target')}) was returned among the render directives instead of being offered"))
        # choices written inside an @if branch that RAN in this navigation (its own counter statement went up by one) are
        # on offer when they are repeatable and unconditional - in whichever @join section the block stands
        if name in ("init", "choose", "goto") and "out" in resp and st.get("out") and st["out"]["pid"] == st["cur"] and not case.get("cycles"):
            before = prev["vars"] if prev is not st else {}
            offered_block = [(c["target"], c["args"]) for c in st["out"]["choices"]]
            for ran, ch_ in _ran_branch_choices(story["passages"].get(st["cur"], {}), before, st["vars"], first=(prev is st)):
                if ch_.get("sticky", True) and not ch_.get("condition") and (ch_.get("target"), ch_.get("args", "")) not in offered_block:
                    out.append(fail(i, f"the @if branch counted by {ran} ran in this navigation, but the repeatable unconditional choice "
                                       f"-> {ch_.get('target')}({ch_.get('args', '')}) written in it is not on offer "
                                       f"(offered: {[t for t, _ in offered_block]})"))
        # the output of a navigation names the passage the game is in
        if name in ("init", "choose", "goto") and "out" in resp and st.get("out") and resp["out"]["pid"] != st["cur"]:
            out.append(fail(i, f"{name} returned an output for passage {resp['out']['pid']} but the game is in {st['cur']}"))
        # offered choices are exactly the enabled ones (top-level part), whenever a navigation produced them
        if (name in ("init", "choose", "goto") and "out" in resp and st.get("out")) or \
                (name in ("load", "fresh_load") and not is_raise(resp) and st.get("out") and exp_sec == 0 and own_used is not None):
            hooks_now = bool(st["hooks"].get("turn_end")) and name == "choose"
            exp = expected_top_choices(story, st, exp_sec, own_used) if exp_sec is not None else None
            got = [(c["target"], c["args"], c["sticky"], c["text"]) for c in st["out"]["choices"] if not c["block"]]
            if exp is not None and st["out"]["pid"] == st["cur"]:
                exp_cmp = [(t, a, s_) for (t, a, s_, _) in exp]
                got_cmp = [(t, a, s_) for (t, a, s_, _) in got]
                if exp_cmp != got_cmp:
                    # C02-F2: the passage shown was reached through a jump chain that went through ANOTHER, parameterised passage
                    final = st["out"]["pid"]
                    if prev is not st:
                        leaked = any(p.get("params") and pid != final and _entered(prev, st, pid) for pid, p in story["passages"].items())
                    else:       # the constructor's own chain: Start -> P(args) -> …
                        leaked = any(p.get("params") and pid != final and isinstance(st["vars"].get("n_" + vn(pid)), int) and st["vars"]["n_" + vn(pid)] > 0
                                     for pid, p in story["passages"].items())
                    # C02-F1: the list was filtered BEFORE the turn_end hooks ran — it is exactly what is enabled in the
                    # variables as they stood when the hooks started (recorded by the harness), and a hook changed them
                    stale = False
                    if hooks_now and pre_hook is not None and pre_hook != st["vars"]:
                        exp0 = expected_top_choices(story, dict(st, vars=pre_hook), exp_sec, own_used)
                        stale = exp0 is not None and [(t, a, s_) for (t, a, s_, _) in exp0] == got_cmp
                    # C02-F3: a one-time choice is hidden because ANOTHER choice of the passage with the same text and target
                    # (in another @join section) was taken: the engine's record does not tell them apart
                    twin = False
                    if own_used is not None and len(exp_cmp) > len(got_cmp):
                        for (t_, a_, s__, txt_) in exp:
                            if not s__ and any(u[0] == final and u[1] == txt_ and u[2] == t_ and u[3] != exp_sec for u in own_used):
                                twin = True
                    cls = "C02-stale-after-hook" if stale else ("C02-leaked-scope" if leaked else ("C02-same-text-sections" if twin else None))
                    out.append(fail(i, f"offered top-level choices {got_cmp} but enabled ones are {exp_cmp}", cls))
        prev = st
    return out


_IB = re.compile(r"^(ib_\w+) = \1 \+ 1$")


def _ran_branch_choices(passage, before, after, first=False):
    """(counter, choice) for the choices of @if branches (outside loops) whose counter statement ran exactly once"""
    found = []

    def walk(toks):
        for t in toks:
            if t.get("type") != "conditional":
                continue
            for b in t.get("branches", []):
                cont = b.get("content", [])
                if any(x.get("type") == "jump" for x in cont):
                    continue            # the passage is left inside this branch
                for x in cont:
                    m = _IB.match(x.get("code", "")) if x.get("type") == "python_statement" else None
                    if m and isinstance(after.get(m.group(1)), int) and after[m.group(1)] == (before.get(m.group(1), 0) if isinstance(before.get(m.group(1), 0), int) else 0) + 1:
                        for c in b.get("choices", []):
                            found.append((m.group(1), c))
                walk(cont)
    walk(passage.get("content", []))
    for c in passage.get("choices", []):
        walk(c.get("block_content", []))
    return found


def _has_jump(p):
    def walk(toks):
        for t in toks:
            ty = t.get("type")
            if ty == "jump":
                return True
            if ty == "conditional" and any(walk(b.get("content", [])) for b in t.get("branches", [])):
                return True
            if ty == "for_loop" and walk(t.get("content", [])):
                return True
        return False
    return walk(p.get("content", []))


# ------------------------------------------------------------------------------------ C07

import ast as _ast


class BindError(Exception):
    pass


def py_bind(params, args_src, env):
    """Python's call rule (with Bardic's call-time defaults that may use earlier parameters),
    written independently of the engine.  Raises BindError(kind) or whatever the argument code raises."""
    call = _ast.parse(f"__f__({args_src})", mode="eval").body
    g = {"__builtins__": SAFE_BUILTINS}
    pos = [eval(compile(_ast.Expression(a), "<arg>", "eval"), g, env) for a in call.args]
    kws = {}
    for k in call.keywords:
        kws[k.arg] = eval(compile(_ast.Expression(k.value), "<arg>", "eval"), g, env)
    names = [p["name"] for p in params]
    if len(pos) > len(names):
        raise BindError("surplus")
    for k in kws:
        if k not in names:
            raise BindError("unknown")
    bound = {}
    for i, p in enumerate(params):
        n = p["name"]
        if i < len(pos):
            if n in kws:
                raise BindError("duplicate")
            bound[n] = pos[i]
        elif n in kws:
            bound[n] = kws[n]
        elif p["default"] is not None:
            bound[n] = eval(p["default"], g, {**env, **bound})
        else:
            raise BindError("missing")
    return bound


def _has_probe(story, pid):
    p = story["passages"].get(pid, {})
    return any(c.get("type") == "python_statement" and c.get("code", "").startswith(f"lk_{vn(pid)} =") for c in p.get("execute", []))


def _entered(prev, st, pid):
    a, b = prev["vars"].get("n_" + vn(pid), 0), st["vars"].get("n_" + vn(pid), 0)
    return isinstance(a, int) and isinstance(b, int) and b == a + 1


def oracle_c07(case):
    real = case["real"]
    if real.get("status") != "ok":
        return []
    story = case["story"]
    out = []
    all_params = set()
    for p in story["passages"].values():
        all_params |= {q["name"] for q in p.get("params", [])}
    prev = real["init"]
    globals_at_start = set(prev["vars"].keys())
    for i, (op, step) in enumerate(zip(case["ops"], real["steps"])):
        st, resp, name = step["state"], step["resp"], op["op"]
        if st["nscopes"] != 0:
            out.append(fail(i, f"{st['nscopes']} parameter scope(s) left over after {name}"))
        # parameters never appear in the global variables
        for q in all_params:
            if q in st["vars"] and q not in globals_at_start:
                out.append(fail(i, f"parameter name {q} appeared among the global variables"))
        target, args_src, is_block = None, None, False
        if name == "choose" and prev.get("out") and 0 <= op["i"] < len(prev["out"]["choices"]):
            ch = prev["out"]["choices"][op["i"]]
            if ch["target"] != "@join":
                target, args_src, is_block = ch["target"], ch["args"], ch["block"]
        # a compiled story never fails at run time for a missing/surplus/unknown/duplicate argument
        if name == "choose" and is_raise(resp, "ValueError") and target is not None:
            msg = resp.get("msg", "")
            if "Required parameter" in msg or "provided multiple times" in msg:
                out.append(fail(i, "argument-binding failure at run time: " + msg[:120],
                                "C07-unvalidated-block-call" if is_block else None))
        if target in story["passages"] and args_src is not None:
            tp = story["passages"][target]
            params = tp.get("params", [])
            if params and _has_probe(story, target) and _entered(prev, st, target):
                try:
                    exp = py_bind(params, args_src, copy.deepcopy(prev["vars"]))
                except BindError as be:
                    exp = ("binderr", str(be))
                except Exception:  # noqa  (argument code itself failed: ValueError path of the engine)
                    exp = None
                got = st["vars"].get("lk_" + vn(target))
                if isinstance(exp, dict):
                    try:
                        import real_play
                        exp_c = real_play.enc(exp)
                    except Exception:  # noqa
                        exp_c = None
                    if exp_c is not None and got != exp_c:
                        import re as _re
                        cls = "C07-arg-named-param" if any(_re.fullmatch(r"arg_\d+", q["name"]) for q in params) else None
                        out.append(fail(i, f"parameters of {target}({args_src}) bound as {got}, Python's call rule gives {exp_c}", cls))
                    # the passage's own render directive sees the parameters (shadowing same-named globals)
                    if exp_c is not None and "out" in resp:
                        for dct in resp["out"]["rdirs"]:
                            if dct.get("name") == "pr_" + vn(target) and dct.get("mode") == "evaluated":
                                want = {f"arg_{j}": exp_c[q["name"]] for j, q in enumerate(params)}
                                if dct.get("data") != want:
                                    out.append(fail(i, f"render directive of {target} saw {dct.get('data')}, parameters are {exp_c}"))
                elif isinstance(exp, tuple):
                    out.append(fail(i, f"call {target}({args_src}) violates the call rule ({exp[1]}) but was accepted and bound {got}",
                                    "C07-unvalidated-block-call" if is_block else None))
        # parameters never alter the global variables: when the step entered exactly one passage, and that passage has a
        # parameter named like a global, the global is what it was (assignments to the name inside the passage are local)
        if name in NAV_OPS and "out" in resp:
            counters = [k for k in st["vars"] if k.startswith("n_") and isinstance(st["vars"][k], int)]
            moved = [k for k in counters if st["vars"][k] != prev["vars"].get(k, 0)]
            if len(moved) == 1 and st["vars"][moved[0]] == prev["vars"].get(moved[0], 0) + 1:
                pid = {vn(p_): p_ for p_ in story["passages"]}.get(moved[0][2:], moved[0][2:])
                # (an @py block runs in the globals — it does not see the parameters — and may assign any global)
                has_py = "python_block" in json.dumps(story["passages"].get(pid, {}))
                for q in ([] if has_py else story["passages"].get(pid, {}).get("params", [])):
                    if q["name"] in prev["vars"] and st["vars"].get(q["name"]) != prev["vars"][q["name"]]:
                        out.append(fail(i, f"passage {pid} has a parameter {q['name']}; entering it changed the GLOBAL {q['name']} from "
                                           f"{prev['vars'][q['name']]!r} to {st['vars'].get(q['name'])!r}"))
        # passages without parameters see no scope (nothing lingers from an earlier passage of the chain)
        if name in NAV_OPS:
            entered_param = [pid for pid, p in story["passages"].items() if p.get("params") and _entered(prev, st, pid)]
            for pid, p in story["passages"].items():
                if not p.get("params") and _has_probe(story, pid) and _entered(prev, st, pid):
                    got = st["vars"].get("lk_" + vn(pid))
                    if got not in ({}, None):
                        out.append(fail(i, f"passage {pid} has no parameters but saw the scope {got}",
                                        "C07-block-jump-scope" if entered_param else None))
        prev = st
    return out


# ------------------------------------------------------------------------------------ C09

def _hook_passages_modify_hooks(story, names):
    def walk(toks):
        for t in toks:
            ty = t.get("type")
            if ty == "hook":
                return True
            if ty == "conditional" and any(walk(b.get("content", [])) for b in t.get("branches", [])):
                return True
            if ty == "for_loop" and walk(t.get("content", [])):
                return True
        return False
    for n in names:
        p = story["passages"].get(n, {})
        if walk(p.get("execute", [])) or walk(p.get("content", [])):
            return True
    return False


def _hook_passages_register(story, names):
    def walk(toks):
        for t in toks:
            ty = t.get("type")
            if ty == "hook" and t.get("action") == "add":
                return True
            if ty == "conditional" and any(walk(b.get("content", [])) for b in t.get("branches", [])):
                return True
            if ty == "for_loop" and walk(t.get("content", [])):
                return True
        return False
    return any(walk(story["passages"].get(n, {}).get("execute", [])) or walk(story["passages"].get(n, {}).get("content", []))
               for n in names)


def _touches_hooks_or_jumps(p):
    def walk(toks):
        for t in toks or []:
            if not isinstance(t, dict):
                continue
            if t.get("type") in ("hook", "jump"):
                return True
            if walk(t.get("content")) or any(walk(b.get("content")) for b in t.get("branches", []) if isinstance(b, dict)):
                return True
        return False
    return walk(p.get("execute")) or walk(p.get("content"))


def oracle_c09(case):
    real = case["real"]
    if real.get("status") != "ok":
        return []
    story = case["story"]
    out = []
    prev = real["init"]
    hpast, hfuture = [], []     # hook registrations at each restore point
    saved = []                  # (hook registrations, position) at each save
    for i, (op, step) in enumerate(zip(case["ops"], real["steps"])):
        st, resp, name = step["state"], step["resp"], op["op"]
        # registering twice has no additional effect: a passage is listed at most once per event
        for ev_, lst_ in st["hooks"].items():
            if len(set(lst_)) != len(lst_) and all(len(set(l0)) == len(l0) for l0 in prev["hooks"].values()):
                out.append(fail(i, f"after {name} a passage is registered more than once for {ev_}: {lst_}"))
        if name == "save" and not is_raise(resp):
            saved.append((copy.deepcopy(st["hooks"]), st.get("cur")))
            dh = (resp.get("doc") or {}).get("hooks")
            if dh is not None and {k: v for k, v in dh.items() if v} != {k: v for k, v in st["hooks"].items() if v}:
                out.append(fail(i, f"the save document lists the hooks as {dh}, the running game has {st['hooks']} (order is run order)"))
        if name in ("load", "fresh_load") and not is_raise(resp) and 0 <= op.get("slot", -1) < len(saved):
            want, pos = saved[op["slot"]]
            # (loading re-enters the saved passage — finding C05-F1 — so a passage that itself hooks / unhooks or jumps on is left out)
            if pos in story["passages"] and not _touches_hooks_or_jumps(story["passages"][pos]):
                got = {k: v for k, v in st["hooks"].items() if v}
                if got != {k: v for k, v in want.items() if v}:
                    out.append(fail(i, f"after loading a save the hook registrations are {st['hooks']}, the saved game had {want}"))
        if name == "choose" and prev.get("out") and 0 <= op["i"] < len(prev["out"]["choices"]):
            hpast.append(copy.deepcopy(prev["hooks"]))
            hpast = hpast[-50:]
            hfuture = []
        elif name == "undo" and resp.get("ret") is True and hpast:
            want = hpast.pop()
            hfuture.append(copy.deepcopy(prev["hooks"]))
            if st["hooks"] != want:
                out.append(fail(i, f"after undo the hook registrations are {st['hooks']}, before the undone choice they were {want}"))
        elif name == "redo" and resp.get("ret") is True and hfuture:
            want = hfuture.pop()
            hpast.append(copy.deepcopy(prev["hooks"]))
            if st["hooks"] != want:
                out.append(fail(i, f"after redo the hook registrations are {st['hooks']}, expected {want}"))
        elif name in ("load", "fresh_load", "load_doc") and not is_raise(resp):
            hpast, hfuture = [], []
        before = prev["vars"].get("hlog")
        after = st["vars"].get("hlog")
        if not isinstance(before, list) or not isinstance(after, list):
            prev = st
            continue
        if name == "choose" and "out" in resp:
            if after[:len(before)] != before:
                out.append(fail(i, "the hook log was rewritten during a choice"))
            else:
                ran = after[len(before):]
                reg_after = [h for h in st["hooks"].get("turn_end", []) if h in story["passages"]]
                reg_before = prev["hooks"].get("turn_end", [])
                if len(set(ran)) != len(ran):
                    out.append(fail(i, f"a hooked passage ran more than once in one turn: {ran}"))
                involved = set(reg_after) | set(ran) | set(reg_before)
                if not _hook_passages_register(story, involved):
                    # hooked passages may unhook (themselves or others) but none registers: whoever is still
                    # registered after the turn was registered when triggering started, so it ran, in order
                    it = iter(ran)
                    if not all(h in it for h in reg_after):
                        out.append(fail(i, f"still-registered hooks {reg_after} are not a subsequence of those that ran {ran}"))
                if not _hook_passages_modify_hooks(story, involved):
                    # nobody changes registrations while hooks run: those registered after the turn's own
                    # navigation are exactly those registered now
                    if ran != reg_after:
                        out.append(fail(i, f"hooked passages {reg_after} (in registration order) but {ran} ran"))
                # hook text is appended after the turn's own text, in run order
                content = resp["out"]["content"]
                pos = -1
                for h in ran:
                    mark = f"[{h} {st['vars'].get('n_' + h)}]"
                    p_has = any(t.get("type") == "text" and t.get("value", "").startswith(f"[{h} ")
                                for t in story["passages"].get(h, {}).get("content", []))
                    if p_has:
                        q = content.find(mark, pos + 1)
                        if q < 0:
                            out.append(fail(i, f"text of hooked passage {h} is missing or out of order in the turn's output"))
                            break
                        pos = q
        elif name == "choose" and is_raise(resp):
            pass
        elif name in ("undo", "redo", "load", "fresh_load", "load_doc"):
            # restored / reloaded variables: nothing must have RUN — the per-hook counters agree with the log
            for h, cnt in ((k[2:], v) for k, v in st["vars"].items() if k.startswith("n_H")):
                if isinstance(cnt, int) and cnt != after.count(h) and not (st["cur"] or "").startswith("H"):
                    # counters are bumped on every entry, the log too: they move together
                    out.append(fail(i, f"hook {h}: counter {cnt} but {after.count(h)} log entries after {name}"))
        else:
            target_is_hook = name == "goto" and op.get("spec", "").startswith("H")
            if after != before and not target_is_hook:
                out.append(fail(i, f"hooks ran on {name}: log grew by {after[len(before):]}"))
        prev = st
    return out


# ------------------------------------------------------------------------------------ C10

def oracle_c10(case):
    real = case["real"]
    if real.get("status") != "ok":
        return []
    story = case["story"]
    out = []
    prev = real["init"]
    exp_sec = 0
    past, future = [], []      # expected section at each restore point (mirrors undo / redo)
    for i, (op, step) in enumerate(zip(case["ops"], real["steps"])):
        st, resp, name = step["state"], step["resp"], op["op"]
        if name == "choose" and prev.get("out") and 0 <= op["i"] < len(prev["out"]["choices"]):
            past.append(exp_sec)
            past = past[-50:]
            future = []
        if name == "undo" and resp.get("ret") is True and past:
            future.append(exp_sec)
            exp_sec = past.pop()
            prev = st
            continue
        if name == "redo" and resp.get("ret") is True and future:
            past.append(exp_sec)
            exp_sec = future.pop()
            prev = st
            continue
        if name in ("load", "fresh_load", "load_doc") and not is_raise(resp):
            past, future = [], []
        if name == "goto" and "out" in resp:
            exp_sec = 0
        elif name == "choose" and "out" in resp:
            if _is_join(prev, op):
                ch = prev["out"]["choices"][op["i"]]
                pid = prev["out"]["pid"]
                # stays in the passage
                if prev["cur"] != pid:
                    # position and displayed passage disagree (left behind by an earlier failed navigation)
                    out.append(fail(i, f"join choice shown for {pid} was applied to {prev['cur']}", "C10-position-cache-mismatch"))
                    exp_sec = None
                    prev = st
                    continue
                if resp["out"]["pid"] != pid or st["cur"] != prev["cur"]:
                    out.append(fail(i, "a join choice left the passage"))
                # only the chosen block ran, once
                p = story["passages"].get(pid, {})
                mine = None
                for c in p.get("choices", []):
                    if c.get("target") == "@join" and _plain_text(c["text"]) is not None and \
                            c.get("section", 0) == ch["section"] and c.get("args", "") == ch["args"] and \
                            (_plain_text(c["text"]) == ch["text"]) and c.get("condition") == ch["condition"]:
                        for t in c.get("block_content", []):
                            if t.get("type") == "python_statement" and t["code"].startswith("jc_"):
                                mine = t["code"].split(" ")[0]
                        break
                jcs = {k for k in st["vars"] if k.startswith("jc_")}
                same_text = sum(1 for c in p.get("choices", []) if c.get("target") == "@join" and
                                c.get("section", 0) == ch["section"] and _plain_text(c["text"]) == ch["text"])
                if mine is not None and same_text == 1:
                    for k in jcs:
                        d = st["vars"][k] - prev["vars"].get(k, 0)
                        hooks_on = bool(st["hooks"].get("turn_end"))
                        if k == mine and d != 1:
                            out.append(fail(i, f"the chosen join block ran {d} times"))
                        if k != mine and d != 0:
                            out.append(fail(i, f"join block {k} ran although another choice was taken"))
                if exp_sec is not None:
                    exp_sec += 1
                    # the next section's choices are offered, and choices written inside @if/@for blocks of the section just
                    # shown; no other section's
                    for c in st["out"]["choices"]:
                        if c["section"] != exp_sec and not c["block"]:
                            out.append(fail(i, f"after a join choice a choice of section {c['section']} (block={c['block']}) is offered in section {exp_sec}"))
                            break
                    if st["join"].get(pid, 0) != exp_sec:
                        out.append(fail(i, f"join progress is {st['join'].get(pid, 0)}, expected {exp_sec}"))
            else:
                exp_sec = 0
                # an ordinary choice (re-)enters a passage: the first section is shown
                pid = resp["out"]["pid"]
                for c in st["out"]["choices"]:
                    if not c["block"] and c["section"] != 0:
                        out.append(fail(i, f"entering {pid} shows a choice of section {c['section']}"))
                        break
                if st["join"].get(pid, 0) != 0:
                    out.append(fail(i, f"entering {pid} leaves join progress at {st['join'].get(pid)}"))
        elif name == "choose" and is_raise(resp) and not is_raise(resp, "IndexError"):
            exp_sec = None
        elif name not in READ_OPS and name != "choose":
            exp_sec = None
        prev = st
    return out


# ------------------------------------------------------------------------------------ C08

def _top_jump(p):
    return any(t.get("type") == "jump" for t in p.get("content", []))


def _has_marker(p, pid):
    return any(t.get("type") == "text" and t.get("value") == f"={pid}=" for t in p.get("content", []))


def _jump_edges(story):
    edges = {}
    def walk(toks, acc):
        for t in toks:
            ty = t.get("type")
            if ty == "jump":
                acc.add(t.get("target"))
            elif ty == "conditional":
                for b in t.get("branches", []):
                    walk(b.get("content", []), acc)
            elif ty == "for_loop":
                walk(t.get("content", []), acc)
    for pid, p in story["passages"].items():
        acc = set()
        walk(p.get("content", []), acc)
        edges[pid] = acc
    return edges


def _cycle_reachable(story, start):
    edges = _jump_edges(story)
    color = {}
    def dfs(u):
        color[u] = 1
        for v in edges.get(u, ()):
            if v not in edges:
                continue
            if color.get(v) == 1:
                return True
            if color.get(v) is None and dfs(v):
                return True
        color[u] = 2
        return False
    return dfs(start)


def oracle_c08(case):
    real = case["real"]
    if real.get("status") != "ok":
        return []
    story = case["story"]
    out = []
    prev = real["init"]
    for i, (op, step) in enumerate(zip(case["ops"], real["steps"])):
        st, resp, name = step["state"], step["resp"], op["op"]
        if is_raise(resp, "Timeout"):
            out.append(fail(i, f"{name} did not terminate within the time limit"))
        if name in NAV_OPS and is_raise(resp, "RuntimeError") and "Jump loop detected" in resp.get("msg", ""):
            tgt = None
            if name == "goto":
                tgt = op["spec"].split("(")[0]
            elif prev.get("out") and 0 <= op["i"] < len(prev["out"]["choices"]):
                tgt = prev["out"]["choices"][op["i"]]["target"]
            if tgt in story["passages"] and not _cycle_reachable(story, tgt):
                out.append(fail(i, f"'Jump loop detected' reported from {tgt}, but no cyclic chain of jumps is reachable from it"))
        if name in NAV_OPS and "out" in resp and not (name == "choose" and _is_join(prev, op)):
            # text standing before a jump inside a block is kept
            for k, v in st["vars"].items():
                if k.startswith("bj_") and isinstance(v, int) and v == prev["vars"].get(k, 0) + 1:
                    if f"={k}=" not in resp["out"]["content"]:
                        out.append(fail(i, f"the line standing before block jump {k} was reached but its text is missing"))
            content = resp["out"]["content"]
            final = resp["out"]["pid"]
            entered = [pid for pid, p in story["passages"].items() if not pid.startswith("H") and _entered(prev, st, pid)]
            last_pos = -1
            for pid in entered:
                p = story["passages"][pid]
                if not _has_marker(p, pid):
                    continue
                pos = content.find(f"={pid}=")
                if pos < 0:
                    cls = "C08-top-jump-drops-text" if _top_jump(p) else None
                    out.append(fail(i, f"text of {pid}, a passage along the chain, is missing from the output", cls))
                elif pid == final:
                    last_pos = pos
            # the final passage's text comes last
            if last_pos >= 0:
                for pid in entered:
                    if pid != final and _has_marker(story["passages"][pid], pid):
                        pos = content.find(f"={pid}=")
                        if pos > last_pos:
                            out.append(fail(i, f"text of {pid} appears after the final passage {final}"))
            # only the first top-level jump of a passage takes effect: its target is the next passage entered
            for pid in entered:
                jumps = [t for t in story["passages"][pid].get("content", []) if isinstance(t, dict) and t.get("type") == "jump"]
                if jumps and jumps[0]["target"] in story["passages"] and jumps[0]["target"] not in entered:
                    out.append(fail(i, f"{pid} was entered but the target of its first jump, {jumps[0]['target']}, was not "
                                       f"(entered: {entered}, final: {final})"))
            # the final passage's choices are the ones offered
            if st["out"]["pid"] != final:
                out.append(fail(i, "cached output names another passage"))
        prev = st
    return out


# ------------------------------------------------------------------------------------ C01

LOOP_ONLY_NAMES = ("it", "w", "k", "v")      # the generator binds these as loop variables only


def oracle_c01(case):
    """'the loop variable is temporary': after a call that did not raise, no loop-only name is a story variable"""
    real = case["real"]
    if real.get("status") != "ok":
        return []
    out = []
    for i, (op, step) in enumerate(zip(case["ops"], real["steps"])):
        if "raise" in step["resp"]:
            continue
        left = [n for n in LOOP_ONLY_NAMES if n in step["state"]["vars"]]
        if left and not any(n in (real["steps"][i - 1]["state"]["vars"] if i else real["init"]["vars"]) for n in left):
            out.append(fail(i, f"loop variable(s) {left} still exist as story variables after {op['op']}"))
    return out


# ------------------------------------------------------------------------------------ rendering order (C01 / C08)

_WASNOW = re.compile(r"was (-?\d+)\n((?:(?!was -?\d+\n).)*?)now (-?\d+) (-?\d+)\n", re.S)


def oracle_wasnow(case):
    """the generator's probe `was {v}` / a block that adds k to v (an @if: once; an @for over [1, 2]: twice) / `now {v} {v + 0}`:
    what is shown after the block is the value the block left - expressions, conditions and jumps after a block see its effects"""
    real = case["real"]
    if real.get("status") != "ok":
        return []
    story = case["story"]
    ks = set()
    for p_ in story["passages"].values():
        toks = p_.get("content", [])
        for j, t in enumerate(toks):
            blob = json.dumps(t)
            if t.get("type") in ("conditional", "for_loop"):
                for m in re.finditer(r'"code": "(\w+) = \1 \+ (\d+)"', blob):
                    ks.add(int(m.group(2)) * (2 if t.get("type") == "for_loop" else 1))
                    if any(q.get("name") == m.group(1) for p2 in story["passages"].values() for q in p2.get("params", [])):
                        return []      # the counted variable is also a parameter somewhere: scopes decide what is shown (C07's matter)
    if not ks:
        return []
    out = []
    for i, (op, step) in enumerate(zip(case["ops"], real["steps"])):
        resp = step["resp"]
        if op["op"] in ("choose", "goto") and "out" in resp:
            for m in _WASNOW.finditer(resp["out"]["content"]):
                was, now1, now2 = int(m.group(1)), int(m.group(3)), int(m.group(4))
                if "{ERROR" in m.group(2):
                    continue
                if now1 != now2 or (now1 - was) not in ks:
                    out.append(fail(i, f"the passage shows 'was {was}', runs a block that adds to the variable, then shows 'now {now1} {now2}': "
                                       f"the value after the block must be {was} + one of {sorted(ks)} (what is rendered after a block sees what the block did)"))
    return out
