"""Entry point:  check.py <Cxx> [--tier quick|thorough] [--replay FILE]

Exit 0: the property held on everything explored (KNOWN-FINDING lines for listed findings);
exit 1 + `VIOLATION property=<id> replay=<path>`: violation (or an obligation/correspondence that no
longer checks, with `no-failing-input-found` when no failing input was found); exit 2: infrastructure."""
import argparse
import json
import os
import sys
import time
import traceback

sys.path.insert(0, os.path.dirname(os.path.abspath(__file__)))

from common import VERIF, seed_from_env, tier_from_env  # noqa: E402
import framework  # noqa: E402
import families  # noqa: E402
import props  # noqa: E402


def mp_children():
    import multiprocessing
    return multiprocessing.active_children()


def main():
    import warnings
    warnings.filterwarnings("ignore", category=SyntaxWarning)      # (CPython's remarks about the broken snippets the families compile)
    os.environ.setdefault("PYTHONWARNINGS", "ignore::SyntaxWarning")
    ap = argparse.ArgumentParser()
    ap.add_argument("prop")
    ap.add_argument("--tier", default=None)
    ap.add_argument("--replay", default=None)
    a = ap.parse_args()
    tier = a.tier or tier_from_env()
    seed = seed_from_env()
    if a.prop not in props.PROPS:
        print(f"unknown property {a.prop}")
        return 2
    spec = props.PROPS[a.prop]
    if a.replay:
        return props.replay(a.prop, a.replay)
    rep = framework.Report(a.prop, tier, seed)
    try:
        rep.lean = framework.lean_obligations(a.prop, spec["theorems"])
    except Exception as e:  # noqa
        rep.infra_errors.append(f"lean: {e}")
        rep.lean = {"ok": True, "obligations": len(spec["theorems"]), "discharged": 0, "broken": []}
    if rep.lean["ok"] is False and any("lake build failed" in b for b in rep.lean["broken"]) and \
            not os.path.exists(os.path.join(VERIF, "lean", ".lake", "build", "bin", "driver")):
        rep.infra_errors.append("driver binary missing and lake build failed")
    findings_lines = []
    # watchdog: a call of the code under test that never returns (outside the per-call limits of the play families) must
    # end the check with a verdict, not hang it
    import signal
    import threading
    from common import Timeout
    budget = float(os.environ.get("VERIF_WATCHDOG_S", "900" if tier == "quick" else "14400"))

    def _bark(signum, frame):
        raise Timeout()
    signal.signal(signal.SIGUSR1, _bark)
    dog = threading.Timer(budget, lambda: os.kill(os.getpid(), signal.SIGUSR1))
    dog.daemon = True
    dog.start()
    try:
        spec["run"](rep)
        findings_lines = props.replay_findings(a.prop, rep)
    except Timeout:
        rep.violations.append({"cls": None, "family": "watchdog",
                               "what": f"the check did not finish within {budget:.0f} s: some call of the code under test does not terminate "
                                       "(or became pathologically slow); the families completed so far are in the evidence file"})
        for ch in mp_children():
            ch.kill()
    except Exception as e:  # noqa
        rep.infra_errors.append("check crashed: " + "".join(traceback.format_exception_only(type(e), e)).strip())
        traceback.print_exc()
    finally:
        dog.cancel()
    rep.coverage["rule"] = spec.get("rule", "")
    return rep.finish(findings_lines, level=spec.get("level", "proof"), assumptions=spec.get("assumptions"))


if __name__ == "__main__":
    sys.exit(main())
