"""Entry point:  check.py <Cxx> [--tier quick|thorough] [--replay FILE]

Exit 0: the property held on everything explored (KNOWN-FINDING lines for listed findings);
exit 1 + `VIOLATION property=<id> replay=<path>`: violation (or an obligation/correspondence that no
longer checks, with `no-failing-input-found` when no failing input was found); exit 2: infrastructure."""
import argparse
import json
import os
import sys
import time
import traceback

sys.path.insert(0, os.path.dirname(os.path.abspath(__file__)))

from common import VERIF, seed_from_env, tier_from_env  # noqa: E402
import framework  # noqa: E402
import families  # noqa: E402
import props  # noqa: E402


def main():
    ap = argparse.ArgumentParser()
    ap.add_argument("prop")
    ap.add_argument("--tier", default=None)
    ap.add_argument("--replay", default=None)
    a = ap.parse_args()
    tier = a.tier or tier_from_env()
    seed = seed_from_env()
    if a.prop not in props.PROPS:
        print(f"unknown property {a.prop}")
        return 2
    spec = props.PROPS[a.prop]
    if a.replay:
        return props.replay(a.prop, a.replay)
    rep = framework.Report(a.prop, tier, seed)
    try:
        rep.lean = framework.lean_obligations(a.prop, spec["theorems"])
    except Exception as e:  # noqa
        rep.infra_errors.append(f"lean: {e}")
        rep.lean = {"ok": True, "obligations": len(spec["theorems"]), "discharged": 0, "broken": []}
    if rep.lean["ok"] is False and any("lake build failed" in b for b in rep.lean["broken"]) and \
            not os.path.exists(os.path.join(VERIF, "lean", ".lake", "build", "bin", "driver")):
        rep.infra_errors.append("driver binary missing and lake build failed")
    findings_lines = []
    try:
        spec["run"](rep)
        findings_lines = props.replay_findings(a.prop, rep)
    except Exception as e:  # noqa
        rep.infra_errors.append("check crashed: " + "".join(traceback.format_exception_only(type(e), e)).strip())
        traceback.print_exc()
    rep.coverage["rule"] = spec.get("rule", "")
    return rep.finish(findings_lines, level=spec.get("level", "proof"), assumptions=spec.get("assumptions"))


if __name__ == "__main__":
    sys.exit(main())
