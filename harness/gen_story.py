"""Seeded generator of Bardic stories as *source ASTs* plus a printer to `.bard` text.

Type-directed: a pool of global variables with known types initialised in the start passage;
expressions are drawn so that they evaluate (a separate fault stream injects failing forms).
Everything stays inside the MiniPy fragment (DESIGN Appendix B); in particular no `//`
(the comment stripper eats it), no `/`, no floats, no aliasing.
"""
import random

WORDS = ["alpha", "beta", "gamma", "the door", "you see", "a lamp", "cold", "warm", "old map",
         "river", "stone", "north", "quiet", "wind", "gold", "key", "rope", "Look", "Wait", "Go on"]

# comment texts that look like syntax: none of it may leak into the story
COMMENTS = ["note", "TODO later", "x y z", "why: because", "first part (depth=1)", "(optional)", "it's odd", 'the "real" one',
            "-> Nowhere", "^hidden", "{a}", "see [this] -> That", "a // b", "@endif", "<>", "~ a = 1", "50% (half)"]

INT_VARS = ["a", "b", "c"]
BOOL_VARS = ["f", "g"]
STR_VARS = ["s", "t"]
LIST_VARS = ["xs", "ys"]
SLIST_VARS = ["ws"]
DICT_VARS = ["d"]

FAULT_EXPRS = ["nope", "xs[99]", "d['zz']", "1 + 's'", "int('x')", "len(5)", "1 % 0", "a.foo()"]

DEFAULT_FEATURES = dict(
    params=0.35, hooks=0.3, join=0.3, loops=0.5, conds=0.7, render=0.3, inputs=0.15,
    inline_cond=0.4, faults=0.15, glue=0.3, tags=0.2, comments=0.2, py_blocks=0.3,
    top_jumps=0.25, block_jumps=0.3, one_time=0.4, block_choices=0.5, fmt=0.4,
    jump_mode_cycles=0.15, legacy=0.0, stmt_faults=0.08, shadow=0.3, shared_src=0.07, colon_texts=0.15,
)


def vn(pid):
    """passage name as part of a variable name (dotted names are legal passage names)"""
    return pid.replace(".", "_")


class Gen:
    def __init__(self, rng, features=None, n_passages=None, max_depth=2):
        self.r = rng
        self.f = dict(DEFAULT_FEATURES)
        if features:
            self.f.update(features)
        self.n = n_passages or rng.randint(3, 6)
        self.max_depth = max_depth
        self.names = ["Start"] + [f"P{i}" for i in range(1, self.n)]
        if rng.random() < self.f.get("odd_names", 0) and self.n > 2:
            # legal passage names that look like something else: pieces of the reserved "@join", dotted names, a leading underscore
            self.names[-1] = rng.choice(["join", "in", "jo", "o", "Scene.One", "_end", "oin", "Client.Aria.S1", "Client.Aria.S1", "Town.Inn"])
            if self.names[-1] == "Client.Aria.S1" and self.n > 3 and rng.random() < 0.7:
                self.names[-2] = "Client.Aria"          # the namespace's own hub next to the passage inside it
        self.hook_names = []
        self.params = {}     # passage -> [(name, default or None)]
        self.cycles = rng.random() < self.f["jump_mode_cycles"]
        self.stats = {}
        self.pool = None

    # ------------------------------------------------------------------ helpers
    def pooled(self, kind=None):
        """source texts shared between roles: the SAME text is a statement (~ e), an interpolation ({e}) and a condition"""
        if self.pool is None:
            self.pool = {"int": self.int_expr(1), "bool": self.bool_expr(1), "str": self.str_expr(1), "len": "len(xs)"}
        self.count("shared_src")
        return self.pool[kind] if kind else self.pool[self.r.choice(sorted(self.pool))]

    def p(self, key):
        return self.r.random() < self.f.get(key, 0)

    def count(self, key):
        self.stats[key] = self.stats.get(key, 0) + 1

    def word(self):
        return self.r.choice(WORDS)

    def bullet(self):
        """prose that starts like a choice line but is not one (only ever used indented: inside blocks)"""
        return self.r.choice(["*sigh* ", "* * * ", "+1 gold ", "+ one more thing ", "*"])

    def prose(self):
        """a word for running text / choice text: sometimes with an apostrophe or a quote in it"""
        if self.r.random() < 0.12:
            return self.r.choice(["don't", "the keeper's", 'say "ah', "it's 5 o'clock"])
        return self.r.choice(WORDS)

    # ------------------------------------------------------------------ expressions
    def int_expr(self, depth=0, ints=None):
        ints = ints or INT_VARS
        r = self.r
        k = r.randint(0, 11 if depth < 2 else 3)
        if k <= 1:
            return str(r.randint(0, 9))
        if k <= 3:
            return r.choice(ints)
        if k == 4:
            return f"{self.int_expr(depth + 1, ints)} + {self.int_expr(depth + 1, ints)}"
        if k == 5:
            return f"{self.int_expr(depth + 1, ints)} - {r.randint(0, 3)}"
        if k == 6:
            return f"{r.choice(ints)} * {r.randint(0, 3)}"
        if k == 7:
            return f"({self.int_expr(depth + 1, ints)}) % {r.randint(2, 5)}"
        if k == 8:
            return r.choice([f"len({r.choice(LIST_VARS + SLIST_VARS)})", "len(nest['inner'])", "nest['k']"])
        if k == 9:
            return f"sum({r.choice(LIST_VARS)})"
        if k == 10:
            return f"d.get('{r.choice(['k', 'm', 'zz'])}', {r.randint(0, 3)})"
        return f"({self.int_expr(depth + 1, ints)} if {self.bool_expr(depth + 1, ints)} else {self.int_expr(depth + 1, ints)})"

    def bool_expr(self, depth=0, ints=None):
        ints = ints or INT_VARS
        r = self.r
        if depth == 0 and ints is INT_VARS and self.p("shared_src"):
            return self.pooled("bool")
        k = r.randint(0, 9 if depth < 2 else 4)
        if k == 0:
            return r.choice(BOOL_VARS)
        if k <= 2:
            return f"{r.choice(ints)} {r.choice(['>', '<', '==', '!=', '>=', '<='])} {r.randint(0, 4)}"
        if k == 3:
            return f"len({r.choice(LIST_VARS)}) {r.choice(['>', '<', '=='])} {r.randint(0, 3)}"
        if k == 4:
            return f"{r.randint(0, 4)} in {r.choice(LIST_VARS)}"
        if k == 5:
            return f"not {r.choice(BOOL_VARS)}"
        if k == 6:
            return f"{self.bool_expr(depth + 1, ints)} {r.choice(['and', 'or'])} {self.bool_expr(depth + 1, ints)}"
        if k == 7:
            return f"{r.choice(STR_VARS)} == '{self.word()}'"
        if k == 8:
            return f"'{r.choice(['k', 'm', 'zz'])}' in d"
        return f"{self.int_expr(depth + 1, ints)} > {self.int_expr(depth + 1, ints)}"

    def str_expr(self, depth=0):
        r = self.r
        k = r.randint(0, 5 if depth < 2 else 2)
        if k == 0:
            return f"'{self.word()}'"
        if k <= 2:
            return r.choice(STR_VARS)
        if k == 3:
            return f"{r.choice(STR_VARS)} + '{r.choice(['x', ' y', 'z'])}'"
        if k == 4:
            return f"str({self.int_expr(depth + 1)})"
        return f"{r.choice(STR_VARS)}.upper()"

    def list_expr(self):
        r = self.r
        k = r.randint(0, 5)
        if k <= 1:
            return f"list({r.choice(LIST_VARS)})"      # never a bare name: no aliasing
        if k == 2:
            return f"{r.choice(LIST_VARS)} + [{r.randint(0, 9)}]"
        if k == 3:
            return f"[{', '.join(str(r.randint(0, 9)) for _ in range(r.randint(0, 3)))}]"
        if k == 4:
            return f"sorted({r.choice(LIST_VARS)})"
        return f"list(range({r.randint(0, 3)}))"

    def any_expr(self, ints=None):
        k = self.r.randint(0, 9)
        if k <= 4:
            return self.int_expr(0, ints)
        if k <= 6:
            return self.str_expr()
        if k == 7:
            return self.bool_expr(0, ints)
        if k == 8:
            return self.list_expr()
        return "dict(d)"

    def display(self, ints=None):
        """a display part: ("e", code) | ("ef", code, spec) | fault"""
        r = self.r
        if self.p("faults"):
            self.count("fault_expr")
            return ("e", r.choice(FAULT_EXPRS + ["1 +"]))
        if self.p("fmt"):
            self.count("fmt")
            k = r.randint(0, 7)
            if k <= 3:
                return ("ef", self.int_var_or_lit(ints), r.choice([">4", "03", "<3", "x", ",", "+d", "^5", "d", "*>6"]))
            if k <= 5:
                return ("ef", r.choice(STR_VARS), r.choice(["<6", ">7", "^5", "s", "-<8"]))
            if k == 6:
                return ("ef", r.choice(STR_VARS), "d")      # ValueError marker
            return ("ef", r.choice(LIST_VARS), ">4")         # TypeError marker
        if self.p("shared_src"):
            return ("e", self.pooled())
        return ("e", self.any_expr(ints))

    def int_var_or_lit(self, ints=None):
        ints = ints or INT_VARS
        return self.r.choice(ints + [str(self.r.randint(0, 2000))])

    # ------------------------------------------------------------------ statements
    def py_lines(self, ints, n):
        """lines of a @py block: a failing line only in first position (in-place effects of earlier
        lines would survive the failure through aliasing, which Sem does not model)"""
        first = self.stmt(ints)
        lines = [first] + [self.stmt(None, no_fault=True) for _ in range(n - 1)]
        # an in-place mutation followed by a line that fails (e.g. arithmetic on a variable that became None) would
        # survive the failure in Python but not in the model: keep at most one mutating line, and keep it last
        def mutates(l):
            return ".append(" in l or "+= [" in l or l.startswith(("d[", "nest["))
        mut = [l for l in lines if mutates(l)]
        return [l for l in lines if not mutates(l)] + mut[-1:]

    def stmt(self, ints=None, no_fault=False):
        r = self.r
        if not no_fault and self.p("stmt_faults"):
            self.count("fault_stmt")
            return r.choice(["a = nope", "xs[99] = 1", "b = 1 % 0", "s = s + 1", "zz.append(1)", "c = d['zz']"])
        if self.p("alias") and getattr(self, "loop_depth", 0) == 0 and r.random() < 0.45:
            # variables sharing one object (real-code-only families): mutate through one name, read through another
            return r.choice(["xs.append(len(ys))", "ys.append(1)", "nest['inner'].append(2)", "hero['hp'] = hero['hp'] - 1",
                             "party[0]['hp'] = party[0]['hp'] + 2 if party else 0", "ys = xs", "d['lst'] = ys", "xs.append(3)",
                             "t = str(party[0]['hp']) if party else 'none'", "s = str(nest['inner']) + str(ys) + str(hero)",
                             "t = str(duo) if 'duo' in _state else 'solo'", "s = str(duo[0]['hp']) + str(len(duo[1])) if 'duo' in _state else s",
                             "ys = list(ys)"])
        if self.p("shared_src"):
            return self.pooled()          # an expression statement whose text is also displayed / tested elsewhere
        if r.random() < self.f.get("retype", 0.06):
            # rebinding a name to an EQUAL value of another type (True -> 1): what is shown afterwards is the new value
            v = r.choice(BOOL_VARS)
            return r.choice([f"{v} = int({v})", f"{v} = int({v}) + 0", f"{v} = 1 if {v} else 0"])
        k = r.randint(0, 13)
        if getattr(self, "loop_depth", 0) > 0 and k in (7, 8, 11, 12, 13):
            k = 3      # no list growth inside loops: repeated visits would grow lists exponentially
        if k == 13:
            return r.choice([f"nest['inner'].append({self.int_expr(1, ints)})", f"nest['k'] = {self.int_expr(1, ints)}",
                             f"nest['deep'] = {{'l': nest['deep']['l'] + [{r.randint(0, 3)}]}}"])
        if k <= 2:
            return f"{r.choice(INT_VARS)} = {self.int_expr(0, ints)}"
        if k == 3:
            return f"{r.choice(INT_VARS)} += {r.randint(1, 3)}"
        if k == 4:
            return f"{r.choice(INT_VARS)} -= {r.randint(1, 3)}"
        if k == 5:
            return f"{r.choice(BOOL_VARS)} = {self.bool_expr(0, ints)}"
        if k == 6:
            return f"{r.choice(STR_VARS)} = {self.str_expr()}"
        if k == 7:
            return f"xs.append({self.int_expr(1, ints)})"
        if k == 8:
            return f"{r.choice(LIST_VARS)} = {self.list_expr()}"
        if k == 9:
            return f"d['{r.choice(['k', 'm', 'q'])}'] = {self.int_expr(1, ints)}"
        if k == 10:
            return f"{r.choice(INT_VARS)} *= 2" if r.random() < 0.6 else f"{r.choice(INT_VARS)} //= {r.choice([2, 3, -2])}"
        if k == 11:
            return f"ws.append({self.str_expr(1)})"
        return f"xs += [{r.randint(0, 5)}]"

    # ------------------------------------------------------------------ lines
    def parts(self, ints=None, allow_ic=True):
        r = self.r
        ps = []
        for _ in range(r.randint(1, 3)):
            k = r.random()
            if k < 0.04:
                ps.append(("t", "see a\\//b "))        # an escaped // is text, not a comment
            elif k < 0.16 and self.p("odd_colons"):
                # more than one colon in a display expression (real-engine differential families only: outside the
                # colon-safe fragment, and outside MiniPy)
                ps.append(("e", r.choice(["xs[0:1]:", "s[0:2]:>6", "ys[:1]:", "d['k']:>3:", "'a:b':>5", "s:%H:%M", "(1 if f else 2):>3",
                                          "{'k': 1}['k']:03", "xs[len(xs):]:"])))
            elif k < 0.5:
                ps.append(("t", self.prose() + r.choice([" ", ", ", ". ", ""])))
            elif k < 0.85 or not allow_ic:
                ps.append(self.display(ints))
                if r.random() < 0.25:          # two interpolations separated by blanks only
                    ps.append(("t", r.choice([" ", "  "])))
                    ps.append(self.display(ints))
            elif self.p("inline_cond"):
                self.count("inline_cond")
                cond = self.bool_expr(0, ints) if not self.p("faults") else r.choice(["nope > 1", "xs[99]"])
                ps.append(("ic", cond, self.parts(ints, False)[:2], self.parts(ints, False)[:1] if r.random() < 0.7 else []))
            else:
                ps.append(("t", self.word()))
        # a line must not be empty / whitespace only and must not start with a directive character
        if ps[0][0] != "t":
            ps.insert(0, ("t", self.word() + " "))
        return ps

    def line(self, ints=None):
        tags = [self.r.choice(["t1", "mood:dark", "x"])] if self.p("tags") else []
        ln = {"k": "line", "parts": self.parts(ints), "glue": self.p("glue"), "tags": tags,
              "comment": ("note " + self.word()) if self.p("comments") else None}
        if ln["glue"] and not tags and self.r.random() < 0.3:
            # the text itself ends in the characters the glue operator is made of
            ln["parts"] = ln["parts"] + [("t", self.r.choice(["</b>", " ->", "<", ">>", " <<", "a<b>"]))]
        return ln

    def args_for(self, target, ints=None):
        """argument text for a call of `target`, valid by Python call rules"""
        ps = self.params.get(target, [])
        if not ps:
            return ""
        r = self.r
        out = []
        use_kw = False
        for (name, default) in ps:
            if default is not None and r.random() < 0.5:
                use_kw = True          # skip it; everything after must be keyword
                continue
            val = self.int_expr(1, ints) if r.random() > 0.12 else r.choice(["z", "None"])
            if self.p("str_args"):
                # a string argument holding parentheses, quotes, commas: text, not structure
                val = r.choice(["'fine :)'", "':('", "'(('", "'a, b'", "'say \"hi)\"'", "'x=1)'", "\"it's (\""])
            if use_kw or r.random() < 0.25:
                use_kw = True
                out.append(f"{name}={val}")
            else:
                out.append(val)
        return ", ".join(out)

    def target(self, cur_idx, forward_only):
        r = self.r
        # the start passage initialises every variable, so it is entered once only (by the constructor)
        if forward_only:
            cands = [n for i, n in enumerate(self.names) if i > cur_idx]
            if not cands:
                return None
            return r.choice(cands)
        return r.choice(self.names[1:])

    def choice(self, cur_idx, ints=None, in_block=False, join=False):
        r = self.r
        tgt = "@join" if join else self.target(cur_idx, False)
        text = [("t", self.prose())]
        if self.p("colon_texts"):
            # a colon in the text of a choice (its record among the used one-time choices is "passage:text:target")
            text = [("t", r.choice(["Ask: ", "12:30 ", "a:b:c ", ": "])) ] + text
        if r.random() < 0.3:
            text.append(("t", " "))
            text.append(("e", self.int_expr(1, ints)))
        cond = None
        if r.random() < 0.45:
            cond = self.bool_expr(0, ints)
            if self.p("faults"):
                cond = r.choice(["nope", "xs[99] > 1"])
        extra = [v for v in (ints or []) if v not in INT_VARS and v not in ("it", "v")]
        if extra and not join and self.p("param_conds"):
            # a condition on a parameter of the passage the choice stands in (true or false depending on the call)
            cond = f"{r.choice(extra)} {r.choice(['>', '<', '!=', '>=', '=='])} {r.randint(0, 4)}" + r.choice(["", f" or {r.choice(extra)} == None"])
        if cond is not None and r.random() < 0.15:
            cond = r.choice([" ", "  ", "\t"]) + cond + r.choice(["", " "])       # blanks inside the braces are kept by the compiler
        return {"k": "choice", "sticky": not self.p("one_time"), "cond": cond, "text": text,
                "target": tgt, "args": "" if join else self.args_for(tgt, ints),
                "tags": [r.choice(["c1", "c2"])] if self.p("tags") else [], "block": []}

    def block_items(self, cur_idx, depth, ints, in_loop=False):
        """items inside an @if branch or @for body"""
        r = self.r
        items = []
        for _ in range(r.randint(1, 3)):
            k = r.random()
            if k < 0.4:
                ln = self.line(ints)
                if r.random() < 0.1:
                    ln["parts"] = [("t", self.bullet())] + ln["parts"]      # looks like a choice line, is prose
                items.append(ln)
            elif k < 0.6:
                items.append({"k": "stmt", "code": self.stmt(ints), "comment": None})
            elif k < 0.68 and self.p("render"):
                items.append(self.render(ints))
            elif k < 0.74 and self.hook_names and self.p("hooks"):
                items.append({"k": "hook", "add": r.random() < 0.6, "target": r.choice(self.hook_names)})
            elif k < 0.82 and depth < self.max_depth and self.p("conds"):
                items.append(self.if_block(cur_idx, depth + 1, ints))
            elif k < 0.88 and depth < self.max_depth and self.p("loops"):
                items.append(self.for_block(cur_idx, depth + 1, ints))
            elif k < 0.92 and self.p("py_blocks"):
                items.append({"k": "py", "lines": self.py_lines(ints, r.randint(1, 2))})
            else:
                items.append({"k": "blank"})
        if self.p("block_choices"):
            self.count("block_choice")
            items.append(self.choice(cur_idx, ints, in_block=True))
        if self.p("block_jumps"):
            t = self.target(cur_idx, not self.cycles)
            if t is not None:
                self.count("block_jump")
                if r.random() < self.f.get("markers", 0.6):
                    self.nbj = getattr(self, "nbj", 0) + 1
                    items.append({"k": "line", "parts": [("t", f"=bj_{self.nbj}=")], "glue": False, "tags": [], "comment": None})
                    items.append({"k": "stmt", "code": f"bj_{self.nbj} = bj_{self.nbj} + 1", "comment": None})
                items.append({"k": "jump", "target": t, "args": ""})
        return items

    def if_block(self, cur_idx, depth, ints):
        r = self.r
        self.count("if")
        COLON = ["xs[1:]", "len(xs[0:2]) > 0", "{'a': 1}['a'] == 1", "ys[:1] == ys[0:1]"]
        # (a colon inside a condition: real-compiler-only families — slices and dict displays are outside MiniPy)
        c0 = r.choice(COLON) if self.p("colon_conds") and r.random() < 0.4 else (self.bool_expr(0, ints) if not self.p("faults") else "nope > 0")
        branches = [(c0, self.block_items(cur_idx, depth, ints))]
        if self.p("block_counters") and getattr(self, "loop_depth", 0) == 0 and cur_idx < len(self.names):
            # a statement inside the block counts how often the block ran: at most once per entry of its passage
            self.ibs = getattr(self, "ibs", [])
            nm = f"ib_{self.names[cur_idx].replace('.', '_')}_{len(self.ibs)}"
            self.ibs.append(nm)
            branches[0][1].insert(0, {"k": "stmt", "code": f"{nm} = {nm} + 1", "comment": None})
        if r.random() < 0.4:
            c1 = r.choice(COLON) if self.p("colon_conds") and r.random() < 0.4 else self.bool_expr(0, ints)
            branches.append((c1, self.block_items(cur_idx, depth, ints)))
        if r.random() < 0.5:
            branches.append((None, self.block_items(cur_idx, depth, ints)))
        if len(branches) > 1 and r.random() < 0.1:
            # a branch that is taken and holds nothing (an author's "not yet"): the branches after it stay untouched
            branches[0] = (r.choice(["True", "1 == 1", c0]), [])
        return {"k": "if", "branches": branches}

    def for_block(self, cur_idx, depth, ints):
        r = self.r
        self.count("for")
        k = r.random()
        if self.p("colon_conds") and r.random() < 0.3:
            var, coll, inner = "it", r.choice(["xs[0:2]", "ys[:1]", "{'a': 1, 'b': 2}"]), ints
        elif k < 0.5:
            var, coll, inner = "it", r.choice(["ys", "list(xs)", "range(2)", "[1, 2]", "sorted(xs)"]), (ints or INT_VARS) + ["it"]
        elif k < 0.65:
            var, coll, inner = "w", "list(ws)", ints
        elif k < 0.8:
            var, coll, inner = "k, v", "list(d.items())", (ints or INT_VARS) + ["v"]
        elif k < 0.9:
            var, coll, inner = r.choice(["a", "it"]), r.choice(["ys", "list(xs)"]), ints   # shadows / restores a global
            own = [v for v in (ints or []) if v not in INT_VARS and v not in ("it", "v", "k", "w")]
            if own and self.p("shadow"):
                var = r.choice(own)        # a loop variable named like a parameter of the passage
        else:
            var, coll, inner = "it", r.choice(["nope", "5", "xs[99]"]), ints       # failing collection
        self.loop_depth = getattr(self, "loop_depth", 0) + 1
        try:
            body = self.block_items(cur_idx, depth, inner, in_loop=True)
        finally:
            self.loop_depth -= 1
        return {"k": "for", "var": var, "coll": coll, "body": body}

    def render(self, ints=None):
        r = self.r
        self.count("render")
        k = r.random()
        if self.f.get("alias", 0) > 0 and r.random() < 0.6:
            # the live objects themselves as directive data (real-code-only families): a later in-place change must not
            # reach what was displayed earlier
            args = r.choice(["xs", "hero", "party", "nest", "ys, k=hero", "xs, ys", "d"])
        elif k < 0.2:
            args = ""
        elif k < 0.85:
            args = ", ".join([self.any_expr(ints) for _ in range(r.randint(1, 2))] +
                             ([f"k={self.int_expr(1, ints)}"] if r.random() < 0.4 else []))
        else:
            args = r.choice(["nope", "1 +", "xs[99]"])
        return {"k": "render", "name": r.choice(["card", "hud", "show_map"]), "args": args}

    # ------------------------------------------------------------------ passages
    def passage(self, idx):
        r = self.r
        name = self.names[idx]
        params = self.params.get(name, [])
        ints = INT_VARS + [p for p, _ in params]
        items = []
        if idx == 0:
            items += [{"k": "stmt", "code": c, "comment": None} for c in [
                f"a = {r.randint(0, 5)}", f"b = {r.randint(0, 5)}", f"c = {r.randint(0, 5)}",
                f"f = {r.choice(['True', 'False'])}", f"g = {r.choice(['True', 'False'])}",
                f"s = '{self.word()}'", f"t = '{self.word()}'",
                f"xs = [{', '.join(str(r.randint(0, 5)) for _ in range(r.randint(0, 3)))}]",
                f"ys = [{', '.join(str(r.randint(0, 5)) for _ in range(r.randint(1, 3)))}]",
                f"ws = [{', '.join(repr(self.word()) for _ in range(r.randint(0, 2)))}]",
                f"d = {{'k': {r.randint(0, 5)}, 'm': {r.randint(0, 5)}}}", "hlog = []", "z = None",
                f"nest = {{'inner': [{r.randint(0, 5)}], 'k': {r.randint(0, 5)}, 'deep': {{'l': []}}}}"]]
            items += [{"k": "stmt", "code": f"n_{vn(n)} = 0", "comment": None} for n in self.names + self.hook_names]
            if self.f.get("alias", 0) > 0:
                for code, pr in (("ys = xs", 0.6), ("nest['inner'] = xs", 0.5), ("hero = {'hp': 7}", 1.0), ("party = [hero]", 0.8), ("d['lst'] = ys", 0.4),
                                 ("duo = (hero, xs)", 0.6), ("fz = frozenset([1, 2])", 0.3)):
                    if r.random() < pr:
                        items.append({"k": "stmt", "code": code, "comment": None})
        items.append({"k": "stmt", "code": f"n_{vn(name)} = n_{vn(name)} + 1", "comment": None})
        if idx == 0 and self.hook_names and self.p("hook_early"):
            items.append({"k": "hook", "add": True, "target": self.hook_names[0]})      # a hook is active from the first turn on
        if r.random() < self.f.get("probes", 0.5):
            # probe: what the passage sees as its parameter scope on entry
            items.append({"k": "stmt", "code": f"lk_{vn(name)} = dict(_local)", "comment": None})
        if r.random() < self.f.get("markers", 0.6):
            items.append({"k": "line", "parts": [("t", f"={name}=")], "glue": False, "tags": [], "comment": None})
        if params and r.random() < self.f.get("probes", 0.5):
            items.append({"k": "render", "name": f"pr_{vn(name)}", "args": ", ".join(p for p, _ in params)})
        saved_sf = self.f["stmt_faults"]
        if idx == 0:
            self.f["stmt_faults"] = saved_sf / 8
        for _ in range(r.randint(1, 5)):
            k = r.random()
            if k < 0.32:
                items.append(self.line(ints))
            elif k < 0.45:
                items.append({"k": "stmt", "code": self.stmt(ints), "comment": ("c " + self.word()) if self.p("comments") else None})
            elif k < 0.5:
                items.append({"k": "blank"})
                if r.random() < 0.4:
                    items += [{"k": "blank"}] * r.randint(1, 2)        # several blank lines in a row
                if r.random() < 0.4 and self.p("conds") and items and any(it["k"] == "if" for it in items[-6:]):
                    items.append(self.if_block(idx, 1, ints))          # ... between two blocks
            elif k < 0.62 and self.p("conds"):
                items.append(self.if_block(idx, 1, ints))
            elif k < 0.72 and self.p("loops"):
                items.append(self.for_block(idx, 1, ints))
            elif k < 0.77 and self.p("render"):
                items.append(self.render(ints))
            elif k < 0.8 and self.p("inputs"):
                items.append({"k": "input", "name": r.choice(["nm", "age"]), "label": r.choice([None, "Your name"])})
            elif k < 0.86 and self.hook_names and self.p("hooks"):
                items.append({"k": "hook", "add": r.random() < 0.65, "target": r.choice(self.hook_names)})
            elif k < 0.9 and self.p("py_blocks"):
                items.append({"k": "py", "lines": self.py_lines(ints, r.randint(1, 3))})
            elif k < 0.94 and self.p("comments"):
                items.append({"k": "comment", "text": self.word()})
            else:
                items.append(self.line(ints))
        self.f["stmt_faults"] = saved_sf
        if self.p("conds") and r.random() < 0.3:
            # a variable shown, changed inside a block (no statement at the outer level in between), shown again
            v = r.choice(INT_VARS)
            inner = [{"k": "stmt", "code": f"{v} = {v} + {r.randint(1, 3)}", "comment": None}]
            blk = ({"k": "if", "branches": [(r.choice(["True", "1 == 1", f"{v} == {v}"]), inner)]} if r.random() < 0.6 or not self.p("loops")
                   else {"k": "for", "var": "it", "coll": "[1, 2]", "body": inner})
            items += [{"k": "line", "parts": [("t", "was "), ("e", v)], "glue": False, "tags": [], "comment": None}, blk,
                      {"k": "line", "parts": [("t", "now "), ("e", v), ("t", " "), ("e", f"{v} + 0")], "glue": False, "tags": [], "comment": None}]
        # choices / join structure
        if self.p("join") and not params:
            self.count("join_passage")
            nsec = r.randint(1, 3)
            for sct in range(nsec):
                for _ in range(r.randint(1, 2)):
                    ch = self.choice(idx, ints, join=True)
                    self.njc = getattr(self, "njc", 0) + 1
                    ch["block"] = [{"k": "stmt", "code": f"jc_{self.njc} = jc_{self.njc} + 1", "comment": None}] + self.join_block(ints)
                    items.append(ch)
                    if r.random() < 0.15:
                        # an un-indented line right after the choice's block: it belongs to the section, not to the block
                        items.append(self.line(ints) if r.random() < 0.6 else {"k": "stmt", "code": self.stmt(ints), "comment": None})
                if r.random() < 0.5:
                    items.append(self.choice(idx, ints))
                items.append({"k": "join"})
                for _ in range(r.randint(0, 2)):
                    items.append(self.line(ints) if r.random() < 0.7 else {"k": "stmt", "code": self.stmt(ints), "comment": None})
                if r.random() < 0.3 and self.p("conds"):
                    items.append(self.if_block(idx, 1, ints))       # may hold a jump: a section after a marker that jumps away
            for _ in range(r.randint(0, 2)):
                items.append(self.choice(idx, ints))
        else:
            for _ in range(r.randint(0, 3)):
                items.append(self.choice(idx, ints))
        if self.p("top_jumps") and not self.cycles:
            t = self.target(idx, True)
            if t is not None:
                self.count("top_jump")
                items.append({"k": "jump", "target": t, "args": self.args_for(t, ints)})
                t2 = self.target(idx, True)
                if t2 is not None and r.random() < 0.25:
                    items.append({"k": "jump", "target": t2, "args": self.args_for(t2, ints)})     # never reached: the first jump wins
                if self.hook_names and r.random() < 0.4:
                    # commands written below the jump are commands of the passage all the same (they run on entry)
                    items.append({"k": "hook", "add": r.random() < 0.7, "target": r.choice(self.hook_names)})
        return {"name": name, "params": params, "tags": ["ptag"] if self.p("tags") else [], "items": items}

    def join_block(self, ints):
        r = self.r
        items = []
        for _ in range(r.randint(0, 3)):
            k = r.random()
            if k < 0.5:
                ln = self.line(ints)
                if r.random() < 0.15:
                    ln["parts"] = [("t", self.bullet())] + ln["parts"]
                items.append(ln)
            elif k < 0.8:
                items.append({"k": "stmt", "code": self.stmt(ints), "comment": None})
            elif self.hook_names:
                items.append({"k": "hook", "add": r.random() < 0.6, "target": r.choice(self.hook_names)})
        if self.p("join_arrows"):
            # prose that looks like a jump: inside the block of a `-> @join` choice a line starting with -> is text
            items.append({"k": "line", "parts": [("t", "-> " + r.choice(self.names[1:]))], "glue": False, "tags": [], "comment": None})
        return items

    def hook_passage(self, name):
        r = self.r
        items = [{"k": "stmt", "code": f"n_{vn(name)} = n_{vn(name)} + 1", "comment": None},
                 {"k": "stmt", "code": f"hlog.append('{name}')", "comment": None},
                 {"k": "stmt", "code": f"lk_{vn(name)} = dict(_local)", "comment": None}]
        if r.random() < 0.7:
            items.append({"k": "line", "parts": [("t", f"[{name} "), ("e", f"n_{vn(name)}"), ("t", "]")], "glue": False, "tags": [], "comment": None})
        if r.random() < 0.25:
            items.append({"k": "if", "branches": [(f"n_{vn(name)} > {r.randint(1, 3)}", [{"k": "hook", "add": False, "target": name}])]})
        if r.random() < 0.2 and len(self.hook_names) > 1:
            other = r.choice([h for h in self.hook_names if h != name])
            items.append({"k": "hook", "add": r.random() < 0.5, "target": other})
        if r.random() < 0.2:
            items.append({"k": "stmt", "code": self.stmt(), "comment": None})
        return {"name": name, "params": [], "tags": [], "items": items}

    def story(self):
        r = self.r
        if self.p("hooks"):
            self.hook_names = [f"H{i}" for i in range(1, r.randint(2, 3) + 1)]
        for n in self.names[1:]:
            if self.p("params") or ("." in n and self.f.get("params", 0) > 0 and r.random() < 0.6):
                k = r.randint(1, 4 if self.p("long_params") else 2)
                ps = []
                pool = ["p", "q", "r2", "u"] + (["a"] if self.p("shadow") else [])
                r.shuffle(pool)
                for j in range(k):
                    default = None
                    if j > 0 and r.random() < 0.6:
                        # a default may use ANY earlier parameter, also one that itself took its default
                        default = r.choice([str(r.randint(0, 5)), f"{ps[0][0]} * 2", "a + 1", f"{ps[j - 1][0]} + 1", f"{ps[0][0]} + {ps[j - 1][0]}",
                                            f"{ps[j - 1][0]} * {ps[max(0, j - 2)][0]}"])
                    elif j == 0 and r.random() < 0.2:
                        default = str(r.randint(0, 5))
                    if ps and ps[-1][1] is not None and default is None:
                        default = "1"
                    ps.append((pool[j], default))
                self.params[n] = ps
        if self.p("empty_passage"):
            # a passage with neither text nor choices (an ending); compiled content is empty when no blank line follows
            self.names.append("TheEnd")
        passages = [self.passage(i) for i in range(self.n)] + [self.hook_passage(h) for h in self.hook_names]
        if "TheEnd" in self.names:
            passages.append({"name": "TheEnd", "params": [], "tags": [], "items": [
                {"k": "stmt", "code": "n_TheEnd = n_TheEnd + 1", "comment": None}], "compact": True})
        inits = [{"k": "stmt", "code": f"jc_{k} = 0", "comment": None} for k in range(1, getattr(self, "njc", 0) + 1)]
        inits += [{"k": "stmt", "code": f"bj_{k} = 0", "comment": None} for k in range(1, getattr(self, "nbj", 0) + 1)]
        inits += [{"k": "stmt", "code": f"{nm} = 0", "comment": None} for nm in getattr(self, "ibs", [])]
        passages[0]["items"] = inits + passages[0]["items"]
        st = {"passages": passages, "cycles": self.cycles}
        if self.p("imports"):
            # top-of-file Python imports (real-compiler-only families: the reference compilation does not carry them)
            st["imports"] = r.sample(["import math", "from random import choice", "import json as js", "from math import floor, ceil"], r.randint(1, 3))
        return st


# ---------------------------------------------------------------------- printer

def print_parts(parts):
    out = []
    for p in parts:
        if p[0] == "t":
            out.append(p[1])
        elif p[0] == "e":
            out.append("{" + p[1] + "}")
        elif p[0] == "ef":
            out.append("{" + p[1] + ":" + p[2] + "}")
        elif p[0] == "ic":
            out.append("{" + p[1] + " ? " + print_parts(p[2]) + " | " + print_parts(p[3]) + "}")
    return "".join(out)


def print_choice(c):
    s = ("+ " if c["sticky"] else "* ")
    if c["cond"]:
        s += "{" + c["cond"] + "} "
    s += "[" + print_parts(c["text"]) + "] -> " + c["target"]
    if c["args"]:
        s += c.get("gap", "") + "(" + c["args"] + ")"
    for t in c["tags"]:
        s += " ^" + t
    return s


def _cmt(style, kind, item=None):
    """a trailing // comment for this kind of line, as the style asks"""
    if "trailing" in style:
        r = style.get("rng")
        if kind in style["trailing"] and (r is None or r.random() < 0.7):
            return " // " + (r.choice(COMMENTS) if r else "note")
        return ""
    # default style: the comments the generator attached to the AST
    if item is not None and item.get("comment") and style.get("comments", True):
        return " // " + item["comment"]
    # ... plus comments on the kinds of directive line named in style["also"] (compile ties of the engine properties)
    if kind in style.get("also", ()):
        r = style.get("rng")
        if r is None or r.random() < 0.6:
            return " // " + (r.choice(COMMENTS[:8]) if r else "note")
    return ""


def print_items(items, indent, style, out, top=False, in_join=False):
    unit = style.get("indent", "  ")
    pad = unit * indent if isinstance(indent, int) else indent
    r = style.get("rng")
    for it in items:
        k = it["k"]
        if r is not None and not in_join and r.random() < style.get("comment_lines", 0):
            cpad = "" if style.get("comment_flush") and r.random() < 0.5 else pad     # a comment may stand flush left above an indented body
            out.append(cpad + "# " + r.choice(["a comment", "section", "-> not a jump", "+ [not a choice] -> X"]))
        if k == "line":
            s = pad + print_parts(it["parts"])
            for t in it["tags"]:
                s += " ^" + t
            if it["glue"]:
                s += "<>"
                if "trailing" in style:
                    s += _cmt(style, "line", it)
            elif s == s.rstrip() or "trailing" not in style:
                # (a comment after text that itself ends in blanks is ambiguous: which blanks are the text's?)
                s += _cmt(style, "line", it)
            out.append(s)
        elif k == "blank":
            out.append(pad if style.get("blank_ws") else "")
        elif k == "comment":
            out.append(pad + "# " + it["text"])
        elif k == "stmt":
            out.append(pad + "~ " + it["code"] + _cmt(style, "stmt", it))
        elif k == "py":
            if style.get("legacy"):
                out.append(pad + "<<py")
                out.extend(pad + "  " + l for l in it["lines"])
                out.append(pad + ">>" + _cmt(style, "endpy"))
            else:
                out.append(pad + "@py:" + _cmt(style, "py"))
                out.extend(((pad + "    ") if style.get("py_indent") else "") + l for l in it["lines"])
                out.append(pad + "@endpy" + _cmt(style, "endpy"))
        elif k == "if":
            for i, (cond, body) in enumerate(it["branches"]):
                if style.get("legacy"):
                    head = "<<if " + cond + ">>" if i == 0 else ("<<else>>" if cond is None else "<<elif " + cond + ">>")
                else:
                    head = "@if " + cond + ":" if i == 0 else ("@else:" if cond is None else "@elif " + cond + ":")
                out.append(pad + head + _cmt(style, "ifhead"))
                print_items(body, indent + 1, style, out)
            out.append(pad + ("<<endif>>" if style.get("legacy") else "@endif") + _cmt(style, "endif"))
        elif k == "for":
            if style.get("legacy"):
                out.append(pad + f"<<for {it['var']} in {it['coll']}>>" + _cmt(style, "forhead"))
            else:
                out.append(pad + f"@for {it['var']} in {it['coll']}:" + _cmt(style, "forhead"))
            print_items(it["body"], indent + 1, style, out)
            out.append(pad + ("<<endfor>>" if style.get("legacy") else "@endfor") + _cmt(style, "endif"))
        elif k == "render":
            out.append(pad + "@render " + it["name"] + "(" + it["args"] + ")" + _cmt(style, "render"))
        elif k == "input":
            s = pad + f'@input name="{it["name"]}"'
            if it.get("label"):
                s += f' label="{it["label"]}"'
            out.append(s + _cmt(style, "input"))
        elif k == "hook":
            out.append(pad + ("@hook" if it["add"] else "@unhook") + " turn_end " + it["target"] + _cmt(style, "hook"))
        elif k == "choice":
            out.append(pad + print_choice(it) + _cmt(style, "choice"))
            if it["target"] == "@join" and it.get("block"):
                sub = dict(style)
                if not style.get("join_block_comments"):
                    sub.pop("trailing", None)
                    sub["comments"] = False
                print_items(it["block"], pad + "    ", sub, out, in_join=not style.get("join_block_comments"))
        elif k == "jump":
            out.append(pad + "-> " + it["target"] + (it.get("gap", "") + "(" + it["args"] + ")" if it["args"] else "") + _cmt(style, "jump"))
        elif k == "join":
            out.append(pad + "@join" + _cmt(style, "join"))
        else:
            raise ValueError(k)


def print_story(story, style=None):
    style = style or {}
    out = []
    if style.get("top_comment"):
        out += ["# a story", "", "# by nobody"]
    r_ = style.get("rng")
    for k_, imp in enumerate(story.get("imports", [])):
        if r_ is not None and k_ > 0 and r_.random() < style.get("comment_lines", 0):
            out += r_.choice([["# helpers"], ["", "# more"], ["# import nothing"]])
        out.append(imp)
    if story.get("imports"):
        out.append("")
    for p in story["passages"]:
        head = ":: " + p["name"]
        if p["params"]:
            head += "(" + ", ".join(n if d is None else f"{n}={d}" for n, d in p["params"]) + ")"
        for t in p["tags"]:
            head += " ^" + t
        out.append(head + _cmt(style, "header"))
        print_items(p["items"], 0, style, out, top=True)
        if not p.get("compact"):
            out.append("")
    return "\n".join(out)


def generate(seed, features=None, **kw):
    rng = random.Random(seed)
    g = Gen(rng, features, **kw)
    st = g.story()
    st["stats"] = g.stats
    return st
