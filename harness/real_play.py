"""Drive the REAL engine (main or browser copy) and produce canonical observations in the same
shape as the Lean driver (`lean/Bardic/Driver/Obs.lean`)."""
import copy
import importlib.util
import json
import os
import sys

from common import REPO, quiet, time_limit, Timeout, exc_kind

_engine_cls = {}


def engine_class(variant="main"):
    if variant in _engine_cls:
        return _engine_cls[variant]
    if variant == "main":
        from bardic.runtime.engine import BardEngine
        cls = BardEngine
    else:
        path = os.path.join(REPO, "bardic", "templates", "browser", "engine_browser.py")
        spec = importlib.util.spec_from_file_location("engine_browser_under_test", path)
        mod = importlib.util.module_from_spec(spec)
        with quiet():
            spec.loader.exec_module(mod)
        cls = mod.BardEngine
    _engine_cls[variant] = cls
    return cls


class Unmodelled(Exception):
    pass


def enc(v):
    """Canonical JSON of a story value in the MiniPy domain."""
    if v is None or isinstance(v, bool) or isinstance(v, str):
        return v
    if isinstance(v, int):
        return v
    if isinstance(v, list):
        return [enc(x) for x in v]
    if isinstance(v, dict):
        if not all(isinstance(k, str) for k in v):
            raise Unmodelled("non-string dict key")
        return {k: enc(x) for k, x in v.items()}
    # (real-code-only families: tuples and sets kept by a story are observed as what they are)
    if isinstance(v, tuple):
        return {"__tuple__": [enc(x) for x in v]}
    if isinstance(v, (set, frozenset)):
        return {"__set__": sorted((enc(x) for x in v), key=repr)}
    raise Unmodelled(f"value of type {type(v).__name__}")


def s(v):
    if v is None:
        return "None"
    if v is True:
        return "True"
    if v is False:
        return "False"
    return v if isinstance(v, str) else json.dumps(v, separators=(",", ":"))


def choice_obs(c):
    return {"text": c["text"], "target": c.get("target"), "args": c.get("args", ""),
            "condition": c.get("condition"), "sticky": c.get("sticky", True),
            "section": c.get("section", 0), "tags": list(c.get("tags", [])),
            "block": c.get("type") == "choice"}


def dir_obs(d):
    t = d.get("type")
    if t == "render_directive":
        if d.get("mode") == "evaluated":
            if "framework" in d:
                raise Unmodelled("framework hint")
            return {"type": "render_directive", "name": d.get("name"), "mode": "evaluated",
                    "data": enc(d.get("data", {})), "hint": None}
        if d.get("mode") == "error":
            return {"type": "render_directive", "name": d.get("name"), "mode": "error",
                    "error": d.get("error"), "raw_args": d.get("raw_args")}
        raise Unmodelled("raw directive mode")
    if t == "input":
        return {"type": "input", **{k: s(v) for k, v in d.items() if k != "type"}}
    if t == "choice":
        txt = d.get("text")
        return {"type": "choice", "target": d.get("target"), "rendered": txt if isinstance(txt, str) else None}
    raise Unmodelled(f"directive type {t}")


def out_obs(o):
    if o is None:
        return None
    return {"content": o.content, "choices": [choice_obs(c) for c in o.choices], "pid": o.passage_id,
            "rdirs": [dir_obs(d) for d in (o.render_directives or [])],
            "idirs": [dir_obs(d) for d in (o.input_directives or [])],
            "jump": o.jump_target}


def state_obs(e):
    return {"cur": e.current_passage_id,
            "vars": enc(e.state),
            "used": sorted(e.used_choices),
            "hooks": {k: list(v) for k, v in getattr(e, "hooks", {}).items()},
            "join": dict(getattr(e, "_join_section_index", {})),
            "nundo": len(e.undo_stack), "nredo": len(e.redo_stack),
            "nscopes": len(e._local_scope_stack),
            "out": out_obs(e._current_output)}


def doc_obs(d):
    d = json.loads(json.dumps(d))
    return {"cur": d.get("current_passage_id"), "vars": enc(d.get("state", {})),
            "used": list(d.get("used_choices", [])), "hooks": d.get("hooks", {})}


class RealPlay:
    """One engine instance driven op by op; mirrors `playOp` of the Lean driver."""

    def __init__(self, story, variant="main", per_call_s=5.0):
        self.story = story
        self.variant = variant
        self.per_call_s = per_call_s
        self.slots = []
        self.raw_slots = []
        self.engine = None
        self.timeouts = 0
        self.pre_hook_vars = None

    def new_engine(self):
        cls = engine_class(self.variant)
        with quiet():
            eng = cls(copy.deepcopy(self.story))
        if hasattr(eng, "trigger_event"):
            # harness-side observation (nothing in /repo changes): the variables as they stand when the turn_end hooks start,
            # so that the C02 oracle can tell "stale after a hook" (finding C02-F1) from any other wrong choice list
            orig = eng.trigger_event

            def observed(event, *a, **kw):
                if event == "turn_end":
                    try:
                        self.pre_hook_vars = enc(eng.state)
                    except Unmodelled:
                        self.pre_hook_vars = None
                return orig(event, *a, **kw)
            eng.trigger_event = observed
        return eng

    def start(self):
        """Returns ("ok", state_obs) or ("init_error", kind)."""
        try:
            with time_limit(self.per_call_s):
                self.engine = self.new_engine()
        except Timeout:
            self.timeouts += 1
            return ("timeout", None)
        except Exception as e:  # noqa
            return ("init_error", exc_kind(e))
        return ("ok", state_obs(self.engine))

    def _call(self, f):
        """Run one API call; returns the resp observation."""
        try:
            with quiet(), time_limit(self.per_call_s):
                return f()
        except Timeout:
            self.timeouts += 1
            return {"raise": "Timeout", "msg": ""}
        except Exception as e:  # noqa
            return {"raise": exc_kind(e), "msg": str(e)[:300], "cls": type(e).__name__}

    def op(self, oj):
        e = self.engine
        name = oj["op"]
        self.pre_hook_vars = None
        if name == "choose":
            r = self._call(lambda: {"out": out_obs(e.choose(oj["i"]))})
        elif name == "goto":
            r = self._call(lambda: {"out": out_obs(e.goto(oj["spec"]))})
        elif name == "undo":
            r = self._call(lambda: {"ret": e.undo()})
        elif name == "redo":
            r = self._call(lambda: {"ret": e.redo()})
        elif name == "current":
            r = self._call(lambda: {"out": out_obs(e.current())})
        elif name == "has_choices":
            r = self._call(lambda: {"ret": e.has_choices()})
        elif name == "is_end":
            r = self._call(lambda: {"ret": e.is_end()})
        elif name == "choice_texts":
            r = self._call(lambda: {"ret": e.get_choice_texts()})
        elif name == "choice_targets":
            r = self._call(lambda: {"ret": e.get_choice_targets()})
        elif name == "story_info":
            def f():
                i = e.get_story_info()
                return {"ret": {"passage_count": i["passage_count"], "initial_passage": i["initial_passage"],
                                "current_passage": i["current_passage"]}}
            r = self._call(f)
        elif name == "save_meta":
            def f():
                m = e.get_save_metadata()
                return {"ret": {"current_passage": m["current_passage"], "has_choices": m["has_choices"]}}
            r = self._call(f)
        elif name == "can_undo":
            r = self._call(lambda: {"ret": e.can_undo()})
        elif name == "can_redo":
            r = self._call(lambda: {"ret": e.can_redo()})
        elif name == "reset_one_time":
            r = self._call(lambda: (e.reset_one_time_choices(), {"ret": None})[1])
        elif name == "save":
            def f():
                d = e.save_state()
                jd = json.loads(json.dumps(d))
                self.raw_slots.append(jd)
                self.slots.append(d)
                return {"doc": doc_obs(d)}
            r = self._call(f)
        elif name == "load":
            def f():
                e.load_state(copy.deepcopy(self.raw_slots[oj["slot"]]))
                return {"ret": None}
            r = self._call(f)
        elif name == "fresh_load":
            def f():
                ne = self.new_engine()
                self.engine = ne
                ne.load_state(copy.deepcopy(self.raw_slots[oj["slot"]]))
                return {"ret": None}
            r = self._call(f)
        elif name == "load_doc":
            def f():
                d = oj["doc"]
                e.load_state({"version": "0.1.0", "current_passage_id": d.get("cur"),
                              "state": copy.deepcopy(d.get("vars", {})), "used_choices": list(d.get("used", [])),
                              "hooks": copy.deepcopy(d.get("hooks", {}))})
                return {"ret": None}
            r = self._call(f)
        elif name == "load_bad":
            def f():
                if oj["kind"] == "notDict":
                    e.load_state([1, 2])
                else:
                    d = copy.deepcopy(self.raw_slots[0]) if self.raw_slots else {"current_passage_id": "Start"}
                    d.pop("version", None)
                    e.load_state(d)
                return {"ret": None}
            r = self._call(f)
        else:
            raise ValueError("unknown op " + name)
        return {"resp": r, "state": state_obs(self.engine), "pre_hook_vars": self.pre_hook_vars}


def play(story, ops, variant="main", per_call_s=5.0):
    """Full run; returns the same structure as the Lean driver's answer for a `play` case."""
    rp = RealPlay(story, variant, per_call_s)
    try:
        st, init = rp.start()
        if st != "ok":
            return {"status": st, "raise": init}
        steps = []
        for oj in ops:
            steps.append(rp.op(oj))
        return {"status": "ok", "init": init, "steps": steps, "timeouts": rp.timeouts}
    except Unmodelled as u:
        return {"status": "unmodelled", "notes": [str(u)]}
