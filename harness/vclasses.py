"""Story classes used by the C06 codec family (importable so that `_module` is meaningful)."""


class Card:                      # plain attribute object (automatic serialisation)
    def __init__(self, name, number):
        self.name = name
        self.number = number

    def label(self):
        return f"{self.name}#{self.number}"


class Deck:                      # plain object holding a list of objects and a dict
    def __init__(self, cards, label, notes):
        self.cards = cards
        self.label = label
        self.notes = notes

    def count(self):
        return len(self.cards)


class Purse:                     # custom serialisation; its data may hold other objects
    def __init__(self, coins, items, tag):
        if coins < 0:
            raise ValueError("negative coins")
        self._coins = coins
        self.items = items
        self.tag = tag

    @property
    def coins(self):
        return self._coins

    def to_save_dict(self):
        return {"coins": self._coins, "items": self.items, "tag": self.tag}

    @classmethod
    def from_save_dict(cls, data):
        return cls(data["coins"], data["items"], data["tag"])

    def worth(self):
        return self._coins + len(self.items)


import dataclasses


@dataclasses.dataclass(frozen=True)
class Rune:                      # an immutable value object (frozen dataclass): attributes cannot be assigned after construction
    glyph: str
    power: int

    def label(self):
        return f"{self.glyph}^{self.power}"


@dataclasses.dataclass
class Kit:                       # a dataclass holding other dataclass instances, directly and inside its containers
    name: str
    main: object
    spare: list
    notes: dict

    def size(self):
        return 1 + len(self.spare)


class Bonus:                     # a plain attribute object that is also callable (a modifier applied as bonus(10))
    def __init__(self, amount, kind):
        self.amount = amount
        self.kind = kind

    def __call__(self, x):
        return x + self.amount


class Hand(list):                 # custom-serialised class that IS a list (a deck, a queue ...)
    def __init__(self, cards=(), owner="nobody"):
        super().__init__(cards)
        self.owner = owner

    def to_save_dict(self):
        return {"cards": list(self), "owner": self.owner}

    @classmethod
    def from_save_dict(cls, data):
        return cls(data["cards"], data["owner"])

    def top(self):
        return self[0] if self else None


class Ledger(dict):               # ... or a dict
    def __init__(self, entries=None, currency="gold"):
        super().__init__(entries or {})
        self.currency = currency

    def to_save_dict(self):
        return {"entries": dict(self), "currency": self.currency}

    @classmethod
    def from_save_dict(cls, data):
        return cls(data["entries"], data["currency"])

    def total(self):
        return sum(v for v in self.values() if isinstance(v, int))


class Relic:                      # its own save record uses the key the save format reserves
    def __init__(self, kind, power):
        self.kind = kind
        self.power = power

    def to_save_dict(self):
        return {"_type": self.kind, "power": self.power, "_data": {"k": 1}}

    @classmethod
    def from_save_dict(cls, data):
        return cls(data["_type"], data["power"])

    def describe(self):
        return f"{self.kind}:{self.power}"


try:
    from bardic.stdlib.inventory import Inventory as _Inventory

    class Backpack(_Inventory):      # a game-specific subclass of a stdlib class with attributes of its own
        def __init__(self, max_weight=10, owner="nobody", pockets=2):
            super().__init__(max_weight)
            self.owner = owner
            self.pockets = pockets

        def describe(self):
            return f"{self.owner}'s pack: {len(self.items)} items, {self.pockets} pockets"

    from bardic.stdlib.relationship import Relationship as _Relationship
    from bardic.stdlib.economy import Wallet as _Wallet

    class Companion(_Relationship):      # a story's subclass with class-level defaults and a hook that changes one of them
        mood = "neutral"
        nickname = None

        def on_trust_threshold_60(self):
            self.mood = "warm"

    class Coffer(_Wallet):               # a wallet with a class-level default currency
        currency = "gold"
        locked = False
except Exception:  # noqa
    Backpack = None
    Companion = None
    Coffer = None
