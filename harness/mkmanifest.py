"""Regenerate MANIFEST.json from the registry in props.py (run by hand after adding a property)."""
import json
import os
import sys
sys.path.insert(0, os.path.dirname(os.path.abspath(__file__)))
import props  # noqa

VERIF = os.path.dirname(os.path.dirname(os.path.abspath(__file__)))
LEVEL_TEXT = props.LEVEL_TEXT if hasattr(props, "LEVEL_TEXT") else {}
ps = [json.loads(l) for l in open(os.path.join(VERIF, "properties.jsonl"))]
checks, na = [], []
for p in ps:
    pid = p["id"]
    if pid in props.PROPS:
        spec = props.PROPS[pid]
        checks.append({
            "property_id": pid,
            "quick_cmd": f"./check {pid} --tier quick",
            "thorough_cmd": f"./check {pid} --tier thorough",
            "evidence_file": f"evidence/{pid}.json",
            "replay_cmd_template": f"./check {pid} --replay {{path}}",
            "engine": "lean-proof+correspondence",
            "level_claimed": {"category": spec.get("level", "proof"),
                              "text": spec.get("level_text", ""), "design_ref": f"DESIGN.md section 4, {pid}"},
            "level_note": spec.get("level_note", "Lean kernel + axioms propext/Classical.choice/Quot.sound; hand-written model tied to /repo by the correspondence run of this check; author code only through the abstract Sem; CPython modelled not verified"),
            "technique": spec.get("technique", "Lean 4 theorems over a hand-written model + per-run model/implementation correspondence + oracle on real observations"),
        })
    else:
        na.append({"property_id": pid, "reason": props.NOT_YET.get(pid, "check under construction in this round; not claimed yet")})
m = {"version": 1,
     "setup_cmd": "/venv/bin/python harness/extract.py >/dev/null && cd lean && lake build Bardic Proofs driver",
     "hooks": {"guard": "BARDIC_VERIF",
               "enable": "no source hooks: every observable the checks use is a public or plainly readable attribute of the engine; checks import the code from BARDIC_REPO (default /repo)",
               "baseline_off_cmd": "cd /repo && /venv/bin/python -m pytest -q -p no:cacheprovider",
               "source_commits": [], "add_only": True},
     "engines": [{"name": "lean-proof+correspondence", "path": "lean/ + harness/",
                  "serves_properties": [c["property_id"] for c in checks],
                  "kind_free_text": "Lean 4 model and theorems (lean/Bardic, lean/Proofs), compiled model driver, Python harness driving the real code and diffing observations"}],
     "checks": checks, "not_applicable": na,
     "notes": "See DESIGN.md. KNOWN_FINDINGS.txt lists recorded defects (finding:) and repaired ones (fixed:)."}
json.dump(m, open(os.path.join(VERIF, "MANIFEST.json"), "w"), indent=1)
print("checks:", [c["property_id"] for c in checks])
